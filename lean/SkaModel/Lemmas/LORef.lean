/-
Lemmas on the model of `ska lo -r` (`SkaModel/Impl/SkaloRef.lean`): `mostFrequentPosition`,
`scanVariants`, `groupSnpsPos` / `analyseRef`, `genomicKmers`.
-/
import SkaModel.Impl.SkaloRef
import SkaModel.Lemmas.LOPipe
import SkaModel.Props.C17
import SkaModel.Lemmas.AssocFold
namespace SkaModel.LOR
open SkaModel SkaModel.Skalo

/-! ### `mostFrequentPosition` -/

/-- the largest count -/
def best (xs : List Nat) : Nat := (xs.eraseDups.map (fun v => xs.count v)).foldl max 0

/-- the values that reach it, in order of first occurrence -/
def top (xs : List Nat) : List Nat := xs.eraseDups.filter (fun v => xs.count v == best xs)

theorem mfp_eq (xs : List Nat) :
    mostFrequentPosition xs =
      match top xs with
      | [p] => if best xs < 10 then (0, 0) else (p, best xs)
      | _ => (0, 0) := by
  unfold mostFrequentPosition top best
  simp only [← List.count_eq_length_filter]
  rfl

theorem foldl_max_ge (l : List Nat) : ∀ i, i ≤ l.foldl max i ∧ (∀ x ∈ l, x ≤ l.foldl max i) ∧
    (l.foldl max i = i ∨ l.foldl max i ∈ l) := by
  induction l with
  | nil => intro i; simp
  | cons a l ih =>
    intro i
    rw [List.foldl_cons]
    obtain ⟨h1, h2, h3⟩ := ih (max i a)
    refine ⟨by omega, ?_, ?_⟩
    · intro x hx
      rcases List.mem_cons.mp hx with hx | hx
      · subst hx; omega
      · exact h2 x hx
    · rcases h3 with h3 | h3
      · rw [h3]
        by_cases h : i ≤ a
        · right; rw [Nat.max_eq_right h]; exact List.mem_cons_self
        · left; exact Nat.max_eq_left (by omega)
      · right; exact List.mem_cons_of_mem _ h3

theorem count_le_best (xs : List Nat) (v : Nat) (hv : v ∈ xs) : xs.count v ≤ best xs := by
  unfold best
  apply (foldl_max_ge _ 0).2.1
  exact List.mem_map.mpr ⟨v, List.mem_eraseDups.mpr hv, rfl⟩

theorem best_attained (xs : List Nat) (h : xs ≠ []) : ∃ v ∈ xs, xs.count v = best xs := by
  rcases (foldl_max_ge (xs.eraseDups.map (fun v => xs.count v)) 0).2.2 with h0 | h0
  · cases xs with
    | nil => exact absurd rfl h
    | cons a l =>
      refine ⟨a, List.mem_cons_self, ?_⟩
      have := count_le_best (a :: l) a List.mem_cons_self
      unfold best
      rw [h0]
      unfold best at this
      rw [h0] at this
      omega
  · obtain ⟨v, hv, hc⟩ := List.mem_map.mp h0
    exact ⟨v, List.mem_eraseDups.mp hv, hc⟩

theorem best_nil : best [] = 0 := rfl

theorem mem_top (xs : List Nat) (v : Nat) : v ∈ top xs ↔ v ∈ xs ∧ xs.count v = best xs := by
  unfold top
  rw [List.mem_filter, List.mem_eraseDups, beq_iff_eq]

theorem top_nodup (xs : List Nat) : (top xs).Nodup :=
  (List.filter_sublist).nodup (LO.nodup_eraseDups xs)

theorem top_ne_nil (xs : List Nat) (h : xs ≠ []) : top xs ≠ [] := by
  obtain ⟨v, hv, hc⟩ := best_attained xs h
  intro h0
  have : v ∈ top xs := (mem_top xs v).mpr ⟨hv, hc⟩
  rw [h0] at this
  simp at this

theorem mfp_snd_zero (xs : List Nat) (h : (mostFrequentPosition xs).2 = 0) :
    mostFrequentPosition xs = (0, 0) := by
  rw [mfp_eq] at h ⊢
  split
  · rename_i p hp
    rw [hp] at h
    simp only at h
    split
    · rfl
    · rename_i hb
      rw [if_neg hb] at h
      simp only at h
      omega
  · rfl

theorem mfp_some (xs : List Nat) (p c : Nat) (h : mostFrequentPosition xs = (p, c)) (hc : c ≠ 0) :
    top xs = [p] ∧ c = best xs ∧ 10 ≤ c := by
  rw [mfp_eq] at h
  split at h
  · rename_i q hq
    split at h
    · simp only [Prod.mk.injEq] at h; omega
    · simp only [Prod.mk.injEq] at h
      obtain ⟨h1, h2⟩ := h
      subst h1
      exact ⟨hq, h2.symm, by omega⟩
  · simp only [Prod.mk.injEq] at h; omega


theorem mfp_some_spec (xs : List Nat) (p c : Nat) (h : mostFrequentPosition xs = (p, c)) (hc : c ≠ 0) :
    p ∈ xs ∧ c = xs.count p ∧ 10 ≤ c ∧ ∀ q ∈ xs, q ≠ p → xs.count q < c := by
  obtain ⟨ht, hb, h10⟩ := mfp_some xs p c h hc
  have hp : p ∈ top xs := by rw [ht]; exact List.mem_singleton.mpr rfl
  obtain ⟨hpx, hpc⟩ := (mem_top xs p).mp hp
  refine ⟨hpx, by rw [hb, hpc], h10, ?_⟩
  intro q hq hne
  have hle := count_le_best xs q hq
  have hneq : xs.count q ≠ best xs := by
    intro he
    have : q ∈ top xs := (mem_top xs q).mpr ⟨hq, he⟩
    rw [ht] at this
    exact hne (List.mem_singleton.mp this)
  omega

theorem mfp_none_iff (xs : List Nat) :
    (mostFrequentPosition xs).2 = 0 ↔
      (xs = [] ∨ (∀ v ∈ xs, xs.count v < 10) ∨
        ∃ a ∈ xs, ∃ b ∈ xs, a ≠ b ∧ xs.count a = xs.count b ∧ ∀ v ∈ xs, xs.count v ≤ xs.count a) := by
  constructor
  · intro h
    by_cases hx : xs = []
    · exact Or.inl hx
    · right
      rw [mfp_eq] at h
      have hne := top_ne_nil xs hx
      have hnd := top_nodup xs
      match ht : top xs with
      | [] => exact absurd ht hne
      | [p] =>
        rw [ht] at h
        simp only at h
        left
        intro v hv
        have := count_le_best xs v hv
        by_cases hb : best xs < 10
        · omega
        · rw [if_neg hb] at h
          simp only at h
          omega
      | a :: b :: rest =>
        right
        have ha : a ∈ top xs := by rw [ht]; simp
        have hb : b ∈ top xs := by rw [ht]; simp
        rw [ht] at hnd
        have hab : a ≠ b := by
          intro e
          rw [List.nodup_cons] at hnd
          exact hnd.1 (by rw [e]; simp)
        obtain ⟨hax, hac⟩ := (mem_top xs a).mp ha
        obtain ⟨hbx, hbc⟩ := (mem_top xs b).mp hb
        refine ⟨a, hax, b, hbx, hab, by rw [hac, hbc], ?_⟩
        intro v hv
        rw [hac]
        exact count_le_best xs v hv
  · rintro (h | h | h)
    · subst h; rfl
    · rw [mfp_eq]
      split
      · have hb : best xs < 10 := by
          by_cases hx : xs = []
          · subst hx; rw [best_nil]; omega
          · obtain ⟨v, hv, hc⟩ := best_attained xs hx
            rw [← hc]; exact h v hv
        rw [if_pos hb]
      · rfl
    · obtain ⟨a, ha, b, hb, hab, hc, hmax⟩ := h
      have hx : xs ≠ [] := by intro e; rw [e] at ha; simp at ha
      obtain ⟨v, hv, hvc⟩ := best_attained xs hx
      have hac : xs.count a = best xs := by
        have := hmax v hv
        have := count_le_best xs a ha
        omega
      have hat : a ∈ top xs := (mem_top xs a).mpr ⟨ha, hac⟩
      have hbt : b ∈ top xs := (mem_top xs b).mpr ⟨hb, by rw [← hc, hac]⟩
      rw [mfp_eq]
      split
      · rename_i p hp
        rw [hp] at hat hbt
        exact absurd ((List.mem_singleton.mp hat).trans (List.mem_singleton.mp hbt).symm) hab
      · rfl

theorem mfp_perm (xs ys : List Nat) (hp : xs.Perm ys) :
    mostFrequentPosition xs = mostFrequentPosition ys := by
  have hcnt : ∀ v, xs.count v = ys.count v := hp.count_eq
  have hmem : ∀ v, v ∈ xs ↔ v ∈ ys := fun v => hp.mem_iff
  have hnone : (mostFrequentPosition xs).2 = 0 ↔ (mostFrequentPosition ys).2 = 0 := by
    rw [mfp_none_iff, mfp_none_iff]
    have e1 : xs = [] ↔ ys = [] := ⟨fun e => (e ▸ hp).symm.eq_nil, fun e => (e ▸ hp).eq_nil⟩
    have e2 : (∀ v ∈ xs, xs.count v < 10) ↔ (∀ v ∈ ys, ys.count v < 10) := by
      constructor
      · intro h v hv; rw [← hcnt]; exact h v ((hmem v).mpr hv)
      · intro h v hv; rw [hcnt]; exact h v ((hmem v).mp hv)
    have e3 : (∃ a ∈ xs, ∃ b ∈ xs, a ≠ b ∧ xs.count a = xs.count b ∧ ∀ v ∈ xs, xs.count v ≤ xs.count a) ↔
        (∃ a ∈ ys, ∃ b ∈ ys, a ≠ b ∧ ys.count a = ys.count b ∧ ∀ v ∈ ys, ys.count v ≤ ys.count a) := by
      constructor
      · rintro ⟨a, ha, b, hb, hab, hc, hm⟩
        refine ⟨a, (hmem a).mp ha, b, (hmem b).mp hb, hab, by rw [← hcnt, ← hcnt, hc], ?_⟩
        intro v hv; rw [← hcnt, ← hcnt]; exact hm v ((hmem v).mpr hv)
      · rintro ⟨a, ha, b, hb, hab, hc, hm⟩
        refine ⟨a, (hmem a).mpr ha, b, (hmem b).mpr hb, hab, by rw [hcnt, hcnt, hc], ?_⟩
        intro v hv; rw [hcnt, hcnt]; exact hm v ((hmem v).mp hv)
    rw [e1, e2, e3]
  by_cases h0 : (mostFrequentPosition xs).2 = 0
  · rw [mfp_snd_zero xs h0, mfp_snd_zero ys (hnone.mp h0)]
  · have h0' : (mostFrequentPosition ys).2 ≠ 0 := fun e => h0 (hnone.mpr e)
    have key : ∀ p c q d, mostFrequentPosition xs = (p, c) → mostFrequentPosition ys = (q, d) →
        c ≠ 0 → d ≠ 0 → mostFrequentPosition xs = mostFrequentPosition ys := by
      intro p c q d hx hy hc hd
      obtain ⟨hpx, hpc, _, hpm⟩ := mfp_some_spec xs p c hx hc
      obtain ⟨hqy, hqc, _, hqm⟩ := mfp_some_spec ys q d hy hd
      have hpq : p = q := by
        apply Classical.byContradiction
        intro hne
        have h1 := hpm q ((hmem q).mpr hqy) (fun e => hne e.symm)
        have h2 := hqm p ((hmem p).mp hpx) hne
        have e1 := hcnt p
        have e2 := hcnt q
        omega
      subst hpq
      rw [hx, hy, hpc, hqc, hcnt]
    exact key _ _ _ _ rfl rfl h0 h0'

theorem mfp_complete (xs : List Nat) (p : Nat) (hp : 10 ≤ xs.count p)
    (hmax : ∀ q ∈ xs, q ≠ p → xs.count q < xs.count p) :
    mostFrequentPosition xs = (p, xs.count p) := by
  have hpx : p ∈ xs := List.count_pos_iff.mp (by omega)
  have h0 : (mostFrequentPosition xs).2 ≠ 0 := by
    intro h0
    rcases (mfp_none_iff xs).mp h0 with h | h | ⟨a, ha, b, hb, hab, hc, hm⟩
    · rw [h] at hpx; simp at hpx
    · have := h p hpx; omega
    · by_cases hap : a = p
      · subst hap
        have := hmax b hb (fun e => hab e.symm)
        omega
      · have := hmax a ha hap
        have := hm p hpx
        omega
  have key : ∀ q c, mostFrequentPosition xs = (q, c) → c ≠ 0 → (q, c) = (p, xs.count p) := by
    intro q c hx hc
    obtain ⟨hq, hqc, _, hqm⟩ := mfp_some_spec xs q c hx hc
    have hpq : q = p := by
      apply Classical.byContradiction
      intro hne
      have h1 := hmax _ hq hne
      have h2 := hqm p hpx (fun e => hne e.symm)
      omega
    subst hpq
    rw [hqc]
  exact key (mostFrequentPosition xs).1 (mostFrequentPosition xs).2 rfl h0

theorem mfp_short (xs : List Nat) (h : xs.length < 10) : mostFrequentPosition xs = (0, 0) := by
  apply mfp_snd_zero
  rw [mfp_none_iff]
  right; left
  intro v _
  exact Nat.lt_of_le_of_lt List.count_le_length h


/-! ### `scanVariants` -/

/-- the decision of `scan_variants` from the votes of the two strands -/
def scanOf (F R : List Nat) : Bool × Nat × Bool :=
  let f := mostFrequentPosition F
  let r := mostFrequentPosition R
  let fo := if F.isEmpty || f.2 == 0 then none else some f
  let ro := if R.isEmpty || r.2 == 0 then none else some r
  match fo, ro with
  | some (pf, cf), some (pr, cr) =>
    if cf == cr then (false, 0, true) else if cf > cr then (true, pf, true) else (true, pr, false)
  | some (pf, _), none => (true, pf, true)
  | none, some (pr, _) => (true, pr, false)
  | none, none => (false, 0, true)

theorem scan_eq (W k : Nat) (kmap : List (Nat × List Nat)) (vs : List Variant) :
    scanVariants W k kmap vs =
      (vs.mapM (fun v => revComplStr v.1)).bind (fun rcs =>
        some (scanOf (vs.flatMap (fun v => strandVotes W k kmap v.1))
          (rcs.flatMap (fun s => strandVotes W k kmap s)))) := rfl

theorem mfp_nil : mostFrequentPosition [] = (0, 0) := rfl

/-- the winner of a strand as an option: `none` iff the count is 0 -/
theorem winner_eq (F : List Nat) :
    (if F.isEmpty || (mostFrequentPosition F).2 == 0 then none else some (mostFrequentPosition F)) =
      if (mostFrequentPosition F).2 = 0 then none else some (mostFrequentPosition F) := by
  cases F with
  | nil => simp [mfp_nil]
  | cons a l => simp

theorem scanOf_eq (F R : List Nat) :
    scanOf F R =
      if (mostFrequentPosition F).2 = 0 then
        if (mostFrequentPosition R).2 = 0 then (false, 0, true) else (true, (mostFrequentPosition R).1, false)
      else if (mostFrequentPosition R).2 = 0 then (true, (mostFrequentPosition F).1, true)
      else if (mostFrequentPosition F).2 = (mostFrequentPosition R).2 then (false, 0, true)
      else if (mostFrequentPosition F).2 > (mostFrequentPosition R).2 then (true, (mostFrequentPosition F).1, true)
      else (true, (mostFrequentPosition R).1, false) := by
  unfold scanOf
  simp only [winner_eq]
  by_cases hf : (mostFrequentPosition F).2 = 0 <;> by_cases hr : (mostFrequentPosition R).2 = 0
  · simp [hf, hr]
  · simp [hf, hr]
  · simp [hf, hr]
  · simp only [hf, hr, if_false, beq_iff_eq]

theorem scanOf_true (F R : List Nat) (p : Nat) (fwd : Bool) (h : scanOf F R = (true, p, fwd)) :
    (fwd = true → ∃ c, mostFrequentPosition F = (p, c) ∧ 10 ≤ c ∧ (mostFrequentPosition R).2 < c) ∧
    (fwd = false → ∃ c, mostFrequentPosition R = (p, c) ∧ 10 ≤ c ∧ (mostFrequentPosition F).2 < c) := by
  rw [scanOf_eq] at h
  have h10 : ∀ X : List Nat, (mostFrequentPosition X).2 ≠ 0 → 10 ≤ (mostFrequentPosition X).2 :=
    fun X hX => (mfp_some X _ _ rfl hX).2.2
  by_cases hf : (mostFrequentPosition F).2 = 0 <;> by_cases hr : (mostFrequentPosition R).2 = 0
  · simp [hf, hr] at h
  · simp only [hf, hr, if_true, if_false, Prod.mk.injEq, true_and] at h
    obtain ⟨h1, h2⟩ := h
    subst h1; subst h2
    refine ⟨by simp, fun _ => ⟨(mostFrequentPosition R).2, rfl, h10 R hr, by omega⟩⟩
  · simp only [hf, hr, if_true, if_false, Prod.mk.injEq, true_and] at h
    obtain ⟨h1, h2⟩ := h
    subst h1; subst h2
    refine ⟨fun _ => ⟨(mostFrequentPosition F).2, rfl, h10 F hf, by omega⟩, by simp⟩
  · simp only [hf, hr, if_false] at h
    by_cases he : (mostFrequentPosition F).2 = (mostFrequentPosition R).2
    · simp [he] at h
    · rw [if_neg he] at h
      by_cases hg : (mostFrequentPosition F).2 > (mostFrequentPosition R).2
      · rw [if_pos hg] at h
        simp only [Prod.mk.injEq, true_and] at h
        obtain ⟨h1, h2⟩ := h
        subst h1; subst h2
        exact ⟨fun _ => ⟨(mostFrequentPosition F).2, rfl, h10 F hf, hg⟩, by simp⟩
      · rw [if_neg hg] at h
        simp only [Prod.mk.injEq, true_and] at h
        obtain ⟨h1, h2⟩ := h
        subst h1; subst h2
        exact ⟨by simp, fun _ => ⟨(mostFrequentPosition R).2, rfl, h10 R hr, by omega⟩⟩

theorem scanOf_false (F R : List Nat) (p : Nat) (fwd : Bool) (h : scanOf F R = (false, p, fwd)) :
    p = 0 ∧ fwd = true ∧
    (((mostFrequentPosition F).2 = 0 ∧ (mostFrequentPosition R).2 = 0) ∨
     ((mostFrequentPosition F).2 ≠ 0 ∧ (mostFrequentPosition F).2 = (mostFrequentPosition R).2)) := by
  rw [scanOf_eq] at h
  by_cases hf : (mostFrequentPosition F).2 = 0 <;> by_cases hr : (mostFrequentPosition R).2 = 0
  · simp only [hf, hr, if_true, Prod.mk.injEq, true_and] at h
    exact ⟨h.1.symm, h.2.symm, Or.inl ⟨hf, hr⟩⟩
  · simp [hf, hr] at h
  · simp [hf, hr] at h
  · simp only [hf, hr, if_false] at h
    by_cases he : (mostFrequentPosition F).2 = (mostFrequentPosition R).2
    · rw [if_pos he] at h
      simp only [Prod.mk.injEq, true_and] at h
      exact ⟨h.1.symm, h.2.symm, Or.inr ⟨hf, he⟩⟩
    · rw [if_neg he] at h
      split at h <;> simp at h

theorem mapM_eq_none_iff {α β : Type} (f : α → Option β) : ∀ l : List α,
    l.mapM f = none ↔ ∃ x ∈ l, f x = none := by
  intro l
  induction l with
  | nil => simp
  | cons a l ih =>
    rw [List.mapM_cons]
    cases hfa : f a with
    | none => simp [hfa]
    | some b =>
      cases hl : l.mapM f with
      | none =>
        obtain ⟨x, hx, hfx⟩ := ih.mp hl
        simp only [Option.bind_eq_bind, Option.bind_some, Option.bind_none, true_iff]
        exact ⟨x, List.mem_cons_of_mem _ hx, hfx⟩
      | some bs =>
        simp only [Option.bind_eq_bind, Option.bind_some, pure, reduceCtorEq, false_iff]
        rintro ⟨x, hx, hfx⟩
        rcases List.mem_cons.mp hx with hx | hx
        · subst hx; rw [hfa] at hfx; simp at hfx
        · have := ih.mpr ⟨x, hx, hfx⟩
          rw [hl] at this; simp at this

theorem revComplStr_none_iff (s : List UInt8) : revComplStr s = none ↔ ∃ b ∈ s, isACGT b = false := by
  unfold revComplStr
  rw [mapM_eq_none_iff]
  constructor
  · rintro ⟨b, hb, h⟩
    refine ⟨b, List.mem_reverse.mp hb, ?_⟩
    unfold isACGT
    by_cases h1 : b = 65 <;> by_cases h2 : b = 67 <;> by_cases h3 : b = 84 <;> by_cases h4 : b = 71 <;>
      simp_all
  · rintro ⟨b, hb, h⟩
    refine ⟨b, List.mem_reverse.mpr hb, ?_⟩
    unfold isACGT at h
    simp only [Bool.or_eq_false_iff, beq_eq_false_iff_ne] at h
    simp [h.1.1.1, h.1.1.2, h.1.2, h.2]

theorem scan_none_iff (W k : Nat) (kmap : List (Nat × List Nat)) (vs : List Variant) :
    scanVariants W k kmap vs = none ↔ ∃ v ∈ vs, ∃ b ∈ v.1, isACGT b = false := by
  rw [scan_eq]
  cases hm : vs.mapM (fun v => revComplStr v.1) with
  | none =>
    simp only [Option.bind_none, true_iff]
    obtain ⟨v, hv, h⟩ := (mapM_eq_none_iff _ vs).mp hm
    exact ⟨v, hv, (revComplStr_none_iff v.1).mp h⟩
  | some rcs =>
    simp only [Option.bind_some, reduceCtorEq, false_iff]
    rintro ⟨v, hv, h⟩
    have := (mapM_eq_none_iff (fun v : Variant => revComplStr v.1) vs).mpr ⟨v, hv, (revComplStr_none_iff v.1).mpr h⟩
    rw [hm] at this
    simp at this


/-! ### `groupSnpsPos` and `groupSnps` -/

theorem foldlM_map {α β γ : Type} (f : β → α → Option β) (g : γ → α → Option γ) (φ : β → γ)
    (h : ∀ b a, (f b a).map φ = g (φ b) a) :
    ∀ (l : List α) (b : β), (l.foldlM f b).map φ = l.foldlM g (φ b) := by
  intro l
  induction l with
  | nil => intro b; simp [List.foldlM]
  | cons a l ih =>
    intro b
    rw [List.foldlM_cons, List.foldlM_cons, ← h]
    cases f b a with
    | none => simp
    | some b1 => simp [ih]

theorem bind_map_congr {σ β γ : Type} (x : Option σ) (F : σ → Option β) (G : σ → Option γ) (φ : β → γ)
    (h : ∀ s, (F s).map φ = G s) : (x >>= F).map φ = x >>= G := by
  cases x with
  | none => rfl
  | some s => exact h s

theorem groupSnpsPos_map (W kGraph n mNum mDen : Nat) (col : Colours) (done : List Nat) (vs : List Variant) :
    (groupSnpsPos W kGraph n mNum mDen col done vs).map (fun r => (r.1.map (·.2), r.2)) =
      groupSnps W kGraph n mNum mDen col done vs := by
  unfold groupSnpsPos groupSnps
  simp only []
  apply foldlM_map
  intro acc pos
  by_cases hp : pos < kGraph
  · simp [hp]
  · simp only [hp, if_false]
    refine bind_map_congr _ _ _ _ ?_
    intro st
    split
    · split <;> simp
    · simp


theorem groupSnpsPos_cols (W kGraph n mNum mDen : Nat) (col : Colours) (done : List Nat)
    (vs : List Variant) (r : List (Nat × List UInt8) × List Nat)
    (h : groupSnpsPos W kGraph n mNum mDen col done vs = some r) :
    ∀ pc ∈ r.1, LOP.ColOk n mNum mDen pc.2 := by
  have hm := groupSnpsPos_map W kGraph n mNum mDen col done vs
  rw [h, Option.map_some] at hm
  intro pc hpc
  exact LOP.groupSnps_cols W kGraph n mNum mDen col done vs _ hm.symm pc.2
    (List.mem_map.mpr ⟨pc, hpc, rfl⟩)

/-! ### the columns `analyseRef` places -/

theorem colOk_complement (n mNum mDen : Nat) (c c' : List UInt8) (h : complementSnp c = some c')
    (hc : LOP.ColOk n mNum mDen c) : LOP.ColOk n mNum mDen c' := by
  obtain ⟨⟨hl, hb⟩, h1, h2⟩ := hc
  have hchk := LO.check_complement c c' h
  obtain ⟨hok, he⟩ := (LO.complementSnp_eq_some c c').1 h
  refine ⟨⟨by rw [he, List.length_map]; exact hl, ?_⟩, by rw [hchk]; exact h1, by rw [hchk]; exact h2⟩
  intro b hb'
  rw [he] at hb'
  obtain ⟨a, ha, rfl⟩ := List.mem_map.mp hb'
  have := LO.okBase_comp a (hok a ha)
  unfold LO.okBase at this
  unfold LOP.okB
  rcases this with h | h | h | h | h | h <;> simp [h]

/-- invariant of the position map -/
def PlacedOk (n mNum mDen : Nat) (m : List (Nat × List UInt8)) : Prop :=
  (∀ pc ∈ m, LOP.ColOk n mNum mDen pc.2 ∧ pc.1 < U32) ∧ (m.map (·.1)).Nodup

theorem U32_pos : 0 < U32 := by unfold U32; omega

theorem placedOk_step (n mNum mDen : Nat) (m : List (Nat × List UInt8)) (p : Nat) (c : List UInt8)
    (hm : PlacedOk n mNum mDen m) (hc : LOP.ColOk n mNum mDen c) (hp : p < U32) :
    PlacedOk n mNum mDen (if m.any (·.1 == p) then m else m ++ [(p, c)]) := by
  split
  · exact hm
  · rename_i hany
    refine ⟨?_, ?_⟩
    · intro pc hpc
      rcases List.mem_append.mp hpc with hpc | hpc
      · exact hm.1 pc hpc
      · rw [List.mem_singleton] at hpc
        subst hpc
        exact ⟨hc, hp⟩
    · rw [List.map_append, List.nodup_append]
      refine ⟨hm.2, by simp, ?_⟩
      intro a ha b hb
      simp only [List.map_cons, List.map_nil, List.mem_singleton] at hb
      subst hb
      intro e
      subst e
      apply hany
      obtain ⟨pc, hpc, he⟩ := List.mem_map.mp ha
      exact List.any_eq_true.mpr ⟨pc, hpc, by simp [he]⟩

theorem placed_fold (n mNum mDen kGraph position seqLen : Nat) (fwdO : Bool)
    (found : List (Nat × List UInt8)) :
    ∀ (m0 pl : List (Nat × List UInt8)), PlacedOk n mNum mDen m0 →
      (∀ pc ∈ found, LOP.ColOk n mNum mDen pc.2) →
      found.foldlM (fun (m : List (Nat × List UInt8)) pc => do
        let finalPos := if fwdO then (position + (pc.1 - kGraph)) % U32
                        else (position + (seqLen - pc.1 - kGraph - 1)) % U32
        let column ← if fwdO then some pc.2 else complementSnp pc.2
        if m.any (·.1 == finalPos) then pure m else pure (m ++ [(finalPos, column)])) m0 = some pl →
      PlacedOk n mNum mDen pl := by
  induction found with
  | nil =>
    intro m0 pl hacc _ hpl
    simp only [List.foldlM, pure, Option.some.injEq] at hpl
    subst hpl
    exact hacc
  | cons pc rest ih =>
    intro m0 pl hacc hfound hpl
    rw [List.foldlM_cons] at hpl
    simp only [Option.bind_eq_bind, Option.bind_eq_some_iff] at hpl
    obtain ⟨m1, hm1, hpl⟩ := hpl
    refine ih m1 pl ?_ (fun pc' hpc' => hfound pc' (List.mem_cons_of_mem _ hpc')) hpl
    have hpcOk := hfound pc List.mem_cons_self
    have hfin : ∃ column p, LOP.ColOk n mNum mDen column ∧ p < U32 ∧
        m1 = if m0.any (·.1 == p) then m0 else m0 ++ [(p, column)] := by
      cases fwdO with
      | true =>
        simp only [if_true, Option.bind_some, pure] at hm1
        refine ⟨pc.2, (position + (pc.1 - kGraph)) % U32, hpcOk, Nat.mod_lt _ U32_pos, ?_⟩
        split at hm1 <;> rename_i hany
        · rw [if_pos hany]; exact (Option.some.inj hm1).symm
        · rw [if_neg hany]; exact (Option.some.inj hm1).symm
      | false =>
        simp only [Bool.false_eq_true, if_false, Option.bind_eq_some_iff, pure] at hm1
        obtain ⟨column, hcol, hm1⟩ := hm1
        refine ⟨column, (position + (seqLen - pc.1 - kGraph - 1)) % U32,
          colOk_complement n mNum mDen _ _ hcol hpcOk, Nat.mod_lt _ U32_pos, ?_⟩
        split at hm1 <;> rename_i hany
        · rw [if_pos hany]; exact (Option.some.inj hm1).symm
        · rw [if_neg hany]; exact (Option.some.inj hm1).symm
    obtain ⟨column, p, hcolOk, hp, hm1e⟩ := hfin
    rw [hm1e]
    exact placedOk_step n mNum mDen m0 p column hacc hcolOk hp

theorem analyseRef_placed (W kGraph n mNum mDen ik : Nat) (col : Colours) (gr : Groups)
    (genome : List UInt8) (placed : List (Nat × List UInt8)) (recs : List IndelRec)
    (h : analyseRef W kGraph n mNum mDen ik col gr genome = some (placed, recs)) :
    PlacedOk n mNum mDen placed := by
  unfold analyseRef at h
  simp only [Option.bind_eq_bind, Option.bind_eq_some_iff] at h
  obtain ⟨⟨recs', ext⟩, _, res, hres, h⟩ := h
  simp only [pure, Option.some.injEq, Prod.mk.injEq] at h
  obtain ⟨h1, _⟩ := h
  subst h1
  refine LOP.foldlM_inv _ (fun (acc : List (Nat × List UInt8) × List Nat) => PlacedOk n mNum mDen acc.1) ?_ _ _ _
    (by exact ⟨by simp, by simp⟩) hres
  clear hres
  intro acc kv acc' hacc hstep
  split at hstep
  · split at hstep
    · simp only [pure, Option.some.injEq] at hstep
      subst hstep
      exact hacc
    · simp only [Option.bind_eq_some_iff] at hstep
      obtain ⟨⟨found, save⟩, hg, hstep⟩ := hstep
      simp only [] at hstep
      split at hstep
      · simp only [pure, Option.some.injEq] at hstep
        subst hstep
        exact hacc
      · simp only [Option.bind_eq_some_iff] at hstep
        obtain ⟨⟨ok, position, fwdO⟩, _, hstep⟩ := hstep
        simp only [] at hstep
        split at hstep
        · simp only [pure, Option.some.injEq] at hstep
          subst hstep
          exact hacc
        · simp only [Option.bind_eq_some_iff] at hstep
          obtain ⟨pl, hpl, hstep⟩ := hstep
          simp only [pure, Option.some.injEq] at hstep
          subst hstep
          have hfound := groupSnpsPos_cols W kGraph n mNum mDen col _ _ _ hg
          exact placed_fold n mNum mDen kGraph position _ fwdO found acc.1 pl hacc hfound hpl
  · simp only [pure, Option.some.injEq] at hstep
    subst hstep
    exact hacc

/-! ### where the placed columns come from -/

theorem foldlM_inv_mem {α β : Type} (f : β → α → Option β) (P : β → Prop) :
    ∀ (l : List α), (∀ b a b', a ∈ l → P b → f b a = some b' → P b') →
      ∀ (b b' : β), P b → l.foldlM f b = some b' → P b' := by
  intro l
  induction l with
  | nil => intro _ b b' hb h; simp [List.foldlM] at h; exact h ▸ hb
  | cons a l ih =>
    intro hf b b' hb h
    rw [List.foldlM_cons] at h
    cases hfa : f b a with
    | none => simp [hfa] at h
    | some b1 =>
      simp [hfa] at h
      exact ih (fun b a b' ha => hf b a b' (List.mem_cons_of_mem _ ha)) b1 b'
        (hf b a b1 List.mem_cons_self hb hfa) h

theorem mem_insertByRatio (x : (Nat × Nat) × List Variant) (l : List ((Nat × Nat) × List Variant))
    (y : (Nat × Nat) × List Variant) : y ∈ insertByRatio x l ↔ y = x ∨ y ∈ l := by
  induction l with
  | nil => simp [insertByRatio]
  | cons z zs ih =>
    unfold insertByRatio
    simp only []
    split
    · simp
    · rw [List.mem_cons, ih, List.mem_cons]
      constructor
      · rintro (h | h | h)
        · exact Or.inr (Or.inl h)
        · exact Or.inl h
        · exact Or.inr (Or.inr h)
      · rintro (h | h | h)
        · exact Or.inr (Or.inl h)
        · exact Or.inl h
        · exact Or.inr (Or.inr h)

theorem mem_foldr_insertByRatio (l : List ((Nat × Nat) × List Variant)) (y : (Nat × Nat) × List Variant) :
    y ∈ l.foldr insertByRatio [] ↔ y ∈ l := by
  induction l with
  | nil => simp
  | cons x xs ih => rw [List.foldr_cons, mem_insertByRatio, ih, List.mem_cons]

/-- the (position, column) pair `x` is the placement of column `pc` of the group `vs` -/
def Origin (W kGraph n mNum mDen : Nat) (col : Colours) (kmap : List (Nat × List Nat)) (vs : List Variant)
    (x : Nat × List UInt8) : Prop :=
  ∃ (done : List Nat) (found : List (Nat × List UInt8)) (save : List Nat) (p : Nat) (fwd : Bool),
    ∃ pc ∈ found,
      groupSnpsPos W kGraph n mNum mDen col done vs = some (found, save) ∧
      scanVariants 128 kGraph kmap vs = some (true, p, fwd) ∧
      x.1 = (if fwd then (p + (pc.1 - kGraph)) % U32
             else (p + ((vs.headD ([], [])).1.length - pc.1 - kGraph - 1)) % U32) ∧
      (if fwd then some pc.2 else complementSnp pc.2) = some x.2

theorem placed_fold_origin (kGraph position seqLen : Nat) (fwdO : Bool) (Q : Nat × List UInt8 → Prop)
    (found : List (Nat × List UInt8)) :
    ∀ (m0 pl : List (Nat × List UInt8)), (∀ x ∈ m0, Q x) →
      (∀ pc ∈ found, ∀ c, (if fwdO then some pc.2 else complementSnp pc.2) = some c →
        Q (if fwdO then (position + (pc.1 - kGraph)) % U32
            else (position + (seqLen - pc.1 - kGraph - 1)) % U32, c)) →
      found.foldlM (fun (m : List (Nat × List UInt8)) pc => do
        let finalPos := if fwdO then (position + (pc.1 - kGraph)) % U32
                        else (position + (seqLen - pc.1 - kGraph - 1)) % U32
        let column ← if fwdO then some pc.2 else complementSnp pc.2
        if m.any (·.1 == finalPos) then pure m else pure (m ++ [(finalPos, column)])) m0 = some pl →
      ∀ x ∈ pl, Q x := by
  induction found with
  | nil =>
    intro m0 pl hacc _ hpl
    simp only [List.foldlM, pure, Option.some.injEq] at hpl
    subst hpl
    exact hacc
  | cons pc rest ih =>
    intro m0 pl hacc hfound hpl
    rw [List.foldlM_cons] at hpl
    simp only [Option.bind_eq_bind, Option.bind_eq_some_iff] at hpl
    obtain ⟨m1, hm1, hpl⟩ := hpl
    refine ih m1 pl ?_ (fun pc' hpc' => hfound pc' (List.mem_cons_of_mem _ hpc')) hpl
    have hpcQ := hfound pc List.mem_cons_self
    have hfin : m1 = m0 ∨ ∃ x, Q x ∧ m1 = m0 ++ [x] := by
      cases fwdO with
      | true =>
        simp only [if_true, Option.bind_some, pure] at hm1
        split at hm1
        · exact Or.inl (Option.some.inj hm1).symm
        · exact Or.inr ⟨_, hpcQ pc.2 (by simp), (Option.some.inj hm1).symm⟩
      | false =>
        simp only [Bool.false_eq_true, if_false, Option.bind_eq_some_iff, pure] at hm1
        obtain ⟨column, hcol, hm1⟩ := hm1
        split at hm1
        · exact Or.inl (Option.some.inj hm1).symm
        · exact Or.inr ⟨_, hpcQ column (by simpa using hcol), (Option.some.inj hm1).symm⟩
    rcases hfin with h | ⟨x, hx, h⟩
    · rw [h]; exact hacc
    · rw [h]
      intro y hy
      rcases List.mem_append.mp hy with hy | hy
      · exact hacc y hy
      · rw [List.mem_singleton] at hy
        rw [hy]; exact hx

theorem analyseRef_origin (W kGraph n mNum mDen ik : Nat) (col : Colours) (gr : Groups)
    (genome : List UInt8) (placed : List (Nat × List UInt8)) (recs : List IndelRec)
    (h : analyseRef W kGraph n mNum mDen ik col gr genome = some (placed, recs)) :
    ∃ ext, processIndels W kGraph n mNum mDen col gr.indelGroups = some (recs, ext) ∧
      ∀ x ∈ placed, ∃ kv ∈ gr.snpGroups,
        Origin W kGraph n mNum mDen col (genomicKmers 128 kGraph genome)
          (kv.2.filter (fun v => !(internalIndels W kGraph ext v.1 > ik))) x := by
  unfold analyseRef at h
  simp only [Option.bind_eq_bind, Option.bind_eq_some_iff] at h
  obtain ⟨⟨recs', ext⟩, hpi, res, hres, h⟩ := h
  simp only [pure, Option.some.injEq, Prod.mk.injEq] at h
  obtain ⟨h1, h2⟩ := h
  subst h1; subst h2
  refine ⟨ext, hpi, ?_⟩
  refine foldlM_inv_mem _ (fun (acc : List (Nat × List UInt8) × List Nat) => ∀ x ∈ acc.1, ∃ kv ∈ gr.snpGroups,
        Origin W kGraph n mNum mDen col (genomicKmers 128 kGraph genome)
          (kv.2.filter (fun v => !(internalIndels W kGraph ext v.1 > ik))) x) _ ?_ _ _ (by simp) hres
  clear hres
  intro acc kv acc' hkv hacc hstep
  have hkv0 : ∃ kv0 ∈ gr.snpGroups, kv.2 = kv0.2.filter (fun v => !(internalIndels W kGraph ext v.1 > ik)) := by
    rw [mem_foldr_insertByRatio] at hkv
    have hkv := (List.mem_filter.mp hkv).1
    have hkv := (List.mergeSort_perm _ _).mem_iff.mp hkv
    obtain ⟨kv0, hkv0, he⟩ := List.mem_map.mp hkv
    exact ⟨kv0, hkv0, by rw [← he]⟩
  obtain ⟨kv0, hkv0m, hkv0e⟩ := hkv0
  split at hstep
  · split at hstep
    · simp only [pure, Option.some.injEq] at hstep
      subst hstep
      exact hacc
    · simp only [Option.bind_eq_some_iff] at hstep
      obtain ⟨⟨found, save⟩, hg, hstep⟩ := hstep
      simp only [] at hstep
      split at hstep
      · simp only [pure, Option.some.injEq] at hstep
        subst hstep
        exact hacc
      · simp only [Option.bind_eq_some_iff] at hstep
        obtain ⟨⟨ok, position, fwdO⟩, hscan, hstep⟩ := hstep
        simp only [] at hstep
        split at hstep
        · simp only [pure, Option.some.injEq] at hstep
          subst hstep
          exact hacc
        · rename_i hok
          simp only [Option.bind_eq_some_iff] at hstep
          obtain ⟨pl, hpl, hstep⟩ := hstep
          simp only [pure, Option.some.injEq] at hstep
          subst hstep
          have hokt : ok = true := by simpa using hok
          subst hokt
          refine placed_fold_origin kGraph position _ fwdO _ found acc.1 pl hacc ?_ hpl
          intro pc hpc c hc
          refine ⟨kv0, hkv0m, acc.2, found, save, position, fwdO, pc, hpc, ?_, ?_, ?_, ?_⟩
          · rw [← hkv0e]; exact hg
          · rw [← hkv0e]; exact hscan
          · rw [← hkv0e]
          · exact hc
  · simp only [pure, Option.some.injEq] at hstep
    subst hstep
    exact hacc

/-! ### order independence -/

theorem analyseRef_perm (W kGraph n mNum mDen ik : Nat) (col : Colours) (gr gr' : Groups) (genome : List UInt8)
    (hs : gr.snpGroups.Perm gr'.snpGroups) (hi : gr.indelGroups.Perm gr'.indelGroups)
    (hsn : (gr.snpGroups.map (·.1)).Nodup) (hin : (gr.indelGroups.map (·.1)).Nodup) :
    analyseRef W kGraph n mNum mDen ik col gr genome = analyseRef W kGraph n mNum mDen ik col gr' genome := by
  unfold analyseRef
  rw [LOP.processIndels_perm W kGraph n mNum mDen col _ _ hi hin]
  cases processIndels W kGraph n mNum mDen col gr'.indelGroups with
  | none => rfl
  | some re =>
    obtain ⟨recs, ext⟩ := re
    simp only [Option.bind_eq_bind, Option.bind_some]
    rw [LOP.mergeSort_key_perm (fun (kv : (Nat × Nat) × List Variant) => kv.1) _ _ (hs.map _) (by
      rw [List.map_map]; exact hsn)]

/-! ### `genomicKmers` -/

/-- no base of the k-mer is N (or n): low nibble 14 -/
def noN (kmer : List UInt8) : Bool := kmer.all (fun b => (b &&& 15) != 14)

/-- start positions (from `l`) of the N-free occurrences of the k-mer with code `x` -/
def hits (W k : Nat) (g : List UInt8) (x : Nat) (l : List Nat) : List Nat :=
  l.filter (fun n => noN ((g.drop n).take k) && encodeKmer W ((g.drop n).take k) == x)

/-- all end positions of the N-free occurrences of the k-mer with code `x`, increasing -/
def allEnds (W k : Nat) (g : List UInt8) (x : Nat) : List Nat :=
  (hits W k g x (List.range (g.length - k + 1))).map (· + k)

def gkStep (W k : Nat) (g : List UInt8) (acc : List (Nat × List Nat)) (n : Nat) : List (Nat × List Nat) :=
  if noN ((g.drop n).take k) then
    Assoc.upsert acc (encodeKmer W ((g.drop n).take k)) [n + k] (fun l => if l.length < 3 then l ++ [n + k] else l)
  else acc

theorem genomicKmers_eq (W k : Nat) (g : List UInt8) :
    genomicKmers W k g = if g.length < k then [] else (List.range (g.length - k + 1)).foldl (gkStep W k g) [] := rfl

/-- pushing one more end position into an entry -/
def push (o : Option (List Nat)) (p : Nat) : Option (List Nat) :=
  some (match o with | none => [p] | some l => if l.length < 3 then l ++ [p] else l)

theorem lookup_gkStep (W k : Nat) (g : List UInt8) (acc : List (Nat × List Nat)) (n x : Nat) :
    Assoc.lookup (gkStep W k g acc n) x =
      if (noN ((g.drop n).take k) && encodeKmer W ((g.drop n).take k) == x) = true then
        push (Assoc.lookup acc x) (n + k) else Assoc.lookup acc x := by
  unfold gkStep
  by_cases hn : noN ((g.drop n).take k) = true
  · rw [if_pos hn, Assoc.lookup_upsert]
    by_cases hx : (encodeKmer W ((g.drop n).take k) == x) = true
    · have e : encodeKmer W ((g.drop n).take k) = x := eq_of_beq hx
      rw [if_pos hx, e]
      simp only [hn, Bool.true_and, beq_self_eq_true, if_true, push]
      cases Assoc.lookup acc x <;> rfl
    · rw [if_neg hx]
      simp [hx]
  · rw [if_neg hn]
    simp [hn]

theorem lookup_fold (W k : Nat) (g : List UInt8) (x : Nat) (l : List Nat) :
    ∀ acc : List (Nat × List Nat),
      Assoc.lookup (l.foldl (gkStep W k g) acc) x =
        ((hits W k g x l).map (· + k)).foldl push (Assoc.lookup acc x) := by
  induction l with
  | nil => intro acc; rfl
  | cons n l ih =>
    intro acc
    rw [List.foldl_cons, ih, lookup_gkStep]
    unfold hits
    rw [List.filter_cons]
    split
    · rw [List.map_cons, List.foldl_cons]
    · rfl

theorem push_fold_some (ps : List Nat) : ∀ l : List Nat, l.length ≤ 3 →
    ps.foldl push (some l) = some ((l ++ ps).take 3) := by
  induction ps with
  | nil =>
    intro l hl
    rw [List.foldl_nil, List.append_nil, List.take_of_length_le hl]
  | cons p ps ih =>
    intro l hl
    rw [List.foldl_cons]
    have hp : push (some l) p = some (if l.length < 3 then l ++ [p] else l) := rfl
    rw [hp]
    by_cases h3 : l.length < 3
    · rw [if_pos h3, ih _ (by rw [List.length_append]; simp; omega)]
      simp
    · rw [if_neg h3, ih _ hl]
      have h3' : l.length = 3 := by omega
      rw [List.take_append_of_le_length (by omega), List.take_append_of_le_length (by omega)]

theorem push_fold_none (ps : List Nat) :
    ps.foldl push none = if ps = [] then none else some (ps.take 3) := by
  cases ps with
  | nil => rfl
  | cons p ps =>
    rw [List.foldl_cons]
    have : push none p = some [p] := rfl
    rw [this, push_fold_some ps [p] (by simp)]
    simp

/-- the entry of a k-mer: the first (up to three) end positions of its N-free occurrences -/
theorem lookup_genomicKmers (W k : Nat) (g : List UInt8) (hk : k ≤ g.length) (x : Nat) :
    Assoc.lookup (genomicKmers W k g) x =
      if allEnds W k g x = [] then none else some ((allEnds W k g x).take 3) := by
  rw [genomicKmers_eq, if_neg (by omega), lookup_fold]
  exact push_fold_none _

theorem genomicKmers_keys_nodup (W k : Nat) (g : List UInt8) : (Assoc.keys (genomicKmers W k g)).Nodup := by
  rw [genomicKmers_eq]
  split
  · simp [Assoc.keys]
  · apply LOP.foldl_inv (P := fun (acc : List (Nat × List Nat)) => (Assoc.keys acc).Nodup)
    · intro acc n hacc
      unfold gkStep
      split
      · exact Assoc.nodup_keys_upsert_L _ _ _ hacc
      · exact hacc
    · simp [Assoc.keys]

theorem mem_allEnds (W k : Nat) (g : List UInt8) (hk : k ≤ g.length) (x p : Nat) :
    p ∈ allEnds W k g x ↔ k ≤ p ∧ p ≤ g.length ∧ noN ((g.drop (p - k)).take k) = true ∧
      encodeKmer W ((g.drop (p - k)).take k) = x := by
  unfold allEnds hits
  rw [List.mem_map]
  constructor
  · rintro ⟨n, hn, rfl⟩
    rw [List.mem_filter, List.mem_range, Bool.and_eq_true, beq_iff_eq] at hn
    obtain ⟨hr, h1, h2⟩ := hn
    rw [Nat.add_sub_cancel]
    exact ⟨by omega, by omega, h1, h2⟩
  · rintro ⟨h1, h2, h3, h4⟩
    refine ⟨p - k, ?_, by omega⟩
    rw [List.mem_filter, List.mem_range, Bool.and_eq_true, beq_iff_eq]
    exact ⟨by omega, h3, h4⟩

theorem allEnds_sorted (W k : Nat) (g : List UInt8) (x : Nat) : (allEnds W k g x).Pairwise (· < ·) := by
  unfold allEnds hits
  rw [List.pairwise_map]
  apply List.Pairwise.filter
  exact (List.pairwise_lt_range).imp (fun h => by omega)


theorem take_first {l : List Nat} (hs : l.Pairwise (· < ·)) (m q : Nat) (hq : q ∈ l) (hn : q ∉ l.take m) :
    (l.take m).length = m ∧ ∀ p ∈ l.take m, p < q := by
  have hsplit : l.take m ++ l.drop m = l := List.take_append_drop m l
  have hqd : q ∈ l.drop m := by
    rw [← hsplit] at hq
    rcases List.mem_append.mp hq with h | h
    · exact absurd h hn
    · exact h
  constructor
  · rw [List.length_take]
    have : 0 < (l.drop m).length := List.length_pos_of_mem hqd
    rw [List.length_drop] at this
    omega
  · intro p hp
    rw [← hsplit, List.pairwise_append] at hs
    exact hs.2.2 p hp q hqd

theorem genomicKmers_spec (W k : Nat) (g : List UInt8) (hk : k ≤ g.length) (x : Nat) (ps : List Nat)
    (h : Assoc.lookup (genomicKmers W k g) x = some ps) :
    ps = (allEnds W k g x).take 3 ∧ ps ≠ [] ∧ ps.length ≤ 3 ∧
    (∀ p ∈ ps, k ≤ p ∧ p ≤ g.length ∧ encodeKmer W ((g.drop (p - k)).take k) = x ∧
      noN ((g.drop (p - k)).take k) = true) ∧
    ps.Pairwise (· < ·) ∧
    (∀ q, k ≤ q → q ≤ g.length → encodeKmer W ((g.drop (q - k)).take k) = x →
      noN ((g.drop (q - k)).take k) = true → q ∉ ps → ps.length = 3 ∧ ∀ p ∈ ps, p < q) := by
  rw [lookup_genomicKmers W k g hk] at h
  split at h
  · simp at h
  · rename_i hne
    simp only [Option.some.injEq] at h
    subst h
    refine ⟨rfl, ?_, ?_, ?_, ?_, ?_⟩
    · intro e
      apply hne
      cases hall : allEnds W k g x with
      | nil => rfl
      | cons a l => rw [hall] at e; simp at e
    · rw [List.length_take]; omega
    · intro p hp
      obtain ⟨h1, h2, h3, h4⟩ := (mem_allEnds W k g hk x p).mp (List.mem_of_mem_take hp)
      exact ⟨h1, h2, h4, h3⟩
    · exact (allEnds_sorted W k g x).sublist (List.take_sublist _ _)
    · intro q h1 h2 h3 h4 hq
      exact take_first (allEnds_sorted W k g x) 3 q ((mem_allEnds W k g hk x q).mpr ⟨h1, h2, h4, h3⟩) hq

theorem genomicKmers_none (W k : Nat) (g : List UInt8) (hk : k ≤ g.length) (x : Nat) :
    Assoc.lookup (genomicKmers W k g) x = none ↔
      ∀ q, k ≤ q → q ≤ g.length → encodeKmer W ((g.drop (q - k)).take k) = x →
        noN ((g.drop (q - k)).take k) = false := by
  rw [lookup_genomicKmers W k g hk]
  constructor
  · intro h q h1 h2 h3
    split at h
    · rename_i he
      cases hn : noN ((g.drop (q - k)).take k) with
      | false => rfl
      | true =>
        have := (mem_allEnds W k g hk x q).mpr ⟨h1, h2, hn, h3⟩
        rw [he] at this
        simp at this
    · simp at h
  · intro h
    rw [if_pos]
    cases hall : allEnds W k g x with
    | nil => rfl
    | cons a l =>
      have ha : a ∈ allEnds W k g x := by rw [hall]; exact List.mem_cons_self
      obtain ⟨h1, h2, h3, h4⟩ := (mem_allEnds W k g hk x a).mp ha
      rw [h a h1 h2 h4] at h3
      exact absurd h3 (by simp)

end SkaModel.LOR

