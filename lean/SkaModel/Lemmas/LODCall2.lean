/-
C17 (second sentence) — the fold of `analyseRef` over good groups of both strands: the body of the fold
(`refStepX`), its evaluation on a group whose columns are all placed, and the invariant (`RInv`): the
(position, column) pairs placed so far are those of a set of distinct sites, the blocked k-mers are exactly
those of these sites (`CInv` of `LOCCall4.lean`).
-/
import SkaModel.Lemmas.LODCall1

namespace SkaModel.LOD

open SkaModel SkaModel.Spec SkaModel.Props.C16 SkaModel.Skalo SkaModel.Props.C17G SkaModel.LOG SkaModel.LOC

/-- placing one column of a group -/
def placeF (kGraph position seqLen : Nat) (fwdO : Bool) (m : List (Nat × List UInt8)) (pc : Nat × List UInt8) :
    Option (List (Nat × List UInt8)) := do
  let finalPos := if fwdO then (position + (pc.1 - kGraph)) % U32
                  else (position + (seqLen - pc.1 - kGraph - 1)) % U32
  let column ← if fwdO then some pc.2 else complementSnp pc.2
  if m.any (·.1 == finalPos) then pure m else pure (m ++ [(finalPos, column)])

/-- the body of the fold of `analyseRef` -/
def refStepX (W kGraph nSamples mNum mDen : Nat) (col : Colours) (kmap : List (Nat × List Nat)) (ext : List Nat)
    (acc : List (Nat × List UInt8) × List Nat) (kv : (Nat × Nat) × List Variant) :
    Option (List (Nat × List UInt8) × List Nat) := do
  if !ext.contains kv.1.1 && !ext.contains (revComp W kv.1.2 kGraph) then
    if kv.2.length < 2 then pure acc
    else
      let (found, save) ← groupSnpsPos W kGraph nSamples mNum mDen col acc.2 kv.2
      if found.isEmpty then pure (acc.1, acc.2 ++ save)
      else
        let (ok, position, fwdO) ← scanVariants 128 kGraph kmap kv.2
        if !ok then pure (acc.1, acc.2 ++ save)
        else
          let seqLen := (kv.2.headD ([], [])).1.length
          let placed ← found.foldlM (placeF kGraph position seqLen fwdO) acc.1
          pure (placed, acc.2 ++ save)
  else pure acc

theorem analyseRef_eq (W kGraph nSamples mNum mDen ik : Nat) (col : Colours) (gr : Groups) (genome : List UInt8) :
    analyseRef W kGraph nSamples mNum mDen ik col gr genome = (do
      let (recs, ext) ← processIndels W kGraph nSamples mNum mDen col gr.indelGroups
      let filtered := gr.snpGroups.map (fun kv =>
        (kv.1, kv.2.filter (fun v => !(internalIndels W kGraph ext v.1 > ik))))
      let byKey := filtered.mergeSort (fun a b => keyLe a.1 b.1)
      let sorted := (byKey.filter (fun kv => !kv.2.isEmpty)).foldr insertByRatio []
      let res ← sorted.foldlM (refStepX W kGraph nSamples mNum mDen col (genomicKmers 128 kGraph genome) ext) ([], [])
      pure (res.1, recs)) := rfl

theorem analyseRef_noindel (W kG n mNum mDen ik : Nat) (col : Colours) (gr : Groups) (genome : List UInt8)
    (h : gr.indelGroups = []) :
    analyseRef W kG n mNum mDen ik col gr genome =
      ((sortedGroups gr).foldlM (refStepX W kG n mNum mDen col (genomicKmers 128 kG genome) []) ([], [])).bind
        (fun res => some (res.1, [])) := by
  rw [analyseRef_eq, h, processIndels_nil]
  simp only [Option.bind_eq_bind, Option.bind_some]
  have hmap : gr.snpGroups.map (fun kv =>
      (kv.1, kv.2.filter (fun v => !decide (internalIndels W kG [] v.1 > ik)))) = gr.snpGroups := by
    conv => rhs; rw [← List.map_id gr.snpGroups]
    apply List.map_congr_left
    intro kv _
    have : kv.2.filter (fun v => !decide (internalIndels W kG [] v.1 > ik)) = kv.2 := by
      rw [List.filter_eq_self]
      intro v _
      rw [internalIndels_nil]
      simp
    rw [this]
    rfl
  rw [hmap]
  unfold sortedGroups
  rfl

/-! ### placing the columns of one group -/

theorem placeF_new (kG position seqLen : Nat) (fwdO : Bool) (m : List (Nat × List UInt8)) (pc tg : Nat × List UInt8)
    (h1 : (if fwdO then (position + (pc.1 - kG)) % U32 else (position + (seqLen - pc.1 - kG - 1)) % U32) = tg.1)
    (h2 : (if fwdO then some pc.2 else complementSnp pc.2) = some tg.2)
    (hnew : ∀ x ∈ m, x.1 ≠ tg.1) :
    placeF kG position seqLen fwdO m pc = some (m ++ [tg]) := by
  have hany : m.any (fun x => x.1 == tg.1) = false := by
    rw [List.any_eq_false]
    intro x hx
    simpa using hnew x hx
  unfold placeF
  cases fwdO with
  | true =>
    simp only [if_true, Option.some.injEq] at h1 h2
    simp only [if_true, h1, h2, hany, Option.bind_eq_bind, Option.bind_some, Bool.false_eq_true, if_false]
    rfl
  | false =>
    simp only [Bool.false_eq_true, if_false] at h1 h2
    simp only [Bool.false_eq_true, if_false, h1, h2, hany, Option.bind_eq_bind, Option.bind_some]
    rfl

theorem place_fold (kG position seqLen : Nat) (fwdO : Bool) (f g : Nat → Nat × List UInt8) :
    ∀ (Qs : List Nat) (m0 : List (Nat × List UInt8)),
      (∀ z ∈ Qs,
        (if fwdO then (position + ((f z).1 - kG)) % U32 else (position + (seqLen - (f z).1 - kG - 1)) % U32) = (g z).1 ∧
        (if fwdO then some (f z).2 else complementSnp (f z).2) = some (g z).2) →
      (Qs.map (fun z => (g z).1)).Nodup → (∀ z ∈ Qs, ∀ x ∈ m0, x.1 ≠ (g z).1) →
      (Qs.map f).foldlM (placeF kG position seqLen fwdO) m0 = some (m0 ++ Qs.map g) := by
  intro Qs
  induction Qs with
  | nil => intro m0 _ _ _; simp
  | cons z rest ih =>
    intro m0 hpl hnd hdis
    rw [List.map_cons, List.nodup_cons] at hnd
    rw [List.map_cons, List.foldlM_cons,
      placeF_new kG position seqLen fwdO m0 (f z) (g z) (hpl z (List.mem_cons_self ..)).1
        (hpl z (List.mem_cons_self ..)).2 (hdis z (List.mem_cons_self ..))]
    simp only [Option.bind_eq_bind, Option.bind_some]
    rw [ih (m0 ++ [g z]) (fun z' hz' => hpl z' (List.mem_cons_of_mem _ hz')) hnd.2 ?_]
    · simp
    · intro z' hz' x hx
      rcases List.mem_append.mp hx with h | h
      · exact hdis z' (List.mem_cons_of_mem _ hz') x h
      · rw [List.mem_singleton] at h
        subst h
        intro e
        exact hnd.1 (List.mem_map.mpr ⟨z', hz', e.symm⟩)

/-- **the body of the fold on a group all of whose new columns are placed** -/
theorem refStep_eval (W kG n mNum mDen : Nat) (col : Colours) (kmap : List (Nat × List Nat))
    (acc : List (Nat × List UInt8) × List Nat) (kv : (Nat × Nat) × List Variant) (h2 : 2 ≤ kv.2.length)
    (Qs : List Nat) (f g : Nat → Nat × List UInt8) (save : List Nat)
    (hgs : groupSnpsPos W kG n mNum mDen col acc.2 kv.2 = some (Qs.map f, save))
    (hscan : Qs ≠ [] → ∃ pos fwdO, scanVariants 128 kG kmap kv.2 = some (true, pos, fwdO) ∧
      ∀ z ∈ Qs,
        (if fwdO then (pos + ((f z).1 - kG)) % U32
          else (pos + ((kv.2.headD ([], [])).1.length - (f z).1 - kG - 1)) % U32) = (g z).1 ∧
        (if fwdO then some (f z).2 else complementSnp (f z).2) = some (g z).2)
    (hnd : (Qs.map (fun z => (g z).1)).Nodup) (hdis : ∀ z ∈ Qs, ∀ x ∈ acc.1, x.1 ≠ (g z).1) :
    refStepX W kG n mNum mDen col kmap [] acc kv = some (acc.1 ++ Qs.map g, acc.2 ++ save) := by
  unfold refStepX
  simp only [List.contains_nil, Bool.not_false, Bool.and_self, if_true]
  rw [if_neg (by omega), hgs]
  simp only [Option.bind_eq_bind, Option.bind_some]
  by_cases hQ : Qs = []
  · subst hQ
    simp
  · obtain ⟨pos, fwdO, hsc, hpl⟩ := hscan hQ
    have hemp : (Qs.map f).isEmpty = false := by
      cases Qs with
      | nil => exact absurd rfl hQ
      | cons a l => rfl
    rw [hemp, hsc]
    simp only [Option.bind_some, Bool.not_true, Bool.false_eq_true, if_false]
    rw [place_fold kG pos _ fwdO f g Qs acc.1 hpl hnd hdis]
    rfl

end SkaModel.LOD
