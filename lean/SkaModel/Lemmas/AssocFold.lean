/-
Facts about association lists (`Assoc.lookup`, `Assoc.upsert`) and about the
`foldl`-of-`upsert` pattern shared by `MDict.append` and `MDict.merge`.
-/
import SkaModel.Impl.Assoc

namespace SkaModel.Assoc

set_option linter.unusedSectionVars false
set_option linter.unusedSimpArgs false

variable {κ ν β : Type} [BEq κ] [LawfulBEq κ]

@[simp] theorem lookup_nil (key : κ) : lookup ([] : Assoc κ ν) key = none := rfl

theorem lookup_cons_L (k : κ) (v : ν) (rest : Assoc κ ν) (key : κ) :
    lookup ((k, v) :: rest) key = if k == key then some v else lookup rest key := rfl

@[simp] theorem keys_nil : keys ([] : Assoc κ ν) = [] := rfl

@[simp] theorem keys_cons (kv : κ × ν) (rest : Assoc κ ν) : keys (kv :: rest) = kv.1 :: keys rest := rfl

theorem lookup_eq_none_iff_L (d : Assoc κ ν) (key : κ) : lookup d key = none ↔ key ∉ keys d := by
  induction d with
  | nil => simp
  | cons kv rest ih =>
    obtain ⟨k, v⟩ := kv
    rw [lookup_cons_L]
    by_cases h : k == key
    · have : k = key := eq_of_beq h
      simp [h, this]
    · have hne : ¬ key = k := fun e => h (by simp [e])
      simp [h, ih, hne]

theorem lookup_isSome_iff (d : Assoc κ ν) (key : κ) : (lookup d key).isSome ↔ key ∈ keys d := by
  cases h : lookup d key with
  | none => simp [(lookup_eq_none_iff_L d key).1 h]
  | some v =>
    have : ¬ (key ∉ keys d) := fun hn => by
      rw [(lookup_eq_none_iff_L d key).2 hn] at h; cases h
    simp [Classical.not_not.1 this]

theorem mem_keys_of_lookup {d : Assoc κ ν} {key : κ} {v : ν} (h : lookup d key = some v) : key ∈ keys d := by
  rw [← lookup_isSome_iff, h]; rfl

theorem mem_of_lookup {d : Assoc κ ν} {key : κ} {v : ν} (h : lookup d key = some v) : (key, v) ∈ d := by
  induction d with
  | nil => cases h
  | cons kv rest ih =>
    obtain ⟨k, v'⟩ := kv
    rw [lookup_cons_L] at h
    by_cases hk : k == key
    · have : k = key := eq_of_beq hk
      simp [hk] at h
      simp [this, h]
    · simp [hk] at h
      exact List.mem_cons_of_mem _ (ih h)

theorem lookup_of_mem_nodup {d : Assoc κ ν} {key : κ} {v : ν} (hn : (keys d).Nodup) (h : (key, v) ∈ d) :
    lookup d key = some v := by
  induction d with
  | nil => cases h
  | cons kv rest ih =>
    obtain ⟨k, v'⟩ := kv
    simp only [keys_cons, List.nodup_cons] at hn
    rw [lookup_cons_L]
    rcases List.mem_cons.1 h with h | h
    · cases h; simp
    · have hmem : key ∈ keys rest := List.mem_map.2 ⟨(key, v), h, rfl⟩
      have hne : ¬ (k == key) = true := fun e => by
        have := eq_of_beq e; subst this; exact hn.1 hmem
      simp [hne, ih hn.2 h]

theorem exists_lookup_of_mem_keys {d : Assoc κ ν} {key : κ} (h : key ∈ keys d) : ∃ v, lookup d key = some v := by
  have := (lookup_isSome_iff d key).2 h
  exact Option.isSome_iff_exists.1 this

/-! ### upsert -/

theorem lookup_upsert (d : Assoc κ ν) (key : κ) (ins : ν) (f : ν → ν) (key' : κ) :
    lookup (upsert d key ins f) key' =
      if key == key' then some (match lookup d key with | none => ins | some v => f v) else lookup d key' := by
  induction d with
  | nil =>
    simp only [upsert, lookup_cons_L, lookup_nil]
  | cons kv rest ih =>
    obtain ⟨k, v⟩ := kv
    simp only [upsert]
    by_cases hk : k == key
    · have e : k = key := eq_of_beq hk
      subst e
      simp only [hk, if_true, lookup_cons_L]
      by_cases h2 : k == key' <;> simp [h2]
    · have hk' : (k == key) = false := by simpa using hk
      rw [if_neg (by simp [hk']), lookup_cons_L, ih, lookup_cons_L, hk']
      by_cases h2 : key == key'
      · have e : key = key' := eq_of_beq h2
        subst e
        simp [hk']
      · simp [h2, lookup_cons_L]

theorem mem_keys_upsert_L (d : Assoc κ ν) (key : κ) (ins : ν) (f : ν → ν) (key' : κ) :
    key' ∈ keys (upsert d key ins f) ↔ key' = key ∨ key' ∈ keys d := by
  rw [← lookup_isSome_iff, ← lookup_isSome_iff, lookup_upsert]
  by_cases h : key == key'
  · have e : key = key' := eq_of_beq h
    simp [e]
  · have hne : ¬ key' = key := fun e => h (by simp [e])
    simp [h, hne]

theorem keys_upsert (d : Assoc κ ν) (key : κ) (ins : ν) (f : ν → ν) :
    keys (upsert d key ins f) = if key ∈ keys d then keys d else keys d ++ [key] := by
  induction d with
  | nil => simp [upsert, keys]
  | cons kv rest ih =>
    obtain ⟨k, v⟩ := kv
    simp only [upsert]
    by_cases hk : k == key
    · have e : k = key := eq_of_beq hk
      subst e
      simp [keys]
    · have hne : ¬ key = k := fun e => hk (by simp [e])
      have hk' : (k == key) = false := by simpa using hk
      rw [if_neg (by simp [hk']), keys_cons, ih, keys_cons]
      by_cases hm : key ∈ keys rest <;> simp [hm, hne]

theorem nodup_keys_upsert_L {d : Assoc κ ν} (key : κ) (ins : ν) (f : ν → ν) (h : (keys d).Nodup) :
    (keys (upsert d key ins f)).Nodup := by
  rw [keys_upsert]
  by_cases hm : key ∈ keys d
  · simpa [hm] using h
  · simp only [hm, if_false]
    rw [List.nodup_append]
    refine ⟨h, by simp, ?_⟩
    intro a ha b hb
    simp at hb
    subst hb
    intro e; subst e; exact hm ha

theorem forall_upsert (P : ν → Prop) {d : Assoc κ ν} (key : κ) (ins : ν) (f : ν → ν)
    (hd : ∀ kv ∈ d, P kv.2) (hins : P ins) (hf : ∀ v, P v → P (f v)) :
    ∀ kv ∈ upsert d key ins f, P kv.2 := by
  induction d with
  | nil => intro kv h; simp [upsert] at h; subst h; exact hins
  | cons kv rest ih =>
    obtain ⟨k, v⟩ := kv
    simp only [upsert]
    have hrest : ∀ kv ∈ rest, P kv.2 := fun kv h => hd kv (List.mem_cons_of_mem _ h)
    have hv : P v := hd (k, v) (List.mem_cons_self ..)
    by_cases hk : k == key
    · simp only [hk, if_true]
      intro kv h
      rcases List.mem_cons.1 h with h | h
      · subst h; exact hf v hv
      · exact hrest kv h
    · simp only [hk]
      intro kv h
      rcases List.mem_cons.1 h with h | h
      · subst h; exact hv
      · exact ih hrest kv h

/-! ### folding `upsert` over a second association list -/

/-- the common shape of `append` and `merge` -/
def foldUpsert (ins : κ × β → ν) (mod : κ × β → ν → ν) (d : Assoc κ ν) (o : Assoc κ β) : Assoc κ ν :=
  o.foldl (fun acc kb => acc.upsert kb.1 (ins kb) (mod kb)) d

theorem foldUpsert_nil (ins : κ × β → ν) (mod : κ × β → ν → ν) (d : Assoc κ ν) :
    foldUpsert ins mod d [] = d := rfl

theorem foldUpsert_cons (ins : κ × β → ν) (mod : κ × β → ν → ν) (d : Assoc κ ν) (kb : κ × β) (o : Assoc κ β) :
    foldUpsert ins mod d (kb :: o) = foldUpsert ins mod (d.upsert kb.1 (ins kb) (mod kb)) o := rfl

theorem lookup_foldUpsert (ins : κ × β → ν) (mod : κ × β → ν → ν) (d : Assoc κ ν) (o : Assoc κ β)
    (hn : (keys o).Nodup) (key : κ) :
    lookup (foldUpsert ins mod d o) key =
      match lookup o key with
      | none => lookup d key
      | some b => some (match lookup d key with | none => ins (key, b) | some v => mod (key, b) v) := by
  induction o generalizing d with
  | nil => simp [foldUpsert_nil]
  | cons kb rest ih =>
    obtain ⟨k, b⟩ := kb
    simp only [keys_cons, List.nodup_cons] at hn
    rw [foldUpsert_cons, ih _ hn.2, lookup_cons_L, lookup_upsert]
    by_cases hk : k == key
    · have e : k = key := eq_of_beq hk
      subst e
      have : lookup rest k = none := (lookup_eq_none_iff_L rest k).2 hn.1
      simp [this]
    · simp [hk]

theorem mem_keys_foldUpsert (ins : κ × β → ν) (mod : κ × β → ν → ν) (d : Assoc κ ν) (o : Assoc κ β) (key : κ) :
    key ∈ keys (foldUpsert ins mod d o) ↔ key ∈ keys d ∨ key ∈ keys o := by
  induction o generalizing d with
  | nil => simp [foldUpsert_nil]
  | cons kb rest ih =>
    rw [foldUpsert_cons, ih, mem_keys_upsert_L, keys_cons, List.mem_cons]
    constructor
    · rintro ((h | h) | h)
      · exact Or.inr (Or.inl h)
      · exact Or.inl h
      · exact Or.inr (Or.inr h)
    · rintro (h | h | h)
      · exact Or.inl (Or.inr h)
      · exact Or.inl (Or.inl h)
      · exact Or.inr h

theorem nodup_keys_foldUpsert (ins : κ × β → ν) (mod : κ × β → ν → ν) (d : Assoc κ ν) (o : Assoc κ β)
    (h : (keys d).Nodup) : (keys (foldUpsert ins mod d o)).Nodup := by
  induction o generalizing d with
  | nil => simpa [foldUpsert_nil] using h
  | cons kb rest ih =>
    rw [foldUpsert_cons]
    exact ih _ (nodup_keys_upsert_L _ _ _ h)

theorem forall_foldUpsert (P : ν → Prop) (ins : κ × β → ν) (mod : κ × β → ν → ν) (d : Assoc κ ν) (o : Assoc κ β)
    (hd : ∀ kv ∈ d, P kv.2) (hins : ∀ kb ∈ o, P (ins kb)) (hmod : ∀ kb ∈ o, ∀ v, P v → P (mod kb v)) :
    ∀ kv ∈ foldUpsert ins mod d o, P kv.2 := by
  induction o generalizing d with
  | nil => simpa [foldUpsert_nil] using hd
  | cons kb rest ih =>
    rw [foldUpsert_cons]
    refine ih _ ?_ (fun kb' h => hins kb' (List.mem_cons_of_mem _ h))
      (fun kb' h => hmod kb' (List.mem_cons_of_mem _ h))
    exact forall_upsert P _ _ _ hd (hins kb (List.mem_cons_self ..)) (hmod kb (List.mem_cons_self ..))

/-- two association lists with duplicate-free keys and the same `lookup` function are permutations -/
theorem perm_of_lookup_eq {d₁ d₂ : Assoc κ ν} (h₁ : (keys d₁).Nodup) (h₂ : (keys d₂).Nodup)
    (h : ∀ key, lookup d₁ key = lookup d₂ key) : d₁.Perm d₂ := by
  have nd : ∀ {d : Assoc κ ν}, (keys d).Nodup → d.Nodup := fun hd => by
    unfold keys at hd
    exact List.Pairwise.of_map (fun kv => kv.1) (fun a b hab e => hab (by rw [e])) hd
  rw [List.perm_ext_iff_of_nodup (nd h₁) (nd h₂)]
  intro ⟨k, v⟩
  constructor
  · intro hm
    have := lookup_of_mem_nodup h₁ hm
    rw [h] at this
    exact mem_of_lookup this
  · intro hm
    have := lookup_of_mem_nodup h₂ hm
    rw [← h] at this
    exact mem_of_lookup this

end SkaModel.Assoc
