/-
C18 completeness — the expected records are sound: the sequence `before ++ block ++ after` (or its reverse
complement) occurs in exactly the samples that keep the block, `before ++ after` in exactly those that delete
it; so REF occurs exactly in the samples genotyped `0` and ALT exactly in those genotyped `1` (`recSoundB`).
-/
import SkaModel.Lemmas.LOECheck

namespace SkaModel.LOE

open SkaModel SkaModel.Spec SkaModel.Props.C16 SkaModel.Skalo SkaModel.Props.C17G SkaModel.LOG SkaModel.LOC

theorem occursIn_iff (w s : List UInt8) :
    occursIn w s = true ↔ ∃ j, j + w.length ≤ s.length ∧ win s j w.length = w := by
  unfold occursIn
  rw [List.any_eq_true]
  constructor
  · rintro ⟨j, hj, e⟩
    rw [List.mem_range] at hj
    exact ⟨j, by omega, by simpa using e⟩
  · rintro ⟨j, hj, e⟩
    exact ⟨j, List.mem_range.mpr (by omega), by simpa using e⟩

theorem rcSeq_drop (w : List UInt8) (n : Nat) : (rcSeq w).drop n = rcSeq (w.take (w.length - n)) := by
  unfold rcSeq
  rw [← List.map_drop, List.drop_reverse]

namespace Ctx

variable {W k : Nat} {F : List UInt8} {B : List (Nat × Nat)} {C : List (List Bool)} {a : Arr} {names : List String}

/-- a sample in which a sequence `w` of at least `k` letters occurs has a window of `k` columns that spells the
first `k` letters of `w` -/
theorem occ_first (_cx : Ctx W k F B C a names) {c : List Bool} {w : List UInt8} (hwk : k ≤ w.length)
    (hocc : occursIn w (dsample F B c) = true) :
    ∃ u', IsWin k F.length B c u' ∧ lets F u' = w.take k := by
  obtain ⟨j, hj, e⟩ := (occursIn_iff _ _).mp hocc
  rw [dsample_length] at hj
  have hjk : j + k ≤ (keepCols F.length B c).length := by omega
  refine ⟨cwin (keepCols F.length B c) j k, ⟨j, hjk, rfl⟩, ?_⟩
  rw [← e, win_take _ _ _ _ hwk]
  unfold dsample lets
  rw [win_map]

/-- the reverse complement of a sequence whose first `k` letters are spelled by a window of a sample occurs in no
sample -/
theorem occ_rc (cx : Ctx W k F B C a names) {c c0 : List Bool} (hc : c ∈ C) (hc0 : c0 ∈ C) {u : List Nat}
    (hu : IsWin k F.length B c0 u) {w : List UInt8} (hwk : k ≤ w.length) (hw : w.take k = lets F u) :
    occursIn (rcSeq w) (dsample F B c) = false := by
  apply Bool.eq_false_iff.mpr
  intro hocc
  obtain ⟨j, hj, e⟩ := (occursIn_iff _ _).mp hocc
  rw [rcSeq_length] at hj e
  rw [dsample_length] at hj
  have hjk : j + (w.length - k) + k ≤ (keepCols F.length B c).length := by omega
  have hb : AllBase (lets F u) := map_getF_base cx.h.base (cx.isWin_lt hu)
  have e1 : lets F (cwin (keepCols F.length B c) (j + (w.length - k)) k) = rcSeq (lets F u) := by
    have h1 : win (dsample F B c) (j + (w.length - k)) k = (rcSeq w).drop (w.length - k) := by
      rw [← e, win_drop, show w.length - (w.length - k) = k by omega]
    rw [rcSeq_drop, show w.length - (w.length - k) = k by omega, hw] at h1
    rw [← h1]
    unfold dsample lets
    rw [win_map]
  have hu' : IsWin k F.length B c (cwin (keepCols F.length B c) (j + (w.length - k)) k) := ⟨_, hjk, rfl⟩
  exact cx.kwin_norc hc0 hc hu hu' (by rw [e1, cds_rcSeq hb])

/-- the sequence through block `t`, as the letters of a run of columns: from the entry node to the end of the
exit node -/
def w1 (k : Nat) (F : List UInt8) (B : List (Nat × Nat)) (t : Nat) : List UInt8 :=
  lets F (List.range' (eX k F B t) (bE B t + (k - 1) - eX k F B t))

/-- the sequence over block `t` -/
def w2 (k : Nat) (F : List UInt8) (B : List (Nat × Nat)) (t : Nat) : List UInt8 :=
  lets F (List.range' (eX k F B t) (bS B t - eX k F B t) ++ List.range' (bE B t) (k - 1))

theorem w1_eq (cx : Ctx W k F B C a names) {t : Nat} (ht : t < B.length) :
    lE k F B t ++ lI k F B t ++ lX k F B t = w1 k F B t ∧ lE2 k F B t ++ lI2 F B t ++ lX2 k F B t = w1 k F B t := by
  have hb := cx.h.bt ht
  have he := cx.ex_bounds ht
  have hk5 := cx.h.k5
  constructor
  · unfold lE lI lX w1
    rw [← lets_append, ← lets_append]
    congr 1
    have h1 := @List.range'_append_1 (eX k F B t) (k - 1) (bE B t - bS B t)
    rw [show eX k F B t + (k - 1) = bS B t + shf k F B t by omega] at h1
    have h2 := @List.range'_append_1 (eX k F B t) (k - 1 + (bE B t - bS B t)) (k - 1 - shf k F B t)
    rw [show eX k F B t + (k - 1 + (bE B t - bS B t)) = bE B t + shf k F B t by omega] at h2
    rw [h1, h2]
    congr 1
    omega
  · unfold lE2 lI2 lX2 w1
    rw [← lets_append, ← lets_append]
    congr 1
    have h1 := @List.range'_append_1 (eX k F B t) (bS B t - eX k F B t) (bE B t - bS B t)
    rw [show eX k F B t + (bS B t - eX k F B t) = bS B t by omega] at h1
    have h2 := @List.range'_append_1 (eX k F B t) (bS B t - eX k F B t + (bE B t - bS B t)) (k - 1)
    rw [show eX k F B t + (bS B t - eX k F B t + (bE B t - bS B t)) = bE B t by omega] at h2
    rw [h1, h2]
    congr 1
    omega

theorem w2_eq (cx : Ctx W k F B C a names) {t : Nat} (ht : t < B.length) :
    lE k F B t ++ lX k F B t = w2 k F B t ∧ lE2 k F B t ++ lX2 k F B t = w2 k F B t := by
  have hb := cx.h.bt ht
  have he := cx.ex_bounds ht
  have hk5 := cx.h.k5
  constructor
  · unfold lE lX w2
    have h1 := cx.h.lets_gap_cont ht (x := eX k F B t) (a := bS B t - eX k F B t) (r := shf k F B t) (by omega)
      (Nat.le_refl _)
    rw [show bS B t - eX k F B t + shf k F B t = k - 1 by omega] at h1
    rw [← h1, ← lets_append, List.append_assoc]
    congr 2
    have h2 := @List.range'_append_1 (bE B t) (shf k F B t) (k - 1 - shf k F B t)
    rw [h2]
    congr 1
    omega
  · unfold lE2 lX2 w2
    rw [← lets_append]

/-- **the sequence through block `t` (or its reverse complement) occurs exactly in the samples that keep the block** -/
theorem occ_keep (cx : Ctx W k F B C a names) {t : Nat} (ht : t < B.length) {c : List Bool} (hc : c ∈ C) :
    (occursIn (w1 k F B t) (dsample F B c) || occursIn (rcSeq (w1 k F B t)) (dsample F B c)) = c.getD t false := by
  have hb := cx.h.bt ht
  have he := cx.ex_bounds ht
  have hk5 := cx.h.k5
  obtain ⟨c0, hc0, hf0, _⟩ := cx.exists_keeper ht
  have hwin0 := (cx.isWin_keep ht c0 (x := eX k F B t) (y := bS B t) (by omega) (by omega) (by omega) (by omega)
      (by unfold inBlk; unfold bS bE at *; omega)).mpr hf0
  have hlen : (w1 k F B t).length = bE B t + (k - 1) - eX k F B t := by simp [w1, lets]
  have htake : (w1 k F B t).take k = lets F (List.range' (eX k F B t) k) := by
    have := cx.take_fa ht
    rwa [show k - 1 + 1 = k by omega, (cx.w1_eq ht).1] at this
  rw [cx.occ_rc hc hc0 hwin0 (by rw [hlen]; omega) htake, Bool.or_false]
  rw [Bool.eq_iff_iff]
  constructor
  · intro hocc
    obtain ⟨u', hu', e⟩ := cx.occ_first (c := c) (w := w1 k F B t) (by rw [hlen]; omega) hocc
    rw [htake] at e
    exact (cx.spell_keep_iff ht hc (x := eX k F B t) (y := bS B t) (by omega) (by omega) (by omega) (by omega)
      (by unfold inBlk; unfold bS bE at *; omega) (by omega)).mp ⟨u', hu', e⟩
  · intro hf
    rw [occursIn_iff, hlen]
    obtain ⟨j, hj1, hj2⟩ := win_cont F.length B c (x := eX k F B t) (n := bE B t + (k - 1) - eX k F B t)
      (by omega) (by
        intro y hy1 hy2
        by_cases hin : inBlk (B.getD t (0, 0)) y
        · rw [cx.h.keep_in c ht hin, hf]
        · exact cx.h.keep_near c ht (by unfold bS bE at *; omega) (by unfold bS bE at *; omega) hin)
    refine ⟨j, by rw [dsample_length]; exact hj1, ?_⟩
    unfold w1 dsample lets
    rw [win_map, hj2]

/-- **the sequence over block `t` (or its reverse complement) occurs exactly in the samples that delete the block** -/
theorem occ_del (cx : Ctx W k F B C a names) {t : Nat} (ht : t < B.length) {c : List Bool} (hc : c ∈ C) :
    (occursIn (w2 k F B t) (dsample F B c) || occursIn (rcSeq (w2 k F B t)) (dsample F B c)) = !c.getD t false := by
  have hb := cx.h.bt ht
  have he := cx.ex_bounds ht
  have hk5 := cx.h.k5
  obtain ⟨c0, hc0, hf0, _⟩ := cx.exists_deleter ht
  have hwin0 := (cx.isWin_del ht c0 (x := eX k F B t) (by omega) (by omega)).mpr hf0
  have hlen : (w2 k F B t).length = bS B t - eX k F B t + (k - 1) := by simp [w2, lets]
  have htake : (w2 k F B t).take k = lets F (List.range' (eX k F B t) (bS B t - eX k F B t) ++
      List.range' (bE B t) (k - (bS B t - eX k F B t))) := by
    have := cx.take_fb ht
    rwa [show k - 1 + 1 = k by omega, (cx.w2_eq ht).1] at this
  rw [cx.occ_rc hc hc0 hwin0 (by rw [hlen]; omega) htake, Bool.or_false]
  rw [Bool.eq_iff_iff]
  constructor
  · intro hocc
    obtain ⟨u', hu', e⟩ := cx.occ_first (c := c) (w := w2 k F B t) (by rw [hlen]; omega) hocc
    rw [htake] at e
    have := (cx.spell_del_iff ht hc (x := eX k F B t) (by omega) (by omega) (by omega)).mp ⟨u', hu', e⟩
    rw [this]; rfl
  · intro hf
    have hf' : c.getD t false = false := by simpa using hf
    rw [occursIn_iff, hlen]
    obtain ⟨j, hj1, hj2⟩ := cx.h.win_gap c ht hf' (x := eX k F B t) (n := bS B t - eX k F B t + (k - 1))
      (by omega) (by omega) (by omega)
    refine ⟨j, by rw [dsample_length]; exact hj1, ?_⟩
    unfold w2 dsample lets
    rw [win_map, hj2]
    congr 3
    omega

end Ctx

end SkaModel.LOE
