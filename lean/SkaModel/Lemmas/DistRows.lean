/-
Row-level facts for C14: constant rows, the site tests on unambiguous rows,
`distance` as a function of `names` and `variants` only.
-/
import SkaModel.Spec.Abs
import SkaModel.Lemmas.ZipFilter
import SkaModel.Lemmas.VariantDist
import SkaModel.Lemmas.FilterVariants

namespace SkaModel.DR

open SkaModel SkaModel.Spec SkaModel.VD SkaModel.FV SkaModel.ZipFilter

/-! ### `eraseDups` of a row with at most one distinct symbol -/

theorem eraseDups_eq_nil {l : List UInt8} (h : l.eraseDups = []) : l = [] := by
  cases l with
  | nil => rfl
  | cons a as => simp [List.eraseDups_cons] at h

theorem all_eq_of_eraseDups_le_one {l : List UInt8} (h : l.eraseDups.length ≤ 1) :
    ∀ x ∈ l, ∀ y ∈ l, x = y := by
  cases l with
  | nil => intro x hx; simp at hx
  | cons a as =>
    rw [List.eraseDups_cons] at h
    have h0 : (as.filter fun b => !b == a).eraseDups = [] := by
      apply List.eq_nil_of_length_eq_zero
      simp only [List.length_cons] at h; omega
    have h1 := eraseDups_eq_nil h0
    have hall : ∀ b ∈ as, b = a := by
      intro b hb
      have := (List.filter_eq_nil_iff.mp h1) b hb
      simpa using this
    have hall' : ∀ b ∈ a :: as, b = a := by
      intro b hb
      rcases List.mem_cons.mp hb with h | h
      · exact h
      · exact hall b h
    intro x hx y hy
    rw [hall' x hx, hall' y hy]

/-! ### Predicates on lists of rows -/

/-- every row has a non-gap cell -/
def RP (vs : List (List UInt8)) : Prop := ∀ row ∈ vs, ∃ b ∈ row, b ≠ GAP

theorem RP_filter {vs : List (List UInt8)} (h : RP vs) (p : List UInt8 → Bool) : RP (vs.filter p) :=
  fun row hr => h row (List.mem_filter.mp hr).1

theorem Unamb_filter {vs : List (List UInt8)} (h : Unambiguous vs) (p : List UInt8 → Bool) :
    Unambiguous (vs.filter p) :=
  fun row hr => h row (List.mem_filter.mp hr).1

theorem cellCount_pos {row : List UInt8} (h : ∃ b ∈ row, b ≠ GAP) : Arr.cellCount false row > 0 := by
  obtain ⟨b, hb, hne⟩ := h
  apply List.length_pos_of_mem (a := b)
  simp [List.mem_filter, hb, hne]

theorem cellCount_unamb {row : List UInt8} (h : ∀ b ∈ row, Base5 b) :
    Arr.cellCount true row = Arr.cellCount false row := by
  simp only [Arr.cellCount]
  congr 1
  apply List.filter_congr
  intro b hb
  simp [isAmbiguous_base5 (h b hb)]

theorem nonEmpty_of_RP {vs : List (List UInt8)} (h : RP vs) : nonEmpty false vs = vs := by
  apply List.filter_eq_self.mpr
  intro row hr
  simpa using cellCount_pos (h row hr)

theorem nonEmpty_true_of_RP {vs : List (List UInt8)} (h : RP vs) (hu : Unambiguous vs) :
    nonEmpty true vs = vs := by
  apply List.filter_eq_self.mpr
  intro row hr
  rw [cellCount_unamb (hu row hr)]
  simpa using cellCount_pos (h row hr)

/-! ### The site tests -/

theorem keepRow_noConst (row : List UInt8) :
    Arr.keepRow .noConst false row = decide (row.eraseDups.length > 1) := by
  have : row.filter (fun _ => true) = row := List.filter_eq_self.mpr (fun _ _ => rfl)
  simp [Arr.keepRow, Arr.distinct, this]

/-- the score function of the `NoAmbigOrConst` test with `ignore_const_gaps = false` -/
def scoreF (b : UInt8) : Nat :=
  let l := b ||| 0x20
  if l == 97 || l == 99 || l == 103 || l == 116 || l == 117 then 1
  else if l == 45 then (if false then 0 else 1)
  else 0

theorem keepRow_noAmbigOrConst (row : List UInt8) :
    Arr.keepRow .noAmbigOrConst false row = decide (((Arr.distinct row).map scoreF).sum > 1) := rfl

theorem scoreF_alphabet : ∀ b ∈ alphabet, scoreF b = 1 := by decide +kernel

theorem sum_map_one {α : Type} (f : α → Nat) (l : List α) (h : ∀ x ∈ l, f x = 1) :
    (l.map f).sum = l.length := by
  induction l with
  | nil => rfl
  | cons x xs ih =>
    simp only [List.map_cons, List.sum_cons, List.length_cons]
    rw [h x (by simp), ih (fun y hy => h y (by simp [hy]))]; omega

/-- on rows over {A,C,G,T,-} the `NoAmbigOrConst` test (gaps counted) is the `NoConst` test -/
theorem keepRow_unamb {row : List UInt8} (h : ∀ b ∈ row, Base5 b) :
    Arr.keepRow .noAmbigOrConst false row = Arr.keepRow .noConst false row := by
  rw [keepRow_noAmbigOrConst, keepRow_noConst, Arr.distinct]
  rw [sum_map_one scoreF row.eraseDups]
  intro b hb
  exact scoreF_alphabet b (base5_mem (h b (List.mem_eraseDups.mp hb)))

theorem maskV_unamb {vs : List (List UInt8)} (hu : Unambiguous vs) (mask : Bool) : maskV mask vs = vs := by
  cases mask
  · rfl
  · simp only [maskV, if_true]
    conv => rhs; rw [← List.map_id vs]
    apply List.map_congr_left
    intro row hr
    conv => rhs; rw [id, ← List.map_id row]
    apply List.map_congr_left
    intro b hb
    simp [isAmbiguous_base5 (hu row hr b hb)]

/-! ### Constant rows -/

/-- a row failing the `NoConst` test that has a non-gap cell is one base in every sample -/
theorem const_row {row : List UInt8} (hk : Arr.keepRow .noConst false row = false)
    (hp : ∃ b ∈ row, b ≠ GAP) : ∃ b, b ≠ GAP ∧ ∀ i, i < row.length → row.getD i GAP = b := by
  rw [keepRow_noConst] at hk
  have hle : row.eraseDups.length ≤ 1 := by simpa using hk
  obtain ⟨b, hb, hne⟩ := hp
  refine ⟨b, hne, fun i hi => ?_⟩
  rw [List.getD_eq_getElem?_getD, List.getElem?_eq_getElem hi, Option.getD_some]
  exact all_eq_of_eraseDups_le_one hle _ (List.getElem_mem hi) _ hb

/-! ### `distance` reads `names` and `variants` only -/

theorem distance_congr (a b : Arr) (c : Nat) (hn : a.names = b.names) (hv : a.variants = b.variants) :
    a.distance c = b.distance c := by
  simp only [Arr.distance, Arr.column, hn, hv]

theorem getD_base5 {row : List UInt8} (h : ∀ b ∈ row, Base5 b) (i : Nat) : Base5 (row.getD i GAP) := by
  rw [List.getD_eq_getElem?_getD]
  by_cases hi : i < row.length
  · rw [List.getElem?_eq_getElem hi, Option.getD_some]; exact h _ (List.getElem_mem hi)
  · rw [List.getElem?_eq_none (by omega), Option.getD_none]
    exact Or.inr (Or.inr (Or.inr (Or.inr rfl)))

end SkaModel.DR
