/-
C18 completeness — the setting of the theorem: a family of samples obtained from one sequence `F` by
deleting isolated blocks (`B`: start and length of every block, in `F`; `C`: one row of flags per sample,
flag `t` set = the sample keeps block `t`).  A block kept by some samples and deleted by the others is an
insertion of the former = a deletion of the latter.  A block whose letters repeat behind it can be deleted at
several placements with the same result (shift ambiguity): blocks are given at their LEFTMOST placement.  The
expected records, the hypotheses as one decidable condition.
-/
import SkaModel.Lemmas.LOEDefs

namespace SkaModel.LOE

open SkaModel SkaModel.Skalo SkaModel.Spec SkaModel.LOC

/-- column `x` of `F` is kept by the flags `c`: it lies in no block whose flag is off -/
def keepB (B : List (Nat × Nat)) (c : List Bool) (x : Nat) : Bool :=
  (List.range B.length).all (fun t =>
    c.getD t false || !(decide ((B.getD t (0, 0)).1 ≤ x) && decide (x < (B.getD t (0, 0)).1 + (B.getD t (0, 0)).2)))

/-- the columns of the sample with flags `c`, increasing -/
def keepCols (N : Nat) (B : List (Nat × Nat)) (c : List Bool) : List Nat := (List.range N).filter (keepB B c)

/-- the letter of `F` in column `x` -/
def getF (F : List UInt8) (x : Nat) : UInt8 := F.getD x 0

/-- the sample with flags `c` -/
def dsample (F : List UInt8) (B : List (Nat × Nat)) (c : List Bool) : List UInt8 :=
  (keepCols F.length B c).map (getF F)

/-- the samples of a flag matrix -/
def dsamples (F : List UInt8) (B : List (Nat × Nat)) (C : List (List Bool)) : List (List UInt8) :=
  C.map (dsample F B)

/-- all windows of `m` columns of all samples -/
def colWindows (m N : Nat) (B : List (Nat × Nat)) (C : List (List Bool)) : List (List Nat) :=
  C.flatMap (fun c =>
    let K := keepCols N B c
    (List.range (K.length + 1 - m)).map (fun j => (K.drop j).take m))

/-- the strict form of uniqueness (no shift-ambiguous block): two windows (of the same or of two samples) that
spell the same `m`-mer consist of the same columns of `F`, and no window spells the reverse complement of a window -/
def dalignedB (m : Nat) (F : List UInt8) (B : List (Nat × Nat)) (C : List (List Bool)) : Bool :=
  let ws := colWindows m F.length B C
  ws.all (fun a => ws.all (fun b =>
    (a.map (getF F) != b.map (getF F) || a == b) && a.map (getF F) != rcSeq (b.map (getF F))))

/-! ### shift-ambiguous blocks

A block `[b, e)` whose letters repeat behind it (`F[b+i] = F[e+i]` for `i < m`) can be deleted at `m + 1`
placements with the same result; blocks are given at their LEFTMOST placement, `m` is the shift. -/

/-- the number of positions by which the block `[b, e)` can slide to the right (at most `fuel`) -/
def shiftR (F : List UInt8) : Nat → Nat → Nat → Nat
  | _, _, 0 => 0
  | b, e, fuel + 1 => if getF F b == getF F e then shiftR F (b + 1) (e + 1) fuel + 1 else 0

/-- the shift of a block -/
def shOf (k : Nat) (F : List UInt8) (b : Nat × Nat) : Nat := shiftR F b.1 (b.1 + b.2) k

/-- the canonical columns of a window: the contiguous window at its first column when that spells the same -/
def canonW (F : List UInt8) (w : List Nat) : List Nat :=
  let c := List.range' (w.headD 0) w.length
  if w.map (getF F) == c.map (getF F) then c else w

/-- the `m`-mers of the samples are unique on both strands, occurrence-wise and up to shifts: two windows (of the
same or of two samples) that spell the same `m`-mer have the same canonical columns, and no window spells the
reverse complement of a window -/
def dalignedSB (m : Nat) (F : List UInt8) (B : List (Nat × Nat)) (C : List (List Bool)) : Bool :=
  let ws := colWindows m F.length B C
  ws.all (fun a => ws.all (fun b =>
    (a.map (getF F) != b.map (getF F) || canonW F a == canonW F b) && a.map (getF F) != rcSeq (b.map (getF F))))

/-- the hypotheses with every shift at most `maxSh`: `k` odd, `5 ≤ k`; `F` over A/C/G/T; at least two samples,
one flag per block; every block is kept by a sample and deleted by a sample; the blocks have `1 .. k-1` columns,
lie in increasing order, `4k` columns apart and `4k` columns from both ends; the `(k-1)`-mers of the samples
are unique on both strands up to shifts (`dalignedSB`) -/
def dplantedSB (k maxSh : Nat) (F : List UInt8) (B : List (Nat × Nat)) (C : List (List Bool)) : Bool :=
  decide (5 ≤ k) && decide (k % 2 = 1) && F.all isBase && decide (2 ≤ C.length) &&
  C.all (fun c => decide (c.length = B.length)) &&
  (List.range B.length).all (fun t => C.any (fun c => c.getD t false) && C.any (fun c => !c.getD t false)) &&
  B.all (fun b => decide (1 ≤ b.2) && decide (b.2 < k) && decide (4 * k ≤ b.1) &&
    decide (b.1 + b.2 + 4 * k ≤ F.length) && decide (shOf k F b ≤ maxSh)) &&
  B.Pairwise (fun b b' => b.1 + b.2 + 4 * k ≤ b'.1) &&
  dalignedSB (k - 1) F B C

/-- **the hypotheses of the theorem**: every shift at most `k - 3` -/
def dplantedB (k : Nat) (F : List UInt8) (B : List (Nat × Nat)) (C : List (List Bool)) : Bool :=
  dplantedSB k (k - 3) F B C

def DPlanted (k : Nat) (F : List UInt8) (B : List (Nat × Nat)) (C : List (List Bool)) : Prop :=
  dplantedB k F B C = true

instance (k : Nat) (F : List UInt8) (B : List (Nat × Nat)) (C : List (List Bool)) :
    Decidable (DPlanted k F B C) := inferInstanceAs (Decidable (_ = true))

/-- `(before, insert, after)` of the record of the bubble of block `b` (shift `m`) on the samples' strand: the
`(k-1)`-mer that ends at the rightmost placement, the block there, and the `k-1-m` letters behind it (for
`m = 0`: the `(k-1)`-mers before and after the block, and the block) -/
def dexpFw (k : Nat) (F : List UInt8) (b : Nat × Nat) : List UInt8 × List UInt8 × List UInt8 :=
  let m := shOf k F b
  (win F (b.1 + m - (k - 1)) (k - 1), win F (b.1 + m) b.2, win F (b.1 + b.2 + m) (k - 1 - m))

/-- the same on the other strand: the `(k-1)`-mer behind the leftmost placement, the block there, the `k-1-m`
letters before it, all reverse complemented -/
def dexpRv (k : Nat) (F : List UInt8) (b : Nat × Nat) : List UInt8 × List UInt8 × List UInt8 :=
  let m := shOf k F b
  (rcSeq (win F (b.1 + b.2) (k - 1)), rcSeq (win F b.1 b.2), rcSeq (win F (b.1 + m - (k - 1)) (k - 1 - m)))

/-- the expected record of block `t` on the samples' strand (`rv = false`) or on the other strand -/
def dexpRec (k : Nat) (F : List UInt8) (B : List (Nat × Nat)) (C : List (List Bool)) (t : Nat) (rv : Bool) : IndelRec :=
  expRec C t (if rv then dexpRv k F (B.getD t (0, 0)) else dexpFw k F (B.getD t (0, 0)))

/-- `recs` is one record per block, each read on one of the two strands, in any order -/
def RecsMatch (k : Nat) (F : List UInt8) (B : List (Nat × Nat)) (C : List (List Bool)) (recs : List IndelRec) : Prop :=
  ∃ flips : List Bool, flips.length = B.length ∧
    recs.Perm (flips.zipIdx.map (fun ft => dexpRec k F B C ft.2 ft.1))

/-- executable form of `RecsMatch` when the records of different blocks and strands differ (always the case
under the hypotheses): as many records as blocks, and for every block exactly one of its two records -/
def drecsMatchB (k : Nat) (F : List UInt8) (B : List (Nat × Nat)) (C : List (List Bool)) (recs : List IndelRec) : Bool :=
  decide (recs.length = B.length) &&
  (List.range B.length).all (fun t =>
    (recs.filter (fun r => r == dexpRec k F B C t false || r == dexpRec k F B C t true)).length == 1)

/-- the claim on one family and one setting -/
def dcompleteOn (W k : Nat) (F : List UInt8) (B : List (Nat × Nat)) (C : List (List Bool)) (a : Arr)
    (mNum mDen ik maxDepth : Nat) : Bool :=
  match lo W k C.length mNum mDen ik maxDepth a with
  | some ([], recs) => drecsMatchB k F B C recs
  | _ => false

/-- Stage 0, blocks of any shift: the records are exactly one per block with shift at most `maxSh`, none for the
other blocks -/
def drecsMatchSB (k maxSh : Nat) (F : List UInt8) (B : List (Nat × Nat)) (C : List (List Bool)) (recs : List IndelRec) : Bool :=
  decide (recs.length = (B.filter (fun b => decide (shOf k F b ≤ maxSh))).length) &&
  (List.range B.length).all (fun t =>
    (recs.filter (fun r => r == dexpRec k F B C t false || r == dexpRec k F B C t true)).length ==
      (if shOf k F (B.getD t (0, 0)) ≤ maxSh then 1 else 0))

/-- Stage 0: the blocks with shift `≤ k-3` are reported exactly once, the others (shift `k-2`) not at all -/
def dcompleteOnS (W k : Nat) (F : List UInt8) (B : List (Nat × Nat)) (C : List (List Bool)) (a : Arr)
    (mNum mDen ik maxDepth : Nat) : Bool :=
  match lo W k C.length mNum mDen ik maxDepth a with
  | some ([], recs) => drecsMatchSB k (k - 3) F B C recs
  | _ => false

/-- the family of inserts `(A, D, C)` in the deletion model: the sequence with all inserts and the blocks -/
def IFam.toF (f : IFam) : List UInt8 := sampleOf f.A f.D (List.replicate f.D.length true)
def IFam.toB (f : IFam) : List (Nat × Nat) :=
  (f.D.zipIdx.map (fun dt => (dt.1.1 + ((f.D.take dt.2).map (·.2.length)).sum, dt.1.2.length)))

end SkaModel.LOE
