/-
Generic facts about the association lists of `Impl/Assoc.lean` (lookup, upsert,
keys) for lawful key equality, and the closed form of the `extend` fold.
-/
import SkaModel.Impl.Assoc

set_option linter.unusedSectionVars false

namespace SkaModel.Assoc

variable {κ ν μ : Type} [BEq κ] [LawfulBEq κ]

@[simp] theorem keys_nil : keys ([] : Assoc κ ν) = [] := rfl
@[simp] theorem keys_cons (kv : κ × ν) (d : Assoc κ ν) : keys (kv :: d) = kv.1 :: keys d := rfl
@[simp] theorem keys_append (d e : Assoc κ ν) : keys (d ++ e) = keys d ++ keys e := by
  simp [keys]

theorem mem_keys_of_mem_J {d : Assoc κ ν} {kv : κ × ν} (h : kv ∈ d) : kv.1 ∈ keys d :=
  List.mem_map_of_mem h

theorem lookup_eq_none_of_not_mem {d : Assoc κ ν} {k : κ} (h : k ∉ keys d) : lookup d k = none := by
  induction d with
  | nil => rfl
  | cons kv d ih =>
    obtain ⟨k', v⟩ := kv
    simp only [keys_cons, List.mem_cons, not_or] at h
    have hne : (k' == k) = false := by
      simp only [beq_eq_false_iff_ne, ne_eq]; exact fun e => h.1 e.symm
    simp only [lookup, hne]
    exact ih h.2

theorem lookup_isSome_of_mem {d : Assoc κ ν} {k : κ} (h : k ∈ keys d) : ∃ v, lookup d k = some v ∧ (k, v) ∈ d := by
  induction d with
  | nil => simp at h
  | cons kv d ih =>
    obtain ⟨k', v⟩ := kv
    by_cases hk : k' = k
    · subst hk; exact ⟨v, by simp [lookup], by simp⟩
    · have hne : (k' == k) = false := by simpa using hk
      simp only [keys_cons, List.mem_cons] at h
      rcases h with h | h
      · exact absurd h.symm hk
      · obtain ⟨w, hw, hm⟩ := ih h
        exact ⟨w, by simp [lookup, hne, hw], List.mem_cons_of_mem _ hm⟩

theorem lookup_eq_none_iff_J {d : Assoc κ ν} {k : κ} : lookup d k = none ↔ k ∉ keys d := by
  constructor
  · intro h hm
    obtain ⟨v, hv, _⟩ := lookup_isSome_of_mem hm
    rw [h] at hv; cases hv
  · exact lookup_eq_none_of_not_mem

theorem lookup_of_mem {d : Assoc κ ν} (hn : (keys d).Nodup) {kv : κ × ν} (h : kv ∈ d) :
    lookup d kv.1 = some kv.2 := by
  induction d with
  | nil => simp at h
  | cons kv' d ih =>
    obtain ⟨k', v'⟩ := kv'
    simp only [keys_cons, List.nodup_cons] at hn
    simp only [List.mem_cons] at h
    rcases h with h | h
    · subst h; simp [lookup]
    · have hne : (k' == kv.1) = false := by
        simp only [beq_eq_false_iff_ne, ne_eq]
        intro e; exact hn.1 (e ▸ mem_keys_of_mem_J h)
      simp only [lookup, hne]
      exact ih hn.2 h

theorem mem_of_lookup_J {d : Assoc κ ν} {k : κ} {v : ν} (h : lookup d k = some v) : (k, v) ∈ d := by
  by_cases hm : k ∈ keys d
  · obtain ⟨w, hw, hmem⟩ := lookup_isSome_of_mem hm
    rw [h] at hw; cases hw; exact hmem
  · rw [lookup_eq_none_of_not_mem hm] at h; cases h

theorem lookup_map_val (g : ν → μ) (d : Assoc κ ν) (k : κ) :
    lookup (d.map (fun kv => (kv.1, g kv.2))) k = (lookup d k).map g := by
  induction d with
  | nil => rfl
  | cons kv d ih =>
    obtain ⟨k', v⟩ := kv
    simp only [List.map_cons, lookup]
    split
    · rfl
    · exact ih

theorem keys_map_val (g : κ × ν → μ) (d : Assoc κ ν) :
    keys (d.map (fun kv => (kv.1, g kv))) = keys d := by
  simp [keys, List.map_map, Function.comp_def]

theorem lookup_map_keys (ks : List κ) (g : κ → ν) (k : κ) :
    lookup (ks.map (fun k => (k, g k))) k = if k ∈ ks then some (g k) else none := by
  induction ks with
  | nil => rfl
  | cons k' ks ih =>
    simp only [List.map_cons, lookup]
    by_cases hk : k' = k
    · subst hk; simp
    · have hne : (k' == k) = false := by simpa using hk
      have hk' : ¬ k = k' := fun e => hk e.symm
      simp [hne, ih, hk']

theorem upsert_of_not_mem {d : Assoc κ ν} {k : κ} (ins : ν) (f : ν → ν) (h : k ∉ keys d) :
    upsert d k ins f = d ++ [(k, ins)] := by
  induction d with
  | nil => rfl
  | cons kv d ih =>
    obtain ⟨k', v⟩ := kv
    simp only [keys_cons, List.mem_cons, not_or] at h
    have hne : (k' == k) = false := by
      simp only [beq_eq_false_iff_ne, ne_eq]; exact fun e => h.1 e.symm
    simp only [upsert, hne, List.cons_append]
    rw [ih h.2]; rfl

theorem upsert_of_mem {d : Assoc κ ν} {k : κ} (ins : ν) (f : ν → ν) (hn : (keys d).Nodup) (h : k ∈ keys d) :
    upsert d k ins f = d.map (fun kv => if kv.1 == k then (kv.1, f kv.2) else kv) := by
  induction d with
  | nil => simp at h
  | cons kv d ih =>
    obtain ⟨k', v⟩ := kv
    simp only [keys_cons, List.nodup_cons] at hn
    by_cases hk : k' = k
    · subst hk
      simp only [upsert, List.map_cons, beq_self_eq_true, if_true]
      congr 1
      symm
      rw [List.map_congr_left (g := id)]
      · simp
      · intro x hx
        have : (x.1 == k') = false := by
          simp only [beq_eq_false_iff_ne, ne_eq]
          intro e; exact hn.1 (e ▸ mem_keys_of_mem_J hx)
        simp [this]
    · have hne : (k' == k) = false := by simpa using hk
      simp only [keys_cons, List.mem_cons] at h
      rcases h with h | h
      · exact absurd h.symm hk
      · simp only [upsert, hne, List.map_cons]
        rw [ih hn.2 h]; rfl

/-- closed form of the `extend` fold: the rows of `A` in order, each with the matching row of `B`
appended (nothing when `B` lacks the key), then the rows of `B` with new keys, left-padded -/
theorem extFold_eq {α : Type} (pad : List α) (A B : Assoc κ (List α))
    (hA : (keys A).Nodup) (hB : (keys B).Nodup) :
    B.foldl (fun acc kv => acc.upsert kv.1 (pad ++ kv.2) (fun row => row ++ kv.2)) A
      = A.map (fun kv => (kv.1, kv.2 ++ (lookup B kv.1).getD []))
        ++ (B.filter (fun kv => !(keys A).contains kv.1)).map (fun kv => (kv.1, pad ++ kv.2)) := by
  induction B generalizing A with
  | nil => simp [lookup]
  | cons kv B ih =>
    obtain ⟨k, v⟩ := kv
    simp only [keys_cons, List.nodup_cons] at hB
    simp only [List.foldl_cons]
    by_cases hk : k ∈ keys A
    · rw [upsert_of_mem _ _ hA hk]
      have hkeys : keys (A.map (fun kv => if kv.1 == k then (kv.1, kv.2 ++ v) else kv)) = keys A := by
        simp only [keys, List.map_map]
        apply List.map_congr_left
        intro x _; simp only [Function.comp_def]; split <;> rfl
      rw [ih _ (hkeys ▸ hA) hB.2, hkeys]
      have hf : (((k, v) :: B).filter (fun kv => !(keys A).contains kv.1)) = B.filter (fun kv => !(keys A).contains kv.1) := by
        simp [hk]
      rw [hf, List.map_map]
      congr 1
      apply List.map_congr_left
      intro x _
      simp only [Function.comp_def]
      by_cases hx : x.1 = k
      · have h1 : (x.1 == k) = true := by simpa using hx
        have h2 : (k == x.1) = true := by simpa using hx.symm
        simp only [h1, if_true, lookup, h2, Option.getD_some]
        rw [hx, lookup_eq_none_of_not_mem hB.1]
        simp
      · have h1 : (x.1 == k) = false := by simpa using hx
        have h2 : (k == x.1) = false := by simpa using fun e => hx (Eq.symm e)
        simp only [h1, lookup, h2]
        rfl
    · rw [upsert_of_not_mem _ _ hk]
      have hn' : (keys (A ++ [(k, pad ++ v)])).Nodup := by
        simp only [keys_append, keys_cons, keys_nil]
        rw [List.nodup_append]
        refine ⟨hA, by simp, ?_⟩
        intro a ha b hb
        simp only [List.mem_singleton] at hb
        subst hb; intro e; exact hk (e ▸ ha)
      rw [ih _ hn' hB.2]
      simp only [List.map_append, List.map_cons, List.map_nil, keys_append, keys_cons, keys_nil,
        List.append_assoc]
      have hnone : lookup B k = none := lookup_eq_none_of_not_mem hB.1
      have hf : (((k, v) :: B).filter (fun kv => !(keys A).contains kv.1))
          = (k, v) :: B.filter (fun kv => !(keys A).contains kv.1) := by
        simp [hk]
      rw [hf]
      congr 1
      · apply List.map_congr_left
        intro x hx
        have h2 : (k == x.1) = false := by
          simp only [beq_eq_false_iff_ne, ne_eq]
          intro e; exact hk (e ▸ mem_keys_of_mem_J hx)
        simp only [lookup, h2]
        rfl
      · simp only [hnone, Option.getD_none, List.append_nil, List.cons_append, List.nil_append,
          List.map_cons]
        congr 2
        apply List.filter_congr
        intro x hx
        have : ¬ x.1 = k := fun e => hB.1 (e ▸ mem_keys_of_mem_J hx)
        simp [this]

end SkaModel.Assoc
