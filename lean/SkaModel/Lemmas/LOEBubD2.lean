/-
C18 completeness — the graph of a deletion family is a graph of bubbles (`BG`): entry successors, arms,
predecessors, distinctness of the nodes.
-/
import SkaModel.Lemmas.LOEBubD1

namespace SkaModel.LOE

open SkaModel SkaModel.Spec SkaModel.Props.C16 SkaModel.Skalo SkaModel.Props.C17G SkaModel.LOG SkaModel.LOC

theorem nodup_map_on {α β : Type} (f : α → β) :
    ∀ (l : List α), l.Nodup → (∀ x ∈ l, ∀ y ∈ l, f x = f y → x = y) → (l.map f).Nodup := by
  intro l
  induction l with
  | nil => intro _ _; simp
  | cons a l ih =>
    intro hnd hinj
    rw [List.nodup_cons] at hnd
    rw [List.map_cons, List.nodup_cons]
    refine ⟨?_, ih hnd.2 (fun x hx y hy => hinj x (List.mem_cons_of_mem _ hx) y (List.mem_cons_of_mem _ hy))⟩
    intro hm
    obtain ⟨b, hb, e⟩ := List.mem_map.mp hm
    have := hinj b (List.mem_cons_of_mem _ hb) a (List.mem_cons_self ..) e
    rw [this] at hb
    exact hnd.1 hb

namespace Ctx

variable {W k : Nat} {F : List UInt8} {B : List (Nat × Nat)} {C : List (List Bool)} {a : Arr} {names : List String}

theorem nF_inj (cx : Ctx W k F B C a names) {n n' : Nd} (hv : n.valid k F.length B (shf k F B))
    (hv' : n'.valid k F.length B (shf k F B))
    (e : nF k F B n = nF k F B n') : n = n' := cx.h.nuF_inj hv hv' e

theorem nR_inj (cx : Ctx W k F B C a names) {n n' : Nd} (hv : n.valid k F.length B (shf k F B))
    (hv' : n'.valid k F.length B (shf k F B))
    (e : nR k F B n = nR k F B n') : n = n' := cx.h.nuR_inj hv hv' e

theorem cross (cx : Ctx W k F B C a names) {n n' : Nd} (hv : n.valid k F.length B (shf k F B))
    (hv' : n'.valid k F.length B (shf k F B)) :
    nF k F B n ≠ nR k F B n' := cx.h.nuF_ne_nuR hv hv'

theorem bS_inj (cx : Ctx W k F B C a names) {t t' : Nat} (ht : t < B.length) (ht' : t' < B.length)
    (e : bS B t = bS B t') : t = t' := by
  apply Classical.byContradiction
  intro hne
  have hb := cx.h.bt ht
  have hb' := cx.h.bt ht'
  have := cx.h.sep_ne ht ht' hne
  unfold bS bE at *
  omega

theorem bE_inj (cx : Ctx W k F B C a names) {t t' : Nat} (ht : t < B.length) (ht' : t' < B.length)
    (e : bE B t = bE B t') : t = t' := by
  apply Classical.byContradiction
  intro hne
  have hb := cx.h.bt ht
  have hb' := cx.h.bt ht'
  have := cx.h.sep_ne ht ht' hne
  unfold bS bE at *
  omega

/-! ### the nodes of the arms -/

theorem mem_fa (t : Nat) (X : Nat) : X ∈ (fwdBub k F B t).a ↔
    ∃ y, eX k F B t + 1 ≤ y ∧ y < eX k F B t + 1 + (bE B t - eX k F B t - 1) ∧ X = nF k F B (.c y) := by
  simp only [fwdBub, List.mem_map, List.mem_range'_1]
  constructor
  · rintro ⟨y, ⟨h1, h2⟩, rfl⟩; exact ⟨y, h1, h2, rfl⟩
  · rintro ⟨y, h1, h2, rfl⟩; exact ⟨y, ⟨h1, h2⟩, rfl⟩

theorem mem_fb (t : Nat) (X : Nat) : X ∈ (fwdBub k F B t).b ↔
    ∃ y, eX k F B t + 1 ≤ y ∧ y < eX k F B t + 1 + (bS B t - eX k F B t - 1) ∧ X = nF k F B (.g t y) := by
  simp only [fwdBub, List.mem_map, List.mem_range'_1]
  constructor
  · rintro ⟨y, ⟨h1, h2⟩, rfl⟩; exact ⟨y, h1, h2, rfl⟩
  · rintro ⟨y, h1, h2, rfl⟩; exact ⟨y, ⟨h1, h2⟩, rfl⟩

theorem mem_ra (t : Nat) (X : Nat) : X ∈ (revBub k F B t).a ↔
    ∃ y, eX k F B t + 1 ≤ y ∧ y < eX k F B t + 1 + (bE B t - eX k F B t - 1) ∧ X = nR k F B (.c y) := by
  simp only [revBub, List.mem_map, List.mem_reverse, List.mem_range'_1]
  constructor
  · rintro ⟨y, ⟨h1, h2⟩, rfl⟩; exact ⟨y, h1, h2, rfl⟩
  · rintro ⟨y, h1, h2, rfl⟩; exact ⟨y, ⟨h1, h2⟩, rfl⟩

theorem mem_rb (t : Nat) (X : Nat) : X ∈ (revBub k F B t).b ↔
    ∃ y, eX k F B t + 1 ≤ y ∧ y < eX k F B t + 1 + (bS B t - eX k F B t - 1) ∧ X = nR k F B (.g t y) := by
  simp only [revBub, List.mem_map, List.mem_reverse, List.mem_range'_1]
  constructor
  · rintro ⟨y, ⟨h1, h2⟩, rfl⟩; exact ⟨y, h1, h2, rfl⟩
  · rintro ⟨y, h1, h2, rfl⟩; exact ⟨y, ⟨h1, h2⟩, rfl⟩

/-- heads and last nodes of the arms -/
theorem heads (cx : Ctx W k F B C a names) {t : Nat} (ht : t < B.length) :
    (fwdBub k F B t).ha = nF k F B (.c (eX k F B t + 1)) ∧
    (fwdBub k F B t).hb = nF k F B (.g t (eX k F B t + 1)) ∧
    (fwdBub k F B t).la = nF k F B (.c (bE B t - 1)) ∧
    (fwdBub k F B t).lb = nF k F B (.g t (bS B t - 1)) ∧
    (revBub k F B t).ha = nR k F B (.c (bE B t - 1)) ∧
    (revBub k F B t).hb = nR k F B (.g t (bS B t - 1)) ∧
    (revBub k F B t).la = nR k F B (.c (eX k F B t + 1)) ∧
    (revBub k F B t).lb = nR k F B (.g t (eX k F B t + 1)) := by
  have hb := cx.h.bt ht
  have he := cx.ex_bounds ht
  have hk5 := cx.h.k5
  unfold Bub.ha Bub.hb Bub.la Bub.lb fwdBub revBub
  simp only
  refine ⟨headD_map_range' _ _ _ _ (by omega), headD_map_range' _ _ _ _ (by omega), ?_, ?_, ?_, ?_,
    getLastD_map_range'_rev _ _ _ _ (by omega), getLastD_map_range'_rev _ _ _ _ (by omega)⟩
  · rw [getLastD_map_range' _ _ _ _ (by omega)]
    congr 2; omega
  · rw [getLastD_map_range' _ _ _ _ (by omega)]
    congr 2; omega
  · rw [headD_map_range'_rev _ _ _ _ (by omega)]
    congr 2; omega
  · rw [headD_map_range'_rev _ _ _ _ (by omega)]
    congr 2; omega

/-- validity of the nodes of a bubble -/
theorem vc (cx : Ctx W k F B C a names) {t : Nat} (ht : t < B.length) {y : Nat} (hy : y ≤ bE B t + 3 * k) :
    (Nd.c y).valid k F.length B (shf k F B) := by
  have hb := cx.h.bt ht
  have hk5 := cx.h.k5
  show y + (k - 1) ≤ F.length
  omega

theorem vg (cx : Ctx W k F B C a names) {t : Nat} (ht : t < B.length) {y : Nat}
    (h1 : eX k F B t + 1 ≤ y) (h2 : y < bS B t) : (Nd.g t y).valid k F.length B (shf k F B) := by
  have hb := cx.h.bt ht
  have he := cx.ex_bounds ht
  have hk5 := cx.h.k5
  exact ⟨ht, by omega, h2⟩

end Ctx

end SkaModel.LOE
