/-
Generic facts about enumerating the elements of `List.range n` that satisfy a
Boolean predicate by repeatedly taking "the least one from here on".
-/

namespace SkaModel.Lemmas

/-- `j` is the least `j ≥ a` with `p j` -/
def LeastFrom (p : Nat → Bool) (a j : Nat) : Prop :=
  a ≤ j ∧ p j = true ∧ ∀ j', a ≤ j' → j' < j → p j' = false

/-- no `j ≥ a` satisfies `p` -/
def NoneFrom (p : Nat → Bool) (a : Nat) : Prop :=
  ∀ j, a ≤ j → p j = false

/-- the elements of `[a, n)` satisfying `p`, in increasing order -/
def filterFrom (p : Nat → Bool) (n a : Nat) : List Nat :=
  (List.range' a (n - a)).filter p

theorem filterFrom_zero (p : Nat → Bool) (n : Nat) :
    filterFrom p n 0 = (List.range n).filter p := by
  unfold filterFrom
  rw [List.range_eq_range']
  rfl

theorem filterFrom_of_ge (p : Nat → Bool) (n a : Nat) (h : n ≤ a) :
    filterFrom p n a = [] := by
  unfold filterFrom
  have : n - a = 0 := by omega
  rw [this]
  rfl

theorem filterFrom_step (p : Nat → Bool) (n a : Nat) (h : a < n) :
    filterFrom p n a = if p a then a :: filterFrom p n (a + 1) else filterFrom p n (a + 1) := by
  unfold filterFrom
  have : n - a = (n - (a + 1)) + 1 := by omega
  rw [this, List.range'_succ, List.filter_cons]

theorem filterFrom_cons (p : Nat → Bool) (n a : Nat) (h : a < n) (hp : p a = true) :
    filterFrom p n a = a :: filterFrom p n (a + 1) := by
  rw [filterFrom_step p n a h, hp]
  rfl

/-- skipping a stretch where `p` is false -/
theorem filterFrom_skip (p : Nat → Bool) (n a : Nat) (d : Nat)
    (hf : ∀ j, a ≤ j → j < a + d → p j = false) :
    filterFrom p n a = filterFrom p n (a + d) := by
  induction d generalizing a with
  | zero => rfl
  | succ d ih =>
    by_cases h : a < n
    · rw [filterFrom_step p n a h, hf a (Nat.le_refl _) (by omega)]
      have := ih (a + 1) (fun j h1 h2 => hf j (by omega) (by omega))
      rw [show a + (d + 1) = a + 1 + d by omega]
      simpa using this
    · rw [filterFrom_of_ge p n a (by omega), filterFrom_of_ge p n _ (by omega)]

theorem filterFrom_skip_to (p : Nat → Bool) (n a b : Nat) (hab : a ≤ b)
    (hf : ∀ j, a ≤ j → j < b → p j = false) :
    filterFrom p n a = filterFrom p n b := by
  have := filterFrom_skip p n a (b - a) (fun j h1 h2 => hf j h1 (by omega))
  rw [this, show a + (b - a) = b by omega]

theorem filterFrom_none (p : Nat → Bool) (n a : Nat) (hf : NoneFrom p a) :
    filterFrom p n a = [] := by
  rw [filterFrom_skip_to p n a (max a n) (by omega) (fun j h1 _ => hf j h1)]
  exact filterFrom_of_ge p n _ (by omega)

/-- the head of the enumeration from `a` is the least element from `a` -/
theorem filterFrom_least (p : Nat → Bool) (n a j : Nat) (hj : LeastFrom p a j) (hjn : j < n) :
    filterFrom p n a = j :: filterFrom p n (j + 1) := by
  rw [filterFrom_skip_to p n a j hj.1 hj.2.2]
  exact filterFrom_cons p n j hjn hj.2.1

end SkaModel.Lemmas
