/-
C18 completeness — the table, the edges of the graph and the colours for a family of samples of DIFFERENT
lengths (the analogues of `LOCArr.lean`, `mem_allEdges_fam`, `colour_fam`, which are stated for samples of
one length).
-/
import SkaModel.Lemmas.LOCColour

namespace SkaModel.LOE

open SkaModel SkaModel.Spec SkaModel.Props.C16 SkaModel.Skalo SkaModel.SNP SkaModel.LOG SkaModel.LOC

/-- all samples consist of A, C, G, T -/
def VFam (S : List (List UInt8)) : Prop := ∀ s ∈ S, AllBase s

theorem mem_windows_base {s : List UInt8} (hb : AllBase s) (k j : Nat) :
    j ∈ windows k s.toArray ↔ j + k ≤ s.length := by
  rw [mem_windows]
  simp only [List.size_toArray]
  constructor
  · exact fun h => h.1
  · intro h
    refine ⟨h, ?_⟩
    intro t ht
    apply acgt_valid
    rw [toArray_getD]
    exact hb _ (getD_mem' (by omega))

theorem mem_keysOf_var {S : List (List UInt8)} (h : VFam S) (k : Nat) (key : Nat) :
    key ∈ keysOf k true (Sa S) ↔ ∃ s ∈ S, ∃ j, j + k ≤ s.length ∧ (obs k true s.toArray j).1 = key := by
  unfold keysOf
  rw [List.mem_eraseDups]
  simp only [List.mem_flatMap, List.mem_map]
  constructor
  · rintro ⟨o, ⟨s', hs', rfl⟩, ⟨x, hx, rfl⟩⟩
    obtain ⟨s, hs, rfl⟩ := List.mem_map.mp hs'
    rw [mem_observations_single] at hx
    obtain ⟨j, hj, rfl⟩ := hx
    exact ⟨s, hs, j, (mem_windows_base (h s hs) k j).mp hj, rfl⟩
  · rintro ⟨s, hs, j, hj, rfl⟩
    refine ⟨_, ⟨s.toArray, List.mem_map.mpr ⟨s, hs, rfl⟩, rfl⟩,
      ((obs k true s.toArray j).1, obsMask k true s.toArray j), ?_, rfl⟩
    rw [mem_observations_single]
    exact ⟨j, (mem_windows_base (h s hs) k j).mpr hj, rfl⟩

section
variable {a : Arr} {k : Nat} {names : List String} {S : List (List UInt8)}

theorem mem_keys_var (ha : IsArrOf a k names S) (h : VFam S) (key : Nat) :
    key ∈ a.kmers ↔ ∃ s ∈ S, ∃ j, j + k ≤ s.length ∧ (obs k true s.toArray j).1 = key := by
  rw [ha.kmers_perm.mem_iff, mem_keysOf_var h]

theorem hkeys_var (ha : IsArrOf a k names S) (h : VFam S) (hk : k = 2 * halfK k + 1) :
    ∀ key ∈ a.kmers, key < 4 ^ (k - 1) := by
  intro key hkey
  obtain ⟨s, hs, j, hj, rfl⟩ := (mem_keys_var ha h key).mp hkey
  obtain ⟨u, c, l, _, hu, hl, hcu, hcl, _, hkey', _⟩ := obs_canon (s := s) (j := j) hj hk
  rw [hkey']
  have := packL_lt (Codes.append hcu hcl)
  rw [List.length_append, hu, hl] at this
  have e : k - 1 = halfK k + halfK k := by omega
  rw [e]
  exact this

theorem hcanon_var (ha : IsArrOf a k names S) (h : VFam S) (hk : k = 2 * halfK k + 1) :
    ∀ key ∈ a.kmers, key ≤ LORL.rcKey k key := by
  intro key hkey
  obtain ⟨s, hs, j, hj, rfl⟩ := (mem_keys_var ha h key).mp hkey
  exact key_le_rcKey hk

/-- the samples showing base `n` in the row with arms `u`, `l` -/
theorem mem_samplesOf_row_var (ha : IsArrOf a k names S) (h : VFam S) (hk : k = 2 * halfK k + 1)
    (kv : Nat × List UInt8) (hkv : kv ∈ a.kmers.zip a.variants)
    (u l : List Nat) (e : kv.1 = packL (u ++ l)) (hu : u.length = halfK k) (hl : l.length = halfK k)
    (hcu : Codes u) (hcl : Codes l) (n : UInt8) (hn4 : n ∈ ([65, 67, 71, 84] : List UInt8)) (i : Nat) :
    i ∈ samplesOf kv.2 n ↔ ∃ s, S[i]? = some s ∧ Shows k s u n l := by
  have hcan : packL (u ++ l) ≤ packL (rcCodes (u ++ l)) := by
    have := hcanon_var ha h hk kv.1 (List.of_mem_zip hkv).1
    rw [e, LORL.rcKey_arms k u l hcu hcl (by rw [List.length_append, hu, hl]; omega)] at this
    rw [rcCodes_append]
    exact this
  rw [mem_samplesOf]
  constructor
  · rintro ⟨hi, h1, h2⟩
    have hlen : kv.2.length = S.length := by rw [ha.row_cells kv hkv]; simp
    have hi' : i < S.length := by omega
    have hs : S[i]? = some S[i] := List.getElem?_eq_getElem hi'
    obtain ⟨_, hc⟩ := ha.row_getD kv hkv i _ hs
    rw [hc, e] at h1 h2
    have hmem : S[i] ∈ S := List.getElem_mem hi'
    exact ⟨S[i], hs, (cell_shows (h _ hmem) hk u l hu hl hcu hcl hcan n hn4).mp ⟨h1, h2⟩⟩
  · rintro ⟨s, hs, hsh⟩
    obtain ⟨hi, hc⟩ := ha.row_getD kv hkv i s hs
    have hmem : s ∈ S := List.mem_of_getElem? hs
    have := (cell_shows (h _ hmem) hk u l hu hl hcu hcl hcan n hn4).mpr hsh
    rw [← e, ← hc] at this
    exact ⟨hi, this⟩

/-- the bases shown in the row with arms `u`, `l` -/
theorem mem_shown_row_var (ha : IsArrOf a k names S) (h : VFam S) (hk : k = 2 * halfK k + 1)
    (kv : Nat × List UInt8) (hkv : kv ∈ a.kmers.zip a.variants)
    (u l : List Nat) (e : kv.1 = packL (u ++ l)) (hu : u.length = halfK k) (hl : l.length = halfK k)
    (hcu : Codes u) (hcl : Codes l) (n : UInt8) :
    n ∈ shownBases kv.2 ↔ n ∈ ([65, 67, 71, 84] : List UInt8) ∧ ∃ s ∈ S, Shows k s u n l := by
  rw [mem_shownBases]
  constructor
  · rintro ⟨hn4, i, hi, h1, h2⟩
    obtain ⟨s, hs, hsh⟩ := (mem_samplesOf_row_var ha h hk kv hkv u l e hu hl hcu hcl n hn4 i).mp
      ((mem_samplesOf kv.2 n i).mpr ⟨hi, h1, h2⟩)
    exact ⟨hn4, s, List.mem_of_getElem? hs, hsh⟩
  · rintro ⟨hn4, s, hs, hsh⟩
    obtain ⟨i, hi, rfl⟩ := List.getElem_of_mem hs
    have := (mem_samplesOf_row_var ha h hk kv hkv u l e hu hl hcu hcl n hn4 i).mpr
      ⟨S[i], List.getElem?_eq_getElem hi, hsh⟩
    exact ⟨hn4, i, (mem_samplesOf kv.2 n i).mp this⟩

/-- every window of every sample is shown in a row of the table -/
theorem row_of_window_var (ha : IsArrOf a k names S) (h : VFam S) (hk : k = 2 * halfK k + 1)
    (s : List UInt8) (hs : s ∈ S) (j : Nat) (hj' : j + k ≤ s.length) :
    ∃ kv ∈ a.kmers.zip a.variants, ∃ u l n,
      kv.1 = packL (u ++ l) ∧ u.length = halfK k ∧ l.length = halfK k ∧ Codes u ∧ Codes l ∧
      n ∈ shownBases kv.2 ∧ canonC k s j = u ++ [code n] ++ l := by
  obtain ⟨u, c, l, hc, hu, hl, hcu, hcl, hc4, hkey, _⟩ := obs_canon hj' hk
  have hmem : (obs k true s.toArray j).1 ∈ a.kmers := (mem_keys_var ha h _).mpr ⟨s, hs, j, hj', rfl⟩
  rw [ha.kmers_perm.mem_iff] at hmem
  have hrow : ((obs k true s.toArray j).1, rowOf k true (Sa S) (obs k true s.toArray j).1) ∈
      a.kmers.zip a.variants := (ha.mem_rows _).mpr ⟨_, hmem, rfl⟩
  have hcode : code (decodeBase c) = c := code_decodeBase hc4
  refine ⟨_, hrow, u, l, decodeBase c, hkey, hu, hl, hcu, hcl, ?_, by rw [hcode]; exact hc⟩
  rw [mem_shown_row_var ha h hk _ hrow u l hkey hu hl hcu hcl]
  refine ⟨decodeBase_mem4 c, s, hs, j, hj', ?_⟩
  rw [hcode, ← hc]
  rcases canonC_cases k s j with h1 | h1
  · exact Or.inl h1.symm
  · right; rw [h1]

/-- **the edges of the graph of the table of a family of samples of any lengths** -/
theorem mem_allEdges_var (ha : IsArrOf a k names S) (h : VFam S) (hk : ValidK k) {W : Nat} (hw : WidthOk W k)
    (x : Nat × Nat) :
    x ∈ allEdges W a ↔
      ∃ s ∈ S, ∃ j, j + k ≤ s.length ∧ (x = (fN k s j, fN k s (j + 1)) ∨ x = (rN k s (j + 1), rN k s j)) := by
  obtain ⟨hh2, hkh, hkW⟩ := validK_bounds hk hw
  have hka := ha.hk
  have hk' : ValidK a.k := by rw [hka]; exact hk
  have hw' : WidthOk W a.k := by rw [hka]; exact hw
  have hkeys : ∀ key ∈ a.kmers, key < 4 ^ (a.k - 1) := by rw [hka]; exact hkeys_var ha h hkh
  unfold allEdges
  rw [List.mem_flatMap]
  constructor
  · rintro ⟨kv, hkv, hx⟩
    obtain ⟨u, l, e, hu, hl, hcu, hcl⟩ := LORL.row_arms W a hk' hw' hkeys kv hkv
    rw [hka] at hu hl hx
    rw [e, rowGraph_spec' W k hk hw u l hu hl hcu hcl] at hx
    simp only [List.mem_flatMap] at hx
    obtain ⟨n, hn, hx⟩ := hx
    obtain ⟨_, s, hs, j, hj, hc⟩ := (mem_shown_row_var ha h hkh kv hkv u l e hu hl hcu hcl n).mp hn
    exact ⟨s, hs, j, hj, (mem_edgesOf_window (by omega) hj u l n hc x).mp hx⟩
  · rintro ⟨s, hs, j, hj, hx⟩
    obtain ⟨kv, hkv, u, l, n, e, hu, hl, hcu, hcl, hn, hc⟩ := row_of_window_var ha h hkh s hs j hj
    refine ⟨kv, hkv, ?_⟩
    rw [hka, e, rowGraph_spec' W k hk hw u l hu hl hcu hcl]
    simp only [List.mem_flatMap]
    have hc' : cds (win s j k) = u ++ [code n] ++ l ∨ rcCodes (cds (win s j k)) = u ++ [code n] ++ l := by
      rw [← hc]
      rcases canonC_cases k s j with h1 | h1
      · exact Or.inl h1.symm
      · right; rw [h1]
    exact ⟨n, hn, (mem_edgesOf_window (by omega) hj u l n hc' x).mpr hx⟩

/-- **colours of the table of a family of samples of any lengths** -/
theorem colour_var (ha : IsArrOf a k names S) (h : VFam S) (hk : ValidK k) {W : Nat} (hw : WidthOk W k)
    (s : List UInt8) (hs : s ∈ S) (j : Nat) (hj : j + k ≤ s.length) (F : List Nat)
    (hF : F = cds (win s j k) ∨ F = rcCodes (cds (win s j k))) :
    ∃ Cs : List Nat,
      Assoc.lookup (buildGraph W a).2 (packL F) = some Cs ∧ Cs.Pairwise (· < ·) ∧
      ∀ i, i ∈ Cs ↔ ∃ t, S[i]? = some t ∧ ∃ j', j' + k ≤ t.length ∧
        (cds (win t j' k) = cds (win s j k) ∨ cds (win t j' k) = rcCodes (cds (win s j k))) := by
  obtain ⟨hh2, hkh, hkW⟩ := validK_bounds hk hw
  have hka := ha.hk
  have hk' : ValidK a.k := by rw [hka]; exact hk
  have hw' : WidthOk W a.k := by rw [hka]; exact hw
  have hkeys : ∀ key ∈ a.kmers, key < 4 ^ (a.k - 1) := by rw [hka]; exact hkeys_var ha h hkh
  have hlenc : (cds (win s j k)).length = k := by rw [cds_length, win_length hj]
  have hFc : Codes F ∧ F.length = k := by
    rcases hF with e | e <;> rw [e]
    · exact ⟨cds_codes _, hlenc⟩
    · exact ⟨rcCodes_codes (cds_codes _), by rw [rcCodes_length]; exact hlenc⟩
  obtain ⟨kv, hkv, u, l, n, e, hu, hl, hcu, hcl, hn, hc⟩ := row_of_window_var ha h hkh s hs j hj
  have hcomp := LORL.colour_complete W a hk' hw' hkeys kv hkv u l e (by rw [hka]; exact hu) (by rw [hka]; exact hl)
    hcu hcl n hn
  rw [← hc] at hcomp
  have hex : ∃ S', Assoc.lookup (buildGraph W a).2 (packL F) = some S' := by
    rcases canonC_cases k s j with h1 | h1 <;> rcases hF with e' | e' <;> rw [e']
    · rw [← h1]; exact hcomp.1
    · rw [← h1]; exact hcomp.2
    · have : cds (win s j k) = rcCodes (canonC k s j) := by rw [h1, rcCodes_rcCodes]
      rw [this]; exact hcomp.2
    · rw [← h1]; exact hcomp.1
  obtain ⟨S', hS'⟩ := hex
  obtain ⟨kv', hkv', u', l', e', hu', hl', hcu', hcl', n', hn', hf', hSeq, _, _⟩ :=
    LORL.colour_sound W a hk' hw' hkeys _ _ hS'
  rw [hka] at hu' hl'
  have hn4 : n' ∈ ([65, 67, 71, 84] : List UInt8) := ((mem_shownBases kv'.2 n').mp hn').1
  have hfull : (u' ++ [code n'] ++ l') = F ∨ (u' ++ [code n'] ++ l') = rcCodes F := by
    have hcF := full_codes hcu' hcl' n'
    have hlF : (u' ++ [code n'] ++ l').length = k := full_length hu' hl' hkh (code n')
    rcases hf' with h1 | h1
    · left
      exact (packL_inj hFc.1 hcF (by rw [hFc.2, hlF]) h1).symm
    · right
      have := packL_inj hFc.1 (rcCodes_codes hcF) (by rw [hFc.2, rcCodes_length, hlF]) h1
      rw [this, rcCodes_rcCodes]
  have hfull' : (u' ++ [code n'] ++ l') = cds (win s j k) ∨ (u' ++ [code n'] ++ l') = rcCodes (cds (win s j k)) := by
    rcases hfull with h1 | h1 <;> rcases hF with h2 | h2 <;> rw [h1, h2]
    · exact Or.inl rfl
    · exact Or.inr rfl
    · exact Or.inr rfl
    · left; rw [rcCodes_rcCodes]
  refine ⟨S', hS', by rw [hSeq]; exact samplesOf_pairwise _ _, ?_⟩
  intro i
  rw [hSeq, mem_samplesOf_row_var ha h hkh kv' hkv' u' l' e' hu' hl' hcu' hcl' n' hn4 i]
  constructor
  · rintro ⟨t, ht, j', hj', hsh⟩
    exact ⟨t, ht, j', hj', (strands_iff hfull').mp hsh⟩
  · rintro ⟨t, ht, j', hj', hsh⟩
    exact ⟨t, ht, j', hj', (strands_iff hfull').mpr hsh⟩

end

end SkaModel.LOE
