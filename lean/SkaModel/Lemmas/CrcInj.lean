/-
CRC-32C as an injective (and GF(2)-linear) state machine: single-byte errors
are always detected; the Snappy mask is injective.
-/
import SkaModel.Impl.Crc32c

namespace SkaModel.FR

open SkaModel

theorem xor_cancel_right {a b p : Nat} (h : a ^^^ p = b ^^^ p) : a = b := by
  have := congrArg (· ^^^ p) h
  simpa [Nat.xor_assoc] using this

theorem xor_cancel_left {a b p : Nat} (h : p ^^^ a = p ^^^ b) : a = b := by
  rw [Nat.xor_comm p a, Nat.xor_comm p b] at h
  exact xor_cancel_right h

theorem crcBit_lt {c : Nat} (h : c < 2 ^ 32) : crcBit c < 2 ^ 32 := by
  unfold crcBit
  have h2 : c / 2 < 2 ^ 32 := by omega
  split
  · exact Nat.xor_lt_two_pow h2 (by decide)
  · exact h2

/-- the polynomial has bit 31 set, a halved state does not -/
theorem testBit31_xor_poly {h : Nat} (hh : h < 2 ^ 31) : (h ^^^ 0x82F63B78).testBit 31 = true := by
  rw [Nat.testBit_xor, Nat.testBit_lt_two_pow hh]
  decide

theorem crcBit_inj {x y : Nat} (hx : x < 2 ^ 32) (hy : y < 2 ^ 32) (h : crcBit x = crcBit y) : x = y := by
  unfold crcBit at h
  have hx2 : x / 2 < 2 ^ 31 := by omega
  have hy2 : y / 2 < 2 ^ 31 := by omega
  split at h <;> split at h
  · have := xor_cancel_right h
    omega
  · exfalso
    have h1 := testBit31_xor_poly hx2
    rw [h, Nat.testBit_lt_two_pow hy2] at h1
    cases h1
  · exfalso
    have h1 := testBit31_xor_poly hy2
    rw [← h, Nat.testBit_lt_two_pow hx2] at h1
    cases h1
  · omega

/-- the LFSR step is linear over GF(2) -/
theorem crcBit_xor (x y : Nat) : crcBit (x ^^^ y) = crcBit x ^^^ crcBit y := by
  unfold crcBit
  have hm := @Nat.xor_mod_two_eq_one x y
  rw [Nat.xor_div_two]
  by_cases hx : x % 2 = 1 <;> by_cases hy : y % 2 = 1
  · have : ¬ (x ^^^ y) % 2 = 1 := by rw [hm]; simp [hx, hy]
    rw [if_neg this, if_pos hx, if_pos hy]
    apply Nat.eq_of_testBit_eq
    intro i
    simp only [Nat.testBit_xor]
    cases (x / 2).testBit i <;> cases (y / 2).testBit i <;> cases (2197175160 : Nat).testBit i <;> rfl
  · have : (x ^^^ y) % 2 = 1 := by rw [hm]; simp [hx, hy]
    rw [if_pos this, if_pos hx, if_neg hy]
    apply Nat.eq_of_testBit_eq
    intro i
    simp only [Nat.testBit_xor]
    cases (x / 2).testBit i <;> cases (y / 2).testBit i <;> cases (2197175160 : Nat).testBit i <;> rfl
  · have : (x ^^^ y) % 2 = 1 := by rw [hm]; simp [hx, hy]
    rw [if_pos this, if_neg hx, if_pos hy]
    apply Nat.eq_of_testBit_eq
    intro i
    simp only [Nat.testBit_xor]
    cases (x / 2).testBit i <;> cases (y / 2).testBit i <;> cases (2197175160 : Nat).testBit i <;> rfl
  · have : ¬ (x ^^^ y) % 2 = 1 := by rw [hm]; simp [hx, hy]
    rw [if_neg this, if_neg hx, if_neg hy]

theorem crcBit_zero : crcBit 0 = 0 := by decide

/-- eight LFSR steps -/
def crcBit8 (c : Nat) : Nat := crcBit (crcBit (crcBit (crcBit (crcBit (crcBit (crcBit (crcBit c)))))))

theorem crcByte_eq (c : Nat) (b : UInt8) : crcByte c b = crcBit8 (c ^^^ b.toNat) := rfl

theorem crcBit8_lt {c : Nat} (h : c < 2 ^ 32) : crcBit8 c < 2 ^ 32 := by
  unfold crcBit8
  exact crcBit_lt (crcBit_lt (crcBit_lt (crcBit_lt (crcBit_lt (crcBit_lt (crcBit_lt (crcBit_lt h)))))))

theorem crcBit8_inj {x y : Nat} (hx : x < 2 ^ 32) (hy : y < 2 ^ 32) (h : crcBit8 x = crcBit8 y) : x = y := by
  unfold crcBit8 at h
  have l1x := crcBit_lt hx; have l1y := crcBit_lt hy
  have l2x := crcBit_lt l1x; have l2y := crcBit_lt l1y
  have l3x := crcBit_lt l2x; have l3y := crcBit_lt l2y
  have l4x := crcBit_lt l3x; have l4y := crcBit_lt l3y
  have l5x := crcBit_lt l4x; have l5y := crcBit_lt l4y
  have l6x := crcBit_lt l5x; have l6y := crcBit_lt l5y
  have l7x := crcBit_lt l6x; have l7y := crcBit_lt l6y
  exact crcBit_inj hx hy (crcBit_inj l1x l1y (crcBit_inj l2x l2y (crcBit_inj l3x l3y
    (crcBit_inj l4x l4y (crcBit_inj l5x l5y (crcBit_inj l6x l6y (crcBit_inj l7x l7y h)))))))

theorem crcBit8_xor (x y : Nat) : crcBit8 (x ^^^ y) = crcBit8 x ^^^ crcBit8 y := by
  unfold crcBit8
  simp only [crcBit_xor]

theorem byte_lt (b : UInt8) : b.toNat < 2 ^ 32 := Nat.lt_trans b.toNat_lt (by decide)

theorem crcByte_lt {c : Nat} (h : c < 2 ^ 32) (b : UInt8) : crcByte c b < 2 ^ 32 := by
  rw [crcByte_eq]
  exact crcBit8_lt (Nat.xor_lt_two_pow h (byte_lt b))

/-- for a fixed byte the state update is injective -/
theorem crcByte_inj_state {c1 c2 : Nat} (h1 : c1 < 2 ^ 32) (h2 : c2 < 2 ^ 32) (b : UInt8)
    (h : crcByte c1 b = crcByte c2 b) : c1 = c2 := by
  rw [crcByte_eq, crcByte_eq] at h
  exact xor_cancel_right
    (crcBit8_inj (Nat.xor_lt_two_pow h1 (byte_lt b)) (Nat.xor_lt_two_pow h2 (byte_lt b)) h)

/-- for a fixed state the update is injective in the byte -/
theorem crcByte_inj_byte {c : Nat} (hc : c < 2 ^ 32) (b1 b2 : UInt8)
    (h : crcByte c b1 = crcByte c b2) : b1 = b2 := by
  rw [crcByte_eq, crcByte_eq] at h
  have := xor_cancel_left
    (crcBit8_inj (Nat.xor_lt_two_pow hc (byte_lt b1)) (Nat.xor_lt_two_pow hc (byte_lt b2)) h)
  exact UInt8.toNat_inj.mp this

theorem foldl_crc_lt (bs : List UInt8) : ∀ {c : Nat}, c < 2 ^ 32 → bs.foldl crcByte c < 2 ^ 32 := by
  induction bs with
  | nil => intro c h; exact h
  | cons b bs ih => intro c h; exact ih (crcByte_lt h b)

theorem foldl_crc_inj (bs : List UInt8) : ∀ {c1 c2 : Nat}, c1 < 2 ^ 32 → c2 < 2 ^ 32 →
    bs.foldl crcByte c1 = bs.foldl crcByte c2 → c1 = c2 := by
  induction bs with
  | nil => intro c1 c2 _ _ h; exact h
  | cons b bs ih =>
    intro c1 c2 h1 h2 h
    exact crcByte_inj_state h1 h2 b (ih (crcByte_lt h1 b) (crcByte_lt h2 b) h)

theorem crc32c_lt (bs : List UInt8) : crc32c bs < 2 ^ 32 :=
  Nat.xor_lt_two_pow (foldl_crc_lt bs (by decide)) (by decide)

/-- CRC-32C detects every error confined to one byte -/
theorem crc32c_one_byte (pre post : List UInt8) {x y : UInt8} (hxy : x ≠ y) :
    crc32c (pre ++ x :: post) ≠ crc32c (pre ++ y :: post) := by
  intro h
  unfold crc32c at h
  have h := xor_cancel_right h
  simp only [List.foldl_append, List.foldl_cons] at h
  have hs : pre.foldl crcByte 0xFFFFFFFF < 2 ^ 32 := foldl_crc_lt pre (by decide)
  have := foldl_crc_inj post (crcByte_lt hs x) (crcByte_lt hs y) h
  exact hxy (crcByte_inj_byte hs x y this)

/-! ### the mask -/

def maskNat (s : Nat) : Nat := (((s >>> 15) ||| ((s <<< 17) % 2 ^ 32)) + 0xA282EAD8) % 2 ^ 32

theorem crc32cMasked_eq (bs : List UInt8) : crc32cMasked bs = maskNat (crc32c bs) := rfl

theorem rot_eq {s : Nat} (h : s < 2 ^ 32) :
    (s >>> 15) ||| ((s <<< 17) % 2 ^ 32) = 2 ^ 17 * (s % 2 ^ 15) + s / 2 ^ 15 := by
  have h1 : (s <<< 17) % 2 ^ 32 = 2 ^ 17 * (s % 2 ^ 15) := by
    rw [Nat.shiftLeft_eq]
    omega
  have h2 : s / 2 ^ 15 < 2 ^ 17 := by omega
  rw [h1, Nat.shiftRight_eq_div_pow, Nat.or_comm, Nat.two_pow_add_eq_or_of_lt h2]

theorem maskNat_inj {s t : Nat} (hs : s < 2 ^ 32) (ht : t < 2 ^ 32) (h : maskNat s = maskNat t) : s = t := by
  unfold maskNat at h
  rw [rot_eq hs, rot_eq ht] at h
  have hs1 : s % 2 ^ 15 < 2 ^ 15 := Nat.mod_lt _ (by decide)
  have ht1 : t % 2 ^ 15 < 2 ^ 15 := Nat.mod_lt _ (by decide)
  have hs2 : s / 2 ^ 15 < 2 ^ 17 := by omega
  have ht2 : t / 2 ^ 15 < 2 ^ 17 := by omega
  have hs3 : s = 2 ^ 15 * (s / 2 ^ 15) + s % 2 ^ 15 := (Nat.div_add_mod s (2 ^ 15)).symm
  have ht3 : t = 2 ^ 15 * (t / 2 ^ 15) + t % 2 ^ 15 := (Nat.div_add_mod t (2 ^ 15)).symm
  generalize s % 2 ^ 15 = a at *
  generalize s / 2 ^ 15 = b at *
  generalize t % 2 ^ 15 = c at *
  generalize t / 2 ^ 15 = d at *
  have hr : 2 ^ 17 * a + b = 2 ^ 17 * c + d := by omega
  omega

theorem maskNat_lt (s : Nat) : maskNat s < 2 ^ 32 := Nat.mod_lt _ (by decide)

/-- the masked CRC detects every error confined to one byte -/
theorem crc32cMasked_one_byte (pre post : List UInt8) {x y : UInt8} (hxy : x ≠ y) :
    crc32cMasked (pre ++ x :: post) ≠ crc32cMasked (pre ++ y :: post) := by
  intro h
  rw [crc32cMasked_eq, crc32cMasked_eq] at h
  exact crc32c_one_byte pre post hxy (maskNat_inj (crc32c_lt _) (crc32c_lt _) h)

end SkaModel.FR
