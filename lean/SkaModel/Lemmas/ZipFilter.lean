/-
Generic list facts about `zip`/`filter`/`map` used by the C13 (weed) and C14
(distance) proofs. Core Lean only.
-/
namespace SkaModel.ZipFilter

variable {α β γ : Type}

/-- re-zipping the three projections of a list of nested pairs gives the list back -/
theorem rezip3 (l : List ((α × β) × γ)) :
    ((l.map (·.1.1)).zip (l.map (·.1.2))).zip (l.map (·.2)) = l := by
  induction l with
  | nil => rfl
  | cons x xs ih => simp [ih]

theorem rezip2 (l : List (α × β)) : (l.map (·.1)).zip (l.map (·.2)) = l := by
  induction l with
  | nil => rfl
  | cons x xs ih => simp [ih]

/-- dropping the middle component of a triple zip -/
theorem zip_proj13 (K : List α) (V : List β) (C : List γ) (hv : K.length ≤ V.length) :
    K.zip C = ((K.zip V).zip C).map (fun krc => (krc.1.1, krc.2)) := by
  induction K generalizing V C with
  | nil => simp
  | cons k K ih =>
    cases V with
    | nil => simp at hv
    | cons v V =>
      cases C with
      | nil => simp
      | cons c C => simp [← ih V C (by simpa using hv)]

/-- a filter on the first component of a zip is a filter on the first list -/
theorem map_fst_filter_zip (p : α → Bool) (l₁ : List α) (l₂ : List β) (h : l₁.length ≤ l₂.length) :
    ((l₁.zip l₂).filter (fun x => p x.1)).map (·.1) = l₁.filter p := by
  have : (fun x : α × β => p x.1) = p ∘ Prod.fst := rfl
  rw [this, ← List.filter_map, List.map_fst_zip h]

theorem map_snd_filter_zip (p : β → Bool) (l₁ : List α) (l₂ : List β) (h : l₂.length ≤ l₁.length) :
    ((l₁.zip l₂).filter (fun x => p x.2)).map (·.2) = l₂.filter p := by
  have : (fun x : α × β => p x.2) = p ∘ Prod.snd := rfl
  rw [this, ← List.filter_map, List.map_snd_zip h]

/-- splitting a count along a filter -/
theorem length_filter_split (p q : α → Bool) (l : List α) :
    (l.filter q).length = ((l.filter p).filter q).length + ((l.filter (fun x => !p x)).filter q).length := by
  induction l with
  | nil => rfl
  | cons x xs ih =>
    cases hp : p x <;> cases hq : q x <;> simp [hp, hq, ih] <;> omega

theorem length_sub_length_filter (p : α → Bool) (l : List α) :
    l.length - (l.filter p).length = (l.filter (fun x => !p x)).length := by
  induction l with
  | nil => rfl
  | cons x xs ih =>
    have hle := List.length_filter_le p xs
    cases hp : p x <;> simp [hp] <;> omega

theorem filter_eq_nil_of_all_false (p : α → Bool) (l : List α) (h : ∀ x ∈ l, p x = false) :
    l.filter p = [] := by
  rw [List.filter_eq_nil_iff]; intro x hx; simp [h x hx]

theorem length_filter_eq_of_all_true (p : α → Bool) (l : List α) (h : ∀ x ∈ l, p x = true) :
    (l.filter p).length = l.length := by
  rw [List.filter_eq_self.mpr h]

/-- `(range n).filter (· > i)` enumerates `i+1 .. n-1` in order -/
theorem range_filter_gt (n i : Nat) :
    (List.range n).filter (fun j => decide (j > i)) = (List.range (n - 1 - i)).map (fun j => i + 1 + j) := by
  induction n with
  | zero => simp
  | succ n ih =>
    rw [List.range_succ, List.filter_append, ih]
    by_cases h : n > i
    · have e : n + 1 - 1 - i = (n - 1 - i) + 1 := by omega
      rw [e, List.range_succ, List.map_append]
      have : i + 1 + (n - 1 - i) = n := by omega
      simp [h, this]
    · have e : n + 1 - 1 - i = 0 := by omega
      have e' : n - 1 - i = 0 := by omega
      rw [e, e']; simp [h]

theorem zip_swap (l₁ : List α) (l₂ : List β) : (l₁.zip l₂).map Prod.swap = l₂.zip l₁ := by
  induction l₁ generalizing l₂ with
  | nil => cases l₂ <;> simp
  | cons x xs ih => cases l₂ with
    | nil => simp
    | cons y ys => simp [ih]

theorem zip_self (l : List α) : l.zip l = l.map (fun x => (x, x)) := by
  induction l with
  | nil => rfl
  | cons x xs ih => simp [ih]

end SkaModel.ZipFilter
