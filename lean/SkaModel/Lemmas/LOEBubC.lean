/-
C18 completeness — `compact_graph` on a graph of bubbles: entry nodes keep their successors; the first node
of an arm jumps to the exit node and records the rest of the arm as its interior; entry and exit nodes
record no interior.
-/
import SkaModel.Lemmas.LOEBub

namespace SkaModel.LOE

open SkaModel SkaModel.Skalo SkaModel.Props.C17G SkaModel.LOG SkaModel.LOC

/-- a node without a unique successor is not touched by the compaction -/
theorem compact_untouched' (g : Graph) (starts ends : List Nat) (x : Nat)
    (h : ∀ n, Assoc.lookup g x ≠ some [n]) :
    succs (compactGraph g starts ends).1 x = succs g x := by
  obtain ⟨hok, _⟩ := compactSegments_inv g starts ends
  unfold compactGraph
  simp only
  apply succs_foldSegments_other
  intro sv hsv
  constructor
  · intro e
    obtain ⟨_, _, _, _, _, hlk⟩ := seg_chain (hok sv hsv)
    rw [← e] at hlk
    exact h _ hlk
  · intro hx
    obtain ⟨_, _, ⟨n, hn⟩, _⟩ := seg_inner (hok sv hsv) (mem_of_mem_dropLast' hx)
    exact h n hn

theorem getLastD_append_singleton {α : Type} (l : List α) (x d : α) : (l ++ [x]).getLastD d = x := by
  rw [List.getLastD_eq_getLast?]
  simp

theorem dropLast_append_singleton' {α : Type} (l : List α) (x : α) : (l ++ [x]).dropLast = l := by
  simp

namespace BG

variable {g : Graph} {bs : List Bub}

theorem compact_en (bg : BG g bs) (starts ends : List Nat) {β : Bub} (hβ : β ∈ bs) :
    succs (compactGraph g starts ends).1 β.en = succs g β.en :=
  compact_untouched' g starts ends _ (bg.en_not_single hβ)

/-- an entry node is not the source of a segment -/
theorem comp_en (bg : BG g bs) (starts ends : List Nat) {β : Bub} (hβ : β ∈ bs) :
    Assoc.lookup (compactGraph g starts ends).2 β.en = none := by
  apply Strand.comp_none
  obtain ⟨hok, _⟩ := compactSegments_inv g starts ends
  intro sv hsv e
  obtain ⟨_, _, _, _, _, hlk⟩ := seg_chain (hok sv hsv)
  rw [e] at hlk
  exact bg.en_not_single hβ _ hlk

theorem arm_not_ext (bg : BG g bs) {starts ends : List Nat} (ex : Ext bs starts ends) {β : Bub} (hβ : β ∈ bs)
    {x : Nat} (hx : x ∈ β.a ∨ x ∈ β.b) : x ∉ starts ∧ x ∉ ends := by
  constructor
  · intro h
    obtain ⟨β', hβ', e⟩ := (ex.st x).mp h
    rcases hx with hx | hx
    · exact (bg.armA β hβ x hx β' hβ').1 e
    · exact (bg.armB β hβ x hx β' hβ').1 e
  · intro h
    obtain ⟨β', hβ', e⟩ := (ex.en x).mp h
    rcases hx with hx | hx
    · exact (bg.armA β hβ x hx β' hβ').2 e
    · exact (bg.armB β hβ x hx β' hβ').2 e

/-- an exit node is not the source of a segment -/
theorem comp_ex (bg : BG g bs) {starts ends : List Nat} (ex : Ext bs starts ends) {β : Bub} (hβ : β ∈ bs) :
    Assoc.lookup (compactGraph g starts ends).2 β.ex = none := by
  apply Strand.comp_none
  obtain ⟨hok, _⟩ := compactSegments_inv g starts ends
  intro sv hsv e
  obtain ⟨_, _, y, hy, hedge⟩ := hok sv hsv
  rw [e] at hedge
  have := bg.arm_not_ext ex hβ (bg.predX β hβ y hedge)
  rcases List.mem_append.mp hy with h | h
  · exact this.1 h
  · exact this.2 h

/-- **the first node of an arm jumps to the exit node** and records the rest of the arm as its interior:
generic form for an arm `r` -/
theorem jump (bg : BG g bs) {starts ends : List Nat} (ex : Ext bs starts ends) {β : Bub} (hβ : β ∈ bs)
    (r : List Nat) (hr : r = β.a ∨ r = β.b) :
    succs (compactGraph g starts ends).1 (r.headD 0) = [β.ex] ∧
    interior (compactGraph g starts ends).2 (r.headD 0) = r.tail := by
  obtain ⟨hok, hkeys⟩ := compactSegments_inv g starts ends
  -- the facts about the arm
  have hlen : 1 ≤ r.length := by rcases hr with rfl | rfl; exact bg.lenA β hβ; exact bg.lenB β hβ
  have hch : Chain1 g (r ++ [β.ex]) := by rcases hr with rfl | rfl; exact bg.chA β hβ; exact bg.chB β hβ
  have hnd : (β.en :: r ++ [β.ex]).Nodup := by rcases hr with rfl | rfl; exact bg.ndA β hβ; exact bg.ndB β hβ
  have hmem : ∀ x ∈ r, x ∈ β.a ∨ x ∈ β.b := by
    intro x hx; rcases hr with rfl | rfl; exact Or.inl hx; exact Or.inr hx
  have hpred : ∀ y, r.headD 0 ∈ succs g y → y = β.en := by
    rcases hr with rfl | rfl; exact bg.predA β hβ; exact bg.predB β hβ
  have hes : r.headD 0 ∈ succs g β.en := by
    rcases hr with rfl | rfl <;> rcases bg.ensucc β hβ with h | h <;> rw [h] <;> simp [Bub.ha, Bub.hb]
  obtain ⟨s, t, rfl⟩ : ∃ s t, r = s :: t := by
    cases r with
    | nil => simp at hlen
    | cons s t => exact ⟨s, t, rfl⟩
  simp only [List.headD_cons, List.tail_cons] at *
  have hend : β.ex ∈ ends := (ex.en _).mpr ⟨β, hβ, rfl⟩
  have hst : β.en ∈ starts := (ex.st _).mpr ⟨β, hβ, rfl⟩
  -- `s` is an inner node of no segment: its only predecessor is the entry node, which has two successors
  have hnotin : ∀ sv' ∈ compactSegments g starts ends, s ∉ sv'.2.dropLast.dropLast := by
    intro sv' hsv' hin
    obtain ⟨_, _, _, y, hy, _⟩ := seg_inner (hok sv' hsv') (mem_of_mem_dropLast' hin)
    have hyedge : s ∈ succs g y := by
      rw [((bg.lookup_some_iff _ _).mp hy).1]
      exact List.mem_singleton.mpr rfl
    rw [hpred y hyedge] at hy
    exact bg.en_not_single hβ _ hy
  by_cases htne : t = []
  · -- an arm of one node: no segment starts at it
    subst htne
    have hls : Assoc.lookup g s = some [β.ex] := hch.1
    have hnokey : ∀ sv ∈ compactSegments g starts ends, sv.1 ≠ s := by
      intro sv hsv e
      obtain ⟨hv, hl, _⟩ := hok sv hsv
      rw [e] at hv
      have hw : compactWalk g starts ends (edgeCount g + 1) s [] = [β.ex] := by
        rw [compactWalk, hls]
        simp [hend]
      rw [hw] at hv
      rw [hv] at hl
      simp at hl
    constructor
    · unfold compactGraph
      simp only
      rw [succs_foldSegments_other _ _ (fun sv hsv => ⟨fun e => hnokey sv hsv e.symm, hnotin sv hsv⟩)]
      exact ((bg.lookup_some_iff _ _).mp hls).1
    · unfold interior
      rw [Strand.comp_none g starts ends s hnokey]
      rfl
  · -- the chain walked from `s`
    have hcs_ne : t ++ [β.ex] ≠ [] := by simp
    have hlast : (t ++ [β.ex]).getLastD 0 = β.ex := getLastD_append_singleton _ _ _
    have hdl : (t ++ [β.ex]).dropLast = t := dropLast_append_singleton' _ _
    have hmid : ∀ x ∈ (t ++ [β.ex]).dropLast, x ∉ starts ∧ x ∉ ends := by
      intro x hx
      rw [hdl] at hx
      exact bg.arm_not_ext ex hβ (hmem x (List.mem_cons_of_mem _ hx))
    have hnd' : ([] ++ (t ++ [β.ex])).Nodup := by
      rw [List.nil_append]
      have := hnd
      rw [List.cons_append, List.nodup_cons] at this
      have h2 := this.2
      rw [List.cons_append, List.nodup_cons] at h2
      exact h2.2
    have hfuel : (t ++ [β.ex]).length + 1 ≤ edgeCount g + 1 := by
      have hsub : (s :: t).Nodup := by
        have := hnd
        rw [List.cons_append, List.nodup_cons] at this
        exact (List.nodup_append.mp this.2).1
      have := length_le_edgeCount g (s :: t) hsub (by
        intro x hx
        have : x ∈ (s :: (t ++ [β.ex])).dropLast := by
          rw [← List.cons_append, dropLast_append_singleton']; exact hx
        obtain ⟨n, hn⟩ := chain1_succ s (t ++ [β.ex]) hch x this
        rw [((bg.lookup_some_iff _ _).mp hn).1]
        simp)
      simp only [List.length_append, List.length_cons, List.length_nil] at this ⊢
      omega
    have hwalk := compactWalk_chain g starts ends (t ++ [β.ex]) s [] (edgeCount g + 1) hcs_ne hfuel
      (by simpa using hch) hmid hnd' (by rw [hlast]; exact Or.inr (Or.inl hend))
    rw [List.nil_append] at hwalk
    have hseg : (s, t ++ [β.ex]) ∈ compactSegments g starts ends := by
      have := compactSegments_complete g starts ends β.en s (List.mem_append_left _ hst) hes (by
        rw [hwalk]
        simp only [List.length_append, List.length_cons, List.length_nil]
        have : 0 < t.length := List.length_pos_iff.mpr htne
        omega)
      rw [hwalk] at this
      exact this
    constructor
    · unfold compactGraph
      simp only
      have := succs_foldSegments_src (compactSegments g starts ends) _ hseg hkeys (fun sv' hsv' => hnotin sv' hsv') g
      simp only at this
      rw [this, hlast]
      have hs1 : Assoc.lookup g s = some [(t ++ [β.ex]).headD 0] := by
        cases t with
        | nil => exact absurd rfl htne
        | cons t0 t' => exact hch.1
      rw [((bg.lookup_some_iff _ _).mp hs1).1]
      simp
    · unfold interior compactGraph
      simp only
      have hmem' : (s, t) ∈ (compactSegments g starts ends).map (fun sv => (sv.1, sv.2.dropLast)) :=
        List.mem_map.mpr ⟨_, hseg, by simp⟩
      rw [Assoc.lookup_of_mem_nodup (by unfold Assoc.keys; rw [List.map_map]; exact hkeys) hmem']
      rfl

theorem jumpA (bg : BG g bs) {starts ends : List Nat} (ex : Ext bs starts ends) {β : Bub} (hβ : β ∈ bs) :
    succs (compactGraph g starts ends).1 β.ha = [β.ex] ∧
    interior (compactGraph g starts ends).2 β.ha = β.a.tail :=
  bg.jump ex hβ β.a (Or.inl rfl)

theorem jumpB (bg : BG g bs) {starts ends : List Nat} (ex : Ext bs starts ends) {β : Bub} (hβ : β ∈ bs) :
    succs (compactGraph g starts ends).1 β.hb = [β.ex] ∧
    interior (compactGraph g starts ends).2 β.hb = β.b.tail :=
  bg.jump ex hβ β.b (Or.inr rfl)

end BG

end SkaModel.LOE
