/-
Generic facts about the insertion sort `sortByKey` of `Impl/Assoc.lean`:
it is a permutation of its input, its result is sorted by key (strictly when the
keys are distinct), and it keeps the length.
-/
import SkaModel.Impl.Assoc
import SkaModel.Lemmas.Assoc

namespace SkaModel.LOW

variable {α : Type}

theorem insertByKey_perm (f : α → Nat) (x : α) (l : List α) :
    (insertByKey f x l).Perm (x :: l) := by
  induction l with
  | nil => exact List.Perm.refl _
  | cons y ys ih =>
    unfold insertByKey
    by_cases h : f x ≤ f y
    · rw [if_pos h]
    · rw [if_neg h]
      exact ((List.Perm.cons y ih).trans (List.Perm.swap x y ys))

/-- the insertion sort is a permutation of its input -/
theorem sortByKey_perm' (f : α → Nat) (l : List α) : (sortByKey f l).Perm l := by
  induction l with
  | nil => exact List.Perm.refl _
  | cons x xs ih =>
    rw [sortByKey_cons]
    exact (insertByKey_perm f x _).trans (List.Perm.cons x ih)

theorem sortByKey_length (f : α → Nat) (l : List α) : (sortByKey f l).length = l.length :=
  (sortByKey_perm' f l).length_eq

theorem insertByKey_sorted (f : α → Nat) (x : α) (l : List α)
    (h : l.Pairwise (fun a b => f a ≤ f b)) :
    (insertByKey f x l).Pairwise (fun a b => f a ≤ f b) := by
  induction l with
  | nil => simp [insertByKey]
  | cons y ys ih =>
    rw [List.pairwise_cons] at h
    unfold insertByKey
    by_cases hxy : f x ≤ f y
    · rw [if_pos hxy, List.pairwise_cons]
      refine ⟨?_, List.pairwise_cons.2 h⟩
      intro a ha
      rcases List.mem_cons.1 ha with ha | ha
      · rw [ha]; exact hxy
      · exact Nat.le_trans hxy (h.1 a ha)
    · rw [if_neg hxy, List.pairwise_cons]
      refine ⟨?_, ih h.2⟩
      intro a ha
      rcases (mem_insertByKey f x ys a).1 ha with ha | ha
      · rw [ha]; omega
      · exact h.1 a ha

/-- the result of the insertion sort is sorted by key -/
theorem sortByKey_sorted (f : α → Nat) (l : List α) :
    (sortByKey f l).Pairwise (fun a b => f a ≤ f b) := by
  induction l with
  | nil => exact List.Pairwise.nil
  | cons x xs ih =>
    rw [sortByKey_cons]
    exact insertByKey_sorted f x _ ih

theorem sortByKey_map_nodup (f : α → Nat) (l : List α) (hnd : (l.map f).Nodup) :
    ((sortByKey f l).map f).Nodup :=
  (((sortByKey_perm' f l).map f).nodup_iff).2 hnd

/-- with distinct keys the result is strictly sorted -/
theorem sortByKey_strictSorted (f : α → Nat) (l : List α) (hnd : (l.map f).Nodup) :
    (sortByKey f l).Pairwise (fun a b => f a < f b) := by
  have h1 := sortByKey_sorted f l
  have h2 : (sortByKey f l).Pairwise (fun a b => f a ≠ f b) :=
    List.pairwise_map.1 (sortByKey_map_nodup f l hnd)
  exact List.Pairwise.imp₂ (fun a b hle hne => Nat.lt_of_le_of_ne hle hne) h1 h2

end SkaModel.LOW
