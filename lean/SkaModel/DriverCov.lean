/-
Driver code for the coverage operations (C20). Floats travel as IEEE bit patterns.
-/
import SkaModel.Impl.Coverage
import SkaModel.DriverBase
import SkaModel.DriverSkf

namespace SkaModel.Driver

open SkaModel SkaModel.Coverage

def fbits (x : Float) : String := s!"%{x.toBits}"
def fOfBits (s : String) : Float := Float.ofBits (UInt64.ofNat (s.toNat?.getD 0))

def runCovll (c : Case) : String × String :=
  let w0 := fOfBits (c.get "w0")
  let cc := fOfBits (c.get "c")
  let counts := (c.list "counts").map (fun x => Nat.toFloat (x.toNat?.getD 0))
  let ll := logLik lgFloat w0 cc counts
  let g := gradLL lgFloat w0 cc counts
  (s!"{fbits ll} {fbits g.1} {fbits g.2}", "-")

def runCovcut (c : Case) : String × String :=
  let w0 := fOfBits (c.get "w0")
  let cc := fOfBits (c.get "c")
  let mx := c.nat "max"
  let cut := findCutoff (fun i => root lgFloat w0 cc i < 0.0) mx
  -- smallest |root| over the scanned range: a comparison is only meaningful away from 0
  let minAbs := (List.range mx).foldl (fun m i => let r := Float.abs (root lgFloat w0 cc (i + 1)); if r < m then r else m) 1e300
  (s!"cut={cut} {fbits minAbs}", "-")

/-- multiplicities, histogram, truncation; cutoff and labels for the fitted (w0, c) -/
def runCovcheck (c : Case) : String × String :=
  let reads := (c.list "reads").map (fun r => (bytesOf r).toArray)
  let d := kmerDict (c.nat "w") (c.nat "k") (c.flag "rc") reads
  let mults := d.toList.map (·.2)
  let pairs := sortByKey (·.1) d.toList
  let h := fnv (bytesOf (String.intercalate "," (pairs.map (fun p => s!"{p.1}:{p.2}"))))
  let hist := truncate (histogram mults)
  let w0 := fOfBits (c.get "w0")
  let cc := fOfBits (c.get "c")
  let cut := findCutoff (fun i => root lgFloat w0 cc i < 0.0) hist.length
  let labels := String.ofList ((List.range hist.length).map (fun i => if isError cut (i + 1) then 'E' else 'C'))
  (s!"nkeys={d.size} dict={h} hist={joinStr (hist.map toString)} cutoff={cut} labels={if labels.isEmpty then "~" else labels}", "-")

end SkaModel.Driver
