import SkaModel.Impl.Base
import SkaModel.Impl.Bits
import SkaModel.Impl.NtHash
import SkaModel.Impl.SplitKmer
import SkaModel.Impl.SkaDict
import SkaModel.Spec.Iupac
import SkaModel.Spec.Windows
import SkaModel.Spec.Dict
import SkaModel.DriverBase
import SkaModel.DriverHist
import SkaModel.DriverMap
import SkaModel.DriverSkf
import SkaModel.DriverCov
import SkaModel.DriverLo
import SkaModel.Spec.BuildTable
import SkaModel.Impl.BuildAndMerge
import SkaModel.Impl.Reads
import SkaModel.Spec.ReadsSpec

namespace SkaModel.Driver

open SkaModel

def qualFilterOf (c : Case) : QualFilter :=
  match c.opt "qf" with
  | some "middle" => .middle
  | some "strict" => .strict
  | _ => .noFilter

def confOf (c : Case) (isReads : Bool) : SKConf :=
  { W := c.nat "w", k := c.nat "k", rc := c.flag "rc"
    seq := (bytesOf (c.text "seq")).toArray
    qual := (c.opt "qual").map (fun q => (bytesOf q).toArray)
    minQual := c.natOr "mq" 0, qf := qualFilterOf c, isReads := isReads }

def showIter (cf : SKConf) (withQual : Bool) (s : SKState) : String :=
  let (kmer, base, r) := cf.currKmer s
  let core := s!"{kmer}:{base}:{b2s r}:{cf.middlePos s}:{b2s (cf.selfPalindrome s)}"
  if withQual then core ++ s!":{b2s (cf.middleBaseQual s)}" else core

def showSpecIter (k : Nat) (rc : Bool) (seq : Array UInt8) (j : Nat) : String :=
  let (key, base, r) := Spec.obs k rc seq j
  s!"{key}:{base}:{b2s r}:{j + (k - 1) / 2}:{b2s (Spec.isPalin k rc seq j)}"

def showDict (d : List (Nat × UInt8)) : String :=
  joinStr (d.map (fun kv => s!"{kv.1}:{Char.ofNat kv.2.toNat}"))

/-- (model result, spec result) -/
def runCase (c : Case) : String × String :=
  match c.op with
  | "enc" => (toString (encodeKmer (c.nat "w") (bytesOf (c.text "s"))),
              toString (Spec.packL ((bytesOf (c.text "s")).map code)))
  | "rc" =>
    let n := c.nat "n"
    let x := c.nat "x"
    -- spec: decode to n codes, reverse-complement the list, pack again
    let cs := (List.range n).map (fun i => (x >>> (2 * (n - 1 - i))) % 4)
    (toString (revComp (c.nat "w") x n), toString (Spec.packL (Spec.rcCodes cs)))
  | "masks" => (s!"{lowerMask (c.nat "w") (c.nat "k")},{upperMask (c.nat "w") (c.nat "k")}",
                let h := (c.nat "k" - 1) / 2
                s!"{4 ^ h - 1},{(4 ^ h - 1) * 4 ^ h}")
  | "dec" =>
    let k := c.nat "k"
    let x := c.nat "x"
    let (u, l) := decodeKmer (c.nat "w") k x
    let h := (k - 1) / 2
    let cs := (List.range (2 * h)).map (fun i => (x >>> (2 * (2 * h - 1 - i))) % 4)
    (s!"{strOf u},{strOf l}",
     s!"{strOf ((cs.take h).map decodeBase)},{strOf ((cs.drop h).map decodeBase)}")
  | "sdec" =>
    let n := c.nat "n"
    let x := c.nat "x"
    let cs := (List.range n).map (fun i => (x >>> (2 * (n - 1 - i))) % 4)
    (strOf (skaloDecode (c.nat "w") x n), strOf (cs.map decodeBase))
  | "iter" =>
    let cf := confOf c false
    let sts := cf.states
    let m := if sts.isEmpty then "none" else joinStr (sts.map (showIter cf cf.qual.isSome))
    let sp :=
      if cf.qual.isSome then "-" else
      let seq := (bytesOf (c.text "seq")).toArray
      let ws := Spec.windows cf.k seq
      if ws.isEmpty then "none" else joinStr (ws.map (showSpecIter cf.k cf.rc seq))
    (m, sp)
  | "hash" =>
    let cf := confOf c true
    let sts := cf.states
    if sts.isEmpty then ("none", "-") else
    let out := sts.map (fun s =>
      let start := cf.middlePos s - halfK cf.k
      let scratch := (NtHash.new (cf.windowAt start) cf.k cf.rc).curr
      s!"{cf.getHash s}:{scratch}")
    (joinStr out, "-")
  | "build" =>
    let recs := (c.list "recs").map (fun r => (bytesOf r).toArray)
    let m := match buildDict (c.nat "w") (c.nat "k") (c.flag "rc") recs with
      | .dict d => showDict d
      | .noValid => "novalid"
      | .panicked => "panic:palindrome"
    let sd := Spec.specDict (c.nat "k") (c.flag "rc") recs
    (m, if sd.isEmpty then "novalid" else showDict sd)
  | "build2" =>
    let recs := (c.list "recs").map (fun r => (bytesOf r).toArray)
    let alt := (c.list "alt").map (fun r => (bytesOf r).toArray)
    let showB (b : BuildResult) := match b with
      | .dict d => showDict d
      | .noValid => "novalid"
      | .panicked => "panic:palindrome"
    let m1 := buildDict (c.nat "w") (c.nat "k") (c.flag "rc") recs
    let m2 := buildDict (c.nat "w") (c.nat "k") (c.flag "rc") alt
    let sd := Spec.specDict (c.nat "k") (c.flag "rc") recs
    (s!"{showB m1} eq:{b2s (m1 == m2)}", s!"{if sd.isEmpty then "novalid" else showDict sd} eq:1")
  | "bloom" =>
    -- the Bloom step of a fresh filter on raw hash values
    let keys := (c.list "keys").filterMap String.toNat?
    let (_, bits) := keys.foldl (fun (st : KmerFilter × List Char) key =>
      let (f, seen) := KmerFilter.bloomAddAndCheck st.1 key
      (f, st.2 ++ [if seen then '1' else '0'])) (({ minCount := 2 } : KmerFilter), [])
    (String.ofList bits, "-")
  | "reads" =>
    -- reads are `SEQ:QUAL` with QUAL letters 'A' + phred
    let parse (key : String) : List Read := (c.list key).filterMap (fun item =>
      match item.splitOn ":" with
      | [sq, q] => some { seq := (bytesOf sq).toArray, qual := ((bytesOf q).map (fun b => b - 65 + 33)).toArray }
      | _ => none)
    let f1 := parse "r1"
    let f2 := parse "r2"
    let qf := qualFilterOf c
    let rule : Spec.QualRule := match qf with | .noFilter => .none | .middle => .middle | .strict => .strict
    let m := match buildReads (c.nat "w") (c.nat "k") (c.flag "rc") (c.nat "mc") (c.nat "mq") qf f1 f2 with
      | .dict d => showDict d
      | .noValid => "novalid"
      | .panicked => "panic:palindrome"
    let sd := Spec.specReadsDict (c.nat "k") (c.flag "rc") rule (c.nat "mq") (c.nat "mc")
      ((f1 ++ f2).map (fun r => (r.seq, r.qual)))
    (m, if sd.isEmpty then "novalid" else showDict sd)
  | "buildalign" =>
    -- samples -> joint build -> array -> align; and the same through the specification
    let W := c.nat "w"
    let k := c.nat "k"
    let rc := c.flag "rc"
    let samples := parseSamples (c.get "samples")
    let names := (List.range samples.length).map (fun i => s!"s{i}")
    let t := c.nat "t"
    let ft := c.get "ft"
    let (mask, gaps, famb) := (c.flag "mask", c.flag "gaps", c.flag "famb")
    let built := samples.map (fun recs => buildDict W k rc recs)
    let m :=
      if built.any (fun b => match b with | .dict _ => false | _ => true) then "novalid"
      else
        let raws : List RawSample := built.zipIdx.map (fun bi =>
          { name := s!"s{bi.2}", kmers := match bi.1 with | .dict d => d | _ => [] })
        match buildAndMergeOff k rc (c.natOr "threads" 1) raws with
        | .error _ => "refused"
        | .ok md =>
          let a := Arr.ofDict W md
          let seqs := Modes.align a t (filterTypeOf ft) mask gaps famb
          s!"align[names={joinStr (seqs.map (·.1))};cols={columnsStr (seqs.map (·.2))}]"
    let sp :=
      if samples.any (fun recs => (Spec.observations k rc recs).isEmpty) then "novalid"
      else
        let tb := Spec.specTable k rc names samples
        let cols := tb.alignColumns t famb (siteFilterOf ft) mask gaps
        s!"align[names={joinStr names};cols={joinStr (sortStrings (cols.map strOf))}]"
    (m, sp)
  | "lo_cmd" | "lo_comp" | "lo_snps" | "lo_mid" | "lo_derep" | "lo_pipe" | "lo_out" | "lo_graph" => runLo c
  | "bam" =>
    let W := c.nat "w"
    let k := c.nat "k"
    let rc := c.flag "rc"
    let samples := parseSamples (c.get "samples")
    let built := samples.map (fun recs => buildDict W k rc recs)
    let m :=
      if built.any (fun b => match b with | .dict _ => false | _ => true) then "novalid"
      else
        let raws : List RawSample := built.zipIdx.map (fun bi =>
          { name := s!"s{bi.2}", kmers := match bi.1 with | .dict d => d | _ => [] })
        match buildAndMergeOff k rc (c.nat "threads") raws with
        | .error _ => "refused"
        | .ok md => dumpArr (Arr.ofDict W md)
    let names := (List.range samples.length).map (fun i => s!"s{i}")
    let tb := Spec.specTable k rc names samples
    (m, s!"k={k},rc={b2s rc},names={joinStr names};rows={dumpRows tb.rows}")
  | "covll" => runCovll c
  | "covcut" => runCovcut c
  | "covcheck" => runCovcheck c
  | "skfdec" => runSkfdec c
  | "unframe" => runUnframe c
  | "snapblock" => runSnapblock c
  | "names" => runNames c
  | "filelist" => runFilelist c
  | "map" => runMap c
  | "alnw" => runAlnw c
  | "hist" =>
    (histModel (c.nat "w") (c.nat "k") (c.flag "rc") (c.get "start") (c.get "ops") (c.get "obs"),
     histSpec (c.nat "k") (c.flag "rc") (c.get "start") (c.get "ops") (c.get "obs"))
  | op => (s!"unknown-op:{op}", "-")

partial def loop (hin hout : IO.FS.Stream) : IO Unit := do
  let line ← hin.getLine
  if line.isEmpty then
    hout.flush
    return ()
  let t := line.trimAscii.toString
  if t.isEmpty || t.startsWith "#" then
    loop hin hout
  else
    let (m, s) := runCase (parseCase t)
    hout.putStrLn (m ++ "\t" ++ s)
    loop hin hout

end SkaModel.Driver
