/-
Driver code for the `hist` operation: a start table, operations through the
model of `generic_modes`, observers; and the same through the table specification.
-/
import SkaModel.Impl.Modes
import SkaModel.Spec.Table
import SkaModel.Spec.Windows
import SkaModel.DriverBase

namespace SkaModel.Driver

open SkaModel

def bytesOf' (s : String) : List UInt8 := s.toUTF8.toList
def strOf' (bs : List UInt8) : String := String.ofList (bs.map (fun b => Char.ofNat b.toNat))
def joinStr' (xs : List String) : String := if xs.isEmpty then "~" else String.intercalate "," xs

def parseTable (s : String) : List String × List (Nat × List UInt8) :=
  match s.splitOn "|" with
  | [n, r] =>
    let names := if n == "~" then [] else n.splitOn ","
    let rows := if r == "~" then [] else (r.splitOn ",").filterMap (fun item =>
      match item.splitOn ":" with
      | [k, cells] => some (k.toNat?.getD 0, bytesOf' cells)
      | _ => none)
    (names, rows)
  | _ => ([], [])

def arrOfTable (W k : Nat) (rc : Bool) (s : String) : Arr :=
  let (names, rows) := parseTable s
  Arr.ofDict W { k := k, rc := rc, nSamples := names.length, names := names, kmers := rows }

def filterTypeOf (s : String) : FilterType :=
  match s with
  | "noconst" => .noConst
  | "noambig" => .noAmbig
  | "noambigorconst" => .noAmbigOrConst
  | _ => .noFilter

def siteFilterOf (s : String) : Spec.Table.SiteFilter :=
  match s with
  | "noconst" => .noConst
  | "noambig" => .noAmbig
  | "noambigorconst" => .noAmbigOrConst
  | _ => .noFilter

def sortStrings (xs : List String) : List String := xs.mergeSort (fun a b => decide (a ≤ b))

def dumpRows (rows : List (Nat × List UInt8)) : String :=
  joinStr' ((sortByKey (·.1) rows).map (fun r => s!"{r.1}:{strOf' r.2}"))

def dumpArr (a : Arr) : String :=
  s!"k={a.k},rc={if a.rc then 1 else 0},names={joinStr' a.names};rows={dumpRows (a.kmers.zip a.variants)}"

def columnsStr (seqs : List (List UInt8)) : String :=
  match seqs with
  | [] => "~"
  | s0 :: _ =>
    let cols := (List.range s0.length).map (fun p => strOf' (seqs.map (fun s => s.getD p 63)))
    joinStr' (sortStrings cols)

def roundDiv (num den : Nat) : Nat := if den == 0 then 0 else (2 * num + den) / (2 * den)

/-- model: run the operations; `Except` carries (step, reason, state at refusal) -/
def histModel (W k : Nat) (rc : Bool) (start ops obs : String) : String := Id.run do
  let mut a := arrOfTable W k rc start
  let mut step := 0
  if ops != "~" then
    for op in ops.splitOn ";" do
      step := step + 1
      let f := op.splitOn "/"
      match f with
      | "merge" :: tbl :: rest =>
        let ok := (rest[0]?.bind String.toNat?).getD k
        let orc := match rest[1]? with | some "1" => true | some _ => false | none => rc
        match Modes.merge W a [arrOfTable W ok orc tbl] with
        | .ok a' => a := a'
        | .error _ => return s!"step{step}:refused;file={dumpArr a}"
      | ["mergen", tbls] =>
        match Modes.merge W a ((tbls.splitOn "&").map (arrOfTable W k rc)) with
        | .ok a' => a := a'
        | .error _ => return s!"step{step}:refused;file={dumpArr a}"
      | ["delete", ns] =>
        let names := if ns == "~" then [] else ns.splitOn "+"
        match Modes.delete a names with
        | some a' => a := a'
        | none => return s!"step{step}:refused;file={dumpArr a}"
      | ["weed", recs, rev, tf, famb, ft, mask, gaps] =>
        let wk : Option (List Nat) :=
          if recs == "~" then none
          else some (Modes.refKmers W k rc ((recs.splitOn "+").map (fun r => (bytesOf' r).toArray)))
        if wk == some [] then return s!"step{step}:novalid;file={dumpArr a}"
        a := Modes.weed a wk (rev == "1") (tf.toNat?.getD 0) (famb == "1") (filterTypeOf ft) (mask == "1") (gaps == "1")
      | ["reload"] => a := a
      | _ => return "bad-op"
  let mut out : List String := []
  for ob in obs.splitOn ";" do
    let f := ob.splitOn "/"
    match f with
    | ["nk"] =>
      out := out ++ [s!"nk[{dumpArr a};counts={joinStr' (a.nSampleKmers.map toString)}]"]
    | ["align", t, ft, mask, gaps, famb] =>
      let seqs := Modes.align a (t.toNat?.getD 0) (filterTypeOf ft) (mask == "1") (gaps == "1") (famb == "1")
      out := out ++ [s!"align[names={joinStr' (seqs.map (·.1))};cols={columnsStr (seqs.map (·.2))}]"]
    | ["dist", t, filt] =>
      let tn := t.toNat?.getD 0
      let n := a.names.length
      -- min_freq = (t - 1/2)/n, so min_freq * n >= 1 iff t >= 2
      let (names, d) := Modes.distance a tn (decide (tn ≥ 2) && decide (2 * tn - 1 ≤ 2 * n)) (filt == "1")
      let items := (d.zipIdx.map (fun ri =>
        ri.1.zipIdx.map (fun ej =>
          let (d36, mm, m) := ej.1
          s!"{names.getD ri.2 ""}-{names.getD (ri.2 + 1 + ej.2) ""}:~{roundDiv (d36 * 100) 36}:~{roundDiv (mm * 100000) (m + mm)}"))).flatten
      out := out ++ [s!"dist[{joinStr' items}]"]
    | ["rawdist", cst] =>
      let d := a.distance (cst.toNat?.getD 0)
      let items := (d.zipIdx.map (fun ri =>
        ri.1.zipIdx.map (fun ej =>
          let (d36, mm, m) := ej.1
          s!"{ri.2}-{ri.2 + 1 + ej.2}:{d36}:~{roundDiv (mm * 1000000000) (m + mm)}"))).flatten
      out := out ++ [s!"rawdist[{joinStr' items}]"]
    | _ => out := out ++ ["unknown-observer"]
  return String.intercalate " " out

/-- specification: the same history on the plain table -/
def histSpec (k : Nat) (rc : Bool) (start ops obs : String) : String := Id.run do
  let (n0, r0) := parseTable start
  let norm (rows : List (Nat × List UInt8)) := rows.map (fun r => (r.1, r.2.map (fun b => max b Spec.gap)))
  let mut t : Spec.Table := { names := n0, rows := norm r0 }
  let dumpT (t : Spec.Table) := s!"k={k},rc={if rc then 1 else 0},names={joinStr' t.names};rows={dumpRows t.rows}"
  let mut step := 0
  if ops != "~" then
    for op in ops.splitOn ";" do
      step := step + 1
      let f := op.splitOn "/"
      match f with
      | "merge" :: tbl :: rest =>
        let ok := (rest[0]?.bind String.toNat?).getD k
        let orc := match rest[1]? with | some "1" => true | some _ => false | none => rc
        if ok != k || orc != rc then return s!"step{step}:refused;file={dumpT t}"
        let (n1, r1) := parseTable tbl
        t := t.concat { names := n1, rows := norm r1 }
      | ["mergen", tbls] =>
        for tbl in tbls.splitOn "&" do
          let (n1, r1) := parseTable tbl
          t := t.concat { names := n1, rows := norm r1 }
      | ["delete", ns] =>
        let names := if ns == "~" then [] else ns.splitOn "+"
        -- refused: no names, every sample named (DISTINCT names are counted), or an unknown name
        if names.isEmpty || names.eraseDups.length == t.names.length || names.any (fun n => !t.names.contains n) then
          return s!"step{step}:refused;file={dumpT t}"
        t := t.deleteSamples names
      | ["weed", recs, rev, tf, famb, ft, mask, gaps] =>
        -- the weed set is computed by the window specification, not by the iterator model
        if recs != "~" then
          let rs := (recs.splitOn "+").map (fun r => (bytesOf' r).toArray)
          let ks := (Spec.observations k rc rs).map (·.1)
          if ks.isEmpty then return s!"step{step}:novalid;file={dumpT t}"
          t := t.weed ks (rev == "1")
        let tfn := tf.toNat?.getD 0
        if tfn > 0 || ft != "nofilter" || mask == "1" || gaps == "1" then
          let kept := t.rows.filter (fun r => Spec.Table.passes tfn (famb == "1") (siteFilterOf ft) (gaps == "1") r.2)
          let rows' := kept.map (fun r => (r.1, Spec.Table.maskRow (mask == "1") r.2))
          t := { names := t.names, rows := rows' }
      | ["reload"] => t := t
      | _ => return "bad-op"
  let mut out : List String := []
  for ob in obs.splitOn ";" do
    let f := ob.splitOn "/"
    match f with
    | ["nk"] =>
      let counts := (List.range t.names.length).map (fun i =>
        (t.rows.filter (fun r => Spec.Table.present (r.2.getD i Spec.gap))).length)
      out := out ++ [s!"nk[{dumpT t};counts={joinStr' (counts.map toString)}]"]
    | ["align", tt, ft, mask, gaps, famb] =>
      let cols := t.alignColumns (tt.toNat?.getD 0) (famb == "1") (siteFilterOf ft) (mask == "1") (gaps == "1")
      out := out ++ [s!"align[names={joinStr' t.names};cols={joinStr' (sortStrings (cols.map strOf'))}]"]
    | ["dist", tt, _filt] =>
      if t.rows.any (fun r => r.2.any isAmbiguous) then out := out ++ ["-"]
      else
        let n := t.names.length
        let items := ((List.range n).map (fun i => ((List.range n).filter (· > i)).map (fun j =>
          let (d, one, atl) := t.pairDist (tt.toNat?.getD 0) i j
          s!"{t.names.getD i ""}-{t.names.getD j ""}:~{d * 100}:~{roundDiv (one * 100000) atl}"))).flatten
        out := out ++ [s!"dist[{joinStr' items}]"]
    | _ => out := out ++ ["-"]
  return String.intercalate " " out

end SkaModel.Driver
