/-
Driver code for the `ska lo` helper operations (C17, C18).
-/
import SkaModel.Impl.Skalo
import SkaModel.Impl.SkaloDerep
import SkaModel.Impl.SkaloPipe
import SkaModel.Impl.SkaloRef
import SkaModel.Impl.SkaloUnion
import SkaModel.DriverBase
import SkaModel.DriverHist

namespace SkaModel.Driver

open SkaModel SkaModel.Skalo

def strOrDot (bs : List UInt8) : String := if bs.isEmpty then "." else strOf bs

def runLo (c : Case) : String × String :=
  match c.op with
  | "lo_cmd" =>
    let col := bytesOf (c.text "col")
    let (ok, missing) := checkMissingData col
    -- spec: count the distinct A/C/G/T symbols and the rest
    let distinct := (col.filter isACGT).eraseDups.length
    (s!"ok:{b2s ok} missing:{missing}", s!"ok:{b2s (decide (distinct ≥ 2))} missing:{col.length - (col.filter isACGT).length}")
  | "lo_comp" =>
    match complementSnp (bytesOf (c.text "col")) with
    | some out => (strOrDot out, "-")
    | none => ("panic", "-")
  | "lo_snps" =>
    let vars := (c.list "vars").filterMap (fun v =>
      match v.splitOn ":" with
      | [s, p] => some (bytesOf s, if p.isEmpty then [] else (p.splitOn "+").filterMap String.toNat?)
      | _ => none)
    (joinStr ((getPotentialSnp vars).map toString), "-")
  | "lo_mid" =>
    let seqs := (c.list "seqs").map bytesOf
    let (mids, last) := extractMiddleBases seqs (c.nat "k")
    (s!"{joinStr (mids.map strOf)};{strOrDot last}", "-")
  | "lo_derep" =>
    let gs := (c.list "groups").filterMap (fun g =>
      match g.splitOn ":" with
      | [a, b, l] => some ({ entry := a.toNat?.getD 0, exit := b.toNat?.getD 0, len := l.toNat?.getD 0 } : IndelGroup)
      | _ => none)
    let (kept, ext) := dereplicate 128 (c.nat "k") gs
    let ks := (kept.mergeSort (fun a b => a.entry < b.entry || (a.entry == b.entry && a.exit ≤ b.exit))).map
      (fun g => s!"{g.entry}:{g.exit}")
    let es := (ext.eraseDups.mergeSort (fun a b => decide (a ≤ b))).map toString
    (s!"kept={joinStr ks} ext={joinStr es}", "-")
  | "lo_pipe" =>
    let W := c.nat "w"
    let k := c.nat "k"
    let kg := k - 1
    let a := arrOfTable W k (c.flag "rc") (c.get "table")
    let n := a.names.length
    let (mNum, mDen) := match (c.get "m").splitOn "/" with
      | [x, y] => (x.toNat?.getD 0, y.toNat?.getD 1)
      | _ => (0, 1)
    let (g, col) := buildGraphU W a
    match identifyGoodKmers W kg g col with
    | none => ("panic", "-")
    | some (starts, ends) =>
      if starts.isEmpty then ("no-entry", "-")
      else
        let gr := buildVariantGroups W kg g starts ends (c.nat "depth")
        let fmtG := fun (gs : List ((Nat × Nat) × List Variant)) =>
          let items := gs.map (fun kv =>
            let vs := sortStrings (kv.2.map (fun (v : Variant) =>
              s!"{strOf v.1}@{if v.2.isEmpty then "~" else String.intercalate "+" (v.2.map toString)}"))
            s!"{strOf (skaloDecode W kv.1.1 kg)}>{strOf (skaloDecode W kv.1.2 kg)}:{String.intercalate "/" vs}")
          let items := sortStrings items
          if items.isEmpty then "~" else String.intercalate ";" items
        let st := (starts.mergeSort (fun x y => decide (x ≤ y))).map toString
        let head := s!"starts={joinStr st} sg={fmtG gr.snpGroups} ig={fmtG gr.indelGroups}"
        let fmtR := fun (r : Option (List (List UInt8) × List IndelRec)) =>
          match r with
          | none => "panic"
          | some (cols, recs) =>
            let rs := recs.map (fun (x : IndelRec) =>
              s!"{strOf x.ref}:{strOf x.alt}:{strOf x.before}:{strOf x.after}:{String.intercalate "|" x.calls}")
            s!"cols={joinStr (sortStrings (cols.map strOf))} recs={joinStr rs}"
        -- the arrival order of the groups must not matter: also run on the reversed lists
        let rev : Groups := { snpGroups := gr.snpGroups.reverse, indelGroups := gr.indelGroups.reverse }
        match c.kv.find? (·.1 == "ref") with
        | none =>
          let r1 := analyse W kg n mNum mDen (c.nat "ik") col gr
          let r2 := analyse W kg n mNum mDen (c.nat "ik") col rev
          (s!"{head} {fmtR r1}", s!"{head} {fmtR r2}")
        | some (_, refS) =>
          -- with a reference: positioned columns through the writer, in position order
          let genome := genomeBytes (bytesOf refS)
          let fmtP := fun (r : Option (List (Nat × List UInt8) × List IndelRec)) =>
            match r with
            | none => "panic"
            | some (placed, recs) =>
              let o := createFastaAndVcf genome n placed
              let ps := o.vcf.map (fun (x : Nat × UInt8 × List UInt8) => s!"{x.1 + 1}:{strOf [x.2.1]}:{strOf x.2.2}")
              let rs := recs.map (fun (x : IndelRec) =>
                s!"{strOf x.ref}:{strOf x.alt}:{strOf x.before}:{strOf x.after}:{String.intercalate "|" x.calls}")
              s!"cols={joinStr ps} recs={joinStr rs}"
          (s!"{head} {fmtP (analyseRef W kg n mNum mDen (c.nat "ik") col gr genome)}",
           s!"{head} {fmtP (analyseRef W kg n mNum mDen (c.nat "ik") col rev genome)}")
  | "lo_out" =>
    let genome := bytesOf (c.text "genome")
    let n := c.nat "n"
    let vars := (c.list "vars").filterMap (fun v =>
      match v.splitOn ":" with
      | [p, col] => some (p.toNat?.getD 0, bytesOf col)
      | _ => none)
    let o := createFastaAndVcf genome n vars
    let snps := joinStr (o.snpSeqs.map strOrDot)
    let pseudo := match o.pseudo with | some ps => joinStr (ps.map strOrDot) | none => "none"
    let vcf := match o.pseudo with
      | none => "none"
      | some _ => joinStr (o.vcf.map (fun (r : Nat × UInt8 × List UInt8) =>
          let p : Nat := r.1
          let rb : UInt8 := r.2.1
          let col : List UInt8 := r.2.2
          let alts := sortStrings (((col.filter (fun b => b != rb && b != 45 && b != 78)).eraseDups).map (fun b => strOf [b]))
          let dec := strOf (col.map (fun b => if b == rb then rb else vcfGenotypeChar b))
          s!"{p + 1}:{strOf [rb]}:{if alts.isEmpty then "~" else String.intercalate "/" alts}:{dec}"))
    (s!"snps={snps} pseudo={pseudo} vcf={vcf}", "-")
  | "lo_graph" =>
    let W := c.nat "w"
    let k := c.nat "k"
    let a := arrOfTable W k (c.flag "rc") (c.get "table")
    let parts := (a.kmers.zip a.variants).map (fun kv => rowGraph W k kv.1 kv.2)
    let edges := sortStrings ((parts.flatMap (·.1)).map (fun e => s!"{e.1}>{e.2}"))
    -- `entry(..).and_modify(union_with).or_insert_with`: the sample sets recorded for a k-mer are merged
    let colours := (parts.flatMap (·.2)).foldl (fun (acc : List (Nat × List Nat)) kv => addColourU acc kv.1 kv.2) []
    let cs := sortStrings (colours.map (fun kv => s!"{kv.1}:{String.intercalate "+" (kv.2.map toString)}"))
    (s!"k={k} n={a.names.length} edges={joinStr edges} colours={joinStr cs}", "-")
  | op => (s!"unknown-op:{op}", "-")

end SkaModel.Driver
