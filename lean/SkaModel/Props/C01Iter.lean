/-
C01, iterator part — the split k-mer iterator (`new`, then `rollFwd` until it
fails) visits exactly the valid windows of the record, in order. Only the
`index` field of the state is concerned here.
-/
import SkaModel.Impl.SplitKmer
import SkaModel.Spec.Windows
import SkaModel.Lemmas.Enum
import SkaModel.Lemmas.SplitKmerIndex

namespace SkaModel.Props.C01

open SkaModel SkaModel.Spec SkaModel.Lemmas

/-- `j` is the least valid window start `≥ a` -/
abbrev LeastValidFrom (c : SKConf) (a j : Nat) : Prop :=
  a ≤ j ∧ validStart c.k c.seqLen c.okAt j = true ∧
    ∀ j', a ≤ j' → j' < j → validStart c.k c.seqLen c.okAt j' = false

/-- there is no valid window start `≥ a` -/
abbrev NoValidFrom (c : SKConf) (a : Nat) : Prop :=
  ∀ j, a ≤ j → validStart c.k c.seqLen c.okAt j = false

theorem leastValidFrom_iff (c : SKConf) (a j : Nat) :
    LeastValidFrom c a j ↔ LeastFrom (V c) a j := Iff.rfl

theorem noValidFrom_iff (c : SKConf) (a : Nat) :
    NoValidFrom c a ↔ NoneFrom (V c) a := Iff.rfl

/-! ### 1. `buildLoop` -/

/-- what `buildLoop` returns, as one statement on the result -/
def BuildLoopPost (c : SKConf) (idx : Nat) : Option (Nat × Nat × Nat × Nat) → Prop
  | some r => LeastValidFrom c idx r.1
  | none => NoValidFrom c idx

theorem buildLoop_post (c : SKConf) (idx i u l m : Nat)
    (h1 : idx + c.k ≤ c.seqLen) (h2 : i ≤ c.k)
    (h3 : ∀ t, t < i → c.okAt (idx + t) = true) :
    BuildLoopPost c idx (c.buildLoop idx i u l m) := by
  fun_induction SKConf.buildLoop c idx i u l m with
  | case1 idx i u l m hik hok nb hmid ih =>
    apply ih h1 (by omega)
    intro t ht
    by_cases hti : t = i
    · rw [hti]; exact hok
    · exact h3 t (by omega)
  | case2 idx i u l m hik hok nb hmid hmid' ih =>
    apply ih h1 (by omega)
    intro t ht
    by_cases hti : t = i
    · rw [hti]; exact hok
    · exact h3 t (by omega)
  | case3 idx i u l m hik hok nb hmid hmid' ih =>
    apply ih h1 (by omega)
    intro t ht
    by_cases hti : t = i
    · rw [hti]; exact hok
    · exact h3 t (by omega)
  | case4 idx i u l m hik hok hend =>
    -- unacceptable position, and no room for a window after it
    have hbad : c.okAt (idx + i) = false := by
      cases h : c.okAt (idx + i) with
      | false => rfl
      | true => exact absurd h hok
    intro j hj
    by_cases hji : j ≤ idx + i
    · exact validStart_false_of_bad _ _ _ j (idx + i) hbad hji (by omega)
    · exact validStart_false_of_len _ _ _ j (by omega)
  | case5 idx i u l m hik hok hend ih =>
    -- unacceptable position: every window starting in [idx, idx+i] contains it
    have hbad : c.okAt (idx + i) = false := by
      cases h : c.okAt (idx + i) with
      | false => rfl
      | true => exact absurd h hok
    have hskip : ∀ j, idx ≤ j → j < idx + i + 1 →
        validStart c.k c.seqLen c.okAt j = false := fun j hj1 hj2 =>
      validStart_false_of_bad _ _ _ j (idx + i) hbad (by omega) (by omega)
    have ih' := ih (by omega) (by omega) (fun t ht => absurd ht (by omega))
    revert ih'
    generalize c.buildLoop (idx + i + 1) 0 0 0 0 = res
    intro ih'
    cases res with
    | none =>
      intro j hj
      by_cases hji : j < idx + i + 1
      · exact hskip j hj hji
      · exact ih' j (by omega)
    | some r =>
      obtain ⟨ha, hv, hl⟩ := ih'
      refine ⟨by omega, hv, ?_⟩
      intro j' hj1 hj2
      by_cases hji : j' < idx + i + 1
      · exact hskip j' hj1 hji
      · exact hl j' (by omega) hj2
  | case6 idx i u l m hik =>
    have hi : i = c.k := by omega
    subst hi
    refine ⟨Nat.le_refl _, ?_, fun j' h1 h2 => absurd h2 (by omega)⟩
    exact (validStart_iff _ _ _ _).2 ⟨h1, h3⟩

/-- Deliverable 1. Under the loop invariant (`i` acceptable positions seen from
`idx`, and the window at `idx` fits), `buildLoop` returns the least valid start
`≥ idx`, or `none` exactly when there is none. -/
theorem buildLoop_spec (c : SKConf) (idx i u l m : Nat)
    (h1 : idx + c.k ≤ c.seqLen) (h2 : i ≤ c.k)
    (h3 : ∀ t, t < i → c.okAt (idx + t) = true) :
    (∀ st a b d, c.buildLoop idx i u l m = some (st, a, b, d) →
        idx ≤ st ∧ validStart c.k c.seqLen c.okAt st = true ∧
          ∀ j', idx ≤ j' → j' < st → validStart c.k c.seqLen c.okAt j' = false)
    ∧ (c.buildLoop idx i u l m = none →
        ∀ j, idx ≤ j → validStart c.k c.seqLen c.okAt j = false) := by
  have h := buildLoop_post c idx i u l m h1 h2 h3
  constructor
  · intro st a b d he
    rw [he] at h
    exact h
  · intro he
    rw [he] at h
    exact h

/-! ### 2. `build` -/

/-- Deliverable 2. `build idx` returns the index of the LAST base of the first
valid window starting at or after `idx`; `none` when there is no such window. -/
theorem build_spec (c : SKConf) (hk : 0 < c.k) (idx : Nat) (r : Bool) :
    (∀ ix a b d h, c.build idx r = some (ix, a, b, d, h) →
        (idx ≤ ix + 1 - c.k ∧ validStart c.k c.seqLen c.okAt (ix + 1 - c.k) = true ∧
          ∀ j', idx ≤ j' → j' < ix + 1 - c.k → validStart c.k c.seqLen c.okAt j' = false)
        ∧ ix = (ix + 1 - c.k) + c.k - 1)
    ∧ (c.build idx r = none →
        ∀ j, idx ≤ j → validStart c.k c.seqLen c.okAt j = false) := by
  unfold SKConf.build
  by_cases hlen : idx + c.k > c.seqLen
  · simp only [hlen, if_true]
    refine ⟨fun _ _ _ _ _ h => absurd h (by simp), fun _ j hj => ?_⟩
    exact validStart_false_of_len _ _ _ j (by omega)
  · simp only [hlen, if_false]
    have hp := buildLoop_post c idx 0 0 0 0 (by omega) (by omega)
      (fun t ht => absurd ht (by omega))
    revert hp
    generalize c.buildLoop idx 0 0 0 0 = res
    intro hp
    cases res with
    | none =>
      exact ⟨fun _ _ _ _ _ h => absurd h (by simp), fun _ => hp⟩
    | some q =>
      obtain ⟨st, u, l, m⟩ := q
      refine ⟨?_, fun h => absurd h (by simp)⟩
      intro ix a b d h he
      simp only [Option.some.injEq, Prod.mk.injEq] at he
      have hix : ix = st + c.k - 1 := he.1.symm
      have hst : ix + 1 - c.k = st := by omega
      rw [hst]
      exact ⟨hp, by omega⟩

/-! ### 3. `rollFwd` -/

/-- Deliverable 3. From a state sitting on the valid window `j`, `rollFwd`
moves to the next valid window after `j`; `none` when there is none. -/
theorem rollFwd_spec (c : SKConf) (hk : 0 < c.k) (s : SKState) (j : Nat)
    (hidx : s.index = j + c.k - 1)
    (hv : validStart c.k c.seqLen c.okAt j = true) :
    (∀ s', c.rollFwd s = some s' →
        (j + 1 ≤ s'.index + 1 - c.k ∧
          validStart c.k c.seqLen c.okAt (s'.index + 1 - c.k) = true ∧
          ∀ j', j + 1 ≤ j' → j' < s'.index + 1 - c.k →
            validStart c.k c.seqLen c.okAt j' = false)
        ∧ s'.index = (s'.index + 1 - c.k) + c.k - 1)
    ∧ (c.rollFwd s = none →
        ∀ j', j + 1 ≤ j' → validStart c.k c.seqLen c.okAt j' = false) := by
  have hnext : s.index + 1 = j + c.k := by omega
  obtain ⟨hjlen, hjok⟩ := (validStart_iff _ _ _ _).1 hv
  rcases rollFwd_cases c s with ⟨hlen, hr⟩ | ⟨hlen, hbad, hb, hr⟩ |
      ⟨hlen, hbad, r, s', hb, hr, hix⟩ | ⟨hlen, hok, s', hr, hix⟩
  · -- end of the record
    rw [hr]
    refine ⟨fun _ h => absurd h (by simp), fun _ j' hj' => ?_⟩
    exact validStart_false_of_len _ _ _ j' (by omega)
  · -- unacceptable position, and `build` finds nothing
    rw [hr]
    refine ⟨fun _ h => absurd h (by simp), fun _ j' hj' => ?_⟩
    rw [hnext] at hbad hb
    by_cases hjj : j' ≤ j + c.k
    · exact validStart_false_of_bad _ _ _ j' (j + c.k) hbad hjj (by omega)
    · exact ((build_spec c hk (j + c.k) _).2 hb) j' (by omega)
  · -- unacceptable position, `build` finds the next window
    rw [hr]
    refine ⟨?_, fun h => absurd h (by simp)⟩
    intro s'' he
    simp only [Option.some.injEq] at he
    subst he
    rw [hnext] at hbad hb
    obtain ⟨ix, a, b, d, h⟩ := r
    obtain ⟨⟨hge, hval, hleast⟩, hshape⟩ := (build_spec c hk (j + c.k) _).1 ix a b d h hb
    have hix' : s'.index = ix := hix
    rw [hix']
    refine ⟨⟨by omega, hval, ?_⟩, hshape⟩
    intro j' hj1 hj2
    by_cases hjj : j' ≤ j + c.k
    · exact validStart_false_of_bad _ _ _ j' (j + c.k) hbad hjj (by omega)
    · exact hleast j' (by omega) hj2
  · -- acceptable position: the window shifts by one
    rw [hr]
    refine ⟨?_, fun h => absurd h (by simp)⟩
    intro s'' he
    simp only [Option.some.injEq] at he
    subst he
    rw [hnext] at hok hlen
    have hst : s'.index + 1 - c.k = j + 1 := by omega
    rw [hst]
    refine ⟨⟨Nat.le_refl _, ?_, fun j' h1 h2 => absurd h2 (by omega)⟩, by omega⟩
    refine (validStart_iff _ _ _ _).2 ⟨by omega, fun t ht => ?_⟩
    by_cases htk : t + 1 < c.k
    · have := hjok (t + 1) htk
      rw [show j + 1 + t = j + (t + 1) by omega]
      exact this
    · rw [show j + 1 + t = j + c.k by omega]
      exact hok

/-! ### 4. the whole iteration -/

theorem windowsBy_eq_filterFrom (c : SKConf) :
    windowsBy c.k c.seqLen c.okAt = filterFrom (V c) (c.seqLen + 1 - c.k) 0 := by
  rw [filterFrom_zero]
  rfl

/-- a valid start lies inside the range `windowsBy` filters -/
theorem valid_lt_bound (c : SKConf) (_hk : 0 < c.k) (j : Nat)
    (hv : validStart c.k c.seqLen c.okAt j = true) : j < c.seqLen + 1 - c.k := by
  have := ((validStart_iff _ _ _ _).1 hv).1
  omega

/-- the iteration from a state sitting on the valid window `j` lists the valid
windows from `j` on, provided the fuel covers the rest of the record -/
theorem statesFrom_index (c : SKConf) (hk : 0 < c.k) (fuel : Nat) (s : SKState) (j : Nat)
    (hidx : s.index = j + c.k - 1)
    (hv : validStart c.k c.seqLen c.okAt j = true)
    (hfuel : c.seqLen ≤ fuel + j + c.k) :
    (c.statesFrom fuel s).map (·.index)
      = (filterFrom (V c) (c.seqLen + 1 - c.k) j).map (· + c.k - 1) := by
  induction fuel generalizing s j with
  | zero =>
    have hnone : NoneFrom (V c) (j + 1) := fun j' hj' =>
      validStart_false_of_len _ _ _ j' (by omega)
    rw [filterFrom_cons (V c) _ j (valid_lt_bound c hk j hv) hv,
      filterFrom_none (V c) _ (j + 1) hnone]
    simp only [SKConf.statesFrom, List.map_cons, List.map_nil, hidx]
  | succ fuel ih =>
    obtain ⟨hsome, hnone⟩ := rollFwd_spec c hk s j hidx hv
    rw [filterFrom_cons (V c) _ j (valid_lt_bound c hk j hv) hv]
    unfold SKConf.statesFrom
    cases hr : c.rollFwd s with
    | none =>
      rw [filterFrom_none (V c) _ (j + 1) (hnone hr)]
      simp only [List.map_cons, List.map_nil, hidx]
    | some s' =>
      obtain ⟨hleast, hshape⟩ := hsome s' hr
      have hlt := valid_lt_bound c hk _ hleast.2.1
      rw [filterFrom_least (V c) _ (j + 1) (s'.index + 1 - c.k) hleast hlt]
      have := ih s' (s'.index + 1 - c.k) hshape hleast.2.1 (by omega)
      rw [filterFrom_cons (V c) _ _ hlt hleast.2.1] at this
      simp only [List.map_cons, hidx]
      rw [this]
      simp only [List.map_cons]

/-- `new` through the `index` field -/
theorem new_cases (c : SKConf) :
    (c.build 0 c.isReads = none ∧ c.new = none)
    ∨ (∃ r s, c.build 0 c.isReads = some r ∧ c.new = some s ∧ s.index = r.1) := by
  unfold SKConf.new
  cases hb : c.build 0 c.isReads with
  | none => left; exact ⟨rfl, rfl⟩
  | some r =>
    right
    obtain ⟨ix, u, l, m, hg⟩ := r
    refine ⟨(ix, u, l, m, hg), ?_⟩
    cases c.rc with
    | true => exact ⟨_, rfl, rfl, rfl⟩
    | false => exact ⟨_, rfl, rfl, rfl⟩

/-- Deliverable 4. The iterator visits exactly the valid windows, in order
(each state's `index` is the last base of its window), and the fuel suffices. -/
theorem T01_states_index (c : SKConf) (hk : 0 < c.k) :
    c.states.map (·.index)
      = (windowsBy c.k c.seqLen c.okAt).map (· + c.k - 1) := by
  rw [windowsBy_eq_filterFrom]
  unfold SKConf.states
  rcases new_cases c with ⟨hb, hn⟩ | ⟨r, s, hb, hn, hix⟩
  · rw [hn]
    have := (build_spec c hk 0 c.isReads).2 hb
    rw [filterFrom_none (V c) _ 0 this]
    rfl
  · rw [hn]
    obtain ⟨ix, a, b, d, h⟩ := r
    obtain ⟨hleast, hshape⟩ := (build_spec c hk 0 c.isReads).1 ix a b d h hb
    have hix' : s.index = ix := hix
    have hlt := valid_lt_bound c hk _ hleast.2.1
    rw [filterFrom_skip_to (V c) _ 0 (ix + 1 - c.k) (Nat.zero_le _) hleast.2.2]
    exact statesFrom_index c hk c.seqLen s (ix + 1 - c.k) (by omega) hleast.2.1 (by omega)

theorem T01_states_nonempty_iff (c : SKConf) (hk : 0 < c.k) :
    c.states = [] ↔ windowsBy c.k c.seqLen c.okAt = [] := by
  have h := T01_states_index c hk
  constructor
  · intro he
    rw [he] at h
    exact List.map_eq_nil_iff.1 h.symm
  · intro he
    rw [he] at h
    exact List.map_eq_nil_iff.1 h

/-! ### 5. middle positions -/

theorem T01_middle_pos (c : SKConf) (hk : 0 < c.k) (hodd : c.k % 2 = 1) :
    c.states.map c.middlePos
      = (windowsBy c.k c.seqLen c.okAt).map (· + halfK c.k) := by
  have h := T01_states_index c hk
  have h1 : c.states.map c.middlePos = (c.states.map (·.index)).map (· - c.midIdx) := by
    rw [List.map_map]
    rfl
  rw [h1, h, List.map_map]
  apply List.map_congr_left
  intro j _
  simp only [Function.comp, SKConf.midIdx, halfK]
  omega

end SkaModel.Props.C01
