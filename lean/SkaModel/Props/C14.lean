/-
C14 — `ska distance` (see DESIGN.md §7 C14), in exact integer arithmetic:
an entry is `(36 × SNP distance, mismatches, matches)`; the reported proportion is
`mismatches / (matches + mismatches)`.

* `variantDist_unamb`  on cells in {A,C,G,T,-}: (36·#both-present-and-different, #exactly-one-gap, cst + #both-present)
* `T14_sym`, `T14_ident`, `T14_range`  symmetry (all bytes), identity, proportion in [0,1]
* `T14_once`, `T14_row`, `T14_entry`  shape of the upper triangle: each unordered pair exactly once
* `T14_perm_rows`  row order is irrelevant
* `T14_counts`  the mode `Modes.distance` against the table specification `Table.pairDist`
-/
import SkaModel.Spec.Abs
import SkaModel.Lemmas.ZipFilter
import SkaModel.Lemmas.VariantDist
import SkaModel.Lemmas.FilterVariants
import SkaModel.Lemmas.DistRows
import SkaModel.Lemmas.DistMode

namespace SkaModel.Props.C14

open SkaModel SkaModel.Spec SkaModel.VD SkaModel.FV SkaModel.ZipFilter SkaModel.DR SkaModel.DM

/-- each unordered pair is reported exactly once: row `i` lists the `n - 1 - i` later samples -/
theorem T14_once (a : Arr) (c : Nat) :
    (a.distance c).length = a.names.length := by
  simp [Arr.distance]

/-! ### One pair of columns -/

/-- **C14, unambiguous columns.** For cells in {A,C,G,T,-} the three accumulators are plain counts:
36 × the number of positions where both are bases and differ; the number of positions where
exactly one is a gap; `cst` + the number of positions where both are bases.
(No length hypothesis is needed: `zip` truncates both ways.) -/
theorem variantDist_unamb (c1 c2 : List UInt8) (cst : Nat)
    (h1 : ∀ b ∈ c1, b = 65 ∨ b = 67 ∨ b = 71 ∨ b = 84 ∨ b = GAP)
    (h2 : ∀ b ∈ c2, b = 65 ∨ b = 67 ∨ b = 71 ∨ b = 84 ∨ b = GAP) :
    Arr.variantDist c1 c2 cst
      = (36 * ((c1.zip c2).filter (fun p => p.1 != GAP && p.2 != GAP && p.1 != p.2)).length,
         ((c1.zip c2).filter (fun p => (p.1 == GAP) != (p.2 == GAP))).length,
         cst + ((c1.zip c2).filter (fun p => p.1 != GAP && p.2 != GAP)).length) := by
  rw [variantDist_sums]
  have hD : ((c1.zip c2).map D).sum
      = ((c1.zip c2).map (fun p => if (p.1 != GAP && p.2 != GAP && p.1 != p.2) then 36 else 0)).sum := by
    apply sum_map_congr
    intro p hp
    obtain ⟨x, y⟩ := p
    have := List.of_mem_zip hp
    exact D_base5 (h1 x this.1) (h2 y this.2)
  have hB : ((c1.zip c2).map B).sum
      = ((c1.zip c2).map (fun p => if (p.1 != GAP && p.2 != GAP) then 1 else 0)).sum :=
    sum_map_congr _ _ _ (fun p _ => B_eq p)
  rw [hD, hB, sum_map_ite_k, sum_map_ite_one, M_sum]

/-- the mismatch and match accumulators are these counts for arbitrary bytes -/
theorem variantDist_counts (c1 c2 : List UInt8) (cst : Nat) :
    (Arr.variantDist c1 c2 cst).2.1 = ((c1.zip c2).filter (fun p => (p.1 == GAP) != (p.2 == GAP))).length
    ∧ (Arr.variantDist c1 c2 cst).2.2
        = cst + ((c1.zip c2).filter (fun p => p.1 != GAP && p.2 != GAP)).length := by
  rw [variantDist_sums]
  have hB : ((c1.zip c2).map B).sum
      = ((c1.zip c2).map (fun p => if (p.1 != GAP && p.2 != GAP) then 1 else 0)).sum :=
    sum_map_congr _ _ _ (fun p _ => B_eq p)
  simp only [hB, sum_map_ite_one, M_sum, and_self]

/-- **C14, symmetry**, for all byte columns (any lengths) -/
theorem T14_sym (c1 c2 : List UInt8) (cst : Nat) :
    Arr.variantDist c1 c2 cst = Arr.variantDist c2 c1 cst := by
  rw [variantDist_sums, variantDist_sums, ← ZipFilter.zip_swap c1 c2]
  simp only [List.map_map]
  have hD : D ∘ Prod.swap = D := funext D_swap
  have hM : M ∘ Prod.swap = M := funext M_swap
  have hB : B ∘ Prod.swap = B := funext B_swap
  rw [hD, hM, hB]

/-- **C14, identity**: a sample is at distance 0 and mismatch 0 from itself -/
theorem T14_ident (c : List UInt8) (cst : Nat)
    (h : ∀ b ∈ c, b = 65 ∨ b = 67 ∨ b = 71 ∨ b = 84 ∨ b = GAP) :
    (Arr.variantDist c c cst).1 = 0 ∧ (Arr.variantDist c c cst).2.1 = 0 := by
  rw [variantDist_unamb c c cst h h]
  rw [zip_self]
  constructor
  · have : (List.filter (fun p : UInt8 × UInt8 => p.1 != GAP && p.2 != GAP && p.1 != p.2)
        (c.map fun x => (x, x))) = [] := by
      apply filter_eq_nil_of_all_false
      intro p hp
      obtain ⟨x, _, rfl⟩ := List.mem_map.mp hp
      simp
    simp [this]
  · have : (List.filter (fun p : UInt8 × UInt8 => (p.1 == GAP) != (p.2 == GAP))
        (c.map fun x => (x, x))) = [] := by
      apply filter_eq_nil_of_all_false
      intro p hp
      obtain ⟨x, _, rfl⟩ := List.mem_map.mp hp
      simp
    simp [this]

private theorem MB_le (l : List (UInt8 × UInt8)) : (l.map M).sum + (l.map B).sum ≤ l.length := by
  induction l with
  | nil => simp
  | cons p ps ih =>
    have : M p + B p ≤ 1 := by
      obtain ⟨x, y⟩ := p
      simp only [M, B]
      cases (x == GAP) <;> cases (y == GAP) <;> simp
    simp only [List.map_cons, List.sum_cons, List.length_cons]; omega

/-- **C14, range**: the reported proportion `mm / (mm + m)` is in [0,1]; moreover `matches`
never drops below the constant-site count and `mm + m` is at most `cst` + the number of rows -/
theorem T14_range (c1 c2 : List UInt8) (cst : Nat) :
    (Arr.variantDist c1 c2 cst).2.1 ≤ (Arr.variantDist c1 c2 cst).2.1 + (Arr.variantDist c1 c2 cst).2.2
    ∧ cst ≤ (Arr.variantDist c1 c2 cst).2.2
    ∧ (Arr.variantDist c1 c2 cst).2.1 + (Arr.variantDist c1 c2 cst).2.2
        ≤ cst + min c1.length c2.length := by
  rw [variantDist_sums]
  have := MB_le (c1.zip c2)
  rw [List.length_zip] at this
  refine ⟨Nat.le_add_right _ _, Nat.le_add_right _ _, ?_⟩
  show ((c1.zip c2).map M).sum + (cst + ((c1.zip c2).map B).sum) ≤ _
  omega

/-- the distance accumulator is at most 36 per row where both are present -/
theorem T14_dist_le (c1 c2 : List UInt8) (cst : Nat) :
    (Arr.variantDist c1 c2 cst).1 + 36 * cst ≤ 36 * (Arr.variantDist c1 c2 cst).2.2 := by
  rw [variantDist_sums]
  show ((c1.zip c2).map D).sum + 36 * cst ≤ 36 * (cst + ((c1.zip c2).map B).sum)
  generalize c1.zip c2 = l
  induction l with
  | nil => simp
  | cons p ps ih =>
    have : D p ≤ 36 * B p := by
      simp only [D, B]; split <;> omega
    simp only [List.map_cons, List.sum_cons]; omega

/-! ### Shape of the matrix -/

/-- row `i` of the matrix lists the pairs `(i, i+1), (i, i+2), …, (i, n-1)` in order -/
theorem T14_row (a : Arr) (c i : Nat) (hi : i < a.names.length) :
    (a.distance c)[i]? = some ((List.range (a.names.length - 1 - i)).map
      (fun j => Arr.variantDist (a.column i) (a.column (i + 1 + j)) c)) := by
  simp only [Arr.distance]
  rw [List.getElem?_map, List.getElem?_range hi]
  simp only [Option.map_some, range_filter_gt, List.map_map]
  rfl

theorem T14_row_length (a : Arr) (c i : Nat) (hi : i < a.names.length) :
    ((a.distance c)[i]'(by rw [T14_once]; exact hi)).length = a.names.length - 1 - i := by
  have h := T14_row a c i hi
  rw [List.getElem?_eq_getElem (by rw [T14_once]; exact hi)] at h
  rw [Option.some.inj h]; simp

/-- the entry for the pair `i < j` sits at row `i`, position `j - i - 1`, and nowhere else
(row `i` has exactly `n - 1 - i` entries and the matrix has `n` rows) -/
theorem T14_entry (a : Arr) (c i j : Nat) (hij : i < j) (hj : j < a.names.length) :
    ((a.distance c)[i]?.bind (·[j - i - 1]?)) = some (Arr.variantDist (a.column i) (a.column j) c) := by
  rw [T14_row a c i (by omega)]
  simp only [Option.bind_some, List.getElem?_map]
  rw [List.getElem?_range (by omega)]
  have : i + 1 + (j - i - 1) = j := by omega
  simp [this]

/-! ### Row order is irrelevant -/

theorem step_comm (z : Nat × Nat × Nat) (x y : UInt8 × UInt8) :
    VD.step (VD.step z x) y = VD.step (VD.step z y) x := by
  simp only [step_eq]
  simp only [Nat.add_right_comm]

/-- permuting the cell pairs does not change the result -/
theorem variantDist_perm {c1 c2 c1' c2' : List UInt8} (h : (c1.zip c2).Perm (c1'.zip c2')) (cst : Nat) :
    Arr.variantDist c1 c2 cst = Arr.variantDist c1' c2' cst := by
  rw [variantDist_eq_foldl, variantDist_eq_foldl]
  exact h.foldl_eq' (fun x _ y _ z => step_comm z x y) _

/-- **C14, row order.** If two arrays have the same names and their rows are permutations of
each other (k-mer order in the file / hash-map iteration order), the distance matrices are equal. -/
theorem T14_perm_rows (a b : Arr) (cst : Nat) (hn : a.names = b.names)
    (hp : a.variants.Perm b.variants) : a.distance cst = b.distance cst := by
  simp only [Arr.distance, hn]
  apply List.map_congr_left
  intro i _
  apply List.map_congr_left
  intro j _
  apply variantDist_perm
  simp only [Arr.column, List.zip_map']
  exact hp.map _

/-! ### The mode against the table specification -/

/-- a pair of columns of an unambiguous table, as counts over rows -/
theorem variantDist_columns (V : List (List UInt8)) (hu : Unambiguous V) (i j cst : Nat) :
    Arr.variantDist (V.map (fun row => row.getD i GAP)) (V.map (fun row => row.getD j GAP)) cst
      = (36 * (V.filter (qd i j)).length, (V.filter (qo i j)).length, cst + (V.filter (qb i j)).length) := by
  rw [variantDist_unamb]
  · simp only [List.zip_map', List.filter_map, List.length_map]
    rfl
  · intro b hb
    obtain ⟨row, hr, rfl⟩ := List.mem_map.mp hb
    exact getD_base5 (hu row hr) i
  · intro b hb
    obtain ⟨row, hr, rfl⟩ := List.mem_map.mp hb
    exact getD_base5 (hu row hr) j

/-- **C14, main theorem.** For a well-formed array without ambiguity codes in which every stored
k-mer is present in some sample, for every threshold `t = ceil(n·min_freq)` and both flag settings,
`ska distance` reports the input names and, for each pair `i < j` (found at row `i`, position
`j - i - 1`): 36 × the number of k-mers present in both samples with different middle bases, the
number of k-mers present in exactly one of the two, and a match count such that
matches + mismatches is the number of k-mers present in at least one of the two — all counted over
the k-mers present in at least `t` samples (`Table.pairDist`). In particular the later filter passes
remove nothing, and adding the removed constant-site count to `matches` is exact. -/
theorem T14_counts (a : Arr) (hwf : a.WF) (hrp : a.RowsPresent) (hu : Unambiguous a.variants)
    (t : Nat) (ge1 filt : Bool) :
    (Modes.distance a t ge1 filt).1 = a.names
    ∧ (Modes.distance a t ge1 filt).2.length = a.names.length
    ∧ ∀ i j, i < j → j < a.names.length →
        ∃ d36 mm m,
          ((Modes.distance a t ge1 filt).2[i]?.bind (·[j - i - 1]?)) = some (d36, mm, m)
          ∧ d36 = 36 * (a.abs.pairDist t i j).1
          ∧ mm = (a.abs.pairDist t i j).2.1
          ∧ m + mm = (a.abs.pairDist t i j).2.2 := by
  have hle : a.variants.length ≤ a.kmers.length := by rw [hwf.lenV]; exact Nat.le_refl _
  have hp : RP a.variants := hrp
  obtain ⟨a3, hn3, hv3, hd⟩ := modes_distance_struct a hle t ge1 filt
  rw [V3_eq hp hu] at hv3
  rw [hd]
  refine ⟨rfl, ?_, ?_⟩
  · show (a3.distance _).length = _
    rw [T14_once, hn3]
  · intro i j hij hj
    have hu2 : Unambiguous (V2 t a.variants) := by
      rw [V2_eq hp, V1_eq hp]; exact Unamb_filter (Unamb_filter hu _) _
    have he := T14_entry a3 (cstOf t a.variants) i j hij (by rw [hn3]; exact hj)
    simp only [Arr.column, hv3] at he
    rw [variantDist_columns _ hu2] at he
    obtain ⟨s1, s2, s3⟩ := split_counts hp a.names.length hwf.rowLen t i j (by omega) hj
    refine ⟨_, _, _, he, ?_, ?_, ?_⟩
    · rw [pairDist_eq a hle hp, s1]
    · rw [pairDist_eq a hle hp, s2]
    · rw [pairDist_eq a hle hp, s3, s2]
      show cstOf t a.variants + _ + _ = _ + _ + _
      omega

/-! ### Non-vacuity: a concrete 3-sample, 6-row table -/

def exampleArr : Arr := Arr.mk 3 true ["x", "y", "z"] [1, 2, 3, 4, 5, 6]
    [[65, 65, 65], [65, 67, 45], [45, 45, 84], [71, 71, 45], [67, 84, 71], [84, 84, 84]]
    [3, 2, 1, 2, 3, 3] 64

theorem exampleArr_WF : exampleArr.WF := ⟨by decide, by decide, by decide, by decide⟩
theorem exampleArr_present : exampleArr.RowsPresent := by unfold Arr.RowsPresent; decide
theorem exampleArr_unamb : Unambiguous exampleArr.variants := by unfold Unambiguous; decide

/-- rows 1 and 6 are constant (counted in `matches`), row 3 is dropped by the threshold 2 -/
example : Modes.distance exampleArr 2 true true
    = (["x", "y", "z"], [[(72, 0, 5), (36, 2, 3)], [(36, 2, 3)], []]) := by decide +kernel
example : Modes.distance exampleArr 0 false false
    = (["x", "y", "z"], [[(72, 0, 5), (36, 3, 3)], [(36, 3, 3)], []]) := by decide +kernel
example : [exampleArr.abs.pairDist 2 0 1, exampleArr.abs.pairDist 2 0 2, exampleArr.abs.pairDist 2 1 2]
    = [(2, 0, 5), (1, 2, 5), (1, 2, 5)] := by decide +kernel
example : [exampleArr.abs.pairDist 0 0 1, exampleArr.abs.pairDist 0 0 2, exampleArr.abs.pairDist 0 1 2]
    = [(2, 0, 5), (1, 3, 6), (1, 3, 6)] := by decide +kernel
/-- the hypotheses of the main theorem are satisfiable -/
example := T14_counts exampleArr exampleArr_WF exampleArr_present exampleArr_unamb 2 true true

end SkaModel.Props.C14
