/-
C14 — property theorems (see DESIGN.md §7 C14). First theorems; the refinement
theorems are being added.
-/
import SkaModel.Spec.Abs

namespace SkaModel.Props.C14

open SkaModel SkaModel.Spec

/-- each unordered pair is reported exactly once: row `i` lists the `n - 1 - i` later samples -/
theorem T14_once (a : Arr) (c : Nat) :
    (a.distance c).length = a.names.length := by
  simp [Arr.distance]

end SkaModel.Props.C14
