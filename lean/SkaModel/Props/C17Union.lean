/-
C17 / C18, `build_graph` after the fix "the sample sets of a k-mer entered several times are merged"
(`SkaModel/Impl/SkaloUnion.lean`: `unionSorted`, `addColourU`, `buildGraphU`; before the fix the first
insertion won: `addColour`, `buildGraph`).

1. `T17U_union_sorted`, `T17U_union_mem`, `T17U_union_self`, `T17U_union_comm`, `T17U_union_assoc`,
   `T17U_sorted_ext` — `unionSorted` is the set union on strictly increasing lists.
2. `T17U_row_samples_sorted` — the sample lists of `rowGraph` are strictly increasing.
3. `T17U_graph` — the graph component is unchanged.
4. `T17U_lookup` — for EVERY table: the colour set of `f` is the union of the sample sets of all coloured
   k-mers `(f, _)` of all rows (`colourEntries`), strictly increasing; `f` is a key iff there is one.
5. `T17U_order` — the colour map no longer depends on the order of the rows;
   `T17U_old_order_dependent` — the old one did (kernel-checked example: the two strands of one split
   k-mer as two rows, as in a file built with `--single-strand`).
6. `ColourCons`, `T17U_eq_of_cons`, `T17U_transfer`, `T17U_lo_eq` — when all coloured k-mers with the same
   key carry the same sample set (decidable), `buildGraphU = buildGraph` (the whole pair, as lists), hence
   every statement about `buildGraph` / the pipeline `lo` holds for `buildGraphU` / `loU`.
7. `T17U_cons_of_canon`, `T17U_cons_of_strict`, `T17U_cons_fam`, `T17U_cons_var` — `ColourCons` holds for the
   tables of the older theorems: distinct canonical keys with symmetric palindromic rows; distinct strictly
   canonical keys (`T17_colour_exact`); the joint build (both strands) of any family of A/C/G/T samples, rows in
   any order (`colour_fam`, `T17_complete`, `T18_complete`).  Consequences: `T17U_colour_sound`,
   `T17U_colour_complete`, `T17U_colour_exact`, `T17U_complete`, `T18U_complete`.
8. Non-vacuity: examples at the end.

Proofs: `SkaModel/Lemmas/LOUSorted.lean`, `LOUFold.lean`, `LOUCons.lean`, `LOUTables.lean`.
-/
import SkaModel.Lemmas.LOUTables
import SkaModel.Props.C17Real
import SkaModel.Props.C17Complete
import SkaModel.Props.C18Complete

namespace SkaModel.Props.C17U

open SkaModel SkaModel.Skalo SkaModel.Spec SkaModel.Props.C16 SkaModel.Props.C17G SkaModel.LOG
open SkaModel.LORL SkaModel.LOC

/-! ### 1. `unionSorted` -/

theorem T17U_union_sorted (xs ys : List Nat) (hx : xs.Pairwise (· < ·)) (hy : ys.Pairwise (· < ·)) :
    (unionSorted xs ys).Pairwise (· < ·) :=
  LOU.unionSorted_sorted xs ys hx hy

/-- (holds for any two lists) -/
theorem T17U_union_mem (xs ys : List Nat) (i : Nat) : i ∈ unionSorted xs ys ↔ i ∈ xs ∨ i ∈ ys :=
  LOU.mem_unionSorted xs ys i

/-- (holds for any list) -/
theorem T17U_union_self (xs : List Nat) : unionSorted xs xs = xs :=
  LOU.unionSorted_self xs

/-- strictly increasing lists with the same members are equal -/
theorem T17U_sorted_ext (xs ys : List Nat) (hx : xs.Pairwise (· < ·)) (hy : ys.Pairwise (· < ·))
    (h : ∀ i, i ∈ xs ↔ i ∈ ys) : xs = ys :=
  LOU.sinc_ext xs ys hx hy h

theorem T17U_union_comm (xs ys : List Nat) (hx : xs.Pairwise (· < ·)) (hy : ys.Pairwise (· < ·)) :
    unionSorted xs ys = unionSorted ys xs :=
  LOU.unionSorted_comm xs ys hx hy

theorem T17U_union_assoc (xs ys zs : List Nat) (hx : xs.Pairwise (· < ·)) (hy : ys.Pairwise (· < ·))
    (hz : zs.Pairwise (· < ·)) :
    unionSorted (unionSorted xs ys) zs = unionSorted xs (unionSorted ys zs) :=
  LOU.unionSorted_assoc xs ys zs hx hy hz

/-! ### 2. the rows -/

/-- **rowGraph_samples_sorted** -/
theorem T17U_row_samples_sorted (W k key : Nat) (cells : List UInt8) :
    ∀ e ∈ (rowGraph W k key cells).2, e.2.Pairwise (· < ·) :=
  LOU.rowGraph_samples_sorted W k key cells

/-! ### 3. the graph -/

/-- **T17U_graph**: the graph does not depend on the colours -/
theorem T17U_graph (W : Nat) (a : Arr) : (buildGraphU W a).1 = (buildGraph W a).1 :=
  LOU.buildGraphU_fst W a

/-! ### 4. the colour map, every table -/

/-- **T17U_lookup**: `f` is not a key iff no row yields it; the set of a key is strictly increasing and
holds exactly the samples of all coloured k-mers `(f, _)` of all rows -/
theorem T17U_lookup (W : Nat) (a : Arr) (f : Nat) :
    (Assoc.lookup (buildGraphU W a).2 f = none ↔ ∀ e ∈ colourEntries W a, e.1 ≠ f) ∧
    ∀ S, Assoc.lookup (buildGraphU W a).2 f = some S →
      S.Pairwise (· < ·) ∧ ∀ i, i ∈ S ↔ ∃ e ∈ colourEntries W a, e.1 = f ∧ i ∈ e.2 :=
  ⟨LOU.buildGraphU_lookup_none W a f, fun S h => LOU.buildGraphU_lookup_some W a f S h⟩

/-- a k-mer that some row yields is a key -/
theorem T17U_lookup_some (W : Nat) (a : Arr) (e : Nat × List Nat) (he : e ∈ colourEntries W a) :
    ∃ S, Assoc.lookup (buildGraphU W a).2 e.1 = some S ∧ ∀ i ∈ e.2, i ∈ S := by
  cases h : Assoc.lookup (buildGraphU W a).2 e.1 with
  | none => exact absurd rfl ((LOU.buildGraphU_lookup_none W a e.1).mp h e he)
  | some S =>
    exact ⟨S, rfl, fun i hi => ((LOU.buildGraphU_lookup_some W a e.1 S h).2 i).mpr ⟨e, he, rfl, hi⟩⟩

/-- the colour map as one fold over the coloured k-mers of all rows -/
theorem T17U_fold (W : Nat) (a : Arr) :
    (buildGraphU W a).2 = (colourEntries W a).foldl (fun c e => addColourU c e.1 e.2) [] :=
  LOU.buildGraphU_snd W a

/-! ### 5. the order of the rows -/

/-- **T17U_order**: the same rows in another order give the same colour sets -/
theorem T17U_order (W : Nat) (a a' : Arr) (hk : a'.k = a.k)
    (hp : (a'.kmers.zip a'.variants).Perm (a.kmers.zip a.variants)) (f : Nat) :
    Assoc.lookup (buildGraphU W a').2 f = Assoc.lookup (buildGraphU W a).2 f :=
  LOU.buildGraphU_lookup_perm W a a' hk hp f

/-- k = 5, two samples; row 0: arms AC / TG (key 27), sample 0 shows A: the k-mer ACATG = 75, its reverse
complement CATGT = 302; row 1: arms CA / GT (key 78 = the reverse complement of key 27), sample 1 shows T: the
k-mer CATGT = 302, its reverse complement ACATG = 75 -/
def exA : Arr :=
  { k := 5, rc := false, names := ["s", "t"], kmers := [27, 78], variants := [[65, 45], [45, 84]],
    counts := [], kBits := 64 }

/-- the rows of `exA` in the other order -/
def exB : Arr :=
  { k := 5, rc := false, names := ["s", "t"], kmers := [78, 27], variants := [[45, 84], [65, 45]],
    counts := [], kBits := 64 }

theorem exAB_perm : exB.k = exA.k ∧ (exB.kmers.zip exB.variants).Perm (exA.kmers.zip exA.variants) :=
  ⟨rfl, List.Perm.swap _ _ _⟩

theorem exA_key : LORL.rcKey 5 27 = 78 := by decide

/-- **T17U_old_order_dependent**: before the fix the colour set depended on the order of the rows -/
theorem T17U_old_order_dependent :
    Assoc.lookup (buildGraph 64 exA).2 75 = some [0] ∧ Assoc.lookup (buildGraph 64 exB).2 75 = some [1] ∧
    Assoc.lookup (buildGraph 64 exA).2 75 ≠ Assoc.lookup (buildGraph 64 exB).2 75 := by decide

/-- after the fix both orders give both samples -/
theorem T17U_new_order_example :
    Assoc.lookup (buildGraphU 64 exA).2 75 = some [0, 1] ∧ Assoc.lookup (buildGraphU 64 exB).2 75 = some [0, 1] ∧
    Assoc.lookup (buildGraphU 64 exA).2 302 = some [0, 1] ∧ Assoc.lookup (buildGraphU 64 exB).2 302 = some [0, 1] := by
  have hA : colourEntries 64 exA = [(75, [0]), (302, [0]), (302, [1]), (75, [1])] := by decide
  have hB : colourEntries 64 exB = [(302, [1]), (75, [1]), (75, [0]), (302, [0])] := by decide
  simp only [LOU.buildGraphU_lookup, hA, hB]
  simp [LOU.setsOf, LOU.mergeInto, unionSorted]

example : Assoc.lookup (buildGraphU 64 exB).2 75 = Assoc.lookup (buildGraphU 64 exA).2 75 :=
  T17U_order 64 exA exB exAB_perm.1 exAB_perm.2 75

/-! ### 6. when merging changes nothing -/

/-- **ColourCons**: coloured k-mers of the rows with the same key carry the same sample set:
`∀ e1 ∈ colourEntries W a, ∀ e2 ∈ colourEntries W a, e1.1 = e2.1 → e1.2 = e2.2` (decidable) -/
abbrev ColourCons (W : Nat) (a : Arr) : Prop := LOU.ColourCons W a

theorem ColourCons_def (W : Nat) (a : Arr) :
    ColourCons W a ↔ ∀ e1 ∈ colourEntries W a, ∀ e2 ∈ colourEntries W a, e1.1 = e2.1 → e1.2 = e2.2 :=
  Iff.rfl

/-- the Bool version -/
abbrev colourConsB (W : Nat) (a : Arr) : Bool := LOU.colourConsB W a

theorem T17U_consB_iff (W : Nat) (a : Arr) : colourConsB W a = true ↔ ColourCons W a :=
  LOU.colourConsB_iff W a

/-- **T17U_eq_of_cons**: on a consistent table the result of `build_graph` is unchanged by the fix -/
theorem T17U_eq_of_cons (W : Nat) (a : Arr) (h : ColourCons W a) : buildGraphU W a = buildGraph W a :=
  LOU.buildGraphU_eq W a h

/-- **T17U_transfer**: everything that holds for `buildGraph` holds for `buildGraphU` -/
theorem T17U_transfer (W : Nat) (a : Arr) (h : ColourCons W a) (P : Graph × Colours → Prop)
    (hp : P (buildGraph W a)) : P (buildGraphU W a) := by
  rw [T17U_eq_of_cons W a h]; exact hp

/-- the reference-free pipeline (`LOC.lo`) on the merged colours -/
def loU (W k n mNum mDen ik maxDepth : Nat) (a : Arr) : Option (List (List UInt8) × List IndelRec) := do
  let (g, col) := buildGraphU W a
  let (st, en) ← identifyGoodKmers W (k - 1) g col
  analyse W (k - 1) n mNum mDen ik col (buildVariantGroups W (k - 1) g st en maxDepth)

/-- **T17U_lo_eq**: on a consistent table the pipeline is unchanged by the fix -/
theorem T17U_lo_eq (W k n mNum mDen ik maxDepth : Nat) (a : Arr) (h : ColourCons W a) :
    loU W k n mNum mDen ik maxDepth a = LOC.lo W k n mNum mDen ik maxDepth a := by
  unfold loU LOC.lo
  rw [T17U_eq_of_cons W a h]

/-- `LORL.colour_sound` for the merged colours -/
theorem T17U_colour_sound (W : Nat) (a : Arr) (hc : ColourCons W a) (hk : ValidK a.k) (hw : WidthOk W a.k)
    (hkeys : ∀ key ∈ a.kmers, key < 4 ^ (a.k - 1)) (f : Nat) (S : List Nat)
    (h : Assoc.lookup (buildGraphU W a).2 f = some S) :
    ∃ kv ∈ a.kmers.zip a.variants, ∃ u l, kv.1 = packL (u ++ l) ∧ u.length = halfK a.k ∧
      l.length = halfK a.k ∧ (∀ c ∈ u, c < 4) ∧ (∀ c ∈ l, c < 4) ∧ ∃ n ∈ C17.shownBases kv.2,
        (f = packL (u ++ [code n] ++ l) ∨ f = packL (rcCodes (u ++ [code n] ++ l))) ∧
        S = C17.samplesOf kv.2 n ∧ S ≠ [] ∧
        ∀ i ∈ S, i < kv.2.length ∧ kv.2.getD i 45 ≠ 45 ∧ n ∈ degenerate (kv.2.getD i 45) := by
  rw [T17U_eq_of_cons W a hc] at h
  exact LORL.colour_sound W a hk hw hkeys f S h

/-- `LORL.colour_complete` for the merged colours (no consistency needed) -/
theorem T17U_colour_complete (W : Nat) (a : Arr) (hk : ValidK a.k) (hw : WidthOk W a.k)
    (hkeys : ∀ key ∈ a.kmers, key < 4 ^ (a.k - 1)) (kv : Nat × List UInt8)
    (hkv : kv ∈ a.kmers.zip a.variants) (u l : List Nat) (e : kv.1 = packL (u ++ l))
    (hu : u.length = halfK a.k) (hl : l.length = halfK a.k) (hcu : ∀ c ∈ u, c < 4) (hcl : ∀ c ∈ l, c < 4)
    (n : UInt8) (hn : n ∈ C17.shownBases kv.2) :
    (∃ S, Assoc.lookup (buildGraphU W a).2 (packL (u ++ [code n] ++ l)) = some S ∧
      ∀ i ∈ C17.samplesOf kv.2 n, i ∈ S) ∧
    (∃ S, Assoc.lookup (buildGraphU W a).2 (packL (rcCodes (u ++ [code n] ++ l))) = some S ∧
      ∀ i ∈ C17.samplesOf kv.2 n, i ∈ S) := by
  constructor
  · exact T17U_lookup_some W a (packL (u ++ [code n] ++ l), C17.samplesOf kv.2 n)
      ((mem_colourEntries W a hk hw hkeys _ _).mpr
        ⟨kv, hkv, u, l, e, hu, hl, hcu, hcl, n, hn, Or.inl rfl, rfl⟩)
  · exact T17U_lookup_some W a (packL (rcCodes (u ++ [code n] ++ l)), C17.samplesOf kv.2 n)
      ((mem_colourEntries W a hk hw hkeys _ _).mpr
        ⟨kv, hkv, u, l, e, hu, hl, hcu, hcl, n, hn, Or.inr rfl, rfl⟩)

/-! ### 7. the tables of the older theorems are consistent -/

/-- the cells of every palindromic row (its key is its own reverse complement) are symmetric: a base and
its complement (`code n = code n' ^^^ 2`) are shown by the same samples -/
abbrev PalinSym (a : Arr) : Prop := LOU.PalinSym a

theorem PalinSym_def (a : Arr) :
    PalinSym a ↔ ∀ kv ∈ a.kmers.zip a.variants, kv.1 = LORL.rcKey a.k kv.1 →
      ∀ n ∈ C17.shownBases kv.2, ∀ n' ∈ C17.shownBases kv.2, code n = code n' ^^^ 2 →
        C17.samplesOf kv.2 n = C17.samplesOf kv.2 n' :=
  Iff.rfl

/-- **T17U_cons_of_canon**: distinct canonical keys (a table built with both strands), palindromic rows
symmetric -/
theorem T17U_cons_of_canon (W : Nat) (a : Arr) (hk : ValidK a.k) (hw : WidthOk W a.k)
    (hkeys : ∀ key ∈ a.kmers, key < 4 ^ (a.k - 1))
    (hnd : a.kmers.Nodup) (hcanon : ∀ key ∈ a.kmers, key ≤ LORL.rcKey a.k key) (hpal : PalinSym a) :
    ColourCons W a :=
  LOU.colourCons_of_canon W a hk hw hkeys hnd hcanon hpal

/-- **T17U_cons_of_strict**: distinct strictly canonical keys (the hypotheses of `T17_colour_exact`) -/
theorem T17U_cons_of_strict (W : Nat) (a : Arr) (hk : ValidK a.k) (hw : WidthOk W a.k)
    (hkeys : ∀ key ∈ a.kmers, key < 4 ^ (a.k - 1))
    (hnd : a.kmers.Nodup) (hcanon : ∀ key ∈ a.kmers, key < LORL.rcKey a.k key) : ColourCons W a :=
  LOU.colourCons_of_strict W a hk hw hkeys hnd hcanon

/-- **T17U_cons_var**: the joint build (both strands) of a family of samples of A/C/G/T of any lengths, rows in
any order, palindromic split k-mers allowed -/
theorem T17U_cons_var {a : Arr} {k : Nat} {names : List String} {S : List (List UInt8)}
    (ha : LOC.IsArrOf a k names S) (h : LOE.VFam S) (hk : ValidK k) {W : Nat} (hw : WidthOk W k) :
    ColourCons W a :=
  LOU.colourCons_var ha h hk hw

/-- **T17U_cons_fam**: the same for samples of one length (the setting of `colour_fam` / `T17_complete`) -/
theorem T17U_cons_fam {a : Arr} {k L : Nat} {names : List String} {S : List (List UInt8)}
    (ha : LOC.IsArrOf a k names S) (h : LOC.SFam L S) (hk : ValidK k) {W : Nat} (hw : WidthOk W k) :
    ColourCons W a :=
  LOU.colourCons_fam ha h hk hw

/-- `T17_colour_exact` for the merged colours -/
theorem T17U_colour_exact (W : Nat) (a : Arr) (hk : ValidK a.k) (hw : WidthOk W a.k)
    (hkeys : ∀ key ∈ a.kmers, key < 4 ^ (a.k - 1))
    (hnd : a.kmers.Nodup) (hcanon : ∀ key ∈ a.kmers, key < LORL.rcKey a.k key)
    (kv : Nat × List UInt8) (hkv : kv ∈ a.kmers.zip a.variants)
    (u l : List Nat) (e : kv.1 = packL (u ++ l))
    (hu : u.length = halfK a.k) (hl : l.length = halfK a.k) (hcu : ∀ c ∈ u, c < 4) (hcl : ∀ c ∈ l, c < 4)
    (n : UInt8) (hn : n ∈ C17.shownBases kv.2) :
    Assoc.lookup (buildGraphU W a).2 (packL (u ++ [code n] ++ l)) = some (C17.samplesOf kv.2 n) ∧
    Assoc.lookup (buildGraphU W a).2 (packL (rcCodes (u ++ [code n] ++ l))) = some (C17.samplesOf kv.2 n) := by
  rw [T17U_eq_of_cons W a (T17U_cons_of_strict W a hk hw hkeys hnd hcanon)]
  exact LORL.colour_exact W a hk hw hkeys hnd hcanon kv hkv u l e hu hl hcu hcl n hn

/-- `colour_fam` for the merged colours -/
theorem T17U_colour_fam {a : Arr} {k L : Nat} {names : List String} {S : List (List UInt8)}
    (ha : LOC.IsArrOf a k names S) (h : LOC.SFam L S) (hk : ValidK k) {W : Nat} (hw : WidthOk W k)
    (s : List UInt8) (hs : s ∈ S) (j : Nat) (hj : j + k ≤ L) (F : List Nat)
    (hF : F = cds (win s j k) ∨ F = rcCodes (cds (win s j k))) :
    ∃ Cs : List Nat,
      Assoc.lookup (buildGraphU W a).2 (packL F) = some Cs ∧ Cs.Pairwise (· < ·) ∧
      ∀ i, i ∈ Cs ↔ ∃ t, S[i]? = some t ∧ ∃ j', j' + k ≤ L ∧
        (cds (win t j' k) = cds (win s j k) ∨ cds (win t j' k) = rcCodes (cds (win s j k))) := by
  rw [T17U_eq_of_cons W a (T17U_cons_fam ha h hk hw)]
  exact LOC.colour_fam ha h hk hw s hs j hj F hF

/-- **T17U_complete**: `T17_complete` (completeness of SNP calling for isolated SNPs) for the pipeline on the
merged colours -/
theorem T17U_complete (W k L : Nat) (A : List UInt8) (S : List (List UInt8)) (P : List Nat) (names : List String)
    (a : Arr) (hk : ValidK k) (hw : WidthOk W k) (hpl : C17K.Planted k L A S P) (ha : C17K.IsArrOf a k names S)
    (mNum mDen ik maxDepth : Nat) :
    ∃ cols, loU W k S.length mNum mDen ik maxDepth a = some (cols, []) ∧
      C17K.ColsMatch cols (C17K.trueCols S P) := by
  rw [T17U_lo_eq _ _ _ _ _ _ _ _ (T17U_cons_fam ha (LOC.pfam_of_planted hpl).sf hk hw)]
  exact C17K.T17_complete W k L A S P names a hk hw hpl ha mNum mDen ik maxDepth

/-- **T18U_complete**: `T18_complete` (completeness of indel calling for isolated indels) for the pipeline on
the merged colours -/
theorem T18U_complete (W k : Nat) (F : List UInt8) (B : List (Nat × Nat)) (C : List (List Bool))
    (names : List String) (a : Arr) (hk : ValidK k) (hw : WidthOk W k) (hpl : C18K.DPlanted k F B C)
    (ha : C18K.IsArrOf a k names (C18K.dsamples F B C)) (mNum mDen ik maxDepth : Nat) :
    ∃ recs, loU W k C.length mNum mDen ik maxDepth a = some ([], recs) ∧ C18K.RecsMatch k F B C recs := by
  rw [T17U_lo_eq _ _ _ _ _ _ _ _ (T17U_cons_var ha (C18K.ctx_of hk hw hpl ha).h.vfam hk hw)]
  exact C18K.T18_complete W k F B C names a hk hw hpl ha mNum mDen ik maxDepth

/-! ### 8. non-vacuity -/

/-- `ColourCons` holds for the table `exT` of `Props/C17Real.lean` (12 rows, 2 samples, 28 coloured k-mers) -/
example : ColourCons 64 C17Q.exT := by decide
example : (colourEntries 64 C17Q.exT).length = 28 := by decide
example : buildGraphU 64 C17Q.exT = buildGraph 64 C17Q.exT := T17U_eq_of_cons 64 C17Q.exT (by decide)
example : colourConsB 64 C17Q.exT = true := by decide
/-- and also by item 7: the keys of `exT` are distinct and canonical, its one palindromic row (key 225) shows
one base only -/
example : ColourCons 64 C17Q.exT :=
  T17U_cons_of_canon 64 C17Q.exT C17Q.exT_k C17Q.exT_w C17Q.exT_keys (by decide) (by decide) (by decide)
/-- `exT2` of `Props/C17Real.lean`: distinct strictly canonical keys -/
example : ColourCons 64 C17Q.exT2 :=
  T17U_cons_of_strict 64 C17Q.exT2 (by unfold ValidK; decide) (by unfold WidthOk; decide) (by decide)
    (by decide) (by decide)

/-- `ColourCons` fails for the counterexample of item 5 (in both orders) -/
example : ¬ ColourCons 64 exA := by decide
example : ¬ ColourCons 64 exB := by decide
example : colourConsB 64 exA = false := by decide
/-- there `buildGraphU` and `buildGraph` differ -/
example : buildGraphU 64 exA ≠ buildGraph 64 exA := by
  intro h
  have h1 := T17U_new_order_example.1
  rw [h, T17U_old_order_dependent.1] at h1
  exact absurd h1 (by decide)
/-- the hypotheses of item 7 that `exA` violates: key 78 is not canonical -/
example : ¬ (∀ key ∈ exA.kmers, key ≤ LORL.rcKey exA.k key) := by decide

/-- a palindromic row (arms AC / GT, key 30 = its own reverse complement) with symmetric cells (W = A or T in
sample 0, S = C or G in sample 1): `PalinSym` holds, `T17U_cons_of_canon` applies -/
def exP : Arr :=
  { k := 5, rc := true, names := ["s", "t"], kmers := [30], variants := [[87, 83]], counts := [], kBits := 64 }
example : LORL.rcKey exP.k 30 = 30 := by decide
example : ColourCons 64 exP :=
  T17U_cons_of_canon 64 exP (by unfold ValidK; decide) (by unfold WidthOk; decide) (by decide) (by decide)
    (by decide) (by decide)
/-- without the symmetry the palindromic row is inconsistent (sample 0 shows A only, sample 1 shows T only) -/
def exP2 : Arr :=
  { k := 5, rc := true, names := ["s", "t"], kmers := [30], variants := [[65, 84]], counts := [], kBits := 64 }
example : ¬ ColourCons 64 exP2 := by decide
example : PalinSym exP ∧ ¬ PalinSym exP2 := by decide

end SkaModel.Props.C17U

#print axioms SkaModel.Props.C17U.T17U_union_sorted
#print axioms SkaModel.Props.C17U.T17U_union_mem
#print axioms SkaModel.Props.C17U.T17U_union_self
#print axioms SkaModel.Props.C17U.T17U_sorted_ext
#print axioms SkaModel.Props.C17U.T17U_union_comm
#print axioms SkaModel.Props.C17U.T17U_union_assoc
#print axioms SkaModel.Props.C17U.T17U_row_samples_sorted
#print axioms SkaModel.Props.C17U.T17U_graph
#print axioms SkaModel.Props.C17U.T17U_lookup
#print axioms SkaModel.Props.C17U.T17U_lookup_some
#print axioms SkaModel.Props.C17U.T17U_fold
#print axioms SkaModel.Props.C17U.T17U_order
#print axioms SkaModel.Props.C17U.T17U_old_order_dependent
#print axioms SkaModel.Props.C17U.T17U_new_order_example
#print axioms SkaModel.Props.C17U.T17U_consB_iff
#print axioms SkaModel.Props.C17U.T17U_eq_of_cons
#print axioms SkaModel.Props.C17U.T17U_transfer
#print axioms SkaModel.Props.C17U.T17U_lo_eq
#print axioms SkaModel.Props.C17U.T17U_colour_sound
#print axioms SkaModel.Props.C17U.T17U_colour_complete
#print axioms SkaModel.Props.C17U.T17U_cons_of_canon
#print axioms SkaModel.Props.C17U.T17U_cons_of_strict
#print axioms SkaModel.Props.C17U.T17U_cons_var
#print axioms SkaModel.Props.C17U.T17U_cons_fam
#print axioms SkaModel.Props.C17U.T17U_colour_exact
#print axioms SkaModel.Props.C17U.T17U_colour_fam
#print axioms SkaModel.Props.C17U.T17U_complete
#print axioms SkaModel.Props.C17U.T18U_complete
