/-
C07 — `ska merge`: `to_dict`, `extend`, `MergeSkaArray::new` refine column concatenation of the
plain tables (see DESIGN.md §7 C07).

Hypothesis note. `Arr.NoZero` (cells ≠ 0) is not enough for the refinement: `MergeSkaArray::new`
writes `max(b, '-')`, so a stored byte in 1..44 would be rewritten to '-' by a merge
(`T07_noZero_insufficient` below is a kernel-checked counterexample). The theorems are stated under
`Arr.CellsGE` (every stored cell is ≥ 45 = '-'; all symbols `- A..Z a..z` are), which implies
`NoZero` (`Arr.CellsGE.noZero`) and is re-established by every `MergeSkaArray::new`.
-/
import SkaModel.Lemmas.ExtendLemmas

namespace SkaModel.Props.C07

open SkaModel SkaModel.Spec

/-- inputs built with a different k or strand mode are refused -/
theorem T07_refuse (d o : MDict) (h : o.k ≠ d.k ∨ o.rc ≠ d.rc) : ∃ e, d.extend o = .error e := by
  unfold MDict.extend
  rcases h with h | h
  · exact ⟨.kmerLen, by simp [h]⟩
  · by_cases hk : o.k = d.k
    · exact ⟨.strand, by simp [hk, h]⟩
    · exact ⟨.kmerLen, by simp [hk]⟩

/-! ### what `MergeSkaArray::new` guarantees for any well-formed dictionary -/

/-- facts about `Arr.ofDict W d` bundled for the statements below -/
structure GoodOutput (r : Arr) : Prop where
  wf : r.WF
  cellsGE : r.CellsGE
  noZero : r.NoZero
  counts : r.counts = r.variants.map (Arr.cellCount false)

theorem goodOutput_ofDict (W : Nat) (d : MDict) (hd : d.WF) (hc : d.Cells) : GoodOutput (Arr.ofDict W d) :=
  ⟨ofDict_wf_J W d hd, ofDict_cellsGE W d, (ofDict_cellsGE W d).noZero, ofDict_counts W d hc⟩

/-! ### one `extend` -/

/-- **T07_extend.** `a.to_dict().extend(b.to_dict())` succeeds and the array written from it is
exactly (same row order) the column concatenation `a ++ b`: a key only in `a` gets `b.names.length`
gaps appended, a key only in `b` gets `a.names.length` gaps prepended. -/
theorem T07_extend (W : Nat) (a b : Arr) (ha : a.WF) (hb : b.WF) (hca : a.CellsGE) (hcb : b.CellsGE)
    (hk : a.k = b.k) (hrc : a.rc = b.rc) :
    ∃ d, a.toDict.extend b.toDict = .ok d
      ∧ (Arr.ofDict W d).abs = a.abs.concat b.abs
      ∧ GoodOutput (Arr.ofDict W d)
      ∧ (Arr.ofDict W d).k = a.k ∧ (Arr.ofDict W d).rc = a.rc
      ∧ (Arr.ofDict W d).names = a.names ++ b.names
      ∧ (a.RowsPresent → b.RowsPresent → (Arr.ofDict W d).RowsPresent) := by
  obtain ⟨d, hd, hwf, hk', hrc', hnames, habs, hcells⟩ :=
    extend_refines a.toDict b.toDict (toDict_wf a ha) (toDict_wf b hb) hk.symm hrc.symm
  rw [toDict_abs a ha hca, toDict_abs b hb hcb] at habs
  have hout := goodOutput_ofDict W d hwf (hcells (toDict_cells a ha hca) (toDict_cells b hb hcb))
  refine ⟨d, hd, by rw [ofDict_abs, habs], hout, hk', hrc', hnames, ?_⟩
  intro hpa hpb
  rw [Arr.rowsPresent_iff hout.wf.lenV, ofDict_abs, habs]
  exact Table.concat_rowsPresent _ _ (Arr.abs_wf ha).2 (Arr.abs_wf hb).2
    ((Arr.rowsPresent_iff ha.lenV).mp hpa) ((Arr.rowsPresent_iff hb.lenV).mp hpb)

/-- the row-permutation form asked for in DESIGN.md -/
theorem T07_extend_equiv (W : Nat) (a b : Arr) (ha : a.WF) (hb : b.WF) (hca : a.CellsGE) (hcb : b.CellsGE)
    (hk : a.k = b.k) (hrc : a.rc = b.rc) :
    ∃ d, a.toDict.extend b.toDict = .ok d ∧ (Arr.ofDict W d).abs.Equiv (a.abs.concat b.abs) := by
  obtain ⟨d, h1, h2, _⟩ := T07_extend W a b ha hb hca hcb hk hrc
  exact ⟨d, h1, Table.Equiv.of_eq h2⟩

/-! ### `ska merge` on a list of files -/

theorem foldlM_extend (rest : List Arr) (d : MDict) (hd : d.WF)
    (hall : ∀ b ∈ rest, b.WF ∧ b.CellsGE ∧ b.k = d.k ∧ b.rc = d.rc) :
    ∃ d', rest.foldlM (fun d a => d.extend a.toDict) d = .ok d' ∧ d'.WF ∧ d'.k = d.k ∧ d'.rc = d.rc
      ∧ d'.abs = (rest.map Arr.abs).foldl Table.concat d.abs ∧ (d.Cells → d'.Cells) := by
  induction rest generalizing d with
  | nil => exact ⟨d, rfl, hd, rfl, rfl, rfl, id⟩
  | cons b rest ih =>
    obtain ⟨hbwf, hbc, hbk, hbrc⟩ := hall b (List.mem_cons_self ..)
    obtain ⟨d1, h1, hwf1, hk1, hrc1, _, habs1, hcells1⟩ :=
      extend_refines d b.toDict hd (toDict_wf b hbwf) hbk hbrc
    rw [toDict_abs b hbwf hbc] at habs1
    obtain ⟨d', h', hwf', hk', hrc', habs', hcells'⟩ := ih d1 hwf1 (by
      intro c hc
      obtain ⟨x1, x2, x3, x4⟩ := hall c (List.mem_cons_of_mem _ hc)
      exact ⟨x1, x2, x3.trans hk1.symm, x4.trans hrc1.symm⟩)
    refine ⟨d', ?_, hwf', hk'.trans hk1, hrc'.trans hrc1, ?_, ?_⟩
    · rw [List.foldlM_cons, h1]; exact h'
    · rw [habs', habs1]; rfl
    · intro hc; exact hcells' (hcells1 hc (toDict_cells b hbwf hbc))

/-- **T07_merge.** `ska merge first rest…` on well-formed files with the same k and strand mode
writes exactly `first ++ rest₁ ++ rest₂ ++ …` (left fold of column concatenation, names in argument
order, rows in first-seen order). -/
theorem T07_merge (W : Nat) (first : Arr) (rest : List Arr) (hf : first.WF) (hcf : first.CellsGE)
    (hall : ∀ b ∈ rest, b.WF ∧ b.CellsGE ∧ b.k = first.k ∧ b.rc = first.rc) :
    ∃ r, Modes.merge W first rest = .ok r
      ∧ r.abs = (rest.map Arr.abs).foldl Table.concat first.abs
      ∧ r.names = first.names ++ (rest.map (·.names)).flatten
      ∧ GoodOutput r ∧ r.k = first.k ∧ r.rc = first.rc ∧ r.kBits = W := by
  obtain ⟨d', h', hwf', hk', hrc', habs', hcells'⟩ :=
    foldlM_extend rest first.toDict (toDict_wf first hf) hall
  rw [toDict_abs first hf hcf] at habs'
  have habs : (Arr.ofDict W d').abs = (rest.map Arr.abs).foldl Table.concat first.abs := by
    rw [ofDict_abs, habs']
  refine ⟨Arr.ofDict W d', ?_, habs, ?_, goodOutput_ofDict W d' hwf' (hcells' (toDict_cells first hf hcf)),
    hk', hrc', rfl⟩
  · unfold Modes.merge; rw [h']; rfl
  · have : (Arr.ofDict W d').names = (Arr.ofDict W d').abs.names := rfl
    rw [this, habs]
    have hn : ∀ (ts : List Table) (t : Table),
        (ts.foldl Table.concat t).names = t.names ++ (ts.map (·.names)).flatten := by
      intro ts
      induction ts with
      | nil => intro t; simp
      | cons u ts ih => intro t; simp [ih, Table.concat_names, List.append_assoc]
    rw [hn]
    simp [Arr.abs, List.map_map, Function.comp_def]

/-- `RowsPresent` is kept by a merge -/
theorem T07_merge_rowsPresent (W : Nat) (first : Arr) (rest : List Arr) (hf : first.WF) (hcf : first.CellsGE)
    (hall : ∀ b ∈ rest, b.WF ∧ b.CellsGE ∧ b.k = first.k ∧ b.rc = first.rc)
    (hpf : first.RowsPresent) (hpr : ∀ b ∈ rest, b.RowsPresent) :
    ∀ r, Modes.merge W first rest = .ok r → r.RowsPresent := by
  intro r hr
  obtain ⟨r', hr', habs, _, hgood, _⟩ := T07_merge W first rest hf hcf hall
  rw [hr] at hr'
  cases hr'
  rw [Arr.rowsPresent_iff hgood.wf.lenV, habs]
  have key : ∀ (ts : List Arr) (t : Table), (∀ b ∈ ts, b.WF ∧ b.RowsPresent) → Table.WF t → t.RowsPresent →
      Table.WF ((ts.map Arr.abs).foldl Table.concat t) ∧ ((ts.map Arr.abs).foldl Table.concat t).RowsPresent := by
    intro ts
    induction ts with
    | nil => intro t _ h1 h2; exact ⟨h1, h2⟩
    | cons u ts ih =>
      intro t hts h1 h2
      obtain ⟨hu1, hu2⟩ := hts u (List.mem_cons_self ..)
      simp only [List.map_cons, List.foldl_cons]
      apply ih _ (fun b hb => hts b (List.mem_cons_of_mem _ hb))
      · exact Table.concat_wf _ _ h1 (Arr.abs_wf hu1)
      · exact Table.concat_rowsPresent _ _ h1.2 (Arr.abs_wf hu1).2 h2 ((Arr.rowsPresent_iff hu1.lenV).mp hu2)
  exact (key rest first.abs (fun b hb => ⟨(hall b hb).1, hpr b hb⟩) (Arr.abs_wf hf)
    ((Arr.rowsPresent_iff hf.lenV).mp hpf)).2

/-! ### refusal -/

theorem extend_ok_of_match (d o : MDict) (hk : o.k = d.k) (hrc : o.rc = d.rc) :
    ∃ d', d.extend o = .ok d' ∧ d'.k = d.k ∧ d'.rc = d.rc := by
  unfold MDict.extend
  simp only [hk, hrc, bne_self_eq_false, Bool.false_eq_true, if_false]
  exact ⟨_, rfl, rfl, rfl⟩

theorem foldlM_extend_error (rest : List Arr) (d : MDict)
    (h : ∃ b ∈ rest, b.k ≠ d.k ∨ b.rc ≠ d.rc) :
    ∃ e, rest.foldlM (fun d a => d.extend a.toDict) d = .error e := by
  induction rest generalizing d with
  | nil => obtain ⟨b, hb, _⟩ := h; cases hb
  | cons c rest ih =>
    rw [List.foldlM_cons]
    by_cases hc : c.k = d.k ∧ c.rc = d.rc
    · obtain ⟨d1, h1, hk1, hrc1⟩ := extend_ok_of_match d c.toDict hc.1 hc.2
      rw [h1]
      apply ih d1
      obtain ⟨b, hb, hne⟩ := h
      rcases List.mem_cons.mp hb with rfl | hb
      · rcases hne with h | h
        · exact absurd hc.1 h
        · exact absurd hc.2 h
      · exact ⟨b, hb, by rw [hk1, hrc1]; exact hne⟩
    · have : c.toDict.k ≠ d.k ∨ c.toDict.rc ≠ d.rc := by
        by_cases hk : c.k = d.k
        · exact Or.inr (fun x => hc ⟨hk, x⟩)
        · exact Or.inl hk
      obtain ⟨e, he⟩ := T07_refuse d c.toDict this
      exact ⟨e, by rw [he]; rfl⟩

/-- **T07_refuse_merge.** one input with another k or strand mode: the whole merge is an error and no
output is written (no hypothesis on the shape of the files) -/
theorem T07_refuse_merge (W : Nat) (first : Arr) (rest : List Arr)
    (h : ∃ b ∈ rest, b.k ≠ first.k ∨ b.rc ≠ first.rc) :
    ∃ e, Modes.merge W first rest = .error e := by
  obtain ⟨e, he⟩ := foldlM_extend_error rest first.toDict h
  exact ⟨e, by unfold Modes.merge; rw [he]; rfl⟩

/-- `merge` succeeds exactly when all k and strand modes agree -/
theorem T07_merge_ok_iff (W : Nat) (first : Arr) (rest : List Arr) :
    (∃ r, Modes.merge W first rest = .ok r) ↔ ∀ b ∈ rest, b.k = first.k ∧ b.rc = first.rc := by
  constructor
  · rintro ⟨r, hr⟩ b hb
    by_cases hc : b.k = first.k ∧ b.rc = first.rc
    · exact hc
    · have : b.k ≠ first.k ∨ b.rc ≠ first.rc := by
        by_cases hk : b.k = first.k
        · exact Or.inr (fun x => hc ⟨hk, x⟩)
        · exact Or.inl hk
      obtain ⟨e, he⟩ := T07_refuse_merge W first rest ⟨b, hb, this⟩
      rw [hr] at he; cases he
  · intro hall
    have key : ∀ (rest : List Arr) (d : MDict), (∀ b ∈ rest, b.k = d.k ∧ b.rc = d.rc) →
        ∃ d', rest.foldlM (fun d a => d.extend a.toDict) d = .ok d' := by
      intro rest
      induction rest with
      | nil => intro d _; exact ⟨d, rfl⟩
      | cons c rest ih =>
        intro d hd
        obtain ⟨h1, h2⟩ := hd c (List.mem_cons_self ..)
        obtain ⟨d1, e1, hk1, hrc1⟩ := extend_ok_of_match d c.toDict h1 h2
        obtain ⟨d', e'⟩ := ih d1 (fun b hb => by
          obtain ⟨x, y⟩ := hd b (List.mem_cons_of_mem _ hb)
          exact ⟨x.trans hk1.symm, y.trans hrc1.symm⟩)
        exact ⟨d', by rw [List.foldlM_cons, e1]; exact e'⟩
    obtain ⟨d', e'⟩ := key rest first.toDict hall
    exact ⟨Arr.ofDict W d', by unfold Modes.merge; rw [e']; rfl⟩

/-! ### associativity at the table level -/

/-- **T07_assoc.** column concatenation is associative on the nose — same names, same row order, same
cells — for arbitrary tables (no well-formedness needed) -/
theorem T07_assoc (A B C : Table) : (A.concat B).concat C = A.concat (B.concat C) :=
  Table.concat_assoc A B C

theorem T07_assoc_equiv (A B C : Table) : ((A.concat B).concat C).Equiv (A.concat (B.concat C)) :=
  Table.Equiv.of_eq (T07_assoc A B C)

theorem T07_assoc_lookup (A B C : Table) (k : Nat) :
    ((A.concat B).concat C).lookupRow k = (A.concat (B.concat C)).lookupRow k := by
  rw [T07_assoc]

/-- the cells of a concatenation, key by key: shared keys get both rows, a key only in `A` gets
`B.width` gaps appended, a key only in `B` gets `A.width` gaps prepended, other keys are absent -/
theorem T07_concat_cells (A B : Table) (k : Nat) :
    (∀ ra rb, A.lookupRow k = some ra → B.lookupRow k = some rb → (A.concat B).lookupRow k = some (ra ++ rb))
    ∧ (∀ ra, A.lookupRow k = some ra → B.lookupRow k = none →
        (A.concat B).lookupRow k = some (ra ++ List.replicate B.width gap))
    ∧ (∀ rb, A.lookupRow k = none → B.lookupRow k = some rb →
        (A.concat B).lookupRow k = some (List.replicate A.width gap ++ rb))
    ∧ (A.lookupRow k = none → B.lookupRow k = none → (A.concat B).lookupRow k = none) := by
  have hin : ∀ (T : Table) r, T.lookupRow k = some r → k ∈ T.keys := fun T r h =>
    Assoc.mem_keys_of_mem_J (Assoc.mem_of_lookup_J h)
  have hout : ∀ (T : Table), T.lookupRow k = none → k ∉ T.keys := fun T h => Assoc.lookup_eq_none_iff_J.mp h
  refine ⟨?_, ?_, ?_, ?_⟩
  · intro ra rb h1 h2
    rw [Table.concat_lookup, if_pos (Or.inl (hin A ra h1)), h1, h2]; rfl
  · intro ra h1 h2
    rw [Table.concat_lookup, if_pos (Or.inl (hin A ra h1)), h1, h2]; rfl
  · intro rb h1 h2
    rw [Table.concat_lookup, if_pos (Or.inr (hin B rb h2)), h1, h2]; rfl
  · intro h1 h2
    rw [Table.concat_lookup, if_neg (fun h => h.elim (hout A h1) (hout B h2))]

/-- well-formed tables stay well-formed -/
theorem T07_concat_wf (A B : Table) (hA : Table.WF A) (hB : Table.WF B) : Table.WF (A.concat B) :=
  Table.concat_wf A B hA hB

/-- merging in two steps or in one gives the same file content -/
theorem T07_merge_assoc (W : Nat) (a b c : Arr) (ha : a.WF) (hb : b.WF) (hc : c.WF)
    (hca : a.CellsGE) (hcb : b.CellsGE) (hcc : c.CellsGE)
    (hk1 : b.k = a.k) (hr1 : b.rc = a.rc) (hk2 : c.k = a.k) (hr2 : c.rc = a.rc) :
    ∃ r bc r', Modes.merge W a [b, c] = .ok r ∧ Modes.merge W b [c] = .ok bc ∧ Modes.merge W a [bc] = .ok r'
      ∧ r.abs = r'.abs := by
  obtain ⟨r, h1, habs1, _⟩ := T07_merge W a [b, c] ha hca (by
    intro x hx
    simp only [List.mem_cons, List.not_mem_nil, or_false] at hx
    rcases hx with rfl | rfl
    · exact ⟨hb, hcb, hk1, hr1⟩
    · exact ⟨hc, hcc, hk2, hr2⟩)
  obtain ⟨bc, h2, habs2, _, hg2, hk3, hr3, _⟩ := T07_merge W b [c] hb hcb (by
    intro x hx
    simp only [List.mem_cons, List.not_mem_nil, or_false] at hx
    subst hx
    exact ⟨hc, hcc, hk2.trans hk1.symm, hr2.trans hr1.symm⟩)
  obtain ⟨r', h3, habs3, _⟩ := T07_merge W a [bc] ha hca (by
    intro x hx
    simp only [List.mem_cons, List.not_mem_nil, or_false] at hx
    subst hx
    exact ⟨hg2.wf, hg2.cellsGE, hk3.trans hk1, hr3.trans hr1⟩)
  refine ⟨r, bc, r', h1, h2, h3, ?_⟩
  rw [habs1, habs3]
  simp only [List.map_cons, List.map_nil, List.foldl_cons, List.foldl_nil] at habs2 ⊢
  rw [habs2]
  exact T07_assoc _ _ _

/-! ### non-vacuity and the `NoZero` counterexample -/

def exA : Arr := { k := 3, rc := true, names := ["s1", "s2"], kmers := [5, 7, 9], variants := [[65, 67], [45, 71], [84, 84]], counts := [2, 1, 2], kBits := 64 }
def exB : Arr := { k := 3, rc := true, names := ["t1"], kmers := [9, 2, 5], variants := [[65], [67], [71]], counts := [1, 1, 1], kBits := 64 }
def exC : Arr := { k := 3, rc := true, names := ["u1", "u2"], kmers := [1, 2, 7], variants := [[65, 45], [67, 67], [45, 71]], counts := [1, 2, 1], kBits := 64 }
def exK : Arr := { exB with k := 5 }

example : exA.WF ∧ exB.WF ∧ exC.WF := by decide
example : exA.CellsGE ∧ exB.CellsGE ∧ exC.CellsGE := by unfold Arr.CellsGE; decide
example : exA.RowsPresent ∧ exB.RowsPresent ∧ exC.RowsPresent := by unfold Arr.RowsPresent; decide

example : (Modes.merge 64 exA [exB, exC]).toOption = some
    { k := 3, rc := true, names := ["s1", "s2", "t1", "u1", "u2"], kmers := [5, 7, 9, 2, 1],
      variants := [[65, 67, 71, 45, 45], [45, 71, 45, 45, 71], [84, 84, 65, 45, 45],
                   [45, 45, 67, 67, 67], [45, 45, 45, 65, 45]],
      counts := [3, 2, 3, 3, 1], kBits := 64 } := by decide

example : (exA.abs.concat exB.abs).concat exC.abs =
    { names := ["s1", "s2", "t1", "u1", "u2"],
      rows := [(5, [65, 67, 71, 45, 45]), (7, [45, 71, 45, 45, 71]), (9, [84, 84, 65, 45, 45]),
               (2, [45, 45, 67, 67, 67]), (1, [45, 45, 45, 65, 45])] } := by decide

example : (Modes.merge 64 exA [exB, exK]).toOption = none := by decide

/-- a file with a stored byte in 1..44 (here 10) satisfies `WF` and `NoZero`, yet merging rewrites
that cell to '-': `NoZero` alone does not give the refinement -/
def exBad : Arr := { k := 3, rc := true, names := ["s1"], kmers := [5], variants := [[10]], counts := [1], kBits := 64 }

theorem T07_noZero_insufficient :
    exBad.WF ∧ exBad.NoZero ∧ exB.WF ∧ exB.NoZero ∧ exBad.k = exB.k ∧ exBad.rc = exB.rc ∧
    ∃ d, exBad.toDict.extend exB.toDict = .ok d ∧ (Arr.ofDict 64 d).abs ≠ exBad.abs.concat exB.abs ∧
      (Arr.ofDict 64 d).abs.lookupRow 5 = some [45, 71] ∧ (exBad.abs.concat exB.abs).lookupRow 5 = some [10, 71] := by
  refine ⟨by decide, by unfold Arr.NoZero; decide, by decide, by unfold Arr.NoZero; decide, rfl, rfl, ?_⟩
  obtain ⟨d, hd, _⟩ := extend_ok_of_match exBad.toDict exB.toDict rfl rfl
  refine ⟨exBad.toDict.extendResult exB.toDict, ?_, by decide, by decide, by decide⟩
  exact extend_eq _ _ (toDict_wf _ (by decide)) (toDict_wf _ (by decide)) rfl rfl

end SkaModel.Props.C07
