/-
C07 — property theorems (see DESIGN.md §7 C07). First theorems; the refinement
theorems are being added.
-/
import SkaModel.Spec.Abs

namespace SkaModel.Props.C07

open SkaModel SkaModel.Spec

/-- inputs built with a different k or strand mode are refused -/
theorem T07_refuse (d o : MDict) (h : o.k ≠ d.k ∨ o.rc ≠ d.rc) : ∃ e, d.extend o = .error e := by
  unfold MDict.extend
  rcases h with h | h
  · exact ⟨.kmerLen, by simp [h]⟩
  · by_cases hk : o.k = d.k
    · exact ⟨.strand, by simp [hk, h]⟩
    · exact ⟨.kmerLen, by simp [hk]⟩

end SkaModel.Props.C07
