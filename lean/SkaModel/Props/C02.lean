/-
C02 — The split k-mer dictionary of a sample (`Spec.maskFor k rc recs`, the set of
middle bases of every canonical split k-mer) does not depend on the order of the
records, on letter case, or (both strands in use) on the strand each record is
given on.
-/
import SkaModel.Spec.Transforms
import SkaModel.Lemmas.MaskOf
import SkaModel.Lemmas.Transforms
import SkaModel.Lemmas.RevCompSeq

namespace SkaModel.Props.C02

open SkaModel SkaModel.Spec

/-- every byte of every record is one of A C G T N a c g t n -/
def DnaInput (recs : List (Array UInt8)) : Prop :=
  ∀ r, r ∈ recs → ∀ b, b ∈ r.toList → isDna b = true

theorem allDna_of_forall {r : Array UInt8} (h : ∀ b, b ∈ r.toList → isDna b = true) :
    AllDna r := by
  intro p hp
  have e : r.getD p 0 = r[p] := by
    rw [Array.getD_eq_getD_getElem?]; simp [hp]
  rw [e]
  exact h _ (Array.getElem_mem_toList hp)

/-! ### concatenation -/

/-- the dictionary of a concatenation is the union of the dictionaries -/
theorem T02_maskFor_append (k : Nat) (rc : Bool) (a b : List (Array UInt8)) (key : Nat) :
    maskFor k rc (a ++ b) key = maskFor k rc a key ||| maskFor k rc b key := by
  unfold maskFor
  rw [observations_append, maskOf_append]

/-! ### record order -/

/-- the observations of a permuted record list are a permutation -/
theorem T02_perm_observations (k : Nat) (rc : Bool) {recs₁ recs₂ : List (Array UInt8)}
    (h : recs₁.Perm recs₂) : (observations k rc recs₁).Perm (observations k rc recs₂) :=
  List.Perm.flatMap_right _ h

/-- the dictionary does not depend on the order of the records -/
theorem T02_perm (k : Nat) (rc : Bool) {recs₁ recs₂ : List (Array UInt8)}
    (h : recs₁.Perm recs₂) (key : Nat) :
    maskFor k rc recs₁ key = maskFor k rc recs₂ key :=
  maskOf_congr_mem (fun _ => (T02_perm_observations k rc h).mem_iff) key

/-! ### letter case -/

/-- changing the case of any positions of a record does not change what it contributes
(no hypothesis on the bytes: `validBase` and `code` do not read bit 5) -/
theorem T02_case_single (k : Nat) (rc : Bool) (m : List Bool) (r : Array UInt8) :
    observations k rc [applyCase m r] = observations k rc [r] :=
  (applyCase_sameCodes m r).observations k rc

/-- lists of equal length whose records contribute the same observations -/
theorem observations_congr {k : Nat} {rc : Bool} {recs recs' : List (Array UInt8)}
    (h : Pointwise (fun a b => observations k rc [b] = observations k rc [a]) recs recs') :
    observations k rc recs' = observations k rc recs := by
  induction h with
  | nil => rfl
  | @cons a b l l' hab _ ih => rw [observations_cons k rc a l, observations_cons k rc b l', hab, ih]

/-- a transformation applied to a selected subset of the records, position by position -/
theorem pointwise_zipWith {α γ : Type} {R : α → α → Prop} (g : γ → α → α)
    (hrefl : ∀ a, R a a) :
    ∀ (sel : List γ) (l : List α), (∀ c a, a ∈ l → R a (g c a)) →
      Pointwise R l (List.zipWith g sel l ++ l.drop sel.length)
  | [], l, _ => by
    simp only [List.zipWith_nil_left, List.nil_append, List.length_nil, List.drop_zero]
    exact Pointwise.refl hrefl l
  | _ :: _, [], _ => by simpa using Pointwise.nil
  | c :: sel, a :: l, h => by
    simp only [List.zipWith_cons_cons, List.cons_append, List.length_cons, List.drop_succ_cons]
    exact Pointwise.cons (h c a List.mem_cons_self)
      (pointwise_zipWith g hrefl sel l (fun c' a' ha' => h c' a' (List.mem_cons_of_mem _ ha')))

/-- the observation list (hence the dictionary) does not depend on letter case: `ms` gives
one case mask per record (records beyond `ms.length` are left as they are) -/
theorem T02_case_observations (k : Nat) (rc : Bool) (recs : List (Array UInt8))
    (ms : List (List Bool)) :
    observations k rc (List.zipWith applyCase ms recs ++ recs.drop ms.length)
      = observations k rc recs :=
  observations_congr
    (pointwise_zipWith (R := fun a b => observations k rc [b] = observations k rc [a])
      applyCase (fun _ => rfl) ms recs (fun m r _ => T02_case_single k rc m r))

theorem T02_case' (k : Nat) (rc : Bool) (recs : List (Array UInt8)) (ms : List (List Bool))
    (key : Nat) :
    maskFor k rc (List.zipWith applyCase ms recs ++ recs.drop ms.length) key
      = maskFor k rc recs key := by
  unfold maskFor
  rw [T02_case_observations]

/-- the dictionary does not depend on letter case: one case mask per record -/
theorem T02_case (k : Nat) (rc : Bool) (recs : List (Array UInt8)) (ms : List (List Bool))
    (hlen : ms.length = recs.length) (key : Nat) :
    maskFor k rc (List.zipWith applyCase ms recs) key = maskFor k rc recs key := by
  have := T02_case' k rc recs ms key
  rwa [hlen, List.drop_length, List.append_nil] at this

/-! ### strand -/

/-- a record and its reverse complement give the same dictionary (both strands in use,
k odd, input over A C G T N a c g t n) -/
theorem T02_revcomp_single (k : Nat) (hk : k % 2 = 1) (r : Array UInt8)
    (hd : ∀ b, b ∈ r.toList → isDna b = true) (key : Nat) :
    maskFor k true [revCompSeq r] key = maskFor k true [r] key :=
  (maskOf_congr_mem (sameObs_revCompSeq hk (allDna_of_forall hd)) key).symm

/-- replacing the records selected by `sel` by their reverse complements leaves the
dictionary unchanged (records beyond `sel.length` are left as they are) -/
theorem T02_revcomp (k : Nat) (hk : k % 2 = 1) (recs : List (Array UInt8)) (hd : DnaInput recs)
    (sel : List Bool) (key : Nat) :
    maskFor k true
        (List.zipWith (fun b r => if b then revCompSeq r else r) sel recs ++ recs.drop sel.length)
        key
      = maskFor k true recs key := by
  refine (maskFor_congr
    (pointwise_zipWith (R := SameObs k true) (fun (b : Bool) r => if b then revCompSeq r else r)
      (SameObs.refl k true) sel recs (fun b r hr => ?_)) key).symm
  cases b
  · exact SameObs.refl k true r
  · exact sameObs_revCompSeq hk (allDna_of_forall (hd r hr))

/-- the same, for any list that is record by record the original or its reverse complement -/
theorem T02_revcomp_getElem (k : Nat) (hk : k % 2 = 1) (recs recs' : List (Array UInt8))
    (hd : DnaInput recs) (hlen : recs'.length = recs.length)
    (h : ∀ i (hi : i < recs.length),
      recs'[i]'(hlen ▸ hi) = recs[i] ∨ recs'[i]'(hlen ▸ hi) = revCompSeq recs[i])
    (key : Nat) :
    maskFor k true recs' key = maskFor k true recs key := by
  refine (maskFor_congr (Pointwise.of_getElem hlen (fun i hi => ?_)) key).symm
  rcases h i hi with e | e
  · rw [e]; exact SameObs.refl k true _
  · rw [e]; exact sameObs_revCompSeq hk (allDna_of_forall (hd _ (List.getElem_mem hi)))

/-! ### all three together -/

/-- `b` is `a` or its reverse complement, in any letter case -/
def StrandCaseVariant (a b : Array UInt8) : Prop :=
  ∃ m : List Bool, b = applyCase m a ∨ b = applyCase m (revCompSeq a)

/-- C02: reorder the records, give any of them on the other strand, write any letters in the
other case — the dictionary is the same -/
theorem T02 (k : Nat) (hk : k % 2 = 1) (recs recs' recs'' : List (Array UInt8))
    (hd : DnaInput recs) (hv : Pointwise StrandCaseVariant recs recs') (hp : recs'.Perm recs'')
    (key : Nat) :
    maskFor k true recs'' key = maskFor k true recs key := by
  rw [← T02_perm k true hp key]
  have hs : Pointwise (SameObs k true) recs recs' := by
    refine hv.mono_mem (fun a hmem b hab => ?_)
    obtain ⟨m, e | e⟩ := hab
    · intro o; rw [e, T02_case_single]
    · intro o
      rw [e, T02_case_single]
      exact sameObs_revCompSeq hk (allDna_of_forall (hd _ hmem)) o
  exact (maskFor_congr hs key).symm

end SkaModel.Props.C02
