/-
C16 — Bit packing, reverse complement and rolling updates are exact for all k.
-/
import SkaModel.Impl.Bits
import SkaModel.Impl.SplitKmer
import SkaModel.Spec.Windows
import SkaModel.Lemmas.Bits

namespace SkaModel.Props.C16

open SkaModel SkaModel.Spec

/-- the k the program accepts -/
def ValidK (k : Nat) : Prop := 5 ≤ k ∧ k ≤ 63 ∧ k % 2 = 1

/-- the width the program selects, or 128 bits for any valid k -/
def WidthOk (W k : Nat) : Prop := (W = 64 ∧ k ≤ 31) ∨ W = 128

/-- the masks select exactly the two arms, for every valid k and both widths -/
theorem T16_masks (W k : Nat) (hk : ValidK k) (hw : WidthOk W k) :
    lowerMask W k = 4 ^ halfK k - 1 ∧ upperMask W k = (4 ^ halfK k - 1) * 4 ^ halfK k := by
  obtain ⟨h5, h63, _⟩ := hk
  have hh : halfK k * 4 ≤ W ∧ 0 < halfK k := by
    unfold halfK
    rcases hw with ⟨rfl, h31⟩ | rfl <;> omega
  exact ⟨lowerMask_eq W k (by omega), upperMask_eq W k hh.1 hh.2⟩

example : ValidK 31 ∧ WidthOk 64 31 := by unfold ValidK WidthOk; omega

end SkaModel.Props.C16
