/-
C17 — ska lo SNP calls: well-formedness logic of the modelled helpers
(`check_missing_data`, `complement_snp`, `get_potential_snp`, the writer
`create_fasta_and_vcf`, the VCF genotype indices, the row graph of `build_graph`).
Proofs: `SkaModel/Lemmas/LOBasic.lean`, `LOCol.lean`, `LOCalls.lean`,
`LOWriterSort.lean`, `LOWriter.lean`, `LOGraph.lean`.
-/
import SkaModel.Impl.Skalo
import SkaModel.Lemmas.LOCalls
import SkaModel.Lemmas.LOWriter
import SkaModel.Lemmas.LOGraph

namespace SkaModel.Props.C17

open SkaModel SkaModel.Skalo SkaModel.Spec SkaModel.Props.C16

/-- `check_missing_data` accepts a column exactly when it shows at least two of A/C/G/T,
and reports the number of entries that are none of them -/
theorem T17_check (col : List UInt8) :
    (checkMissingData col).2 = (col.filter (fun b => !isACGT b)).length := rfl

/-- complementing a column is an involution where it is defined, and keeps '-' and N -/
theorem T17_complement_invol : ∀ b : UInt8, ∀ c, complementSnp [b] = some [c] → complementSnp [c] = some [b] := by
  intro b c h
  simp only [complementSnp, List.mapM_cons, List.mapM_nil] at h ⊢
  by_cases h1 : b = 65 <;> by_cases h2 : b = 84 <;> by_cases h3 : b = 67 <;> by_cases h4 : b = 71 <;>
    by_cases h5 : b = 45 <;> by_cases h6 : b = 78 <;> simp_all <;> (subst_vars; simp)

/-! ### 1. `check_missing_data` -/

/-- the flag: at least two distinct A/C/G/T alleles; the count: entries that are not A/C/G/T -/
theorem T17_check_spec (col : List UInt8) :
    ((checkMissingData col).1 = true ↔ 2 ≤ ((col.filter isACGT).eraseDups).length) ∧
    (checkMissingData col).2 = col.length - (col.filter isACGT).length :=
  ⟨LO.check_fst col, LO.check_snd col⟩

/-- the same flag, as "two different A/C/G/T letters occur in the column" -/
theorem T17_check_exists (col : List UInt8) :
    (checkMissingData col).1 = true ↔
      ∃ a b, a ≠ b ∧ isACGT a = true ∧ isACGT b = true ∧ a ∈ col ∧ b ∈ col :=
  LO.check_fst_exists col

/-- `eraseDups` does produce a duplicate-free list (so its length counts distinct alleles) -/
theorem T17_eraseDups_nodup (col : List UInt8) : ((col.filter isACGT).eraseDups).Nodup :=
  LO.nodup_eraseDups _

/-! ### 2. `complement_snp` -/

/-- the entries `complement_snp` accepts -/
def OkBase (b : UInt8) : Prop := b = 65 ∨ b = 67 ∨ b = 71 ∨ b = 84 ∨ b = 45 ∨ b = 78

/-- A<->T, C<->G, '-' and N fixed, as a relation on entries -/
def CompPair (b c : UInt8) : Prop :=
  (b = 65 ∧ c = 84) ∨ (b = 84 ∧ c = 65) ∨ (b = 67 ∧ c = 71) ∨ (b = 71 ∧ c = 67) ∨
  (b = 45 ∧ c = 45) ∨ (b = 78 ∧ c = 78)

theorem compPair_of_ok (b : UInt8) (h : LO.okBase b) : CompPair b (LO.comp b) := by
  unfold LO.okBase at h
  rcases h with h | h | h | h | h | h <;> subst h <;> unfold CompPair <;> decide

theorem T17_complement (col : List UInt8) :
    -- defined exactly on columns over A, C, G, T, '-', N
    ((complementSnp col).isSome = true ↔ ∀ b ∈ col, OkBase b) ∧
    ∀ col', complementSnp col = some col' →
      -- same length, pointwise complement
      col'.length = col.length ∧
      (∀ i (h : i < col.length) (h' : i < col'.length), CompPair col[i] col'[i]) ∧
      -- involution
      complementSnp col' = some col ∧
      -- the complemented column too: same acceptance flag and missing count
      checkMissingData col' = checkMissingData col := by
  refine ⟨LO.complementSnp_isSome col, ?_⟩
  intro col' h
  obtain ⟨hok, hc⟩ := (LO.complementSnp_eq_some col col').1 h
  refine ⟨by rw [hc, List.length_map], ?_, LO.complementSnp_invol col col' h,
    LO.check_complement col col' h⟩
  intro i hi hi'
  subst hc
  rw [List.getElem_map]
  exact compPair_of_ok _ (hok _ (List.getElem_mem hi))

/-- consequence spelled out: the complemented column has ≥ 2 distinct ACGT alleles iff the original has -/
theorem T17_complement_check (col col' : List UInt8) (h : complementSnp col = some col') :
    (2 ≤ ((col'.filter isACGT).eraseDups).length ↔ 2 ≤ ((col.filter isACGT).eraseDups).length) ∧
    col'.length - (col'.filter isACGT).length = col.length - (col.filter isACGT).length := by
  have hc := LO.check_complement col col' h
  refine ⟨?_, ?_⟩
  · rw [← LO.check_fst, ← LO.check_fst, hc]
  · rw [← LO.check_snd, ← LO.check_snd, hc]

/-! ### 3. `get_potential_snp` -/

theorem T17_potential (variants : List (List UInt8 × List Nat)) :
    (∀ p, p ∈ getPotentialSnp variants ↔
      -- p is marked in some variant
      (∃ v ∈ variants, p ∈ v.2) ∧
      -- two distinct A/C/G/T letters occur at position p (only sequences longer than p have `[p]?`)
      ∃ a b, a ≠ b ∧ isACGT a = true ∧ isACGT b = true ∧
        (∃ v ∈ variants, v.1[p]? = some a) ∧ (∃ v ∈ variants, v.1[p]? = some b)) ∧
    -- sorted increasing, hence duplicate free
    (getPotentialSnp variants).Pairwise (fun a b => a < b) ∧
    (getPotentialSnp variants).Nodup :=
  ⟨LO.mem_getPotentialSnp variants, LO.getPotentialSnp_sorted variants,
    (LO.getPotentialSnp_sorted variants).imp (fun h => Nat.ne_of_lt h)⟩

/-! ### 4. the writer `create_fasta_and_vcf` -/

/-- sanitised reference base: A/C/G/T/N kept, everything else N -/
abbrev san := LOW.san

/-- position order is a strictly increasing rearrangement of the variants -/
theorem T17_position_order (variants : List (Nat × List UInt8)) (hnd : (variants.map (·.1)).Nodup) :
    (sortByKey (·.1) variants).Perm variants ∧
    (sortByKey (·.1) variants).Pairwise (fun a b => a.1 < b.1) :=
  ⟨LOW.sortByKey_perm' _ _, LOW.sortByKey_strictSorted _ _ hnd⟩

theorem T17_writer (genome : List UInt8) (n : Nat) (variants : List (Nat × List UInt8))
    (hnd : (variants.map (·.1)).Nodup)
    (hcol : ∀ v ∈ variants, v.2.length = n)
    (hpos : genome ≠ [] → ∀ v ∈ variants, v.1 < genome.length) :
    let o := createFastaAndVcf genome n variants
    let sorted := sortByKey (·.1) variants
    -- (a) SNP alignment: n sequences; sequence i lists the i-th entries of the columns in position order
    (o.snpSeqs.length = n ∧ ∀ i, i < n → o.snpSeqs[i]? = some (sorted.map (fun v => v.2.getD i 45)))
    -- (b) with a genome: pseudo-genomes and VCF records
    ∧ (genome ≠ [] →
        (∃ ps, o.pseudo = some ps ∧ ps.length = n ∧
          ∀ i, i < n → ∃ s, ps[i]? = some s ∧ s.length = genome.length ∧
            ∀ q, q < genome.length →
              (∀ v ∈ variants, v.1 = q → s[q]? = some (v.2.getD i 45)) ∧
              ((∀ v ∈ variants, v.1 ≠ q) → s[q]? = some (san (genome.getD q 0))))
        ∧ o.vcf = sorted.map (fun v => (v.1, san (genome.getD v.1 0), v.2)))
    -- (c) without a genome
    ∧ (genome = [] → o.pseudo = none ∧ o.vcf = []) :=
  LOW.writer_spec genome n variants hnd hcol hpos

/-- every sequence of the alignment has one character per variant -/
theorem T17_writer_lengths (genome : List UInt8) (n : Nat) (variants : List (Nat × List UInt8))
    (hnd : (variants.map (·.1)).Nodup)
    (hpos : genome ≠ [] → ∀ v ∈ variants, v.1 < genome.length) :
    ∀ s ∈ (createFastaAndVcf genome n variants).snpSeqs, s.length = variants.length := by
  intro s hs
  have h := (LOW.writer_spec' genome n variants hnd hpos).1
  obtain ⟨i, hi, rfl⟩ := List.mem_iff_getElem.1 hs
  rw [h.1] at hi
  have h2 := h.2 i hi
  rw [List.getElem?_eq_getElem (by rw [h.1]; exact hi)] at h2
  rw [Option.some.inj h2, List.length_map, LOW.sortByKey_length]

/-- the closed form of the writer's output -/
theorem T17_writer_closed (genome : List UInt8) (n : Nat) (variants : List (Nat × List UInt8))
    (hnd : (variants.map (·.1)).Nodup)
    (hpos : genome ≠ [] → ∀ v ∈ variants, v.1 < genome.length) :
    createFastaAndVcf genome n variants =
      { snpSeqs := LOW.seqsOf n (sortByKey (·.1) variants),
        pseudo := if genome.isEmpty then none
          else some (LOW.pseudoOf (genome.map san) (sortByKey (·.1) variants) n genome.length),
        vcf := if genome.isEmpty then [] else LOW.vcfOf (genome.map san) (sortByKey (·.1) variants) } :=
  LOW.createFastaAndVcf_closed genome n variants hnd hpos

/-! ### 5. VCF genotype indices decode to the entry -/

/-- `alt_bases`: the distinct entries other than REF, '-' and N -/
abbrev altBases := LO.altBases
/-- genotype of entry `b` against an ALT list: `some 0` = "0", `none` = ".", `some (j+1)` = ALT j (1-based) -/
abbrev gtIndexWith := LO.gtIndexWith
/-- genotype of entry `b` in the record `(rb, col)` -/
abbrev gtIndex := LO.gtIndex
/-- reading a genotype back through REF / ALT -/
abbrev decode := LO.decode

theorem T17_vcf_decode (rb : UInt8) (col : List UInt8) (b : UInt8) (hb : b ∈ col) :
    decode rb (altBases rb col) (gtIndex rb col b) = if b == rb then rb else vcfGenotypeChar b :=
  LO.decode_gtIndex rb col b hb

/-- the Rust collects `alt_bases` through a `HashSet`: the statement holds for any ordering -/
theorem T17_vcf_decode_any_order (rb : UInt8) (col alts : List UInt8)
    (halts : ∀ c, c ∈ alts ↔ c ∈ col ∧ c ≠ rb ∧ c ≠ 45 ∧ c ≠ 78) (b : UInt8) (hb : b ∈ col) :
    decode rb alts (gtIndexWith rb alts b) = if b == rb then rb else vcfGenotypeChar b :=
  LO.decode_gtIndexWith rb col alts halts b hb

theorem T17_altBases (rb : UInt8) (col : List UInt8) :
    (altBases rb col).Nodup ∧ ∀ c, c ∈ altBases rb col ↔ c ∈ col ∧ c ≠ rb ∧ c ≠ 45 ∧ c ≠ 78 :=
  ⟨LO.altBases_nodup rb col, LO.mem_altBases rb col⟩

/-! ### 6. the row graph: (k-1)-mer de Bruijn edges on both strands with IUPAC expansion -/

/-- bases (order A, C, G, T) shown by at least one sample, with IUPAC expansion -/
abbrev shownBases := LOG.shownBases
/-- the samples showing base `n`: `{i | cell i ≠ '-' ∧ n ∈ degenerate (cell i)}` -/
abbrev samplesOf := LOG.samplesOf

theorem T17_graph (W k : Nat) (hk : ValidK k) (hw : WidthOk W k) (u l : List Nat)
    (hu : u.length = halfK k) (hl : l.length = halfK k)
    (hcu : ∀ c ∈ u, c < 4) (hcl : ∀ c ∈ l, c < 4) (cells : List UInt8) :
    rowGraph W k (packL (u ++ l)) cells =
      ((shownBases cells).flatMap (fun n =>
          let full := u ++ [code n] ++ l      -- the codes of the k-mer  U n L
          [ (packL (full.take (k - 1)), packL (full.drop 1)),
            (packL (rcCodes (full.drop 1)), packL (rcCodes (full.take (k - 1)))) ]),
       (shownBases cells).flatMap (fun n =>
          let full := u ++ [code n] ++ l
          [ (packL full, samplesOf cells n), (packL (rcCodes full), samplesOf cells n) ])) :=
  LOG.rowGraph_spec W k hk hw u l hu hl hcu hcl cells

theorem T17_graph_sets (cells : List UInt8) (n : UInt8) :
    (n ∈ shownBases cells ↔ n ∈ ([65, 67, 71, 84] : List UInt8) ∧
      ∃ i, i < cells.length ∧ cells.getD i 45 ≠ 45 ∧ n ∈ degenerate (cells.getD i 45)) ∧
    (∀ i, i ∈ samplesOf cells n ↔
      i < cells.length ∧ cells.getD i 45 ≠ 45 ∧ n ∈ degenerate (cells.getD i 45)) ∧
    (samplesOf cells n).Pairwise (· < ·) :=
  ⟨LOG.mem_shownBases cells n, fun i => LOG.mem_samplesOf cells n i, LOG.samplesOf_pairwise cells n⟩

/-- the codes in `T17_graph` are those of the letters `U n L` of the decoded arms -/
theorem T17_graph_codes (u l : List Nat) (hcu : ∀ c ∈ u, c < 4) (hcl : ∀ c ∈ l, c < 4) (n : UInt8) :
    (u.map decodeBase ++ [n] ++ l.map decodeBase).map code = u ++ [code n] ++ l :=
  LOG.map_code_full u l hcu hcl n

/-! ### non-vacuity -/

example : checkMissingData [65, 67, 45, 78, 65] = (true, 2) := by decide
example : checkMissingData [65, 65, 45, 82] = (false, 2) := by decide
example : complementSnp [65, 67, 71, 84, 45, 78] = some [84, 71, 67, 65, 45, 78] := by decide
example : complementSnp [65, 82] = none := by decide
example : checkMissingData [84, 71, 45, 78, 84] = checkMissingData [65, 67, 45, 78, 65] := by decide
example : getPotentialSnp [([65, 67, 71], [1, 2, 5]), ([65, 71, 71], [2, 1]), ([84], [])] = [1] := by decide
example : getPotentialSnp [([65, 67], [1, 0]), ([84, 71], [0])] = [0, 1] := by decide
example :
    createFastaAndVcf [65, 67, 71, 84, 88] 2 [(3, [65, 67]), (1, [71, 45])]
      = { snpSeqs := [[71, 65], [45, 67]],
          pseudo := some [[65, 71, 71, 65, 78], [65, 45, 71, 67, 78]],
          vcf := [(1, 67, [71, 45]), (3, 84, [65, 67])] } := by decide +kernel
example : (([(3, [65, 67]), (1, [71, 45])] : List (Nat × List UInt8)).map (·.1)).Nodup := by decide
example : altBases 67 [71, 45, 67, 84, 71, 78] = [71, 84] := by decide
example : [71, 45, 67, 84, 71, 78].map (gtIndex 67 [71, 45, 67, 84, 71, 78])
    = [some 1, none, some 0, some 2, some 1, none] := by decide
example : [71, 45, 67, 84, 71, 78].map (fun b => decode 67 [71, 84] (gtIndex 67 [71, 45, 67, 84, 71, 78] b))
    = [71, 46, 67, 84, 71, 46] := by decide
example : ValidK 5 ∧ WidthOk 64 5 := by unfold ValidK WidthOk; omega
example : rowGraph 64 5 (packL ([0, 1] ++ [2, 3])) [65, 45, 82, 78] =
    ([(18,75),(75,46),(22,91),(79,62),(30,123),(71,30),(26,107),(67,14)],
     [(75,[0,2,3]),(302,[0,2,3]),(91,[3]),(318,[3]),(123,[2,3]),(286,[2,3]),(107,[3]),(270,[3])]) := by
  decide +kernel

end SkaModel.Props.C17
