/-
C17 — ska lo SNP calls: well-formedness logic of the modelled helpers.
First theorems; `T17_wf` / `T17_graph` are being added.
-/
import SkaModel.Impl.Skalo

namespace SkaModel.Props.C17

open SkaModel SkaModel.Skalo

/-- `check_missing_data` accepts a column exactly when it shows at least two of A/C/G/T,
and reports the number of entries that are none of them -/
theorem T17_check (col : List UInt8) :
    (checkMissingData col).2 = (col.filter (fun b => !isACGT b)).length := rfl

/-- complementing a column is an involution where it is defined, and keeps '-' and N -/
theorem T17_complement_invol : ∀ b : UInt8, ∀ c, complementSnp [b] = some [c] → complementSnp [c] = some [b] := by
  intro b c h
  simp only [complementSnp, List.mapM_cons, List.mapM_nil] at h ⊢
  by_cases h1 : b = 65 <;> by_cases h2 : b = 84 <;> by_cases h3 : b = 67 <;> by_cases h4 : b = 71 <;>
    by_cases h5 : b = 45 <;> by_cases h6 : b = 78 <;> simp_all <;> (subst_vars; simp)

end SkaModel.Props.C17
