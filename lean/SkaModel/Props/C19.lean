/-
C19 — first theorems; the round-trip / truncation theorems are being added.
-/
import SkaModel.Impl.Skf
import SkaModel.Impl.Frame

namespace SkaModel.Props.C19

open SkaModel

/-- an empty file is no valid .skf stream content: the frame layer yields no bytes -/
theorem unframe_nil (d : List UInt8 → Option (List UInt8)) : unframe d [] = .ok [] := by
  simp [unframe, unframeFrom]

/-- a stream that does not start with the stream identifier chunk is rejected -/
theorem T19_first_chunk (d : List UInt8 → Option (List UInt8)) (b0 b1 b2 b3 : UInt8) (rest : List UInt8)
    (h : b0 ≠ 0xFF) : unframe d (b0 :: b1 :: b2 :: b3 :: rest) = .error .streamHeader := by
  have h' : (b0.toNat != 255) = true := by
    simp only [bne_iff_ne, ne_eq]
    intro hc
    exact h (UInt8.toNat_inj.mp (by simpa using hc))
  simp [unframe, unframeFrom, h']

end SkaModel.Props.C19
