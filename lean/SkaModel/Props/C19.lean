/-
C19 — a damaged .skf (any proper prefix, single-bit flips in the stream
identifier, in a checksum field or in uncompressed data) is rejected, never
read as different data.

The frame decoder `unframe` is treated for an arbitrary block decompressor
`decomp`.  Helper developments: `SkaModel/Lemmas/FrameStep.lean` (one-chunk step
function, fuel independence), `FramePrefix.lean` (decoder on a prefix),
`FrameChunks.lean` (chunk lists), `CrcInj.lean` (CRC-32C injectivity, mask),
`FrameFlip.lean` (bit flips).
-/
import SkaModel.Impl.Skf
import SkaModel.Impl.Frame
import SkaModel.Lemmas.FrameFlip

namespace SkaModel.Props.C19

open SkaModel SkaModel.FR

/-- an empty file is no valid .skf stream content: the frame layer yields no bytes -/
theorem unframe_nil (d : List UInt8 → Option (List UInt8)) : unframe d [] = .ok [] := by
  simp [unframe, unframeFrom]

/-- a stream that does not start with the stream identifier chunk is rejected -/
theorem T19_first_chunk (d : List UInt8 → Option (List UInt8)) (b0 b1 b2 b3 : UInt8) (rest : List UInt8)
    (h : b0 ≠ 0xFF) : unframe d (b0 :: b1 :: b2 :: b3 :: rest) = .error .streamHeader := by
  have h' : (b0.toNat != 255) = true := by
    simp only [bne_iff_ne, ne_eq]
    intro hc
    exact h (UInt8.toNat_inj.mp (by simpa using hc))
  simp [unframe, unframeFrom, h']

/-- reading a file: un-frame, then CBOR-decode at integer width `W` -/
def load (decomp : List UInt8 → Option (List UInt8)) (W : Nat) (file : List UInt8) : Option SkfFile :=
  match unframe decomp file with
  | .ok bytes => (SkfFile.decode W bytes).map (·.1)
  | .error _ => none

theorem load_of_error {decomp : List UInt8 → Option (List UInt8)} {file : List UInt8} {e : FrameErr}
    (h : unframe decomp file = .error e) (W : Nat) : load decomp W file = none := by
  unfold load; rw [h]

/-- the fuel `file.length + 1` of `unframe` is never exhausted: any larger fuel gives the same result -/
theorem unframe_fuel_irrelevant (decomp : List UInt8 → Option (List UInt8)) (file : List UInt8)
    (fuel : Nat) (h : file.length < fuel) : unframeFrom decomp fuel false file [] = unframe decomp file :=
  unframeFrom_eq_run decomp fuel false file [] h

/-! ### 1. structure of a well-formed stream

`FR.Chunk` = `raw data | comp cdata out | skip ty body | ident`; `FR.render` concatenates the
chunk bytes (header, masked CRC-32C of the uncompressed data, body); `FR.payload` concatenates
the data; `Chunk.Valid decomp` = sizes within the limits, `decomp cdata = some out`. -/

/-- the decoder on the stream identifier followed by valid chunks yields their payload -/
theorem unframe_append_structure (decomp : List UInt8 → Option (List UInt8)) (cs : List Chunk)
    (hv : ∀ c ∈ cs, c.Valid decomp) :
    unframe decomp (IDENT ++ render cs) = .ok (payload cs) :=
  unframe_stream decomp cs hv

/-- … and continues with whatever follows, with the payload as accumulator -/
theorem unframe_append_structure_tail (decomp : List UInt8 → Option (List UInt8)) (cs : List Chunk)
    (hv : ∀ c ∈ cs, c.Valid decomp) (t : List UInt8) :
    unframe decomp (IDENT ++ (render cs ++ t)) =
      unframeFrom decomp (t.length + 1) true t (payload cs) :=
  unframe_chunks decomp cs hv t

/-! ### 2. truncation, frame layer -/

/-- A prefix `p` of an accepted stream `p ++ t`: the decoder reports `eof` (cut inside a
chunk), or the cut is at a chunk boundary and it returns the bytes `b1` of the chunks in `p`,
where the accepted stream's bytes are `b1 ++ b2` and `b2` is what the decoder produces from
the cut-off tail `t` alone. -/
theorem T19_trunc_frames_append (decomp : List UInt8 → Option (List UInt8)) (p t bytes : List UInt8)
    (hok : unframe decomp (p ++ t) = .ok bytes) :
    unframe decomp p = .error .eof ∨
      ∃ b1 b2, unframe decomp p = .ok b1 ∧ bytes = b1 ++ b2 ∧
        unframeFrom decomp (t.length + 1) (!p.isEmpty) t [] = .ok b2 := by
  rcases run_append decomp p.length false p t bytes (Nat.le_refl _) hok with h | ⟨b1, b2, h1, h2, h3⟩
  · exact .inl h
  · have h2' : run decomp (!p.isEmpty) t [] = .ok b2 := by simpa using h2
    exact .inr ⟨b1, b2, h1, h3, h2'⟩

/-- the same for `p <+: file` -/
theorem T19_trunc_frames (decomp : List UInt8 → Option (List UInt8)) (file bytes : List UInt8)
    (hok : unframe decomp file = .ok bytes) (p : List UInt8) (hp : p <+: file) :
    unframe decomp p = .error .eof ∨
      ∃ b1 b2, unframe decomp p = .ok b1 ∧ bytes = b1 ++ b2 ∧
        unframeFrom decomp ((file.drop p.length).length + 1) (!p.isEmpty) (file.drop p.length) [] = .ok b2 := by
  have hf : p ++ file.drop p.length = file := List.prefix_iff_eq_append.mp hp
  rw [← hf] at hok
  exact T19_trunc_frames_append decomp p _ bytes hok

/-- a truncated stream never yields anything but a prefix of the original bytes -/
theorem T19_trunc_frames_prefix (decomp : List UInt8 → Option (List UInt8)) (file bytes : List UInt8)
    (hok : unframe decomp file = .ok bytes) (p : List UInt8) (hp : p <+: file) :
    unframe decomp p = .error .eof ∨ ∃ b1, unframe decomp p = .ok b1 ∧ b1 <+: bytes := by
  rcases T19_trunc_frames decomp file bytes hok p hp with h | ⟨b1, b2, h1, h2, _⟩
  · exact .inl h
  · exact .inr ⟨b1, h1, h2 ▸ List.prefix_append b1 b2⟩

/-- … a PROPER prefix, unless the cut-off tail contributes no data (it then consists only of
chunks without data: skippable, padding, identifier chunks, data chunks with empty data; see
`tail_no_data`) -/
theorem T19_trunc_frames_proper (decomp : List UInt8 → Option (List UInt8)) (file bytes : List UInt8)
    (hok : unframe decomp file = .ok bytes) (p : List UInt8) (hp : p <+: file)
    (htail : unframeFrom decomp ((file.drop p.length).length + 1) (!p.isEmpty) (file.drop p.length) []
      ≠ .ok []) :
    unframe decomp p = .error .eof ∨ ∃ b1, unframe decomp p = .ok b1 ∧ b1 <+: bytes ∧ b1 ≠ bytes := by
  rcases T19_trunc_frames decomp file bytes hok p hp with h | ⟨b1, b2, h1, h2, h3⟩
  · exact .inl h
  · refine .inr ⟨b1, h1, h2 ▸ List.prefix_append b1 b2, ?_⟩
    intro he
    apply htail
    rw [h3]
    have : b2 = [] := by
      have := congrArg List.length h2
      rw [he, List.length_append] at this
      exact List.eq_nil_of_length_eq_zero (by omega)
    rw [this]

/-- a tail read as no data: each of its chunks contributes none -/
theorem tail_no_data (decomp : List UInt8 → Option (List UInt8)) (seen : Bool) (t rest out : List UInt8)
    (h : unframeFrom decomp (t.length + 1) seen t [] = .ok [])
    (hs : FR.step decomp seen t = .next rest out) :
    out = [] ∧ unframeFrom decomp (rest.length + 1) true rest [] = .ok [] :=
  run_nil_step h hs

/-! ### 3. truncation, whole file -/

/-- general form (also covers `p = file`) -/
theorem T19_trunc_le (decomp : List UInt8 → Option (List UInt8)) (f : SkfFile) (file : List UInt8)
    (hprefix : ∀ W' p, p <+: f.encode → p ≠ f.encode → SkfFile.decode W' p = none)
    (hok : unframe decomp file = .ok f.encode)
    (p : List UInt8) (hp : p <+: file) (W' : Nat) :
    load decomp W' p = none ∨ load decomp W' p = load decomp W' file := by
  rcases T19_trunc_frames_prefix decomp file f.encode hok p hp with h | ⟨b1, h1, h2⟩
  · left; unfold load; rw [h]
  · by_cases he : b1 = f.encode
    · right; unfold load; rw [h1, hok, he]
    · left; unfold load; rw [h1]
      show Option.map _ (SkfFile.decode W' b1) = none
      rw [hprefix W' b1 h2 he]; rfl

/-- **C19, truncation**: a truncated file is rejected or decodes to exactly the original
content, never to something else -/
theorem T19_trunc (decomp : List UInt8 → Option (List UInt8)) (f : SkfFile) (file : List UInt8)
    (hprefix : ∀ W' p, p <+: f.encode → p ≠ f.encode → SkfFile.decode W' p = none)
    (hok : unframe decomp file = .ok f.encode)
    (p : List UInt8) (hp : p <+: file) (_hne : p ≠ file) (W' : Nat) :
    load decomp W' p = none ∨ load decomp W' p = load decomp W' file :=
  T19_trunc_le decomp f file hprefix hok p hp W'

/-- if moreover the cut-off tail carries data, the truncated file is rejected -/
theorem T19_trunc_reject (decomp : List UInt8 → Option (List UInt8)) (f : SkfFile) (file : List UInt8)
    (hprefix : ∀ W' p, p <+: f.encode → p ≠ f.encode → SkfFile.decode W' p = none)
    (hok : unframe decomp file = .ok f.encode)
    (p : List UInt8) (hp : p <+: file)
    (htail : unframeFrom decomp ((file.drop p.length).length + 1) (!p.isEmpty) (file.drop p.length) []
      ≠ .ok []) (W' : Nat) :
    load decomp W' p = none := by
  rcases T19_trunc_frames_proper decomp file f.encode hok p hp htail with h | ⟨b1, h1, h2, h3⟩
  · unfold load; rw [h]
  · unfold load; rw [h1]
    show Option.map _ (SkfFile.decode W' b1) = none
    rw [hprefix W' b1 h2 h3]; rfl

/-! ### 4. single-bit flips -/

/-- flipping any bit of the 10-byte stream identifier is an error (whatever follows, whatever
the decompressor): `streamHeader` for the type byte, `chunkLength` for the length bytes,
`headerMismatch` for the body -/
theorem T19_flip_ident (decomp : List UInt8 → Option (List UInt8)) (rest : List UInt8)
    (j i : Nat) (hj : j < 10) (hi : i < 8) :
    unframe decomp (flipAt (IDENT ++ rest) j i) = .error (identFlipErr j) := by
  rw [flipAt_append_left IDENT rest j i hj]
  exact unframe_identErr decomp _ rest _ (identErr_flip ⟨j, hj⟩ ⟨i, hi⟩)

/-- CRC-32C detects every error confined to a single byte, in particular every single-bit error -/
theorem crc_byte (pre post : List UInt8) (x y : UInt8) (hxy : x ≠ y) :
    crc32c (pre ++ x :: post) ≠ crc32c (pre ++ y :: post) :=
  crc32c_one_byte pre post hxy

theorem crc_flip (a : List UInt8) (j i : Nat) (hj : j < a.length) (hi : i < 8) :
    crc32c (flipAt a j i) ≠ crc32c a := by
  obtain ⟨pre, x, post, h1, h2⟩ := flipAt_split a j i hj
  rw [h2, h1]
  exact crc32c_one_byte pre post (flipBit_ne x hi)

theorem crc_masked_flip (a : List UInt8) (j i : Nat) (hj : j < a.length) (hi : i < 8) :
    crc32cMasked (flipAt a j i) ≠ crc32cMasked a := by
  obtain ⟨pre, x, post, h1, h2⟩ := flipAt_split a j i hj
  rw [h2, h1]
  exact crc32cMasked_one_byte pre post (flipBit_ne x hi)

/-- the ingredients: the LFSR step is injective on 32-bit states and GF(2)-linear; the mask is
injective -/
theorem crc_step_injective {x y : Nat} (hx : x < 2 ^ 32) (hy : y < 2 ^ 32) (h : crcBit x = crcBit y) :
    x = y := crcBit_inj hx hy h

theorem crc_step_linear (x y : Nat) : crcBit (x ^^^ y) = crcBit x ^^^ crcBit y := crcBit_xor x y

theorem crc_mask_injective (a b : List UInt8) (h : crc32cMasked a = crc32cMasked b) :
    crc32c a = crc32c b :=
  maskNat_inj (crc32c_lt a) (crc32c_lt b) h

/-- an uncompressed chunk (after the identifier and any valid chunks `cs`) whose 4-byte checksum
field is anything but the right one: `checksum` error -/
theorem T19_bad_crc (decomp : List UInt8 → Option (List UInt8)) (cs : List Chunk)
    (hv : ∀ c ∈ cs, c.Valid decomp) (data crc4 t : List UInt8) (hd : data.length ≤ MAX_BLOCK)
    (hc : crc4.length = 4) (hbad : crc4 ≠ le4 (crc32cMasked data)) :
    unframe decomp (IDENT ++ (render cs ++ (0x01 :: (le3 (data.length + 4) ++ (crc4 ++ (data ++ t))))))
      = .error .checksum := by
  rw [unframe_chunks decomp cs hv]
  apply run_err
  rw [step_raw decomp true crc4 data t hc hd rfl, if_pos]
  simp only [bne_iff_ne, ne_eq]
  intro h
  apply hbad
  rw [h, le4_leNat hc]

/-- flipping any bit of the checksum field of an uncompressed chunk: `checksum` error -/
theorem T19_flip_crc (decomp : List UInt8 → Option (List UInt8)) (cs : List Chunk)
    (hv : ∀ c ∈ cs, c.Valid decomp) (data t : List UInt8) (hd : data.length ≤ MAX_BLOCK)
    (j i : Nat) (hj : j < 4) (hi : i < 8) :
    unframe decomp (IDENT ++ (render cs ++
      (0x01 :: (le3 (data.length + 4) ++ (flipAt (le4 (crc32cMasked data)) j i ++ (data ++ t))))))
      = .error .checksum :=
  T19_bad_crc decomp cs hv data _ t hd (by rw [flipAt_length]; rfl) (flipAt_ne _ hj hi)

/-- the same with the flip addressed inside the rendered chunk: bytes 4..7 of `(Chunk.raw data).render` -/
theorem T19_flip_crc_render (decomp : List UInt8 → Option (List UInt8)) (cs : List Chunk)
    (hv : ∀ c ∈ cs, c.Valid decomp) (data t : List UInt8) (hd : data.length ≤ MAX_BLOCK)
    (j i : Nat) (hj : j < 4) (hi : i < 8) :
    unframe decomp (IDENT ++ (render cs ++ (flipAt (Chunk.raw data).render (4 + j) i ++ t)))
      = .error .checksum := by
  have h := T19_flip_crc decomp cs hv data t hd j i hj hi
  have e : flipAt (Chunk.raw data).render (4 + j) i =
      0x01 :: (le3 (data.length + 4) ++ (flipAt (le4 (crc32cMasked data)) j i ++ data)) := by
    show flipAt ((0x01 :: le3 (data.length + 4)) ++ (le4 (crc32cMasked data) ++ data))
      ((0x01 :: le3 (data.length + 4)).length + j) i = _
    rw [flipAt_append_right, flipAt_append_left _ _ _ _ (by rw [le4_length]; exact hj)]
    rfl
  rw [e]
  simpa using h

/-- a compressed chunk whose 4-byte checksum field is anything but the right one: `checksum` error -/
theorem T19_bad_crc_comp (decomp : List UInt8 → Option (List UInt8)) (cs : List Chunk)
    (hv : ∀ c ∈ cs, c.Valid decomp) (cdata out crc4 t : List UInt8)
    (hd : cdata.length + 4 ≤ MAX_COMPRESS_BLOCK) (hdec : decomp cdata = some out)
    (hc : crc4.length = 4) (hbad : crc4 ≠ le4 (crc32cMasked out)) :
    unframe decomp (IDENT ++ (render cs ++ (0x00 :: (le3 (cdata.length + 4) ++ (crc4 ++ (cdata ++ t))))))
      = .error .checksum := by
  rw [unframe_chunks decomp cs hv]
  apply run_err
  rw [step_comp decomp true crc4 cdata t hc hd rfl, hdec]
  show (if _ then _ else _) = _
  rw [if_pos]
  simp only [bne_iff_ne, ne_eq]
  intro h
  apply hbad
  rw [h, le4_leNat hc]

/-- flipping any bit of the checksum field of a compressed chunk: `checksum` error -/
theorem T19_flip_crc_comp (decomp : List UInt8 → Option (List UInt8)) (cs : List Chunk)
    (hv : ∀ c ∈ cs, c.Valid decomp) (cdata out t : List UInt8)
    (hd : cdata.length + 4 ≤ MAX_COMPRESS_BLOCK) (hdec : decomp cdata = some out)
    (j i : Nat) (hj : j < 4) (hi : i < 8) :
    unframe decomp (IDENT ++ (render cs ++
      (0x00 :: (le3 (cdata.length + 4) ++ (flipAt (le4 (crc32cMasked out)) j i ++ (cdata ++ t))))))
      = .error .checksum :=
  T19_bad_crc_comp decomp cs hv cdata out _ t hd hdec (by rw [flipAt_length]; rfl) (flipAt_ne _ hj hi)

/-- an uncompressed chunk whose data differs from the checksummed data in one byte: `checksum` error -/
theorem T19_bad_raw (decomp : List UInt8 → Option (List UInt8)) (cs : List Chunk)
    (hv : ∀ c ∈ cs, c.Valid decomp) (pre post t : List UInt8) (x y : UInt8) (hxy : x ≠ y)
    (hd : (pre ++ x :: post).length ≤ MAX_BLOCK) :
    unframe decomp (IDENT ++ (render cs ++ (0x01 :: (le3 ((pre ++ x :: post).length + 4) ++
      (le4 (crc32cMasked (pre ++ x :: post)) ++ ((pre ++ y :: post) ++ t))))))
      = .error .checksum := by
  have hl : (pre ++ x :: post).length = (pre ++ y :: post).length := by simp
  rw [unframe_chunks decomp cs hv, hl]
  apply run_err
  rw [step_raw decomp true _ (pre ++ y :: post) t rfl (hl ▸ hd) rfl, if_pos]
  rw [leNat_le4 (maskNat_lt' _)]
  simp only [bne_iff_ne, ne_eq]
  exact crc32cMasked_one_byte pre post (Ne.symm hxy)

/-- flipping any bit of the data of an uncompressed chunk: `checksum` error -/
theorem T19_flip_raw (decomp : List UInt8 → Option (List UInt8)) (cs : List Chunk)
    (hv : ∀ c ∈ cs, c.Valid decomp) (data t : List UInt8) (hd : data.length ≤ MAX_BLOCK)
    (j i : Nat) (hj : j < data.length) (hi : i < 8) :
    unframe decomp (IDENT ++ (render cs ++ (0x01 :: (le3 (data.length + 4) ++
      (le4 (crc32cMasked data) ++ (flipAt data j i ++ t))))))
      = .error .checksum := by
  obtain ⟨pre, x, post, h1, h2⟩ := flipAt_split data j i hj
  rw [h2, h1]
  exact T19_bad_raw decomp cs hv pre post t x (flipBit x i) (Ne.symm (flipBit_ne x hi)) (h1 ▸ hd)

/-- file level: each of these flips makes `load` fail at every width -/
theorem T19_flip_ident_load (decomp : List UInt8 → Option (List UInt8)) (rest : List UInt8)
    (j i : Nat) (hj : j < 10) (hi : i < 8) (W : Nat) :
    load decomp W (flipAt (IDENT ++ rest) j i) = none :=
  load_of_error (T19_flip_ident decomp rest j i hj hi) W

theorem T19_flip_crc_load (decomp : List UInt8 → Option (List UInt8)) (cs : List Chunk)
    (hv : ∀ c ∈ cs, c.Valid decomp) (data t : List UInt8) (hd : data.length ≤ MAX_BLOCK)
    (j i : Nat) (hj : j < 4) (hi : i < 8) (W : Nat) :
    load decomp W (IDENT ++ (render cs ++
      (0x01 :: (le3 (data.length + 4) ++ (flipAt (le4 (crc32cMasked data)) j i ++ (data ++ t)))))) = none :=
  load_of_error (T19_flip_crc decomp cs hv data t hd j i hj hi) W

theorem T19_flip_raw_load (decomp : List UInt8 → Option (List UInt8)) (cs : List Chunk)
    (hv : ∀ c ∈ cs, c.Valid decomp) (data t : List UInt8) (hd : data.length ≤ MAX_BLOCK)
    (j i : Nat) (hj : j < data.length) (hi : i < 8) (W : Nat) :
    load decomp W (IDENT ++ (render cs ++ (0x01 :: (le3 (data.length + 4) ++
      (le4 (crc32cMasked data) ++ (flipAt data j i ++ t)))))) = none :=
  load_of_error (T19_flip_raw decomp cs hv data t hd j i hj hi) W

/-! ### 5. non-vacuity: identifier + one uncompressed chunk `[1, 2, 3]` -/

instance : DecidableEq (Except FrameErr (List UInt8))
  | .ok a, .ok b =>
    if h : a = b then isTrue (by rw [h]) else isFalse (by intro h'; injection h' with h'; exact h h')
  | .error a, .error b =>
    if h : a = b then isTrue (by rw [h]) else isFalse (by intro h'; injection h' with h'; exact h h')
  | .ok _, .error _ => isFalse (by intro h; cases h)
  | .error _, .ok _ => isFalse (by intro h; cases h)

def noDecomp : List UInt8 → Option (List UInt8) := fun _ => none

def smallFile : List UInt8 :=
  [0xff, 6, 0, 0, 0x73, 0x4e, 0x61, 0x50, 0x70, 0x59, 1, 7, 0, 0, 57, 205, 192, 134, 1, 2, 3]

example : smallFile = IDENT ++ render [.raw [1, 2, 3]] := by decide
example : unframe noDecomp smallFile = .ok [1, 2, 3] := by decide
example : unframe noDecomp (smallFile.take 20) = .error .eof := by decide
example : unframe noDecomp (smallFile.take 12) = .error .eof := by decide
example : unframe noDecomp (smallFile.take 10) = .ok [] := by decide
example : unframe noDecomp (flipAt smallFile 19 2) = .error .checksum := by decide
example : unframe noDecomp (flipAt smallFile 15 7) = .error .checksum := by decide
example : unframe noDecomp (flipAt smallFile 5 0) = .error .headerMismatch := by decide
example : unframe noDecomp (flipAt smallFile 0 0) = .error .streamHeader := by decide
/-- why only "prefix", not "proper prefix", in `T19_trunc_frames_prefix`: a cut-off skippable
chunk goes unnoticed by the frame layer -/
example : unframe noDecomp (smallFile ++ [0x80, 1, 0, 0, 9]) = .ok [1, 2, 3] := by decide

/-! ### a flip the frame layer does NOT detect

Flipping bit 7 of the type byte of a data chunk (0x01 → 0x81, 0x00 → 0x80) turns it into a
skippable chunk of the same length: the decoder silently drops the chunk's data and stays in
sync.  So "every single-bit flip is an error of the frame layer" is false; for such a flip the
rejection of the file rests on the CBOR layer seeing bytes with a hole. -/

def twoChunks : List UInt8 := IDENT ++ render [.raw [1, 2, 3], .raw [4, 5]]

example : unframe noDecomp twoChunks = .ok [1, 2, 3, 4, 5] := by decide
example : unframe noDecomp (flipAt twoChunks 10 7) = .ok [4, 5] := by decide
example : unframe noDecomp (flipAt smallFile 10 7) = .ok [] := by decide

end SkaModel.Props.C19
