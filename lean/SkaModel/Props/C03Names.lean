/-
C03 (and every command that takes FASTA/FASTQ arguments): the sample name derived
from a file argument (`Impl/Names.lean`, the model of `read_input_fastas`, tied to
the code by the `names` operation) is the base name without its extension, for
every directory prefix, every stem and every case variant of the four
extensions; any other argument is its own name.  Helper lemmas live in
`Lemmas/NamesLemmas.lean`; statements only here.
-/
import SkaModel.Lemmas.NamesLemmas
namespace SkaModel.Props.C03Names
open SkaModel.Names
open SkaModel.NamesLemmas

/-- `e'` is a case variant of one of the four extensions -/
def IsExt (e' : List Char) : Prop := e'.map fold ∈ exts

/-- a plain stem: non-empty, no directory separator, no line break -/
def PlainStem (stem : List Char) : Prop := stem ≠ [] ∧ '/' ∉ stem ∧ '\n' ∉ stem

/-- a file in a directory: the name is the stem, whatever the directory -/
theorem T03_name_path (dir stem e' : List Char) (hd : dir ≠ []) (hdn : '\n' ∉ dir)
    (hs : PlainStem stem) (he : IsExt e') :
    sampleName (dir ++ '/' :: (stem ++ '.' :: e')) = stem := by
  obtain ⟨hne, hsl, hnl⟩ := hs
  have hnle := nl_not_mem_ext e' he
  have hc : (dir ++ '/' :: (stem ++ '.' :: e')).contains '\n' = false := by
    apply contains_nl_false
    simp only [List.mem_append, List.mem_cons, not_or]
    exact ⟨hdn, by decide, hnl, by decide, hnle⟩
  have hm : matchExt (dir ++ '/' :: (stem ++ '.' :: e')) = some (e'.map fold) := by
    have := matchExt_ext (dir ++ '/' :: stem) e' (by simp) he
    simpa using this
  have hse : (dir ++ '/' :: (stem ++ '.' :: e')).length - (e'.map fold).length - 1
      = dir.length + 1 + stem.length := by
    simp; omega
  unfold sampleName
  rw [hc, hm]
  simp only [Bool.false_eq_true, if_false, hse]
  rw [lastSlash_path dir stem ('.' :: e') hd hne hsl]
  simp only
  have : dir ++ '/' :: (stem ++ '.' :: e') = (dir ++ '/' :: stem) ++ '.' :: e' := by simp
  rw [this, List.take_left' (by simp; omega)]
  rw [show dir ++ '/' :: stem = (dir ++ ['/']) ++ stem by simp, List.drop_left' (by simp)]

/-- a file without directory part -/
theorem T03_name_plain (stem e' : List Char) (hs : PlainStem stem) (he : IsExt e') :
    sampleName (stem ++ '.' :: e') = stem := by
  obtain ⟨hne, hsl, hnl⟩ := hs
  have hnle := nl_not_mem_ext e' he
  have hc : (stem ++ '.' :: e').contains '\n' = false := by
    apply contains_nl_false
    simp only [List.mem_append, List.mem_cons, not_or]
    exact ⟨hnl, by decide, hnle⟩
  have hm := matchExt_ext stem e' hne he
  have hse : (stem ++ '.' :: e').length - (e'.map fold).length - 1 = stem.length := by
    simp; omega
  unfold sampleName
  rw [hc, hm]
  simp only [Bool.false_eq_true, if_false, hse]
  rw [lastSlash_plain stem ('.' :: e') hsl]
  simp only
  rw [List.take_left' rfl]

/-- an argument that does not end in a known extension (after a non-empty stem) is its own name -/
theorem T03_name_other (s : List Char) (h : ∀ stem e', stem ≠ [] → IsExt e' → s ≠ stem ++ '.' :: e') :
    sampleName s = s := by
  unfold sampleName
  split
  · rfl
  · split
    · rfl
    · next e hm =>
      obtain ⟨stem, e', h1, h2, h3⟩ := matchExt_decomp s e hm
      exact absurd h3 (h stem e' h1 h2)

/-- distinct plain stems give distinct names: two inputs are never merged under one
name because of their directories or extensions -/
theorem T03_name_injective (d1 d2 s1 s2 e1 e2 : List Char) (h1 : d1 ≠ []) (h2 : d2 ≠ [])
    (n1 : '\n' ∉ d1) (n2 : '\n' ∉ d2) (p1 : PlainStem s1) (p2 : PlainStem s2) (x1 : IsExt e1) (x2 : IsExt e2)
    (h : sampleName (d1 ++ '/' :: (s1 ++ '.' :: e1)) = sampleName (d2 ++ '/' :: (s2 ++ '.' :: e2))) :
    s1 = s2 := by
  rw [T03_name_path d1 s1 e1 h1 n1 p1 x1, T03_name_path d2 s2 e2 h2 n2 p2 x2] at h
  exact h

/-- non-vacuity -/
example : sampleName "data/run1/GCF_000005845.2.FASTA".toList = "GCF_000005845.2".toList := by
  decide

end SkaModel.Props.C03Names
