/-
C17 (second sentence) — SNP calling with a reference genome on planted families:

  "with a reference genome every reported SNP is at its true coordinate with the true alleles and the
   pseudo-genomes agree with the samples at every called position"

Setting: a planted family `Planted k L A S P` (`SkaModel/Lemmas/LOCDefs.lean`, see `Props/C17Complete.lean`),
the table of the joint build in any row order (`IsArrOf a k names S`), and the pipeline with a reference
`loRef` = graph, entry/exit nodes, variant groups, `analyseRef` (`SkaModel/Impl/SkaloRef.lean`); the reference
is the ancestor `A` (as the program keeps it: `genomeBytes`, upper case without whitespace), or its reverse
complement.  `truePlaced S P`: the pairs (0-based coordinate of a site, base of every sample).

MAIN THEOREM `T17_ref_complete`: if every site satisfies `SiteOK k A S p` — some sample shows the base of the
reference at `p`, and `7 ≤ k` or the samples show two further bases at `p` (i.e. the bubble of the site gets its ten
votes, `(k + 1) + 2 (a - 1) ≥ 10` for `a` alleles, see the findings) — and `L < 2^32`, then for every exploration
depth, missing-data threshold and `ik`
  `loRef … a A = some (placed, [])` with `placed` a permutation of `truePlaced S P`:
exactly one (position, column) pair per site, at the true coordinate, with the true column (columns found on the
other strand are complemented back — not "up to strand" as without a reference), no indel record.
`T17_ref_complete_k7`: the special case `7 ≤ k` + "every site shows the reference base in some sample".
`T17_ref_complete_rc`: with `rcSeq A` as reference the site `p` is reported at `L - 1 - p` with the complemented
column.  `T17_ref_complete_bytes`: any text of the reference that `genomeBytes` turns into `A` (lower case).
`T17_ref_writer`, `T17_ref_output`, `T17_ref_output_rc`: through `create_fasta_and_vcf` — the SNP alignment has one column per site
in coordinate order, the VCF records are (site, base of the reference, true column) in coordinate order, and
EVERY PSEUDO-GENOME EQUALS ITS SAMPLE (at the called positions the sample's base, elsewhere the reference, which
the sample equals there).  `T17_ref_vcf_genotype`: the genotype index of a sample decodes to its base.

FINDINGS of Stage 0 (the claim was tested on 45 generated families — 20 with the hypotheses of the theorem, 11 with k = 5, 14 with a site lacking the reference base, k = 5, 7, 9, 11; they are `#guard`ed below):
 1. `most_frequent_position` needs 10 votes; only `(k-1)`-mers that occur in the reference vote.  A variant of the
    single-site bubble of a site has `k + 1` windows of `k - 1` letters; `k - 1` of them cover the site.  So the
    bubble gets `k + 1` votes from the variant with the reference base and 2 votes from every other variant:
    `(k + 1) + 2 (a - 1)` votes for `a` alleles one of which is the reference base, `2 a ≤ 6` votes otherwise.
 2. A SITE AT WHICH NO SAMPLE CARRIES THE REFERENCE BASE IS NOT POSITIONED BY ITS BUBBLE, FOR ANY k: the bubble is
    genotyped, its k-mers are blocked, `scan_variants` fails ("w/o position") and the site is lost for all later
    groups too.  With `-d 0` such a site is never reported (`famNoAnc7`, `famNoAnc11`: no SNP at all); with larger
    depths it is reported only if a spanning group happens to be processed before the bubble (three alleles per
    site: fams 19, 24 of `LOCFams` at `-d 1`).  `famMixed`: of two sites the one without the reference base is lost.
 3. WITH k = 5 A SITE WITH TWO ALLELES IS NEVER POSITIONED by its bubble (8 votes), even when one allele is the
    reference base (`famK5`: no SNP at all, while the reference-free caller reports the column); with three alleles
    including the reference base it is (exactly 10 votes; fams 2, 7 of `LOCFams`, `exS5` below).  Hence the
    hypothesis `SiteOK`: `7 ≤ k` (k is odd: `k + 3 ≥ 10`) or three alleles.  On the 45 families the number of
    votes of every bubble is exactly `(k + 1) + 2 (a - 1)` resp. `2 a` (`#guard`ed below), and at `-d 0` the claim
    holds exactly for the families all of whose sites satisfy `SiteOK` (23 of 45).
 4. A group spanning several sites always has enough votes (every variant has at least `k + 1` windows between two
    sites: `T17L_scan_spanning`), so no further hypothesis is needed for `maxDepth > 0`.
 5. Positions are computed modulo 2^32 (`u32`): `L < 2^32`.

Stage 1 (`T17L_votes`, `T17L_scan_same`, `T17L_scan_other`): the votes of a variant of a good group on the strand of
the reference — one vote for the coordinate `c0 + (k - 1)` from every window that equals the reference window at the
same coordinate, nothing else (uniqueness of the `(k-1)`-mers), no vote on the other strand — and the decision of
`scan_variants`: anchor `c0 + (k - 1)` forward for a group of the strand of the reference, anchor
`L - c0 - len + (k - 1)` reverse for a group of the other strand.
Stage 2 (`T17L_placed_same`, `T17L_placed_other`, `T17_ref_complete`): the arithmetic of `analyseRef` puts every site
of a group at its coordinate; the first-claim-wins rule never drops a site (a site is genotyped once: the blocked
k-mers, `CInv` of `LOCCall4.lean`; different sites have different coordinates).
Proofs: `SkaModel/Lemmas/LOD*.lean`.
-/
import SkaModel.Lemmas.LODGenome
import SkaModel.Lemmas.LODFams
import SkaModel.Props.C17Complete
import SkaModel.Props.C17

namespace SkaModel.Props.C17L

open SkaModel SkaModel.Skalo SkaModel.Spec SkaModel.Props.C16 SkaModel.LOC SkaModel.LOD

/-! ### Stage 0: the statement and its executable form -/

abbrev Planted := LOC.Planted
abbrev IsArrOf := LOC.IsArrOf
abbrev arrOf := LOC.arrOf
abbrev loRef := LOD.loRef
abbrev truePlaced := LOD.truePlaced
abbrev truePlacedRc := LOD.truePlacedRc
abbrev refCompleteOn := LOD.refCompleteOn
abbrev ancShownB := LOD.ancShownB
abbrev GG := LOC.GG
abbrev SiteOK := LOD.SiteOK
abbrev siteOKB := LOD.siteOKB

theorem u32_of {L : Nat} (h : L < 2 ^ 32) : L < U32 := by unfold U32; omega

/-! ### Stage 2 (main theorems) -/

/-- **T17_ref_complete**: with the ancestor as reference, exactly one (position, column) pair per site, at the
true 0-based coordinate with the true column; any exploration depth, any missing-data threshold, any `ik`, rows of
the table in any order -/
theorem T17_ref_complete (W k L : Nat) (A : List UInt8) (S : List (List UInt8)) (P : List Nat) (names : List String)
    (a : Arr) (hk : ValidK k) (hw : WidthOk W k) (hpl : Planted k L A S P) (ha : IsArrOf a k names S)
    (hsite : ∀ p ∈ P, SiteOK k A S p) (hL : L < 2 ^ 32)
    (mNum mDen ik maxDepth : Nat) :
    ∃ placed, loRef W k S.length mNum mDen ik maxDepth a A = some (placed, []) ∧
      placed.Perm (truePlaced S P) :=
  loRef_complete ha hpl hk hw (u32_of hL) hsite mNum mDen ik maxDepth

/-- the positions are the sites, and the column at a position is the true column -/
theorem T17_ref_complete_positions (W k L : Nat) (A : List UInt8) (S : List (List UInt8)) (P : List Nat)
    (names : List String) (a : Arr) (hk : ValidK k) (hw : WidthOk W k) (hpl : Planted k L A S P)
    (ha : IsArrOf a k names S) (hsite : ∀ p ∈ P, SiteOK k A S p) (hL : L < 2 ^ 32)
    (mNum mDen ik maxDepth : Nat) :
    ∃ placed, loRef W k S.length mNum mDen ik maxDepth a A = some (placed, []) ∧
      (placed.map (·.1)).Perm P ∧ ∀ pc ∈ placed, pc.2 = S.map (fun s => s.getD pc.1 0) := by
  obtain ⟨placed, h1, h2⟩ := T17_ref_complete W k L A S P names a hk hw hpl ha hsite hL mNum mDen ik maxDepth
  refine ⟨placed, h1, ?_, ?_⟩
  · have := h2.map (·.1)
    rw [truePlaced_fst] at this
    exact this
  · intro pc hpc
    have := h2.mem_iff.mp hpc
    obtain ⟨p, _, rfl⟩ := List.mem_map.mp this
    rfl

/-- **T17_ref_complete_rc**: with the reverse complement of the ancestor as reference, the site `p` is reported at
`L - 1 - p` with the complemented column -/
theorem T17_ref_complete_rc (W k L : Nat) (A : List UInt8) (S : List (List UInt8)) (P : List Nat)
    (names : List String) (a : Arr) (hk : ValidK k) (hw : WidthOk W k) (hpl : Planted k L A S P)
    (ha : IsArrOf a k names S) (hsite : ∀ p ∈ P, SiteOK k A S p) (hL : L < 2 ^ 32)
    (mNum mDen ik maxDepth : Nat) :
    ∃ placed, loRef W k S.length mNum mDen ik maxDepth a (rcSeq A) = some (placed, []) ∧
      placed.Perm (truePlacedRc L S P) :=
  loRef_complete_rc ha hpl hk hw (u32_of hL) hsite mNum mDen ik maxDepth

theorem planted_baseA {k L : Nat} {A : List UInt8} {S : List (List UInt8)} {P : List Nat}
    (hpl : Planted k L A S P) : AllBase A :=
  (pfamA_of_planted hpl).base (List.mem_cons_self ..)

/-- the reference as the program keeps it: `genomeBytes` of an A/C/G/T text is the text, of its lower-case copy too -/
theorem T17_genomeBytes (k L : Nat) (A : List UInt8) (S : List (List UInt8)) (P : List Nat)
    (hpl : Planted k L A S P) : genomeBytes A = A ∧ genomeBytes (lowerSeq A) = A :=
  ⟨genomeBytes_base (planted_baseA hpl), genomeBytes_lower (planted_baseA hpl)⟩

/-- **T17_ref_complete_bytes**: any text `G` of the reference that the program reads as `A` (`genomeBytes`:
whitespace removed, upper case) -/
theorem T17_ref_complete_bytes (W k L : Nat) (A G : List UInt8) (S : List (List UInt8)) (P : List Nat)
    (names : List String) (a : Arr) (hk : ValidK k) (hw : WidthOk W k) (hpl : Planted k L A S P)
    (ha : IsArrOf a k names S) (hG : genomeBytes G = A)
    (hsite : ∀ p ∈ P, SiteOK k A S p) (hL : L < 2 ^ 32)
    (mNum mDen ik maxDepth : Nat) :
    ∃ placed, loRef W k S.length mNum mDen ik maxDepth a (genomeBytes G) = some (placed, []) ∧
      placed.Perm (truePlaced S P) := by
  rw [hG]
  exact T17_ref_complete W k L A S P names a hk hw hpl ha hsite hL mNum mDen ik maxDepth

/-- the table in the order of `specTable` -/
theorem T17_ref_complete_table (W k L : Nat) (A : List UInt8) (S : List (List UInt8)) (P : List Nat)
    (names : List String) (hk : ValidK k) (hw : WidthOk W k) (hpl : Planted k L A S P)
    (hsite : ∀ p ∈ P, SiteOK k A S p) (hL : L < 2 ^ 32)
    (mNum mDen ik maxDepth : Nat) :
    ∃ placed, loRef W k S.length mNum mDen ik maxDepth (arrOf W k names S) A = some (placed, []) ∧
      placed.Perm (truePlaced S P) :=
  T17_ref_complete W k L A S P names _ hk hw hpl (isArrOf_arrOf W k names S) hsite hL mNum mDen ik maxDepth

/-- the special case of the statement: `7 ≤ k` and every site shows the base of the reference in some sample -/
theorem T17_ref_complete_k7 (W k L : Nat) (A : List UInt8) (S : List (List UInt8)) (P : List Nat) (names : List String)
    (a : Arr) (hk : ValidK k) (hw : WidthOk W k) (hpl : Planted k L A S P) (ha : IsArrOf a k names S)
    (hk7 : 7 ≤ k) (hanc : ∀ p ∈ P, ∃ s ∈ S, s.getD p 0 = A.getD p 0) (hL : L < 2 ^ 32)
    (mNum mDen ik maxDepth : Nat) :
    ∃ placed, loRef W k S.length mNum mDen ik maxDepth a A = some (placed, []) ∧
      placed.Perm (truePlaced S P) :=
  T17_ref_complete W k L A S P names a hk hw hpl ha (siteOK_of_k7 hk7 hanc) hL mNum mDen ik maxDepth

/-- the hypothesis on the sites from its decidable form -/
theorem T17_siteOK_of_B (k : Nat) (A : List UInt8) (S : List (List UInt8)) (P : List Nat)
    (h : P.all (siteOKB k A S) = true) : ∀ p ∈ P, SiteOK k A S p := siteOK_of_B h

/-- **the executable checker of Stage 0 accepts** (both orientations of the reference, lower-case text) -/
theorem T17_ref_complete_check (W k L : Nat) (A : List UInt8) (S : List (List UInt8)) (P : List Nat)
    (names : List String) (a : Arr) (hk : ValidK k) (hw : WidthOk W k) (hpl : Planted k L A S P)
    (ha : IsArrOf a k names S) (hsite : P.all (siteOKB k A S) = true) (hL : L < 2 ^ 32)
    (mNum mDen ik maxDepth : Nat) :
    refCompleteOn W k S.length mNum mDen ik maxDepth a (genomeBytes A) (truePlaced S P) = true ∧
    refCompleteOn W k S.length mNum mDen ik maxDepth a (genomeBytes (lowerSeq A)) (truePlaced S P) = true ∧
    refCompleteOn W k S.length mNum mDen ik maxDepth a (rcSeq A) (truePlacedRc L S P) = true := by
  obtain ⟨e1, e2⟩ := T17_genomeBytes k L A S P hpl
  rw [e1, e2]
  exact ⟨refCompleteOn_of _ _ _ _ _ _ _ _ _ _
      (T17_ref_complete W k L A S P names a hk hw hpl ha (siteOK_of_B hsite) hL mNum mDen ik maxDepth),
    refCompleteOn_of _ _ _ _ _ _ _ _ _ _
      (T17_ref_complete W k L A S P names a hk hw hpl ha (siteOK_of_B hsite) hL mNum mDen ik maxDepth),
    refCompleteOn_of _ _ _ _ _ _ _ _ _ _
      (T17_ref_complete_rc W k L A S P names a hk hw hpl ha (siteOK_of_B hsite) hL mNum mDen ik maxDepth)⟩

/-! ### Stage 1: votes and anchors of a good group -/

/-- **T17L_votes**: a sequence `w` of `len` letters whose windows of `k - 1` letters are windows of samples at the
coordinates `c, c + 1, …` gets one vote for `c + (k - 1)` from every window that equals the window of the
reference at the same coordinate, and no other vote; its reverse complement gets no vote at all -/
theorem T17L_votes (k L : Nat) (A : List UInt8) (S : List (List UInt8)) (P : List Nat) (hk : ValidK k)
    (hpl : Planted k L A S P) (hL : L < 2 ^ 32) (c len : Nat) (w : List UInt8) (hlen : w.length = len)
    (hb : ∀ b ∈ w, isBase b = true) (hcL : c + len ≤ L) (hkl : k - 1 ≤ len)
    (hwin : ∀ i, i + (k - 1) ≤ len → ∃ s ∈ S, win w i (k - 1) = win s (c + i) (k - 1)) :
    strandVotes 128 (k - 1) (genomicKmers 128 (k - 1) A) w =
      (List.range (len - (k - 1) + 1)).flatMap (fun i =>
        if win w i (k - 1) = win A (c + i) (k - 1) then [c + (k - 1)] else []) ∧
    strandVotes 128 (k - 1) (genomicKmers 128 (k - 1) A) (rcSeq w) = [] := by
  have pfA := pfamA_of_planted hpl
  have hk128 : 2 * (k - 1) ≤ 128 := by have := hk.2.1; omega
  have hal : Along (k - 1) L S c len w := ⟨hlen, hb, hcL, hkl, hwin⟩
  exact ⟨votes_along pfA hk128 (u32_of hL) hal,
    votes_against pfA hk128 (by omega) hal.hbase.rcSeq (along_rc_against hal)⟩

/-- **T17L_scan_same**: a good group of the strand of the reference that contains a site is anchored at the
coordinate of the end of its first `(k-1)`-mer, forward orientation -/
theorem T17L_scan_same (k L : Nat) (A : List UInt8) (S : List (List UInt8)) (P : List Nat) (hk : ValidK k)
    (hpl : Planted k L A S P) (hsite : ∀ p ∈ P, SiteOK k A S p) (hL : L < 2 ^ 32)
    (c0 len : Nat) (vs : List Variant) (hg : GG k L S P c0 len vs) (h2 : 2 ≤ vs.length)
    (q : Nat) (hq : q ∈ P) (h1 : c0 ≤ q) (h2q : q < c0 + len) :
    scanVariants 128 (k - 1) (genomicKmers 128 (k - 1) A) vs = some (true, c0 + (k - 1), true) := by
  obtain ⟨⟨s, hs, hsa⟩, hten⟩ := hsite q hq
  exact scan_same (pfamA_of_planted hpl) hk.1 (by have := hk.2.1; omega) (u32_of hL) hg h2 hq h1 h2q hs hsa (by
    rcases hten with h | h
    · exact Or.inl h
    · exact Or.inr (Or.inr (Or.inr h)))

/-- a spanning group (it extends `2k` letters beyond one of its sites) of the strand of the reference is anchored
whenever one sample shows the base of the reference at that site — for every `k`, whatever the number of alleles -/
theorem T17L_scan_spanning (k L : Nat) (A : List UInt8) (S : List (List UInt8)) (P : List Nat) (hk : ValidK k)
    (hpl : Planted k L A S P) (hL : L < 2 ^ 32)
    (c0 len : Nat) (vs : List Variant) (hg : GG k L S P c0 len vs) (h2 : 2 ≤ vs.length)
    (q : Nat) (hq : q ∈ P) (h1 : c0 ≤ q) (h2q : q < c0 + len) (s : List UInt8) (hs : s ∈ S)
    (hsa : s.getD q 0 = A.getD q 0) (hext : q + 2 * k ≤ c0 + len ∨ c0 + 2 * k - 1 ≤ q) :
    scanVariants 128 (k - 1) (genomicKmers 128 (k - 1) A) vs = some (true, c0 + (k - 1), true) :=
  scan_same (pfamA_of_planted hpl) hk.1 (by have := hk.2.1; omega) (u32_of hL) hg h2 hq h1 h2q hs hsa (by
    rcases hext with h | h
    · exact Or.inr (Or.inl h)
    · exact Or.inr (Or.inr (Or.inl h)))

/-- **T17L_scan_other**: a good group of the other strand (coordinates of the reverse-complemented family) is
anchored at the mirrored coordinate, reverse orientation -/
theorem T17L_scan_other (k L : Nat) (A : List UInt8) (S : List (List UInt8)) (P : List Nat) (hk : ValidK k)
    (hpl : Planted k L A S P) (hsite : ∀ p ∈ P, SiteOK k A S p) (hL : L < 2 ^ 32)
    (c0 len : Nat) (vs : List Variant) (hg : GG k L (rcFam S) (mirrorP L P) c0 len vs) (h2 : 2 ≤ vs.length)
    (q' : Nat) (hq' : q' ∈ mirrorP L P) (h1 : c0 ≤ q') (h2q : q' < c0 + len) :
    scanVariants 128 (k - 1) (genomicKmers 128 (k - 1) A) vs = some (true, L - c0 - len + (k - 1), false) := by
  have pf := pfam_of_planted hpl
  obtain ⟨hp, _, hlt⟩ := mirror_site pf hq'
  obtain ⟨⟨s, hs, hsa⟩, hten⟩ := hsite _ hp
  have hrc : ∀ u ∈ S, (rcSeq u).getD q' 0 = compl (u.getD (L - 1 - q') 0) := by
    intro u hu
    rw [rcSeq_getD (by rw [pf.len hu]; omega), pf.len hu]
  have hbq : ∀ u ∈ S, isBase (u.getD (L - 1 - q') 0) = true :=
    fun u hu => pf.base hu _ (getD_mem (by rw [pf.len hu]; omega))
  exact scan_other (pfamA_of_planted hpl) hk.1 (by have := hk.2.1; omega) (u32_of hL) (rcFam_closed pf)
    hg h2 hq' h1 h2q hp (t' := rcSeq s) (List.mem_map.mpr ⟨s, hs, rfl⟩)
    (by rw [rcSeq_rcSeq (pf.base hs)]; exact hsa) (by
      rcases hten with h | ⟨s1, hs1, s2, hs2, h12, h10, h20⟩
      · exact Or.inl h
      · refine Or.inr (Or.inr (Or.inr ⟨rcSeq s1, List.mem_map.mpr ⟨s1, hs1, rfl⟩, rcSeq s2,
          List.mem_map.mpr ⟨s2, hs2, rfl⟩, ?_, ?_, ?_⟩))
        · rw [hrc s1 hs1, hrc s2 hs2]
          exact fun e => h12 (compl_inj (hbq s1 hs1) (hbq s2 hs2) e)
        · rw [rcSeq_rcSeq (pf.base hs1)]; exact h10
        · rw [rcSeq_rcSeq (pf.base hs2)]; exact h20)

/-! ### Stage 2: positions and columns of the sites of a group -/

/-- **T17L_placed_same**: `analyseRef` places every site `q` of a group of the strand of the reference at `q`
with the column of the bases of the samples -/
theorem T17L_placed_same (k L : Nat) (A : List UInt8) (S : List (List UInt8)) (P : List Nat) (hk : ValidK k)
    (hpl : Planted k L A S P) (hsite : ∀ p ∈ P, SiteOK k A S p) (hL : L < 2 ^ 32) :
    AnchF k L S P (genomicKmers 128 (k - 1) A) (fun q => (q, S.map (fun s => s.getD q 0))) :=
  anchF_A (pfamA_of_planted hpl) (pfam_of_planted hpl) hk.1 (by have := hk.2.1; omega) (u32_of hL) hsite

/-- **T17L_placed_other**: a site `q'` (mirrored coordinate) of a group of the other strand is placed at
`L - 1 - q'` with the column of the bases of the samples (complemented back) -/
theorem T17L_placed_other (k L : Nat) (A : List UInt8) (S : List (List UInt8)) (P : List Nat) (hk : ValidK k)
    (hpl : Planted k L A S P) (hsite : ∀ p ∈ P, SiteOK k A S p) (hL : L < 2 ^ 32) :
    AnchR k L S P (genomicKmers 128 (k - 1) A) (fun q => (q, S.map (fun s => s.getD q 0))) :=
  anchR_A (pfamA_of_planted hpl) (pfam_of_planted hpl) hk.1 (by have := hk.2.1; omega) (u32_of hL) hsite

/-! ### Stage 3: through the writer -/

/-- **T17_ref_writer**: `create_fasta_and_vcf` on the placed columns (in any order) with the ancestor as reference:
the SNP alignment of every sample lists its bases at the sites in coordinate order; every pseudo-genome is the
sample; the VCF records are (site, base of the reference, true column) in coordinate order (the VCF text shows
`POS = site + 1`) -/
theorem T17_ref_writer (k L : Nat) (A : List UInt8) (S : List (List UInt8)) (P : List Nat)
    (hpl : Planted k L A S P) (hL0 : 0 < L) (placed : List (Nat × List UInt8)) (hp : placed.Perm (truePlaced S P)) :
    createFastaAndVcf A S.length placed =
      { snpSeqs := S.map (fun s => P.map (fun p => s.getD p 0)),
        pseudo := some S,
        vcf := P.map (fun p => (p, A.getD p 0, S.map (fun s => s.getD p 0))) } := by
  have hk5 : 5 ≤ k := by
    have h : LOC.plantedB k L A S P = true := hpl
    unfold LOC.plantedB at h
    simp only [Bool.and_eq_true, decide_eq_true_eq] at h
    exact h.1.1.1.1.1.1.1.1.1
  exact writer_planted (pfamA_of_planted hpl) (pfam_of_planted hpl) (by omega) hL0 hp

/-- **T17_ref_output**: the whole `ska lo -r` on a planted family: the caller succeeds without indel records and the
writer produces the alignment of the sites, the samples as pseudo-genomes and the true VCF records -/
theorem T17_ref_output (W k L : Nat) (A : List UInt8) (S : List (List UInt8)) (P : List Nat) (names : List String)
    (a : Arr) (hk : ValidK k) (hw : WidthOk W k) (hpl : Planted k L A S P) (ha : IsArrOf a k names S)
    (hsite : ∀ p ∈ P, SiteOK k A S p) (hL : L < 2 ^ 32) (hL0 : 0 < L)
    (mNum mDen ik maxDepth : Nat) :
    ∃ placed, loRef W k S.length mNum mDen ik maxDepth a A = some (placed, []) ∧
      createFastaAndVcf A S.length placed =
        { snpSeqs := S.map (fun s => P.map (fun p => s.getD p 0)),
          pseudo := some S,
          vcf := P.map (fun p => (p, A.getD p 0, S.map (fun s => s.getD p 0))) } := by
  obtain ⟨placed, h1, h2⟩ := T17_ref_complete W k L A S P names a hk hw hpl ha hsite hL mNum mDen ik maxDepth
  exact ⟨placed, h1, T17_ref_writer k L A S P hpl hL0 placed h2⟩

/-- **T17_ref_output_rc**: the same with the reverse complement of the ancestor as reference: the records are those of
the reverse-complemented family at the mirrored sites, the pseudo-genomes are the reverse complements of the samples -/
theorem T17_ref_output_rc (W k L : Nat) (A : List UInt8) (S : List (List UInt8)) (P : List Nat) (names : List String)
    (a : Arr) (hk : ValidK k) (hw : WidthOk W k) (hpl : Planted k L A S P) (ha : IsArrOf a k names S)
    (hsite : ∀ p ∈ P, SiteOK k A S p) (hL : L < 2 ^ 32) (hL0 : 0 < L)
    (mNum mDen ik maxDepth : Nat) :
    ∃ placed, loRef W k S.length mNum mDen ik maxDepth a (rcSeq A) = some (placed, []) ∧
      createFastaAndVcf (rcSeq A) S.length placed =
        { snpSeqs := (rcFam S).map (fun s => (mirrorP L P).map (fun p => s.getD p 0)),
          pseudo := some (rcFam S),
          vcf := (mirrorP L P).map (fun p => (p, (rcSeq A).getD p 0, (rcFam S).map (fun s => s.getD p 0))) } := by
  obtain ⟨placed, h1, h2⟩ := T17_ref_complete_rc W k L A S P names a hk hw hpl ha hsite hL mNum mDen ik maxDepth
  exact ⟨placed, h1, writer_planted_rc (pfamA_of_planted hpl) (pfam_of_planted hpl) (by have := hk.1; omega) hL0 h2⟩

/-- **T17_ref_vcf_genotype**: in the VCF record of a site `p` (REF = `A[p]`, column = the samples' bases) the
genotype index of every sample decodes, through REF / ALT, to the sample's base -/
theorem T17_ref_vcf_genotype (k L : Nat) (A : List UInt8) (S : List (List UInt8)) (P : List Nat)
    (hpl : Planted k L A S P) (p : Nat) (hp : p ∈ P) (s : List UInt8) (hs : s ∈ S) :
    let col := S.map (fun s => s.getD p 0)
    C17.decode (A.getD p 0) (C17.altBases (A.getD p 0) col) (C17.gtIndex (A.getD p 0) col (s.getD p 0)) =
      s.getD p 0 := by
  intro col
  have pf := pfam_of_planted hpl
  have hpe := pf.ends p hp
  have hb : isBase (s.getD p 0) = true := pf.base hs _ (getD_mem (by rw [pf.len hs]; omega))
  rw [C17.T17_vcf_decode _ col _ (List.mem_map.mpr ⟨s, hs, rfl⟩)]
  split
  · rename_i h
    exact (eq_of_beq h).symm
  · rcases isBase_cases hb with h | h | h | h <;> rw [h] <;> rfl

/-! ### examples: the hypotheses are satisfiable, the theorems apply -/

/-- a planted family: k = 7, one site at 14 (G / A), ancestor AACTTCACATTGCGGTAACAGGCGCTTGA (sample 0) -/
def exA : List UInt8 := bs "AACTTCACATTGCGGTAACAGGCGCTTGA"
def exS : List (List UInt8) := [bs "AACTTCACATTGCGGTAACAGGCGCTTGA", bs "AACTTCACATTGCGATAACAGGCGCTTGA"]

theorem ex_planted : Planted 7 29 exA exS [14] := by decide +kernel
theorem ex_k : ValidK 7 := by unfold ValidK; decide
theorem ex_w : WidthOk 64 7 := by unfold WidthOk; decide
theorem ex_site : ∀ p ∈ [14], SiteOK 7 exA exS p := siteOK_of_B (by decide +kernel)

/-- the main theorem on that family: depth 0, no missing data allowed, table order -/
example : ∃ placed, loRef 64 7 2 0 1 2 0 (arrOf 64 7 ["s0", "s1"] exS) exA = some (placed, []) ∧
    placed.Perm (truePlaced exS [14]) :=
  T17_ref_complete_table 64 7 29 exA exS [14] ["s0", "s1"] ex_k ex_w ex_planted ex_site (by decide) 0 1 2 0

/-- depth 4, threshold 1/2, 128-bit width, the rows of the table in reverse order -/
example : ∃ placed, loRef 128 7 2 1 2 0 4 (arrOfRows 128 7 ["s0", "s1"] (tableOf 7 ["s0", "s1"] exS).rows.reverse) exA =
    some (placed, []) ∧ placed.Perm (truePlaced exS [14]) :=
  T17_ref_complete 128 7 29 exA exS [14] ["s0", "s1"] _ ex_k (by unfold WidthOk; decide) ex_planted
    (isArrOf_rows 128 7 _ exS _ (List.reverse_perm _)) ex_site (by decide) 1 2 0 4

/-- the reverse complement of the ancestor as reference -/
example : ∃ placed, loRef 64 7 2 0 1 2 1 (arrOf 64 7 ["s0", "s1"] exS) (rcSeq exA) = some (placed, []) ∧
    placed.Perm (truePlacedRc 29 exS [14]) :=
  T17_ref_complete_rc 64 7 29 exA exS [14] ["s0", "s1"] _ ex_k ex_w ex_planted (isArrOf_arrOf 64 7 _ exS)
    ex_site (by decide) 0 1 2 1

/-- through the writer -/
example := T17_ref_output 64 7 29 exA exS [14] ["s0", "s1"] _ ex_k ex_w ex_planted (isArrOf_arrOf 64 7 _ exS)
  ex_site (by decide) (by decide) 0 1 2 0
example := T17_ref_vcf_genotype 7 29 exA exS [14] ex_planted 14 (by decide) (exS.getD 1 []) (by decide +kernel)
example := T17L_placed_same 7 29 exA exS [14] ex_k ex_planted ex_site (by decide)

example := T17_ref_complete_check 64 7 29 exA exS [14] ["s0", "s1"] _ ex_k ex_w ex_planted (isArrOf_arrOf 64 7 _ exS)
  (by decide +kernel) (by decide) 0 1 2 0
example := T17L_placed_other 7 29 exA exS [14] ex_k ex_planted ex_site (by decide)

-- Stage 1 on that family: the two bubbles of the site 14 (one per strand) are anchored at 14 = c0 + (k - 1) with
-- c0 = 14 - k + 1, forward, resp. at L - c0' - len + (k - 1) = 14 with c0' = (29 - 1 - 14) - k + 1, len = 2k - 1, reverse
#guard
  let (g, col) := buildGraph 64 (arrOf 64 7 ["s0", "s1"] exS)
  match identifyGoodKmers 64 6 g col with
  | none => false
  | some (st, en) =>
    ((buildVariantGroups 64 6 g st en 0).snpGroups.map (fun (kv : (Nat × Nat) × List Variant) =>
      (kv.2.map (·.1), scanVariants 128 6 (genomicKmers 128 6 exA) kv.2))) ==
    [([bs "ATTGCGGTAACAG", bs "ATTGCGATAACAG"], some (true, 14, true)),
     ([bs "CTGTTACCGCAAT", bs "CTGTTATCGCAAT"], some (true, 14, false))]

/-- k = 5 with three alleles (G / A / C, sample 0 = ancestor): the hypothesis holds, the theorem applies -/
def exA5 : List UInt8 := bs "TTGATTGCCTGACGCTTTACG"
def exS5 : List (List UInt8) := [bs "TTGATTGCCTGACGCTTTACG", bs "TTGATTGCCTAACGCTTTACG", bs "TTGATTGCCTCACGCTTTACG"]
theorem ex5_planted : Planted 5 21 exA5 exS5 [10] := by decide +kernel
theorem ex5_site : ∀ p ∈ [10], SiteOK 5 exA5 exS5 p := siteOK_of_B (by decide +kernel)
example : ∃ placed, loRef 64 5 3 0 1 2 0 (arrOf 64 5 ["s0", "s1", "s2"] exS5) exA5 = some (placed, []) ∧
    placed.Perm (truePlaced exS5 [10]) :=
  T17_ref_complete_table 64 5 21 exA5 exS5 [10] ["s0", "s1", "s2"] (by unfold ValidK; decide) (by unfold WidthOk; decide)
    ex5_planted ex5_site (by decide) 0 1 2 0
#guard loRef 64 5 3 0 1 2 0 (arrOf 64 5 ["s0", "s1", "s2"] exS5) (genomeBytes exA5) = some ([(10, bs "GAC")], [])

-- what the model computes on the family `exS`: position 14, column G/A; on the other strand position 29 - 1 - 14, C/T
#guard truePlaced exS [14] = [(14, bs "GA")]
#guard loRef 64 7 2 0 1 2 0 (arrOf 64 7 ["s0", "s1"] exS) (genomeBytes exA) = some ([(14, bs "GA")], [])
#guard loRef 64 7 2 0 1 2 0 (arrOf 64 7 ["s0", "s1"] exS) (genomeBytes (lowerSeq exA)) = some ([(14, bs "GA")], [])
#guard loRef 64 7 2 0 1 2 0 (arrOf 64 7 ["s0", "s1"] exS) (genomeBytes (rcSeq exA)) = some ([(14, bs "CT")], [])
#guard createFastaAndVcf exA 2 [(14, bs "GA")] =
  { snpSeqs := [bs "G", bs "A"], pseudo := some exS, vcf := [(14, 71, bs "GA")] }

/-! ### the findings of Stage 0 as concrete families -/

/-- FINDING 3 (k = 5, one site, two alleles G / A, sample 0 = ancestor): planted, the reference-free caller reports
the column, with the reference NO SNP is reported (8 votes for the anchor, 10 are needed) -/
def famK5 : Fam := ⟨5, 21, bs "CAGGTGGCGTGAAGAGTAGTC", [bs "CAGGTGGCGTGAAGAGTAGTC", bs "CAGGTGGCGTAAAGAGTAGTC"], [10]⟩
#guard plantedB famK5.k famK5.L famK5.A famK5.S famK5.P && ancShownB famK5.A famK5.S famK5.P
#guard [0, 1, 4].all (fun d => loRef 64 5 2 0 1 2 d (famArr 64 famK5) (genomeBytes famK5.A) = some ([], []))
#guard LOC.lo 64 5 2 0 1 2 0 (famArr 64 famK5) = some ([bs "CT"], [])
#guard
  let kmap := genomicKmers 128 4 famK5.A
  [bs "GCGTGAAGA", bs "GCGTAAAGA"].flatMap (strandVotes 128 4 kmap) = [10, 10, 10, 10, 10, 10, 10, 10]

/-- FINDING 2 (k = 7, one site, alleles T / C, ancestor A): no sample carries the base of the reference; 4 votes;
no SNP is reported at any depth -/
def famNoAnc7 : Fam :=
  ⟨7, 34, bs "CATCTTAGTTAAAAATGCTAGACGGGAATTGACC", [bs "CATCTTAGTTAAAATTGCTAGACGGGAATTGACC", bs "CATCTTAGTTAAAACTGCTAGACGGGAATTGACC"], [14]⟩
#guard plantedB famNoAnc7.k famNoAnc7.L famNoAnc7.A famNoAnc7.S famNoAnc7.P && !ancShownB famNoAnc7.A famNoAnc7.S famNoAnc7.P
#guard [0, 1, 4].all (fun d => loRef 64 7 2 0 1 2 d (famArr 64 famNoAnc7) (genomeBytes famNoAnc7.A) = some ([], []))
#guard
  let kmap := genomicKmers 128 6 famNoAnc7.A
  [bs "TTAAAATTGCTAG", bs "TTAAAACTGCTAG"].flatMap (strandVotes 128 6 kmap) = [14, 14, 14, 14]

/-- the same with k = 11 and two sites (alleles G / A at both, ancestor T): nothing is reported at depths 0, 1, 4 -/
def famNoAnc11 : Fam := famsX.getD 3 default
#guard famNoAnc11.k = 11 && plantedB 11 famNoAnc11.L famNoAnc11.A famNoAnc11.S famNoAnc11.P &&
  !ancShownB famNoAnc11.A famNoAnc11.S famNoAnc11.P
#guard [0, 1, 4].all (fun d => loRef 64 11 3 0 1 2 d (famArr 64 famNoAnc11) (genomeBytes famNoAnc11.A) = some ([], []))

/-- FINDING 2, one site of two (k = 7, sites 14 and 28; at 28 the samples show A / T, the ancestor G): only the
site 14 is reported -/
def famMixed : Fam :=
  ⟨7, 43, bs "AGAAAGTTCTAGCGTCACATAACGGACGGTTCCATTACACGAC",
    [bs "AGAAAGTTCTAGCGTCACATAACGGACGATTCCATTACACGAC", bs "AGAAAGTTCTAGCGACACATAACGGACGTTTCCATTACACGAC"], [14, 28]⟩
#guard plantedB famMixed.k famMixed.L famMixed.A famMixed.S famMixed.P && !ancShownB famMixed.A famMixed.S famMixed.P
#guard [0, 1, 4].all (fun d => loRef 64 7 2 0 1 2 d (famArr 64 famMixed) (genomeBytes famMixed.A) = some ([(14, bs "TA")], []))

-- without the reference base a site can still be reported when a spanning group is processed before its bubble
-- (family 19 of `LOCFams`: k = 7, sites 14 and 32, three alleles each, none the ancestor's): nothing with `-d 0`,
-- both sites with `-d 1`
#guard (loRef 64 7 4 0 1 2 0 (famArr 64 (fams.getD 19 default)) (genomeBytes (fams.getD 19 default).A)) = some ([], [])
#guard (loRef 64 7 4 0 1 2 1 (famArr 64 (fams.getD 19 default)) (genomeBytes (fams.getD 19 default).A)) =
  some ([(32, bs "ACTA"), (14, bs "TAGT")], [])

/-! ### Stage 0: the executable claim on the 45 generated families -/

/-- (both orientations and the lower-case text of the reference) for the depths 0, 1, 4 -/
def testRef (f : Fam) : List Bool :=
  [0, 1, 4].flatMap (fun d =>
    [refCompleteOn 64 f.k f.S.length 0 1 2 d (famArr 64 f) (genomeBytes f.A) (truePlaced f.S f.P),
     refCompleteOn 64 f.k f.S.length 1 2 0 d (famArr 64 f) (genomeBytes (lowerSeq f.A)) (truePlaced f.S f.P),
     refCompleteOn 64 f.k f.S.length 0 1 2 d (famArr 64 f) (genomeBytes (rcSeq f.A)) (truePlacedRc f.L f.S f.P)])

#guard famsAll.length = 45
#guard famsAll.all (fun f => plantedB f.k f.L f.A f.S f.P)
-- the families that satisfy the hypotheses of the theorem (23 of them: 20 with k ≥ 7, 3 with k = 5 and three
-- alleles at every site): the claim holds for the depths 0, 1, 4
#guard (famsAll.filter (fun f => f.P.all (siteOKB f.k f.A f.S))).length = 23
#guard (famsAll.filter (fun f => f.P.all (siteOKB f.k f.A f.S))).all (fun f => (testRef f).all id)
-- at depth 0 the hypothesis is also necessary on these families: the claim holds exactly when every site is `SiteOK`
#guard famsAll.all (fun f => f.P.all (siteOKB f.k f.A f.S) == ((testRef f).take 3).all id)
-- the special case of `T17_ref_complete_k7`
#guard (famsAll.filter (fun f => decide (7 ≤ f.k) && ancShownB f.A f.S f.P)).length = 20
-- k = 5 with the reference base at every site: holds exactly for the families with three alleles at every site
#guard ((famsAll.filter (fun f => decide (f.k = 5) && ancShownB f.A f.S f.P)).map (fun f => (testRef f).all id)) =
  [false, true, false, false, true, false, false, false, false, false, true]

/-- number of different bases the samples show at `p` -/
def nAlleles (S : List (List UInt8)) (p : Nat) : Nat := ((S.map (fun s => s.getD p 0)).eraseDups).length

/-- `SiteOK` as a count of votes: the reference base is shown and `(k + 1) + 2 (a - 1) ≥ 10` -/
def votesB (k : Nat) (A : List UInt8) (S : List (List UInt8)) (p : Nat) : Bool :=
  S.any (fun s => s.getD p 0 == A.getD p 0) && decide (10 ≤ (k + 1) + 2 * (nAlleles S p - 1))

/-- the votes (both strands together) of every group at depth 0 -/
def bubbleVotes (f : Fam) : List (List Nat) :=
  let (g, col) := buildGraph 64 (famArr 64 f)
  match identifyGoodKmers 64 (f.k - 1) g col with
  | none => []
  | some (st, en) =>
    let gr := buildVariantGroups 64 (f.k - 1) g st en 0
    let kmap := genomicKmers 128 (f.k - 1) (genomeBytes f.A)
    gr.snpGroups.map (fun (kv : (Nat × Nat) × List Variant) =>
      kv.2.flatMap (fun (v : Variant) =>
        strandVotes 128 (f.k - 1) kmap v.1 ++ strandVotes 128 (f.k - 1) kmap (rcSeq v.1)))

/-- the number of votes the bubble of `p` is expected to get (FINDING 1) -/
def expVotes (f : Fam) (p : Nat) : Nat :=
  if f.S.any (fun s => s.getD p 0 == f.A.getD p 0) then (f.k + 1) + 2 * (nAlleles f.S p - 1) else 2 * nAlleles f.S p

-- FINDING 1 on the 45 families: two bubbles per site (one per strand); all votes of a bubble are for the site itself
-- (the anchor `c0 + (k - 1)` of the bubble of `p` is `p`), and their number is `expVotes`
#guard famsAll.all (fun f => (bubbleVotes f).length == 2 * f.P.length && (bubbleVotes f).all (fun vs =>
  match vs with
  | [] => false
  | p :: _ => vs.all (· == p) && f.P.contains p && vs.length == expVotes f p))
#guard famsAll.all (fun f => f.P.all (fun p => siteOKB f.k f.A f.S p == votesB f.k f.A f.S p))

/-! ### axioms -/

#print axioms T17_ref_complete
#print axioms T17_ref_complete_k7
#print axioms T17_ref_complete_positions
#print axioms T17_ref_complete_rc
#print axioms T17_ref_complete_bytes
#print axioms T17_ref_complete_table
#print axioms T17_ref_complete_check
#print axioms T17L_votes
#print axioms T17L_scan_same
#print axioms T17L_scan_spanning
#print axioms T17L_scan_other
#print axioms T17L_placed_same
#print axioms T17L_placed_other
#print axioms T17_ref_writer
#print axioms T17_ref_output
#print axioms T17_ref_output_rc
#print axioms T17_ref_vcf_genotype

end SkaModel.Props.C17L
