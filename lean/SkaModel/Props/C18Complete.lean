/-
C18 (second sentence) — completeness of indel calling for isolated insertions / deletions:

  "For genomes differing by isolated insertions or deletions shorter than k in repeat-free sequence, each
   reported record corresponds to one planted indel with its carriers, no indel is reported twice, and [at
   least 90 % of] the planted indels are reported."

SETTING (`SkaModel/Lemmas/LOEDel.lean`).  A family of samples is given by one sequence `F`, a list of blocks
`B` (start and length of each block, in columns of `F`) and one row of flags per sample (`C`: flag `t` set = the
sample KEEPS block `t`); `dsample F B c` is `F` with the blocks whose flag is off deleted.  A block kept by some
samples and deleted by the others is an insertion of the former = a deletion of the latter.  A block whose
first `m` letters repeat behind it (`F[b+i] = F[e+i]` for `i < m`) can be deleted at `m + 1` placements with the
same result: `m = shOf k F b` is its SHIFT (shift ambiguity); blocks are given at their LEFTMOST placement.
`DPlanted k F B C` (decidable, `dplantedB`): `k` odd, `5 ≤ k`; `F` over A/C/G/T; at least two samples; every block
is kept by a sample and deleted by a sample; the blocks have `1 .. k-1` columns, lie `4k` columns apart and `4k`
columns from both ends; EVERY SHIFT IS AT MOST `k - 3`; the `(k-1)`-mers of the samples are unique on both strands,
occurrence-wise and up to shifts (`dalignedSB`): two windows of `k-1` consecutive columns of samples that spell
the same `(k-1)`-mer have the same canonical columns (`canonW`: a window that spells the same as the contiguous
window at its first column is identified with it — this is what a shift does), and no window spells the reverse
complement of a window.  The table is `tableOf k names (dsamples F B C)`, the array `a` holds its rows in any
order (`IsArrOf`), `lo` is the reference-free pipeline of `ska lo`.

MAIN THEOREM `T18_complete`: for every exploration depth, every missing-data threshold and every `ik`,
`lo … a = some ([], recs)` — no SNP column — and `RecsMatch k F B C recs`: `recs` is, up to order, ONE record per
block, read on the samples' strand (`dexpRec … t false`, spelled out in `T18K_expected`: for a block of shift `m`
`before` = the `(k-1)`-mer that ends at the RIGHTMOST placement, the insert = the block read there, `after` = the
`k-1-m` letters behind it; alleles = the insert and `-`, REF = the more frequent allele and `-` on ties, genotype
`0`/`1` = the sample carries REF / ALT) or on the other strand (`dexpRec … t true`: `before` = the `(k-1)`-mer
behind the LEFTMOST placement, the block read there, `after` = the `k-1-m` letters before it, all reverse
complemented).  For `m = 0` the flanks are the two `(k-1)`-mers around the block.  So every planted indel of shift
at most `k-3` is reported exactly once (`T18_complete_once`) with its carriers, the executable checker of Stage 0
accepts (`T18_complete_check`), and every record is sound (`T18_complete_sound`: REF sequence, on either strand,
in exactly the samples genotyped `0`, ALT sequence in exactly those genotyped `1`).

STAGE 0 (exploration by execution; generator `SkaModel/Lemmas/LOEGen.lean`, insertion model `(A, D, C)`: ancestor,
inserts `(position, string)`, carrier flags).  352 generated families with 525 planted indels (k = 5, 7, 9, 11;
2–5 samples; 1–3 indels of 1 .. k-1 letters, every combination of insert length and shift for single indels)
plus the literal families `dfams` (39), `sfams` (22), `sfamsMax` (4); 9 settings each (depths 0, 1, 4 ×
thresholds 0, 1/10, 1/2; more than 3500 runs).  Per planted indel of shift `m`:

  condition                                               | outcome in all 9 settings
  --------------------------------------------------------+------------------------------------------------------
  m = 0, (k-1)-mers unique occurrence-wise                | reported exactly once, flanks = the two (k-1)-mers,
    (212 indels, and all 64 of `dfams`)                   |   alleles, REF/ALT and genotypes as expected (THEOREM)
  1 ≤ m ≤ k-3, unique up to the shift (271 indels, and    | reported exactly once; `before` = the (k-1)-mer ending
    the 26 of `sfams`)                                    |   at the rightmost placement, insert read there,
                                                          |   `after` has only k-1-m letters: the entry node is
                                                          |   the (k-1)-mer ending at the rightmost placement, the
                                                          |   exit node the one starting at the leftmost placement,
                                                          |   they overlap by m letters in the deleting samples
                                                          |   (THEOREM)
  m = k-2 (42 indels, and the 4 of `sfamsMax`)            | NOT reported (the other indels of the family are): the
                                                          |   short path is entry → exit directly, and the path
                                                          |   enumeration never tests the first successor of an
                                                          |   entry node for being an exit node
  a (k-1)-mer of one sample recurs in another sample at   | the records are SOUND (their sequences occur exactly in
    a non-corresponding place (2 families found by        |   the samples genotyped for them) but describe bubbles
    chance; each sample alone is repeat-free)             |   of the tangled graph, not the planted indels
  every record of every run                               | sound (`recSoundB`); never an SNP column; never `none`

No outcome contradicted the property beyond the tolerated 10 %: the only planted indels that are lost are those
with m = k-2 (an insert sliding through k-2 positions, e.g. one more letter in a homopolymer run of k-2 letters;
m ≥ k-1 contradicts the uniqueness of the (k-1)-mers).  Further phenomena: the twin bubble on the other strand
is removed by `dereplicate` (equal total length; the one with the smaller entry k-mer survives, so the reported
strand depends on the letters: `flips` in `RecsMatch`); genotypes use only the colour sets of the first k-mer of
each path, which on planted families are exactly the keepers and the deleters (`T18K_colours`), so no sample is
missing and the `-m` filter never fires; outside the model (two different inserts at one place in three samples)
a sample carrying neither first k-mer is genotyped `.` and counts as missing.  Minimal families: `shF`/`exShift1`,
`exShiftMax` below.

STAGES 1 and 2 (proved; `SkaModel/Lemmas/LOE*.lean`).  Nodes in columns of `F` (`Nd.c x`: the contiguous window
at `x`; `Nd.g t x`: the window at `x` that jumps over block `t`, with more than `m` columns behind the block),
node numbers `nF` (samples' strand) and `nR` (other strand), `RE` = "next window of a sample", `eX` = the first
column of the entry node of a block (the `(k-1)`-mer ending at the rightmost placement).
* `T18K_graph_edges`: an edge joins the two nodes of a pair related by `RE`, forwards on the samples' strand,
  backwards on the other strand; `T18K_nodes`: node numbers are injective and the strands share no node.
* `T18K_branching`, `T18K_bubbles`: a node with two successors is the entry node of a block (samples' strand) or
  the node after a block (other strand); the graph is a graph of bubbles (`BG`): two arms of single-successor
  nodes that reconverge at the exit node, one through the block (`|block| + k - 2 - m` inner nodes), one over it
  (`k - 2 - m` inner nodes); the bubbles come in strand pairs (`Twins`); behind an exit node the next exit node
  is more than `k` nodes away (`Far`).
* `T18K_entries`, `T18K_groups`: entry nodes = entries of the bubbles; the indel groups are exactly the bubbles
  (two paths, sequences `E ++ I ++ X` and `E ++ X`: `T18K_sequences`), every SNP group starts at an entry node
  (and is skipped by the caller: it is an indel extremity).
* `T18K_colours`, `T18K_record`: the first k-mers of the two paths are carried by the keepers / the deleters;
  `process_indels` computes the expected record for the bubble and for its twin; `dereplicate` keeps exactly one
  of each pair (`LOE.derep_twins`).  `T18K_occurrence`: the sequence through a block occurs (on either strand) in
  exactly the samples that keep it, the sequence over it in exactly those that delete it.
-/
import SkaModel.Lemmas.LOESound2
import SkaModel.Lemmas.LOEFams
import SkaModel.Lemmas.LOEGen

namespace SkaModel.Props.C18K

open SkaModel SkaModel.Skalo SkaModel.Spec SkaModel.Props.C16 SkaModel.Props.C17G SkaModel.LOC SkaModel.LOE

/-! ### the statement -/

abbrev DPlanted := LOE.DPlanted
abbrev dplantedB := LOE.dplantedB
abbrev dsamples := LOE.dsamples
abbrev dexpRec := LOE.dexpRec
abbrev RecsMatch := LOE.RecsMatch
abbrev dcompleteOn := LOE.dcompleteOn
abbrev IsArrOf := LOC.IsArrOf
abbrev arrOf := LOC.arrOf
abbrev lo := LOC.lo

/-- the setting of the lemma files -/
theorem ctx_of {W k : Nat} {F : List UInt8} {B : List (Nat × Nat)} {C : List (List Bool)} {a : Arr}
    {names : List String} (hk : ValidK k) (hw : WidthOk W k) (hpl : DPlanted k F B C)
    (ha : IsArrOf a k names (dsamples F B C)) : Ctx W k F B C a names :=
  ⟨dfam_of_planted hpl, ha, hk, hw⟩

/-! ### main theorem -/

/-- **T18_complete**: completeness of indel calling for isolated insertions / deletions of shift at most `k-3`,
any exploration depth, any missing-data threshold, any `ik`, rows of the table in any order: no SNP column, and
one record per block, read on one of the two strands -/
theorem T18_complete (W k : Nat) (F : List UInt8) (B : List (Nat × Nat)) (C : List (List Bool))
    (names : List String) (a : Arr) (hk : ValidK k) (hw : WidthOk W k) (hpl : DPlanted k F B C)
    (ha : IsArrOf a k names (dsamples F B C)) (mNum mDen ik maxDepth : Nat) :
    ∃ recs, lo W k C.length mNum mDen ik maxDepth a = some ([], recs) ∧ RecsMatch k F B C recs :=
  (ctx_of hk hw hpl ha).lo_dfam mNum mDen ik maxDepth

/-- the table in the order of `specTable` -/
theorem T18_complete_table (W k : Nat) (F : List UInt8) (B : List (Nat × Nat)) (C : List (List Bool))
    (names : List String) (hk : ValidK k) (hw : WidthOk W k) (hpl : DPlanted k F B C)
    (mNum mDen ik maxDepth : Nat) :
    ∃ recs, lo W k C.length mNum mDen ik maxDepth (arrOf W k names (dsamples F B C)) = some ([], recs) ∧
      RecsMatch k F B C recs :=
  T18_complete W k F B C names _ hk hw hpl (isArrOf_arrOf W k names _) mNum mDen ik maxDepth

/-- **every planted indel is reported exactly once**: as many records as blocks, and for every block exactly one
record equal to one of its two expected records -/
theorem T18_complete_once (W k : Nat) (F : List UInt8) (B : List (Nat × Nat)) (C : List (List Bool))
    (names : List String) (a : Arr) (hk : ValidK k) (hw : WidthOk W k) (hpl : DPlanted k F B C)
    (ha : IsArrOf a k names (dsamples F B C)) (mNum mDen ik maxDepth : Nat) :
    ∃ recs, lo W k C.length mNum mDen ik maxDepth a = some ([], recs) ∧ recs.length = B.length ∧
      ∀ t, t < B.length →
        (recs.filter (fun r => r == dexpRec k F B C t false || r == dexpRec k F B C t true)).length = 1 := by
  have cx := ctx_of hk hw hpl ha
  obtain ⟨recs, hlo, hm⟩ := cx.lo_dfam mNum mDen ik maxDepth
  have hb := cx.drecsMatchB_of hm
  unfold drecsMatchB at hb
  rw [Bool.and_eq_true, decide_eq_true_eq, List.all_eq_true] at hb
  refine ⟨recs, hlo, hb.1, ?_⟩
  intro t ht
  have := hb.2 t (List.mem_range.mpr ht)
  rwa [beq_iff_eq] at this

/-- **the executable checker of Stage 0 accepts** -/
theorem T18_complete_check (W k : Nat) (F : List UInt8) (B : List (Nat × Nat)) (C : List (List Bool))
    (names : List String) (a : Arr) (hk : ValidK k) (hw : WidthOk W k) (hpl : DPlanted k F B C)
    (ha : IsArrOf a k names (dsamples F B C)) (mNum mDen ik maxDepth : Nat) :
    dcompleteOn W k F B C a mNum mDen ik maxDepth = true :=
  (ctx_of hk hw hpl ha).dcompleteOn_true mNum mDen ik maxDepth

/-- **every record is sound** (the first sentence of C18 on these families): for every record the sequence
`before ++ REF ++ after` (`-` = nothing) or its reverse complement occurs in exactly the samples genotyped `0`,
`before ++ ALT ++ after` in exactly those genotyped `1`, and every sample is genotyped `0` or `1`
(`recSoundB`, the executable check of Stage 0) -/
theorem T18_complete_sound (W k : Nat) (F : List UInt8) (B : List (Nat × Nat)) (C : List (List Bool))
    (names : List String) (a : Arr) (hk : ValidK k) (hw : WidthOk W k) (hpl : DPlanted k F B C)
    (ha : IsArrOf a k names (dsamples F B C)) (mNum mDen ik maxDepth : Nat) :
    ∃ recs, lo W k C.length mNum mDen ik maxDepth a = some ([], recs) ∧
      ∀ r ∈ recs, recSoundB (dsamples F B C) r = true := by
  have cx := ctx_of hk hw hpl ha
  obtain ⟨recs, hlo, hm⟩ := cx.lo_dfam mNum mDen ik maxDepth
  exact ⟨recs, hlo, fun r hr => List.all_eq_true.mp (cx.recs_sound hm) r hr⟩

/-- what soundness rests on: the sequence through block `t` (`w1`: from the entry node to the end of the exit
node) or its reverse complement occurs in exactly the samples that keep the block, the sequence over it (`w2`)
in exactly those that delete it -/
theorem T18K_occurrence (W k : Nat) (F : List UInt8) (B : List (Nat × Nat)) (C : List (List Bool))
    (names : List String) (a : Arr) (hk : ValidK k) (hw : WidthOk W k) (hpl : DPlanted k F B C)
    (ha : IsArrOf a k names (dsamples F B C)) (t : Nat) (ht : t < B.length) (c : List Bool) (hc : c ∈ C) :
    (occursIn (Ctx.w1 k F B t) (dsample F B c) || occursIn (rcSeq (Ctx.w1 k F B t)) (dsample F B c)) =
      c.getD t false ∧
    (occursIn (Ctx.w2 k F B t) (dsample F B c) || occursIn (rcSeq (Ctx.w2 k F B t)) (dsample F B c)) =
      !c.getD t false :=
  ⟨(ctx_of hk hw hpl ha).occ_keep ht hc, (ctx_of hk hw hpl ha).occ_del ht hc⟩

/-- the expected record of block `t` (shift `m`) on the samples' strand, spelled out: `before` = the `(k-1)`-mer
that ends at the rightmost placement, the insert = the block read there, `after` = the `k-1-m` letters behind
it, REF = the insert iff its keepers are the majority, genotype `0` for the samples that carry REF -/
theorem T18K_expected (k : Nat) (F : List UInt8) (B : List (Nat × Nat)) (C : List (List Bool)) (t : Nat) :
    let b := B.getD t (0, 0)
    let m := shOf k F b
    let insRef := decide (C.length - carriers C t < carriers C t)
    dexpRec k F B C t false =
      { ref := if insRef then win F (b.1 + m) b.2 else [45], alt := if insRef then [45] else win F (b.1 + m) b.2,
        before := win F (b.1 + m - (k - 1)) (k - 1), after := win F (b.1 + b.2 + m) (k - 1 - m),
        calls := C.map (fun c => if c.getD t false == insRef then "0" else "1") } := rfl

/-! ### Stage 1: the graph -/

/-- **T18K_graph_edges**: every edge joins the node numbers of two nodes related by `RE` (the next window of a
sample): forwards on the samples' strand, backwards on the other strand; all these are edges -/
theorem T18K_graph_edges (W k : Nat) (F : List UInt8) (B : List (Nat × Nat)) (C : List (List Bool))
    (names : List String) (a : Arr) (hk : ValidK k) (hw : WidthOk W k) (hpl : DPlanted k F B C)
    (ha : IsArrOf a k names (dsamples F B C)) (X Y : Nat) :
    Edge (buildGraph W a).1 X Y ↔ ∃ n n', RE k F.length B (shf k F B) n n' ∧
      ((X = nF k F B n ∧ Y = nF k F B n') ∨ (X = nR k F B n' ∧ Y = nR k F B n)) :=
  (dfam_of_planted hpl).edge_iff ha hk hw X Y

/-- the node numbers in the vocabulary of the program: `encodeKmer` of the letters -/
theorem T18K_node_numbers (W k : Nat) (F : List UInt8) (B : List (Nat × Nat)) (C : List (List Bool))
    (hpl : DPlanted k F B C) (x : Nat) (hW : 2 * k ≤ W) (hx : x + (k - 1) ≤ F.length) :
    nF k F B (.c x) = encodeKmer W (win F x (k - 1)) ∧ nR k F B (.c x) = encodeKmer W (rcSeq (win F x (k - 1))) := by
  have hl : (win F x (k - 1)).length = k - 1 := win_length hx
  have hbase : AllBase (win F x (k - 1)) := (dfam_of_planted hpl).base.win _ _
  constructor
  · rw [enc_eq W _ (by rw [hl]; omega), ← lets_range' F x (k - 1) hx]
    rfl
  · rw [enc_eq W _ (by rw [rcSeq_length, hl]; omega), cds_rcSeq hbase, ← lets_range' F x (k - 1) hx]
    rfl

/-- **T18K_nodes**: the node numbers are injective on the valid nodes of each strand and the strands share no
node -/
theorem T18K_nodes (k : Nat) (F : List UInt8) (B : List (Nat × Nat)) (C : List (List Bool))
    (hpl : DPlanted k F B C) (n n' : Nd) (hv : n.valid k F.length B (shf k F B))
    (hv' : n'.valid k F.length B (shf k F B)) :
    (nF k F B n = nF k F B n' → n = n') ∧ (nR k F B n = nR k F B n' → n = n') ∧ nF k F B n ≠ nR k F B n' :=
  ⟨(dfam_of_planted hpl).nuF_inj hv hv', (dfam_of_planted hpl).nuR_inj hv hv',
    (dfam_of_planted hpl).nuF_ne_nuR hv hv'⟩

/-- **T18K_branching**: a node with two or more successors is the entry node of a block (samples' strand: the
`(k-1)`-mer ending at the rightmost placement, first column `eX`) or the node after a block (other strand); the
entry node of block `t` has exactly two successors: the next contiguous window (through the block) and the
window that jumps over the block -/
theorem T18K_branching (W k : Nat) (F : List UInt8) (B : List (Nat × Nat)) (C : List (List Bool))
    (names : List String) (a : Arr) (hk : ValidK k) (hw : WidthOk W k) (hpl : DPlanted k F B C)
    (ha : IsArrOf a k names (dsamples F B C)) :
    (∀ X, 2 ≤ (succs (buildGraph W a).1 X).length →
      ∃ t, t < B.length ∧ (X = nF k F B (.c (eX k F B t)) ∨ X = nR k F B (.c (bE B t)))) ∧
    (∀ t, t < B.length →
      (succs (buildGraph W a).1 (nF k F B (.c (eX k F B t))) =
          [nF k F B (.c (eX k F B t + 1)), nF k F B (.g t (eX k F B t + 1))] ∨
       succs (buildGraph W a).1 (nF k F B (.c (eX k F B t))) =
          [nF k F B (.g t (eX k F B t + 1)), nF k F B (.c (eX k F B t + 1))])) := by
  have cx := ctx_of hk hw hpl ha
  refine ⟨fun X h2 => cx.two_succs h2, ?_⟩
  intro t ht
  have := cx.ensucc_fwd ht
  rw [(cx.heads ht).1, (cx.heads ht).2.1] at this
  exact this

/-- **T18K_bubbles**: the graph is a graph of bubbles — for every block the bubble of the samples' strand
(`fwdBub`: entry = the entry node of the block, exit = the node after it, arm `a` through the block, arm `b` over
it) and its twin on the other strand (`revBub`); the arms are chains of single-successor nodes that reconverge
at the exit node (`BG`), the exits are the reverse complements of the entries of the twins (`Twins`), the arms
differ in length and the shorter one spells at most `2 (k-1)` letters (`ArmLen`), behind an exit node the next
exit node is more than `k` nodes away (`Far`); the arm over a block of shift `m` has `k - 2 - m` inner nodes, the
other one `|block|` more -/
theorem T18K_bubbles (W k : Nat) (F : List UInt8) (B : List (Nat × Nat)) (C : List (List Bool))
    (names : List String) (a : Arr) (hk : ValidK k) (hw : WidthOk W k) (hpl : DPlanted k F B C)
    (ha : IsArrOf a k names (dsamples F B C)) :
    BG (buildGraph W a).1 (allBubs k F B) ∧ Twins W (k - 1) (allBubs k F B) (Ctx.pairsOf k F B) ∧
    ArmLen (k - 1) (allBubs k F B) ∧ Far (k - 1) (buildGraph W a).1 (allBubs k F B) ∧
    ∀ t, t < B.length → (fwdBub k F B t).b.length = k - 2 - shf k F B t ∧
      (fwdBub k F B t).a.length = (B.getD t (0, 0)).2 + (k - 2 - shf k F B t) := by
  have cx := ctx_of hk hw hpl ha
  refine ⟨cx.bg, cx.twins, cx.armLen, cx.far, ?_⟩
  intro t ht
  obtain ⟨h1, h2, _⟩ := cx.lens ht
  have hb := cx.h.bt ht
  have he := cx.ex_bounds ht
  rw [h1, h2]
  unfold bS bE at *
  omega

/-- **T18K_entries**: `identify_good_kmers` succeeds; the entry nodes are distinct: the entry node of every block
and, on the other strand, the node after it; the exit nodes are the node after every block and, on the other
strand, its entry node -/
theorem T18K_entries (W k : Nat) (F : List UInt8) (B : List (Nat × Nat)) (C : List (List Bool))
    (names : List String) (a : Arr) (hk : ValidK k) (hw : WidthOk W k) (hpl : DPlanted k F B C)
    (ha : IsArrOf a k names (dsamples F B C)) :
    ∃ starts ends, identifyGoodKmers W (k - 1) (buildGraph W a).1 (buildGraph W a).2 = some (starts, ends) ∧
      starts.Nodup ∧
      (∀ x, x ∈ starts ↔ ∃ t, t < B.length ∧ (x = nF k F B (.c (eX k F B t)) ∨ x = nR k F B (.c (bE B t)))) ∧
      (∀ x, x ∈ ends ↔ ∃ t, t < B.length ∧ (x = nF k F B (.c (bE B t)) ∨ x = nR k F B (.c (eX k F B t)))) := by
  have cx := ctx_of hk hw hpl ha
  obtain ⟨starts, ends, hid, ex⟩ := cx.bg.identify cx.hcol cx.twins.htw cx.twins.htw'
  refine ⟨starts, ends, hid, ex.snd, ?_, ?_⟩
  · intro x
    rw [ex.st]
    constructor
    · rintro ⟨β, hβ, rfl⟩
      obtain ⟨t, ht, rfl | rfl⟩ := (mem_allBubs k F B β).mp hβ
      · exact ⟨t, ht, Or.inl rfl⟩
      · exact ⟨t, ht, Or.inr rfl⟩
    · rintro ⟨t, ht, rfl | rfl⟩
      · exact ⟨fwdBub k F B t, (mem_allBubs k F B _).mpr ⟨t, ht, Or.inl rfl⟩, rfl⟩
      · exact ⟨revBub k F B t, (mem_allBubs k F B _).mpr ⟨t, ht, Or.inr rfl⟩, rfl⟩
  · intro x
    rw [ex.en]
    constructor
    · rintro ⟨β, hβ, rfl⟩
      obtain ⟨t, ht, rfl | rfl⟩ := (mem_allBubs k F B β).mp hβ
      · exact ⟨t, ht, Or.inl rfl⟩
      · exact ⟨t, ht, Or.inr rfl⟩
    · rintro ⟨t, ht, rfl | rfl⟩
      · exact ⟨fwdBub k F B t, (mem_allBubs k F B _).mpr ⟨t, ht, Or.inl rfl⟩, rfl⟩
      · exact ⟨revBub k F B t, (mem_allBubs k F B _).mpr ⟨t, ht, Or.inr rfl⟩, rfl⟩

/-- **T18K_groups**: for the entry and exit nodes of `identify_good_kmers` and every depth: the indel groups are
exactly the bubbles (key = entry and exit node, the two variants of the two paths, in one of the two orders),
and every SNP group starts at an entry node -/
theorem T18K_groups (W k : Nat) (F : List UInt8) (B : List (Nat × Nat)) (C : List (List Bool))
    (names : List String) (a : Arr) (hk : ValidK k) (hw : WidthOk W k) (hpl : DPlanted k F B C)
    (ha : IsArrOf a k names (dsamples F B C)) (starts ends : List Nat)
    (hid : identifyGoodKmers W (k - 1) (buildGraph W a).1 (buildGraph W a).2 = some (starts, ends))
    (maxDepth : Nat) :
    (∀ kv ∈ (buildVariantGroups W (k - 1) (buildGraph W a).1 starts ends maxDepth).indelGroups,
      ∃ β ∈ allBubs k F B, ∃ o, kv = bubGroup W (k - 1) starts ends β o) ∧
    (∀ β ∈ allBubs k F B, ∃ o, bubGroup W (k - 1) starts ends β o ∈
      (buildVariantGroups W (k - 1) (buildGraph W a).1 starts ends maxDepth).indelGroups) ∧
    (∀ kv ∈ (buildVariantGroups W (k - 1) (buildGraph W a).1 starts ends maxDepth).snpGroups, kv.1.1 ∈ starts) := by
  have cx := ctx_of hk hw hpl ha
  obtain ⟨starts', ends', hid', ex⟩ := cx.bg.identify cx.hcol cx.twins.htw cx.twins.htw'
  rw [hid] at hid'
  simp only [Option.some.injEq, Prod.mk.injEq] at hid'
  obtain ⟨rfl, rfl⟩ := hid'
  exact cx.bg.groups ex cx.armLen cx.far W maxDepth

/-- **T18K_sequences**: the sequences of the two paths of the bubble of block `t` (shift `m`): `E ++ I ++ X`
(through the block) and `E ++ X` (over it) with `E` = the `(k-1)`-mer ending at the rightmost placement, `I` = the
block read there, `X` = the `k-1-m` letters behind it — the two paths reconverge and their lengths differ by the
length of the block; on the other strand `E'`, `I'`, `X'` = the `k-1-m` letters before the leftmost placement,
the block there, the `(k-1)`-mer behind it, reverse complemented -/
theorem T18K_sequences (W k : Nat) (F : List UInt8) (B : List (Nat × Nat)) (C : List (List Bool))
    (names : List String) (a : Arr) (hk : ValidK k) (hw : WidthOk W k) (hpl : DPlanted k F B C)
    (ha : IsArrOf a k names (dsamples F B C)) (starts ends : List Nat) (t : Nat) (ht : t < B.length) :
    (buildVariant W (k - 1) starts ends (fwdBub k F B t).en (fwdBub k F B t).pa).1 =
      lE k F B t ++ lI k F B t ++ lX k F B t ∧
    (buildVariant W (k - 1) starts ends (fwdBub k F B t).en (fwdBub k F B t).pb).1 = lE k F B t ++ lX k F B t ∧
    (buildVariant W (k - 1) starts ends (revBub k F B t).en (revBub k F B t).pa).1 =
      rcSeq (lX2 k F B t) ++ rcSeq (lI2 F B t) ++ rcSeq (lE2 k F B t) ∧
    (buildVariant W (k - 1) starts ends (revBub k F B t).en (revBub k F B t).pb).1 =
      rcSeq (lX2 k F B t) ++ rcSeq (lE2 k F B t) ∧
    (lE k F B t).length = k - 1 ∧ (lI k F B t).length = (B.getD t (0, 0)).2 ∧
      (lX k F B t).length = k - 1 - shf k F B t := by
  have cx := ctx_of hk hw hpl ha
  refine ⟨cx.seq_fa starts ends ht, cx.seq_fb starts ends ht, cx.seq_ra starts ends ht, cx.seq_rb starts ends ht,
    Ctx.lE_len k F B t, ?_, Ctx.lX_len k F B t⟩
  unfold lI lets bS bE
  simp

/-! ### Stage 2: colours and records -/

/-- **T18K_colours**: the first k-mer of the path through block `t` (`E` and the first letter of the block at its
rightmost placement) is carried by exactly the samples that keep the block, the first k-mer of the path over it
(`E` and the first letter behind the block there) by exactly those that delete it -/
theorem T18K_colours (W k : Nat) (F : List UInt8) (B : List (Nat × Nat)) (C : List (List Bool))
    (names : List String) (a : Arr) (hk : ValidK k) (hw : WidthOk W k) (hpl : DPlanted k F B C)
    (ha : IsArrOf a k names (dsamples F B C)) (t : Nat) (ht : t < B.length) :
    Assoc.lookup (buildGraph W a).2 (encodeKmer W ((lE k F B t ++ lI k F B t ++ lX k F B t).take (k - 1 + 1))) =
      some (LOE.keepIdx C t) ∧
    Assoc.lookup (buildGraph W a).2 (encodeKmer W ((lE k F B t ++ lX k F B t).take (k - 1 + 1))) =
      some (LOE.delIdx C t) ∧
    (∀ i, i ∈ LOE.keepIdx C t ↔ ∃ c, C[i]? = some c ∧ c.getD t false = true) ∧
    (∀ i, i ∈ LOE.delIdx C t ↔ ∃ c, C[i]? = some c ∧ c.getD t false = false) := by
  have cx := ctx_of hk hw hpl ha
  exact ⟨cx.look_fa ht, cx.look_fb ht, LOE.mem_keepIdx C t, LOE.mem_delIdx C t⟩

/-- **T18K_record**: `process_indels` computes, for the two variants of the bubble of block `t` in either order,
the expected record of the samples' strand, and for its twin the expected record of the other strand -/
theorem T18K_record (W k : Nat) (F : List UInt8) (B : List (Nat × Nat)) (C : List (List Bool))
    (names : List String) (a : Arr) (hk : ValidK k) (hw : WidthOk W k) (hpl : DPlanted k F B C)
    (ha : IsArrOf a k names (dsamples F B C)) (mNum mDen : Nat) (starts ends : List Nat) (t : Nat)
    (ht : t < B.length) (o : Bool) :
    LOP.recOf W (k - 1) C.length mNum mDen (buildGraph W a).2 (bubVs W (k - 1) starts ends (fwdBub k F B t) o) =
      some (some (dexpRec k F B C t false)) ∧
    LOP.recOf W (k - 1) C.length mNum mDen (buildGraph W a).2 (bubVs W (k - 1) starts ends (revBub k F B t) o) =
      some (some (dexpRec k F B C t true)) := by
  have cx := ctx_of hk hw hpl ha
  have h1 := cx.recOf_fwd mNum mDen starts ends ht o
  have h2 := cx.recOf_rev mNum mDen starts ends ht o
  rw [cx.recFw_eq ht] at h1
  rw [cx.recRv_eq ht] at h2
  exact ⟨h1, h2⟩

/-! ### examples: the hypotheses are satisfiable, the theorems apply -/

/-- a family without shift: k = 5, one block of one column at 20 (the letter A), kept by samples 0 and 2, deleted
by sample 1 -/
def exF : List UInt8 := bs "CACCAACGCTTACGGGACACATCGCAGGTTTCCGCCCTACCC"
def exB : List (Nat × Nat) := [(20, 1)]
def exC : List (List Bool) := [[true], [false], [true]]

theorem ex_planted : DPlanted 5 exF exB exC := by decide +kernel
theorem ex_k : ValidK 5 := by unfold ValidK; decide
theorem ex_w : WidthOk 64 5 := by unfold WidthOk; decide

/-- the main theorem on that family: depth 0, no missing data allowed, table order -/
example : ∃ recs, lo 64 5 3 0 1 2 0 (arrOf 64 5 ["s0", "s1", "s2"] (dsamples exF exB exC)) = some ([], recs) ∧
    RecsMatch 5 exF exB exC recs :=
  T18_complete_table 64 5 exF exB exC ["s0", "s1", "s2"] ex_k ex_w ex_planted 0 1 2 0

/-- the same with depth 4, threshold 1/2 and the 128-bit width -/
example : ∃ recs, lo 128 5 3 1 2 0 4 (arrOf 128 5 ["s0", "s1", "s2"] (dsamples exF exB exC)) = some ([], recs) ∧
    RecsMatch 5 exF exB exC recs :=
  T18_complete_table 128 5 exF exB exC ["s0", "s1", "s2"] ex_k (by unfold WidthOk; decide) ex_planted 1 2 0 4

-- what the model computes on that family: the record of the samples' strand (ACAC / A / TCGC, the block is the
-- majority allele, so REF = A and ALT = -)
#guard lo 64 5 3 0 1 2 0 (arrOf 64 5 ["s0", "s1", "s2"] (dsamples exF exB exC)) =
  some ([], [{ ref := bs "A", alt := bs "-", before := bs "ACAC", after := bs "TCGC", calls := ["0", "1", "0"] }])
example : dexpRec 5 exF exB exC 0 false =
    { ref := bs "A", alt := bs "-", before := bs "ACAC", after := bs "TCGC", calls := ["0", "1", "0"] } := by decide +kernel
example : dexpRec 5 exF exB exC 0 true =
    { ref := bs "T", alt := bs "-", before := bs "GCGA", after := bs "GTGT", calls := ["0", "1", "0"] } := by decide +kernel

/-- the rows of the table in reverse order: the theorem applies as well -/
example : ∃ recs, lo 64 5 3 0 1 2 1 (arrOfRows 64 5 ["s0", "s1", "s2"]
      (tableOf 5 ["s0", "s1", "s2"] (dsamples exF exB exC)).rows.reverse) = some ([], recs) ∧
    RecsMatch 5 exF exB exC recs :=
  T18_complete 64 5 exF exB exC ["s0", "s1", "s2"] _ ex_k ex_w ex_planted
    (isArrOf_rows 64 5 _ _ _ (List.reverse_perm _)) 0 1 2 1

/-- Stage 1 / 2 on that family -/
example := T18K_bubbles 64 5 exF exB exC ["s0", "s1", "s2"] _ ex_k ex_w ex_planted (isArrOf_arrOf 64 5 _ _)
example := T18K_entries 64 5 exF exB exC ["s0", "s1", "s2"] _ ex_k ex_w ex_planted (isArrOf_arrOf 64 5 _ _)
example := T18K_record 64 5 exF exB exC ["s0", "s1", "s2"] _ ex_k ex_w ex_planted (isArrOf_arrOf 64 5 _ _) 0 1 [] [] 0
  (by decide) false

/-- a family WITH a shift (PHENOMENON (i)): k = 5, the block is the first T of ...CTA[T]TGAG..., it can slide by
m = 1; kept by samples 0 and 2.  The strict uniqueness `dalignedB` fails, the hypotheses of the theorem hold -/
def shF : List UInt8 := bs "GAGGCGTCCCGCTTATCCTATTGAGTGAAGGGTGGGGCTACGA"
def shB : List (Nat × Nat) := [(20, 1)]
def shC : List (List Bool) := [[true], [false], [true], [false]]

theorem sh_planted : DPlanted 5 shF shB shC := by decide +kernel
example : shOf 5 shF (20, 1) = 1 := by decide +kernel
example : dalignedB 4 shF shB shC = false := by decide +kernel

/-- the theorem on the family with a shift -/
example : ∃ recs, lo 64 5 4 0 1 2 1 (arrOf 64 5 ["s0", "s1", "s2", "s3"] (dsamples shF shB shC)) = some ([], recs) ∧
    RecsMatch 5 shF shB shC recs :=
  T18_complete_table 64 5 shF shB shC ["s0", "s1", "s2", "s3"] ex_k ex_w sh_planted 0 1 2 1

-- the record: `before` = CTAT ends at the rightmost placement, the insert is the second T, `after` = GAG has
-- k-1-m = 3 letters
#guard lo 64 5 4 0 1 2 1 (arrOf 64 5 ["s0", "s1", "s2", "s3"] (dsamples shF shB shC)) =
  some ([], [{ ref := bs "-", alt := bs "T", before := bs "CTAT", after := bs "GAG", calls := ["1", "0", "1", "0"] }])
example : dexpRec 5 shF shB shC 0 false =
    { ref := bs "-", alt := bs "T", before := bs "CTAT", after := bs "GAG", calls := ["1", "0", "1", "0"] } := by
  decide +kernel

/-! ### Stage 0: executable claims -/

-- the literal families of the deletion model (`dfams`: 39 without shift, k = 5, 7, 9, 11; 2-5 samples; 1-3 blocks
-- of 1 .. k-1 columns; `sfams`: 22 with shifts 1 .. k-3) satisfy the hypotheses; the claim holds for depths 0, 1,
-- 4 and several thresholds (all 9 settings for k ≤ 9); the intermediate statements (edges, entry nodes, groups) hold
#guard dfams.length = 39 ∧ sfams.length = 22 ∧ sfamsMax.length = 4
#guard (dfams ++ sfams).all (fun f => dplantedB f.k f.F f.B f.C)
#guard dfams.all (fun f => dalignedB (f.k - 1) f.F f.B f.C) && sfams.all (fun f => !dalignedB (f.k - 1) f.F f.B f.C)
#guard (dfams.take 28).all (fun f => settings.all (fun s => dcompleteOn 64 f.k f.F f.B f.C (f.arr 64) s.1 s.2.1 s.2.2.1 s.2.2.2))
#guard (dfams.drop 28).all (fun f => [(0, 1, 2, 0), (1, 2, 0, 4)].all
  (fun (s : Nat × Nat × Nat × Nat) => dcompleteOn 64 f.k f.F f.B f.C (f.arr 64) s.1 s.2.1 s.2.2.1 s.2.2.2))
#guard sfams.all (fun f => [(0, 1, 2, 0), (1, 10, 0, 1), (1, 2, 2, 4)].all
  (fun (s : Nat × Nat × Nat × Nat) => dcompleteOn 64 f.k f.F f.B f.C (f.arr 64) s.1 s.2.1 s.2.2.1 s.2.2.2))
#guard (dfams.take 26 ++ sfams).all (fun f => checkDEdges 64 f && checkDEntries 64 f && checkDGroups 64 f 0 && checkDGroups 64 f 1)

-- the generator's insertion model and the deletion model give the same samples
def exShift1 : IFam := ⟨5, bs "GAGGCGTCCCGCTTATCCTATGAGTGAAGGGTGGGGCTACGA", [(20, bs "T")], [[true], [false], [true], [false]]⟩
#guard exShift1.toD == ⟨5, shF, shB, shC⟩ && exShift1.S == dsamples shF shB shC && shiftOf exShift1.A (20, bs "T") == 1

/-- PHENOMENON (ii), shift k-2 (k = 5, one more C in the run CCC): the short path is entry → exit directly; the
indel is not reported at any depth.  `sfamsMax`: the hypotheses hold with the bound `k-2` on the shifts, not with
`k-3`, and exactly the blocks of shift `k-2` are missing (`dcompleteOnS`) -/
def exShiftMax : IFam := ⟨5, bs "CTGGACGCCTAAAAGGTTATCCCGTTCGCAAGCAGATGCCC", [(20, bs "C")], [[true], [false]]⟩
#guard shiftOf exShiftMax.A (20, bs "C") = 3
#guard basicB exShiftMax && weakUniqueB 4 exShiftMax.S
#guard [0, 1, 4].all (fun d => lo 64 5 2 0 1 2 d (exShiftMax.arr 64) = some ([], []))
#guard sfamsMax.all (fun f => dplantedSB f.k (f.k - 2) f.F f.B f.C && !dplantedB f.k f.F f.B f.C)
#guard sfamsMax.all (fun f => [(0, 1, 2, 0), (1, 2, 2, 4)].all
  (fun (s : Nat × Nat × Nat × Nat) => dcompleteOnS 64 f.k f.F f.B f.C (f.arr 64) s.1 s.2.1 s.2.2.1 s.2.2.2))

/-! ### axioms -/

#print axioms T18_complete
#print axioms T18_complete_table
#print axioms T18_complete_once
#print axioms T18_complete_check
#print axioms T18_complete_sound
#print axioms T18K_occurrence
#print axioms T18K_graph_edges
#print axioms T18K_nodes
#print axioms T18K_branching
#print axioms T18K_bubbles
#print axioms T18K_entries
#print axioms T18K_groups
#print axioms T18K_sequences
#print axioms T18K_colours
#print axioms T18K_record

end SkaModel.Props.C18K
