/-
C06 — property theorems (see DESIGN.md §7 C06). First theorems; the refinement
theorems are being added.
-/
import SkaModel.Spec.Abs

namespace SkaModel.Props.C06

open SkaModel SkaModel.Spec

/-- masking happens after the row selection and does not change which rows are kept -/
theorem T06_mask_keeps_rows (a : Arr) (t : Nat) (famb : Bool) (ft : FilterType) (gaps upd : Bool) :
    (a.filter t famb ft true gaps upd).2 = (a.filter t famb ft false gaps upd).2 := by
  simp [Arr.filter]

end SkaModel.Props.C06
