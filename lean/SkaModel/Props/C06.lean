/-
C06 — `ska align` column filtering: refinement of `Arr.filter` / `Modes.align`
to the plain-table specification `Table.passes` / `Table.alignColumns`.

Finding recorded here: `keepRow = sitePasses` is FALSE on byte 13 (CR), because the
implementation tests `(b ||| 0x20) == 45`, which holds for `b = 13` as well as `b = 45`
(see `keepRow_ne_sitePasses_CR`). The theorems are therefore stated
  * unconditionally with the model-level predicate `passesI` (`…_I` theorems), and
  * against the specification under `CellsGe45` — the invariant `MergeSkaArray::new`
    establishes through `max b GAP` (`ofDict_cellsGe45`).
-/
import SkaModel.Spec.Abs
import SkaModel.Lemmas.Bytes
import SkaModel.Lemmas.Filter

namespace SkaModel.Props.C06

open SkaModel SkaModel.Spec SkaModel.Lemmas.Filter

/-- masking happens after the row selection and does not change which rows are kept -/
theorem T06_mask_keeps_rows (a : Arr) (t : Nat) (famb : Bool) (ft : FilterType) (gaps upd : Bool) :
    (a.filter t famb ft true gaps upd).2 = (a.filter t famb ft false gaps upd).2 := by
  simp [Arr.filter]

/-! ## Hypotheses -/

/-- every stored cell is `≥ '-'` (45): what `MergeSkaArray::new` establishes via `max b GAP` -/
def CellsGe45 (rows : List (List UInt8)) : Prop := ∀ row ∈ rows, ∀ b ∈ row, 45 ≤ b

instance (rows : List (List UInt8)) : Decidable (CellsGe45 rows) := by
  unfold CellsGe45; infer_instance

theorem ge45_max : ∀ c : UInt8, 45 ≤ max c GAP :=
  forall_uint8 (by decide +kernel)

/-- `Arr.ofDict` (= `MergeSkaArray::new`) always yields cells `≥ 45` -/
theorem ofDict_cellsGe45 (W : Nat) (d : MDict) : CellsGe45 (Arr.ofDict W d).variants := by
  intro row hrow b hb
  simp only [Arr.ofDict, List.mem_map] at hrow
  obtain ⟨kv, _, rfl⟩ := hrow
  simp only [List.mem_map] at hb
  obtain ⟨c, _, rfl⟩ := hb
  exact ge45_max c

/-! ## Byte facts -/

/-- the score of `keepRow .noAmbigOrConst` -/
def score (gaps : Bool) (b : UInt8) : Nat :=
  let l := b ||| 0x20
  if l == 97 || l == 99 || l == 103 || l == 116 || l == 117 then 1
  else if l == 45 then (if gaps then 0 else 1)
  else 0

theorem keepRow_noAmbigOrConst (gaps : Bool) (row : List UInt8) :
    Arr.keepRow .noAmbigOrConst gaps row = decide (((Arr.distinct row).map (score gaps)).sum > 1) := rfl

theorem score_true : ∀ b : UInt8,
    score true b = if (Table.isACGTU b || (b == gap && !true)) then 1 else 0 :=
  forall_uint8 (by decide +kernel)

theorem score_false : ∀ b : UInt8, b ≠ 13 →
    score false b = if (Table.isACGTU b || (b == gap && !false)) then 1 else 0 :=
  forall_uint8 (by decide +kernel)

theorem acgtu_ne_gap : ∀ b : UInt8, Table.isACGTU b = true → Table.present b = true :=
  forall_uint8 (by decide +kernel)

theorem ne13_of_ge45 : ∀ b : UInt8, 45 ≤ b → b ≠ 13 :=
  forall_uint8 (by decide +kernel)

/-! ## 1. `keepRow` against `sitePasses` -/

/-- COUNTEREXAMPLE to the unconditional statement: byte 13 is scored like `-` by the model -/
theorem keepRow_ne_sitePasses_CR :
    Arr.keepRow .noAmbigOrConst false [65, 13] = true ∧
    Table.sitePasses (toSite .noAmbigOrConst) false [65, 13] = false := by decide

/-- weakest form: the only disagreement is `noAmbigOrConst`, gaps counted, a cell equal to 13 -/
theorem keepRow_eq_sitePasses_of_noCR (ft : FilterType) (gaps : Bool) (row : List UInt8)
    (h : ft ≠ .noAmbigOrConst ∨ gaps = true ∨ ∀ b ∈ row, b ≠ 13) :
    Arr.keepRow ft gaps row = Table.sitePasses (toSite ft) gaps row := by
  cases ft with
  | noFilter => rfl
  | noConst =>
    show decide (_ > 1) = decide (_ ≥ 2)
    rfl
  | noAmbig => rfl
  | noAmbigOrConst =>
    rw [keepRow_noAmbigOrConst]
    show decide (_ > 1) = decide (_ ≥ 2)
    have key : ((Arr.distinct row).map (score gaps)).sum
        = ((Table.distinctSyms row).filter (fun b => Table.isACGTU b || (b == gap && !gaps))).length := by
      cases gaps with
      | true =>
        exact sum_map_indicator _ _ score_true _
      | false =>
        have h13 : ∀ b ∈ row, b ≠ 13 := by
          rcases h with h | h | h
          · exact absurd rfl h
          · exact absurd h (by decide)
          · exact h
        have hm : (Arr.distinct row).map (score false)
            = (Arr.distinct row).map (fun b => if (Table.isACGTU b || (b == gap && !false)) then 1 else 0) := by
          apply List.map_congr_left
          intro b hb
          exact score_false b (h13 b (List.mem_eraseDups.mp hb))
        rw [hm]
        exact sum_map_indicator _ _ (fun _ => rfl) _
    rw [key]
    rfl

/-- deliverable 1, under the stored-cell invariant -/
theorem keepRow_eq_sitePasses (ft : FilterType) (gaps : Bool) (row : List UInt8)
    (h : ∀ b ∈ row, 45 ≤ b) :
    Arr.keepRow ft gaps row = Table.sitePasses (toSite ft) gaps row :=
  keepRow_eq_sitePasses_of_noCR ft gaps row (Or.inr (Or.inr (fun b hb => ne13_of_ge45 b (h b hb))))

theorem cellCount_eq_presentCount (famb : Bool) (row : List UInt8) :
    Arr.cellCount famb row = Table.presentCount famb row := rfl

/-! ## 2. `Arr.filter` -/

/-- the row test the model applies: present in at least `max 1 t` samples, and `keepRow` -/
def passesI (t : Nat) (famb : Bool) (ft : FilterType) (gaps : Bool) (row : List UInt8) : Bool :=
  decide (Table.presentCount famb row ≥ max 1 t) && Arr.keepRow ft gaps row

theorem count_pred (n t : Nat) : (decide (n ≥ t) && decide (n > 0)) = decide (n ≥ max 1 t) := by
  rw [Bool.eq_iff_iff]
  simp only [Bool.and_eq_true, decide_eq_true_eq]
  omega

/-- `count > 0 ∧ count ≥ t ∧ keepRow` is `passesI` -/
theorem pred_eq (t : Nat) (famb : Bool) (ft : FilterType) (gaps : Bool) (row : List UInt8) :
    ((decide (Arr.cellCount famb row ≥ t) && Arr.keepRow ft gaps row) && decide (Arr.cellCount famb row > 0))
      = passesI t famb ft gaps row := by
  unfold passesI
  rw [cellCount_eq_presentCount, ← count_pred]
  cases Arr.keepRow ft gaps row <;> simp

theorem passesI_eq_passes (t : Nat) (famb : Bool) (ft : FilterType) (gaps : Bool) (row : List UInt8)
    (h : ∀ b ∈ row, 45 ≤ b) :
    passesI t famb ft gaps row = Table.passes t famb (toSite ft) gaps row := by
  unfold passesI Table.passes
  rw [keepRow_eq_sitePasses ft gaps row h]

/-- rows (cells, k-mer) the model keeps, in the order `filter` zips them -/
def keptI (a : Arr) (t : Nat) (famb : Bool) (ft : FilterType) (gaps : Bool) : List (List UInt8 × Nat) :=
  (a.variants.zip a.kmers).filter (fun rk => passesI t famb ft gaps rk.1)

/-- rows surviving `update_counts` -/
def kept0 (a : Arr) (famb : Bool) : List (List UInt8 × Nat) :=
  (a.variants.zip a.kmers).filter (fun rk => Arr.cellCount famb rk.1 > 0)

theorem kept_filter (a : Arr) (t : Nat) (famb : Bool) (ft : FilterType) (gaps : Bool) :
    List.filter (fun x => ((fun (crk : (Nat × List UInt8) × Nat) =>
        decide (crk.fst.fst ≥ t) && Arr.keepRow ft gaps crk.fst.snd) ∘
          fun (x : List UInt8 × Nat) => ((Arr.cellCount famb x.fst, x.fst), x.snd)) x &&
        decide (Arr.cellCount famb x.fst > 0)) (a.variants.zip a.kmers) = keptI a t famb ft gaps := by
  unfold keptI
  apply List.filter_congr
  intro x _
  exact pred_eq t famb ft gaps x.1

theorem filter_names (a : Arr) (t : Nat) (famb : Bool) (ft : FilterType) (mask gaps upd : Bool) :
    (a.filter t famb ft mask gaps upd).1.names = a.names := rfl

theorem filter_variants (a : Arr) (t : Nat) (famb : Bool) (ft : FilterType) (mask gaps upd : Bool) :
    (a.filter t famb ft mask gaps upd).1.variants
      = (keptI a t famb ft gaps).map (fun rk => Table.maskRow mask rk.1) := by
  simp only [Arr.filter, Arr.updateCounts, List.zip_map', List.filter_map, List.map_map,
    List.filter_filter]
  rw [kept_filter]
  cases mask <;> simp only [Table.maskRow, if_true, if_false, Bool.false_eq_true] <;> rfl

theorem filter_counts (a : Arr) (t : Nat) (famb : Bool) (ft : FilterType) (mask gaps upd : Bool) :
    (a.filter t famb ft mask gaps upd).1.counts
      = (keptI a t famb ft gaps).map (fun rk => Arr.cellCount famb rk.1) := by
  simp only [Arr.filter, Arr.updateCounts, List.zip_map', List.filter_map, List.map_map,
    List.filter_filter]
  rw [kept_filter]
  rfl

theorem filter_kmers_upd (a : Arr) (t : Nat) (famb : Bool) (ft : FilterType) (mask gaps : Bool) :
    (a.filter t famb ft mask gaps true).1.kmers = (keptI a t famb ft gaps).map (·.2) := by
  simp only [Arr.filter, Arr.updateCounts, List.zip_map', List.filter_map, List.map_map,
    List.filter_filter]
  rw [kept_filter]
  rfl

/-- without `update_kmers` the k-mer list is the one `update_counts` left -/
theorem filter_kmers_noupd (a : Arr) (t : Nat) (famb : Bool) (ft : FilterType) (mask gaps : Bool) :
    (a.filter t famb ft mask gaps false).1.kmers = (kept0 a famb).map (·.2) := by
  simp only [Arr.filter, Arr.updateCounts]
  rfl

theorem filter_removed (a : Arr) (t : Nat) (famb : Bool) (ft : FilterType) (mask gaps upd : Bool) :
    (a.filter t famb ft mask gaps upd).2 = (kept0 a famb).length - (keptI a t famb ft gaps).length := by
  simp only [Arr.filter, Arr.updateCounts, List.zip_map', List.filter_map, List.map_map,
    List.filter_filter, List.length_map]
  rw [kept_filter]
  rfl

/-! ### In terms of the abstract table -/

/-- the passing rows of the table (model-level test) -/
def rowsI (a : Arr) (t : Nat) (famb : Bool) (ft : FilterType) (gaps : Bool) : List (Nat × List UInt8) :=
  a.abs.rows.filter (fun r => passesI t famb ft gaps r.2)

theorem keptI_eq (a : Arr) (t : Nat) (famb : Bool) (ft : FilterType) (gaps : Bool) :
    keptI a t famb ft gaps = (rowsI a t famb ft gaps).map Prod.swap := by
  unfold keptI rowsI Arr.abs
  rw [← zip_swap a.kmers a.variants, List.filter_map]
  rfl

theorem kept0_eq (a : Arr) (famb : Bool) :
    kept0 a famb = (a.abs.rows.filter (fun r => decide (Table.presentCount famb r.2 > 0))).map Prod.swap := by
  unfold kept0 Arr.abs
  rw [← zip_swap a.kmers a.variants, List.filter_map]
  rfl

theorem mem_rows_variants (a : Arr) (r : Nat × List UInt8) (h : r ∈ a.abs.rows) : r.2 ∈ a.variants := by
  unfold Arr.abs at h
  exact (List.of_mem_zip (a := r.1) (b := r.2) h).2

/-- spec-level passing rows coincide with the model-level ones under `CellsGe45` -/
theorem rowsI_eq_spec (a : Arr) (t : Nat) (famb : Bool) (ft : FilterType) (gaps : Bool)
    (hc : CellsGe45 a.variants) :
    rowsI a t famb ft gaps = a.abs.rows.filter (fun r => Table.passes t famb (toSite ft) gaps r.2) := by
  unfold rowsI
  apply List.filter_congr
  intro r hr
  exact passesI_eq_passes t famb ft gaps r.2 (hc r.2 (mem_rows_variants a r hr))

/-- model-level `alignColumns` (with `keepRow` for the site test) -/
def alignColumnsI (tb : Table) (t : Nat) (famb : Bool) (ft : FilterType) (mask gaps : Bool) : List (List UInt8) :=
  ((tb.rows.map (·.2)).filter (passesI t famb ft gaps)).map (Table.maskRow mask)

theorem alignColumnsI_eq_spec (a : Arr) (t : Nat) (famb : Bool) (ft : FilterType) (mask gaps : Bool)
    (hc : CellsGe45 a.variants) :
    alignColumnsI a.abs t famb ft mask gaps = a.abs.alignColumns t famb (toSite ft) mask gaps := by
  unfold alignColumnsI Table.alignColumns
  congr 1
  apply List.filter_congr
  intro row hrow
  obtain ⟨r, hr, rfl⟩ := List.mem_map.mp hrow
  exact passesI_eq_passes t famb ft gaps r.2 (hc r.2 (mem_rows_variants a r hr))

/-- with `lenV` the rows of the table are exactly the stored rows -/
theorem abs_rows_snd (a : Arr) (h : a.variants.length = a.kmers.length) :
    a.abs.rows.map (·.2) = a.variants := by
  unfold Arr.abs
  exact List.map_snd_zip (Nat.le_of_eq h)

theorem abs_rows_fst (a : Arr) (h : a.variants.length = a.kmers.length) :
    a.abs.rows.map (·.1) = a.kmers := by
  unfold Arr.abs
  exact List.map_fst_zip (Nat.le_of_eq h.symm)

/-- T06_filter (unconditional, model-level site test): with `update_kmers` the surviving
k-mers and masked rows are exactly the passing rows of the table, in order -/
theorem T06_filter_I (a : Arr) (t : Nat) (famb : Bool) (ft : FilterType) (mask gaps : Bool) :
    (a.filter t famb ft mask gaps true).1.kmers.zip (a.filter t famb ft mask gaps true).1.variants
      = (rowsI a t famb ft gaps).map (fun r => (r.1, Table.maskRow mask r.2)) := by
  rw [filter_kmers_upd, filter_variants, keptI_eq, List.map_map, List.map_map, List.zip_map']
  rfl

theorem T06_filter_variants_I (a : Arr) (t : Nat) (famb : Bool) (ft : FilterType) (mask gaps upd : Bool) :
    (a.filter t famb ft mask gaps upd).1.variants = alignColumnsI a.abs t famb ft mask gaps := by
  rw [filter_variants, keptI_eq, List.map_map]
  unfold alignColumnsI rowsI
  rw [List.filter_map, List.map_map]
  rfl

/-- exact removed count: rows that `update_counts` kept minus rows that pass.
(Rows with count 0 are dropped by `update_counts` and are NOT counted as removed.) -/
theorem T06_filter_removed_I (a : Arr) (t : Nat) (famb : Bool) (ft : FilterType) (mask gaps upd : Bool) :
    (a.filter t famb ft mask gaps upd).2
      = (a.abs.rows.filter (fun r => decide (Table.presentCount famb r.2 > 0))).length
        - (rowsI a t famb ft gaps).length := by
  rw [filter_removed, keptI_eq, kept0_eq, List.length_map, List.length_map]

/-- T06_filter: deliverable 2, against the specification -/
theorem T06_filter (a : Arr) (hc : CellsGe45 a.variants)
    (t : Nat) (famb : Bool) (ft : FilterType) (mask gaps : Bool) :
    (a.filter t famb ft mask gaps true).1.kmers.zip (a.filter t famb ft mask gaps true).1.variants
      = (a.abs.rows.filter (fun r => Table.passes t famb (toSite ft) gaps r.2)).map
          (fun r => (r.1, Table.maskRow mask r.2)) := by
  rw [T06_filter_I, rowsI_eq_spec a t famb ft gaps hc]

theorem T06_filter_variants (a : Arr) (hc : CellsGe45 a.variants)
    (t : Nat) (famb : Bool) (ft : FilterType) (mask gaps upd : Bool) :
    (a.filter t famb ft mask gaps upd).1.variants = a.abs.alignColumns t famb (toSite ft) mask gaps := by
  rw [T06_filter_variants_I, alignColumnsI_eq_spec a t famb ft mask gaps hc]

/-- the same with the table rows replaced by the stored rows (`lenV`) -/
theorem T06_filter_variants_stored (a : Arr) (hwf : a.WF) (hc : CellsGe45 a.variants)
    (t : Nat) (famb : Bool) (ft : FilterType) (mask gaps upd : Bool) :
    (a.filter t famb ft mask gaps upd).1.variants
      = (a.variants.filter (Table.passes t famb (toSite ft) gaps)).map (Table.maskRow mask) := by
  rw [T06_filter_variants a hc, Table.alignColumns, abs_rows_snd a hwf.lenV]

theorem T06_filter_removed (a : Arr) (hc : CellsGe45 a.variants)
    (t : Nat) (famb : Bool) (ft : FilterType) (mask gaps upd : Bool) :
    (a.filter t famb ft mask gaps upd).2
      = (a.abs.rows.filter (fun r => decide (Table.presentCount famb r.2 > 0))).length
        - (a.abs.rows.filter (fun r => Table.passes t famb (toSite ft) gaps r.2)).length := by
  rw [T06_filter_removed_I, rowsI_eq_spec a t famb ft gaps hc]

theorem presentCount_pos_of_present (row : List UInt8) (h : ∃ b ∈ row, b ≠ GAP) :
    Table.presentCount false row > 0 := by
  obtain ⟨b, hb, hne⟩ := h
  unfold Table.presentCount
  apply List.length_pos_of_mem (a := b)
  rw [List.mem_filter]
  refine ⟨hb, ?_⟩
  have : (b != gap) = true := bne_iff_ne.mpr hne
  simp [Table.present, this]

/-- removed = stored rows − passing rows, when every stored row is present somewhere
(`RowsPresent`) and ambiguity codes count as present (`famb = false`).
For `famb = true` this is FALSE in general: see `removed_counterexample`. -/
theorem T06_filter_removed_rowsPresent (a : Arr) (hwf : a.WF) (hp : a.RowsPresent)
    (hc : CellsGe45 a.variants) (t : Nat) (ft : FilterType) (mask gaps upd : Bool) :
    (a.filter t false ft mask gaps upd).2
      = a.kmers.length
        - (a.abs.rows.filter (fun r => Table.passes t false (toSite ft) gaps r.2)).length := by
  rw [T06_filter_removed a hc]
  have hall : a.abs.rows.filter (fun r => decide (Table.presentCount false r.2 > 0)) = a.abs.rows := by
    rw [List.filter_eq_self]
    intro r hr
    exact decide_eq_true (presentCount_pos_of_present r.2 (hp r.2 (mem_rows_variants a r hr)))
  rw [hall]
  have : a.abs.rows.length = a.kmers.length := by
    unfold Arr.abs
    rw [List.length_zip, hwf.lenV, Nat.min_self]
  rw [this]

/-! ### Stored counts and shape of the result -/

/-- the stored counts after `filter` are `cellCount famb` of the (unmasked) surviving rows -/
theorem T06_filter_counts_I (a : Arr) (t : Nat) (famb : Bool) (ft : FilterType) (mask gaps upd : Bool) :
    (a.filter t famb ft mask gaps upd).1.counts
      = ((a.abs.rows.map (·.2)).filter (passesI t famb ft gaps)).map (Arr.cellCount famb) := by
  rw [filter_counts, keptI_eq, List.map_map]
  unfold rowsI
  rw [List.filter_map, List.map_map]
  rfl

/-- … i.e. of the rows `filter` returns without masking -/
theorem T06_filter_counts_unmasked (a : Arr) (t : Nat) (famb : Bool) (ft : FilterType) (mask gaps upd : Bool) :
    (a.filter t famb ft mask gaps upd).1.counts
      = (a.filter t famb ft false gaps upd).1.variants.map (Arr.cellCount famb) := by
  rw [filter_counts, filter_variants, List.map_map]
  rfl

theorem T06_filter_counts (a : Arr) (hc : CellsGe45 a.variants)
    (t : Nat) (famb : Bool) (ft : FilterType) (mask gaps upd : Bool) :
    (a.filter t famb ft mask gaps upd).1.counts
      = ((a.abs.rows.map (·.2)).filter (Table.passes t famb (toSite ft) gaps)).map
          (Table.presentCount famb) := by
  rw [T06_filter_counts_I]
  congr 1
  apply List.filter_congr
  intro row hrow
  obtain ⟨r, hr, rfl⟩ := List.mem_map.mp hrow
  exact passesI_eq_passes t famb ft gaps r.2 (hc r.2 (mem_rows_variants a r hr))

/-- every stored count of the result is at least `max 1 t` -/
theorem T06_filter_counts_ge (a : Arr) (t : Nat) (famb : Bool) (ft : FilterType) (mask gaps upd : Bool) :
    ∀ c ∈ (a.filter t famb ft mask gaps upd).1.counts, c ≥ max 1 t := by
  intro c hcm
  rw [T06_filter_counts_I] at hcm
  obtain ⟨row, hrow, rfl⟩ := List.mem_map.mp hcm
  have := (List.mem_filter.mp hrow).2
  unfold passesI at this
  rw [Bool.and_eq_true] at this
  exact of_decide_eq_true this.1

theorem length_maskRow (mask : Bool) (row : List UInt8) : (Table.maskRow mask row).length = row.length := by
  unfold Table.maskRow
  cases mask <;> simp

/-- lengths stay aligned: the result of `filter … update_kmers = true` is well-formed -/
theorem T06_filter_WF (a : Arr) (hwf : a.WF) (t : Nat) (famb : Bool) (ft : FilterType) (mask gaps : Bool) :
    (a.filter t famb ft mask gaps true).1.WF := by
  refine ⟨?_, ?_, ?_, ?_⟩
  · rw [filter_variants, filter_kmers_upd, List.length_map, List.length_map]
  · rw [filter_counts, filter_kmers_upd, List.length_map, List.length_map]
  · intro row hrow
    rw [filter_variants] at hrow
    obtain ⟨rk, hrk, rfl⟩ := List.mem_map.mp hrow
    rw [length_maskRow, filter_names]
    have hz : rk ∈ a.variants.zip a.kmers := (List.mem_filter.mp hrk).1
    exact hwf.rowLen rk.1 (List.of_mem_zip (a := rk.1) (b := rk.2) hz).1
  · rw [filter_kmers_upd, keptI_eq, List.map_map]
    have hs : ((rowsI a t famb ft gaps).map (Prod.snd ∘ Prod.swap)).Sublist (a.abs.rows.map (·.1)) :=
      List.Sublist.map _ List.filter_sublist
    rw [abs_rows_fst a hwf.lenV] at hs
    exact hs.nodup hwf.nodup

/-- `CellsGe45` is preserved by `filter` (78 = `N` ≥ 45) -/
theorem T06_filter_cellsGe45 (a : Arr) (hc : CellsGe45 a.variants)
    (t : Nat) (famb : Bool) (ft : FilterType) (mask gaps upd : Bool) :
    CellsGe45 (a.filter t famb ft mask gaps upd).1.variants := by
  intro row hrow b hb
  rw [filter_variants] at hrow
  obtain ⟨rk, hrk, rfl⟩ := List.mem_map.mp hrow
  have hz : rk ∈ a.variants.zip a.kmers := (List.mem_filter.mp hrk).1
  have hv : rk.1 ∈ a.variants := (List.of_mem_zip (a := rk.1) (b := rk.2) hz).1
  unfold Table.maskRow at hb
  cases mask with
  | false => exact hc rk.1 hv b hb
  | true =>
    simp only [if_true, List.mem_map] at hb
    obtain ⟨c, hcm, rfl⟩ := hb
    by_cases hamb : isAmbiguous c = true
    · simp only [hamb, if_true]; decide
    · simp only [hamb]; exact hc rk.1 hv c hcm

/-! ## 3. `Modes.align` -/

theorem T06_align_I (a : Arr) (t : Nat) (ft : FilterType) (mask gaps famb : Bool) :
    Modes.align a t ft mask gaps famb
      = a.names.zipIdx.map (fun ni =>
          (ni.1, (alignColumnsI a.abs t famb ft mask gaps).map (fun col => col.getD ni.2 GAP))) := by
  unfold Modes.align Modes.applyFilters Arr.writeFasta Arr.column
  rw [filter_names, T06_filter_variants_I]

/-- deliverable 3: one record per sample in `names` order; the sequence of sample `i` is the
`i`-th cell of every emitted column, in table order -/
theorem T06_align (a : Arr) (hc : CellsGe45 a.variants)
    (t : Nat) (ft : FilterType) (mask gaps famb : Bool) :
    Modes.align a t ft mask gaps famb
      = a.names.zipIdx.map (fun ni =>
          (ni.1, (a.abs.alignColumns t famb (toSite ft) mask gaps).map (fun col => col.getD ni.2 GAP))) := by
  rw [T06_align_I, alignColumnsI_eq_spec a t famb ft mask gaps hc]

/-- sample order = names order -/
theorem T06_align_names (a : Arr) (t : Nat) (ft : FilterType) (mask gaps famb : Bool) :
    (Modes.align a t ft mask gaps famb).map (·.1) = a.names := by
  rw [T06_align_I, List.map_map]
  show List.map Prod.fst a.names.zipIdx = a.names
  simp

/-- every output sequence has one character per emitted column -/
theorem T06_align_lengths (a : Arr) (hc : CellsGe45 a.variants)
    (t : Nat) (ft : FilterType) (mask gaps famb : Bool) :
    ∀ rec ∈ Modes.align a t ft mask gaps famb,
      rec.2.length = (a.abs.alignColumns t famb (toSite ft) mask gaps).length := by
  intro rec hrec
  rw [T06_align a hc] at hrec
  obtain ⟨ni, _, rfl⟩ := List.mem_map.mp hrec
  simp

/-! ## 4. Monotonicity: stricter settings emit a sublist (hence sub-multiset) of the columns

All statements hold for arbitrary byte rows (checked by `#eval` on adversarial rows with
lower case, `U`, `N`, ambiguity codes, CR, 0, 255 before proving); no hypothesis is needed. -/

theorem alignColumns_sublist_of_imp (tb : Table) (t t' : Nat) (famb famb' : Bool)
    (ft ft' : Table.SiteFilter) (mask gaps gaps' : Bool)
    (h : ∀ row, Table.passes t' famb' ft' gaps' row = true → Table.passes t famb ft gaps row = true) :
    (tb.alignColumns t' famb' ft' mask gaps').Sublist (tb.alignColumns t famb ft mask gaps) := by
  unfold Table.alignColumns
  exact List.Sublist.map _ (filter_sublist_of_imp _ h)

theorem passes_iff (t : Nat) (famb : Bool) (ft : Table.SiteFilter) (gaps : Bool) (row : List UInt8) :
    Table.passes t famb ft gaps row = true ↔
      (Table.presentCount famb row ≥ max 1 t ∧ Table.sitePasses ft gaps row = true) := by
  unfold Table.passes
  rw [Bool.and_eq_true, decide_eq_true_eq]

theorem presentCount_famb_le (row : List UInt8) :
    Table.presentCount true row ≤ Table.presentCount false row := by
  unfold Table.presentCount
  apply length_filter_le_of_imp
  intro b hb
  rw [Bool.and_eq_true] at hb
  simp [hb.1]

/-- a larger minimum count emits fewer columns -/
theorem T06_mono_t (tb : Table) (t t' : Nat) (h : t ≤ t') (famb : Bool) (ft : Table.SiteFilter)
    (mask gaps : Bool) :
    (tb.alignColumns t' famb ft mask gaps).Sublist (tb.alignColumns t famb ft mask gaps) := by
  apply alignColumns_sublist_of_imp
  intro row
  rw [passes_iff, passes_iff]
  intro hp
  refine ⟨?_, hp.2⟩
  have := hp.1
  omega

/-- counting ambiguity codes as missing emits fewer columns -/
theorem T06_mono_famb (tb : Table) (t : Nat) (ft : Table.SiteFilter) (mask gaps : Bool) :
    (tb.alignColumns t true ft mask gaps).Sublist (tb.alignColumns t false ft mask gaps) := by
  apply alignColumns_sublist_of_imp
  intro row
  rw [passes_iff, passes_iff]
  intro hp
  exact ⟨Nat.le_trans hp.1 (presentCount_famb_le row), hp.2⟩

theorem length_distinct_filter_le (row : List UInt8) (p q : UInt8 → Bool)
    (h : ∀ b, p b = true → q b = true) :
    (Table.distinctSyms (row.filter p)).length ≤ (Table.distinctSyms (row.filter q)).length := by
  unfold Table.distinctSyms
  rw [eraseDups_filter, eraseDups_filter]
  exact length_filter_le_of_imp _ h

theorem sitePasses_gaps (ft : Table.SiteFilter) (row : List UInt8) :
    Table.sitePasses ft true row = true → Table.sitePasses ft false row = true := by
  cases ft with
  | noFilter => exact id
  | noAmbig => exact id
  | noConst =>
    unfold Table.sitePasses
    simp only [decide_eq_true_eq]
    intro h
    exact Nat.le_trans h (length_distinct_filter_le row _ _ (fun _ _ => rfl))
  | noAmbigOrConst =>
    unfold Table.sitePasses
    simp only [decide_eq_true_eq]
    intro h
    refine Nat.le_trans h (length_filter_le_of_imp _ ?_)
    intro b hb
    rw [Bool.or_eq_true] at hb ⊢
    rcases hb with hb | hb
    · exact Or.inl hb
    · simp at hb

/-- ignoring gap-only variation emits fewer columns -/
theorem T06_mono_gaps (tb : Table) (t : Nat) (famb : Bool) (ft : Table.SiteFilter) (mask : Bool) :
    (tb.alignColumns t famb ft mask true).Sublist (tb.alignColumns t famb ft mask false) := by
  apply alignColumns_sublist_of_imp
  intro row
  rw [passes_iff, passes_iff]
  intro hp
  exact ⟨hp.1, sitePasses_gaps ft row hp.2⟩

/-- for `noFilter` and `noAmbig` the gap flag is irrelevant -/
theorem T06_gaps_irrelevant (tb : Table) (t : Nat) (famb : Bool) (ft : Table.SiteFilter) (mask : Bool)
    (h : ft = .noFilter ∨ ft = .noAmbig) :
    tb.alignColumns t famb ft mask true = tb.alignColumns t famb ft mask false := by
  rcases h with rfl | rfl <;> rfl

theorem T06_mono_noConst (tb : Table) (t : Nat) (famb mask gaps : Bool) :
    (tb.alignColumns t famb .noConst mask gaps).Sublist (tb.alignColumns t famb .noFilter mask gaps) := by
  apply alignColumns_sublist_of_imp
  intro row
  rw [passes_iff, passes_iff]
  intro hp
  exact ⟨hp.1, rfl⟩

theorem T06_mono_noAmbig (tb : Table) (t : Nat) (famb mask gaps : Bool) :
    (tb.alignColumns t famb .noAmbig mask gaps).Sublist (tb.alignColumns t famb .noFilter mask gaps) := by
  apply alignColumns_sublist_of_imp
  intro row
  rw [passes_iff, passes_iff]
  intro hp
  exact ⟨hp.1, rfl⟩

theorem sitePasses_noAmbigOrConst_noConst (gaps : Bool) (row : List UInt8) :
    Table.sitePasses .noAmbigOrConst gaps row = true → Table.sitePasses .noConst gaps row = true := by
  unfold Table.sitePasses
  simp only [decide_eq_true_eq]
  intro h
  refine Nat.le_trans h ?_
  show _ ≤ (Table.distinctSyms (row.filter _)).length
  unfold Table.distinctSyms
  rw [eraseDups_filter]
  apply length_filter_le_of_imp
  intro b hb
  cases gaps with
  | false => rfl
  | true =>
    rw [Bool.or_eq_true] at hb
    rcases hb with hb | hb
    · simpa using acgtu_ne_gap b hb
    · simp at hb

theorem T06_mono_noAmbigOrConst (tb : Table) (t : Nat) (famb mask gaps : Bool) :
    (tb.alignColumns t famb .noAmbigOrConst mask gaps).Sublist
      (tb.alignColumns t famb .noConst mask gaps) := by
  apply alignColumns_sublist_of_imp
  intro row
  rw [passes_iff, passes_iff]
  intro hp
  exact ⟨hp.1, sitePasses_noAmbigOrConst_noConst gaps row hp.2⟩

/-- deliverable 4, collected -/
theorem T06_mono (tb : Table) (mask : Bool) :
    (∀ t t' famb ft gaps, t ≤ t' →
      (tb.alignColumns t' famb ft mask gaps).Sublist (tb.alignColumns t famb ft mask gaps)) ∧
    (∀ t ft gaps,
      (tb.alignColumns t true ft mask gaps).Sublist (tb.alignColumns t false ft mask gaps)) ∧
    (∀ t famb ft,
      (tb.alignColumns t famb ft mask true).Sublist (tb.alignColumns t famb ft mask false)) ∧
    (∀ t famb gaps,
      (tb.alignColumns t famb .noConst mask gaps).Sublist (tb.alignColumns t famb .noFilter mask gaps)) ∧
    (∀ t famb gaps,
      (tb.alignColumns t famb .noAmbig mask gaps).Sublist (tb.alignColumns t famb .noFilter mask gaps)) ∧
    (∀ t famb gaps,
      (tb.alignColumns t famb .noAmbigOrConst mask gaps).Sublist
        (tb.alignColumns t famb .noConst mask gaps)) :=
  ⟨fun t t' famb ft gaps h => T06_mono_t tb t t' h famb ft mask gaps,
   fun t ft gaps => T06_mono_famb tb t ft mask gaps,
   fun t famb ft => T06_mono_gaps tb t famb ft mask,
   fun t famb gaps => T06_mono_noConst tb t famb mask gaps,
   fun t famb gaps => T06_mono_noAmbig tb t famb mask gaps,
   fun t famb gaps => T06_mono_noAmbigOrConst tb t famb mask gaps⟩

/-- NOT an inclusion: `noAmbigOrConst` does not imply `noAmbig` — a site with two distinct
unambiguous bases passes `noAmbigOrConst` even when another sample carries an ambiguity code -/
theorem noAmbigOrConst_not_sub_noAmbig :
    Table.sitePasses .noAmbigOrConst false [77, 65, 67] = true ∧
    Table.sitePasses .noAmbig false [77, 65, 67] = false := by decide

/-! ## Deliverable 2 collected -/

/-- everything `filter` returns, in terms of the table `a.abs` (only `lenV` of `WF` is used,
for `a.abs.rows.map (·.2) = a.variants`) -/
theorem T06_filter_all (a : Arr) (hwf : a.WF) (hc : CellsGe45 a.variants)
    (t : Nat) (famb : Bool) (ft : FilterType) (mask gaps : Bool) :
    ((a.filter t famb ft mask gaps true).1.kmers.zip (a.filter t famb ft mask gaps true).1.variants
        = (a.abs.rows.filter (fun r => Table.passes t famb (toSite ft) gaps r.2)).map
            (fun r => (r.1, Table.maskRow mask r.2))) ∧
    (∀ upd, (a.filter t famb ft mask gaps upd).1.variants
        = a.abs.alignColumns t famb (toSite ft) mask gaps) ∧
    (∀ upd, (a.filter t famb ft mask gaps upd).1.variants
        = (a.variants.filter (Table.passes t famb (toSite ft) gaps)).map (Table.maskRow mask)) ∧
    (∀ upd, (a.filter t famb ft mask gaps upd).1.counts
        = (a.filter t famb ft false gaps upd).1.variants.map (Arr.cellCount famb)) ∧
    (∀ upd, (a.filter t famb ft mask gaps upd).2
        = (a.variants.filter (fun r => decide (Table.presentCount famb r > 0))).length
          - (a.variants.filter (Table.passes t famb (toSite ft) gaps)).length) ∧
    (a.filter t famb ft mask gaps true).1.WF := by
  refine ⟨T06_filter a hc t famb ft mask gaps,
    fun upd => T06_filter_variants a hc t famb ft mask gaps upd,
    fun upd => T06_filter_variants_stored a hwf hc t famb ft mask gaps upd,
    fun upd => T06_filter_counts_unmasked a t famb ft mask gaps upd,
    fun upd => ?_,
    T06_filter_WF a hwf t famb ft mask gaps⟩
  rw [T06_filter_removed a hc, ← abs_rows_snd a hwf.lenV, List.filter_map, List.filter_map,
    List.length_map, List.length_map]
  rfl

/-! ## 5. Non-vacuity -/

/-- three samples, three split k-mers: a constant site, a site with a gap, a site with `R` -/
def exArr : Arr :=
  { k := 3, rc := true, names := ["s1", "s2", "s3"], kmers := [1, 2, 3]
    variants := [[65, 65, 65], [65, 67, 45], [82, 65, 71]]
    counts := [3, 2, 3], kBits := 64 }

theorem exArr_WF : exArr.WF := ⟨rfl, rfl, by decide, by decide⟩
theorem exArr_cells : CellsGe45 exArr.variants := by decide
theorem exArr_rowsPresent : exArr.RowsPresent := by unfold Arr.RowsPresent; decide

-- min count 3: the gap site goes
example : (exArr.filter 3 false .noFilter false false true).1.kmers = [1, 3] := by decide
example : (exArr.filter 3 false .noFilter false false true).1.variants = [[65, 65, 65], [82, 65, 71]] := by decide
example : (exArr.filter 3 false .noFilter false false true).2 = 1 := by decide
-- ambiguity as missing: the `R` site has count 2
example : (exArr.filter 3 true .noFilter false false true).1.kmers = [1] := by decide
example : (exArr.filter 0 true .noFilter false false true).1.counts = [3, 2, 2] := by decide
-- no constant sites, masked
example : (exArr.filter 0 false .noConst true false true).1.variants = [[65, 67, 45], [78, 65, 71]] := by decide
-- gap-only variation ignored: `A C -` still varies, so does `R A G`
example : (exArr.filter 0 false .noConst false true true).1.kmers = [2, 3] := by decide
-- no ambiguous sites
example : (exArr.filter 0 false .noAmbig false false true).1.kmers = [1, 2] := by decide
-- `noAmbigOrConst` keeps the `R A G` site (two distinct unambiguous bases)
example : (exArr.filter 0 false .noAmbigOrConst true false true).1.variants = [[65, 67, 45], [78, 65, 71]] := by decide
example : (exArr.filter 0 false .noAmbigOrConst true true true).1.variants = [[65, 67, 45], [78, 65, 71]] := by decide
-- the alignment: one record per sample, one character per column
example : Modes.align exArr 0 .noConst true false false
    = [("s1", [65, 78]), ("s2", [67, 65]), ("s3", [45, 71])] := by decide
-- the specification side gives the same columns
example : exArr.abs.alignColumns 0 false .noConst true false = [[65, 67, 45], [78, 65, 71]] := by decide

/-- the removed count does NOT count rows that `update_counts` drops: with
`filter_ambig_as_missing` an all-`N` row disappears but is not reported as removed -/
def exAllN : Arr :=
  { k := 3, rc := true, names := ["s1", "s2", "s3"], kmers := [7]
    variants := [[78, 78, 78]], counts := [3], kBits := 64 }

theorem removed_counterexample :
    exAllN.WF ∧ exAllN.RowsPresent ∧ CellsGe45 exAllN.variants ∧
    (exAllN.filter 0 true .noFilter false false true).1.kmers = [] ∧
    (exAllN.filter 0 true .noFilter false false true).2 = 0 ∧
    exAllN.kmers.length
      - (exAllN.abs.rows.filter (fun r => Table.passes 0 true .noFilter false r.2)).length = 1 :=
  ⟨⟨rfl, rfl, by decide, by decide⟩, by unfold Arr.RowsPresent; decide, by decide, by decide, by decide,
   by decide⟩

end SkaModel.Props.C06
