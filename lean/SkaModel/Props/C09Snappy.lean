/-
C09, compression layer: the Snappy block decoder model (`Impl/Snappy.lean`, tied
to `snap::raw::Decoder` by the `unframe` / `snapblock` operations) refines the
element semantics of the format (`Spec/SnappyFormat.lean`) on every well-formed
element stream, for every output so far, every announced length, without bound
on sizes.  Hence for ANY compressor whose block is `block data.length es` with
`WFs` and `denote [] es = data`, decompression returns exactly `data`.
Statements only here; helper lemmas live in `Lemmas/Snappy*.lean`.
-/
import SkaModel.Lemmas.SnappyLemmas
namespace SkaModel.Props.C09Snappy
open SkaModel SkaModel.SnappyFormat

/-- overlapping copies: the byte-by-byte loop of the decoder equals the closed
pattern form of the format (run-length semantics), for every offset ≤ size -/
theorem T09_copy_pattern (out : Array UInt8) (off len : Nat) (h1 : 1 ≤ off) (h2 : off ≤ out.size) :
    (copyBack out off len).toList = out.toList ++ copyPattern out.toList off len := by
  exact SnappyLemmas.copyBack_toList out off len h1 h2

/-- the element loop refines the denotation on every well-formed stream -/
theorem T09_snappy_elems (dlen : Nat) (es : List SElem) (out : Array UInt8) (fuel : Nat)
    (hwf : WFs dlen out.size es) (hf : es.length ≤ fuel) :
    (snappyElems dlen fuel (es.flatMap SElem.ser) out).map Array.toList
      = some (denote out.toList es) := by
  exact SnappyLemmas.elems_refines dlen es out fuel hwf hf

/-- the length preamble round-trips for every 32-bit length -/
theorem T09_varint (n : Nat) (h : n < 2 ^ 32) (rest : List UInt8) :
    readVarint (varint n ++ rest) = (n, (varint n).length) ∧ 1 ≤ (varint n).length ∧ (varint n).length ≤ 5 := by
  exact ⟨SnappyLemmas.readVarint_varint n h rest, SnappyLemmas.varint_pos n, SnappyLemmas.varint_len_le5 n h⟩

/-- a whole block: any well-formed element stream that denotes `data` decompresses to `data` -/
theorem T09_snappy_block (data : List UInt8) (es : List SElem)
    (hlen : data.length ≤ 65536) (hwf : WFs data.length 0 es) (hd : denote [] es = data) :
    snappyDecompress (block data.length es) = some data := by
  exact SnappyLemmas.block_ok data es hlen hwf hd

/-- the parser inverts the serialiser on well-formed streams (the grammar is unambiguous) -/
theorem T09_parse_ser (dlen out : Nat) (es : List SElem) (hwf : WFs dlen out es) (fuel : Nat)
    (hf : es.length ≤ fuel) : parseElems fuel (es.flatMap SElem.ser) = some es := by
  exact SnappyLemmas.parse_ser dlen out es hwf fuel hf

/-- non-vacuity: a literal followed by an overlapping copy -/
example : WFs 9 0 [.lit 0 [1, 2, 3], .copy1 6 3] ∧ denote [] [.lit 0 [1, 2, 3], .copy1 6 3] = [1, 2, 3, 1, 2, 3, 1, 2, 3] := by
  constructor <;> decide

/-- soundness of the element loop: whatever it accepts is the serialisation of a
well-formed element stream (the one the parser returns), and its result is the
denotation of that stream - the decoder accepts nothing outside the format -/
theorem T09_snappy_sound (dlen fuel : Nat) (src : List UInt8) (out res : Array UInt8)
    (h : snappyElems dlen fuel src out = some res) :
    ∃ es, parseElems fuel src = some es ∧ es.flatMap SElem.ser = src ∧ WFs dlen out.size es ∧
      res.toList = denote out.toList es := by
  exact SnappyLemmas.elems_sound dlen fuel src out res h

/-- soundness of a whole block: an accepted block is a length preamble followed by a
well-formed element stream that denotes exactly the returned data -/
theorem T09_snappy_block_sound (blk data : List UInt8) (h : snappyDecompress blk = some data) :
    ∃ es, es.flatMap SElem.ser = blk.drop (readVarint blk).2 ∧ WFs data.length 0 es ∧
      denote [] es = data ∧ data.length ≤ 65536 ∧ (readVarint blk).1 = data.length := by
  exact SnappyLemmas.block_sound blk data h

end SkaModel.Props.C09Snappy
