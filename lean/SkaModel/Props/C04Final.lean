/-
C04 — the writer refinement (`T04_writer`) discharges the hypothesis of the
mapping theorem: the final, hypothesis-free statement of the property.
-/
import SkaModel.Props.C04Writer
import SkaModel.Props.C04Map

namespace SkaModel.Props.C04

open SkaModel SkaModel.Spec SkaModel.Props.C16

theorem writerRefines (k : Nat) (hk : ValidK k) : WriterRefines k := by
  intro ref ms maskAmbig reps hok
  have h1 : 1 ≤ halfK k := by
    obtain ⟨h5, _, _⟩ := hk
    unfold halfK; omega
  exact T04_writer ref k h1 ms hok maskAmbig reps

/-- **C04.** For every reference, every valid k, both widths, both strand modes, both
masks and every sample dictionary over stored symbols: the sequence `ska map` writes for
sample `s` is, position by position, the sample's strand-corrected middle base where the
reference split k-mer centred there is present in the sample, otherwise the upper-case
reference base within (k-1)/2 of a matched centre on the same contig, otherwise '-';
ambiguous middle bases become N under `--ambig-mask`; non-gap positions within (k-1)/2 of
the centre of a repeated reference split k-mer become N under `--repeat-mask`. -/
theorem T04_map_final (W k : Nat) (rc : Bool) (hk : ValidK k) (hw : WidthOk W k)
    (names : List String) (ref : List (Array UInt8)) (amask rmask : Bool) (r : RefSka)
    (hnew : RefSka.new W k rc names ref amask rmask = some r) (d : MDict)
    (hgs : rc = true → RM.GapSafe d) (n s : Nat) (hs : s < n) :
    ((r.pseudoalignment n (r.map d)).getD s #[]).toList
      = Spec.mapSeq k rc (fun key => Assoc.lookup d.kmers key) ref amask rmask s :=
  T04_map W k rc hk hw (writerRefines k hk) names ref amask rmask r hnew d hgs n s hs

end SkaModel.Props.C04
