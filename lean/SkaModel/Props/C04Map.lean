/-
C04 — `ska map`: the mapped sequence of every sample is the position-wise
specification `Spec.mapSeq`, given the writer refinement (`WriterRefines`, proved
separately) as a hypothesis.

* `contigKmers_spec`  — reference k-mers of a contig = the specification's windows
* `T04_new_none`      — `RefSka.new` fails exactly when the reference has no window
* `T04_matches_wf`    — the match list handed to the writer satisfies `Spec.MatchesOK`
* `T04_pseudo`        — `pseudoalignment` = `finalise ∘ foldl writeSplitKmer` over that list
* `T04_repeatsOf`, `T04_repeat`, `T04_repeat_off` — repeats and repeat coordinates
* `T04_map`           — main theorem
* `T04_self_spec`, `T04_self` — a reference mapped against its own split k-mers

Finding (see `T04_map`): the statement needs `GapSafe d` when both strands are used:
a dictionary byte `x ≠ '-'` with `RC_IUPAC[x] = '-'` (any byte that is not an IUPAC
letter, e.g. `E`) is a match for the specification but is skipped by the code.
-/
import SkaModel.Lemmas.RMSelf

namespace SkaModel.Props.C04

open SkaModel SkaModel.Spec SkaModel.Props.C16 SkaModel.RM

/-- the writer refinement, proved separately (`T04_writer`) -/
def WriterRefines (k : Nat) : Prop :=
  ∀ (ref : List (Array UInt8)) (ms : List Spec.Match) (maskAmbig : Bool) (reps : List Nat),
    Spec.MatchesOK ref (halfK k) ms →
    (AlnWriter.finalise ref (halfK k) reps
      (ms.foldl (fun w m => AlnWriter.writeSplitKmer ref (halfK k) maskAmbig w m.2.1 m.1 m.2.2)
        (AlnWriter.new ref k))).toList
      = Spec.writerSpec ref (halfK k) maskAmbig reps ms

/-- `toUpper` of the implementation is `upperByte` of the specification -/
theorem toUpper_eq_upperByte : toUpper = upperByte := rfl

/-- **contigKmers_spec.** The reference k-mers of a contig are the observations of its windows. -/
theorem contigKmers_spec (W k : Nat) (rc : Bool) (hk : ValidK k) (hw : WidthOk W k)
    (chrom : Nat) (r : Array UInt8) :
    RefSka.contigKmers W k rc chrom r = (windows k r).map (fun j =>
      let o := obs k rc r j
      { kmer := o.1, base := o.2.1, pos := j + halfK k, chrom := chrom, rc := o.2.2 }) :=
  RM.contigKmers_spec W k rc hk hw chrom r

/-- **T04_new_none.** `RefSka::new` reports "no valid sequence" exactly when the reference has no window. -/
theorem T04_new_none (W k : Nat) (rc : Bool) (hk : ValidK k) (hw : WidthOk W k) (names : List String)
    (ref : List (Array UInt8)) (amask rmask : Bool) :
    RefSka.new W k rc names ref amask rmask = none ↔ refKeys k rc ref = [] :=
  new_none_iff W k rc hk hw names ref amask rmask

/-- the fields of a successfully built reference -/
theorem T04_new_fields (W k : Nat) (rc : Bool) (hk : ValidK k) (hw : WidthOk W k) (names : List String)
    (ref : List (Array UInt8)) (amask rmask : Bool) (r : RefSka)
    (hnew : RefSka.new W k rc names ref amask rmask = some r) :
    r.k = k ∧ r.ambigMask = amask ∧ r.chromNames = names ∧
    r.seq = ref.map (fun c => c.map toUpper) ∧
    r.kmers.map (·.kmer) = refKeys k rc ref ∧
    r.kmers = ref.zipIdx.flatMap (fun ci => (windows k ci.1).map (fun j =>
      { kmer := (obs k rc ci.1 j).1, base := (obs k rc ci.1 j).2.1, pos := j + halfK k, chrom := ci.2,
        rc := (obs k rc ci.1 j).2.2 })) := by
  rw [new_some W k rc hk hw names ref amask rmask r hnew]
  exact ⟨rfl, rfl, rfl, rfl, kmersFrom_keys k rc 0 ref, rfl⟩

/-! ### the match list of a sample -/

/-- what the writer receives for sample `s`: the non-gap cells of the mapped rows -/
def matchesOf (r : RefSka) (d : MDict) (s : Nat) : List Spec.Match :=
  (r.map d).filterMap (fun m =>
    let b := m.2.getD s GAP
    if b != GAP then some (m.1.1, m.1.2, b) else none)

theorem matchesOf_eq (r : RefSka) (d : MDict) (s : Nat) :
    matchesOf r d s = r.kmers.filterMap (matchOf d s) := ms_eq r d s

theorem kmersFrom_bounds' (k : Nat) (rc : Bool) (hk : ValidK k) (ref : List (Array UInt8)) :
    ∀ rk ∈ kmersFrom k rc 0 ref,
      rk.chrom < (upperRef ref).length ∧ halfK k ≤ rk.pos ∧
        rk.pos + halfK k < ((upperRef ref).getD rk.chrom #[]).size := by
  intro rk hrk
  rw [mem_kmersFrom] at hrk
  obtain ⟨i, c, j, hi, hj, rfl⟩ := hrk
  have hw := (mem_windows k c j).mp hj
  have hk2 : k = 2 * halfK k + 1 := by unfold ValidK at hk; unfold halfK; omega
  have hlt : i < ref.length := by
    rcases Nat.lt_or_ge i ref.length with h | h
    · exact h
    · rw [List.getElem?_eq_none h] at hi; cases hi
  refine ⟨?_, Nat.le_add_left _ _, ?_⟩
  · show 0 + i < _; rw [upperRef_length, Nat.zero_add]; exact hlt
  · show j + halfK k + halfK k < ((upperRef ref).getD (0 + i) #[]).size
    rw [upperRef_getD_size, Nat.zero_add, List.getD_eq_getElem?_getD, hi]
    show j + halfK k + halfK k < c.size
    omega

/-- **T04_matches_wf.** For every dictionary and sample, the matches the writer receives are
in contig order, strictly increasing in position within a contig, and each has its whole
window inside its contig (`Spec.MatchesOK` on the upper-cased reference the writer uses). -/
theorem T04_matches_wf (W k : Nat) (rc : Bool) (hk : ValidK k) (hw : WidthOk W k) (names : List String)
    (ref : List (Array UInt8)) (amask rmask : Bool) (r : RefSka)
    (hnew : RefSka.new W k rc names ref amask rmask = some r) (d : MDict) (s : Nat) :
    Spec.MatchesOK r.seq (halfK k) (matchesOf r d s) := by
  rw [matchesOf_eq, new_some W k rc hk hw names ref amask rmask r hnew]
  refine matchesOK_of_pairwise _ _ _ ?_ (ms_pairwise k rc d s ref)
  intro m hm
  rw [List.mem_filterMap] at hm
  obtain ⟨rk, hrk, hmo⟩ := hm
  obtain ⟨e1, e2⟩ := matchOf_chrom_pos hmo
  have hb := kmersFrom_bounds' k rc hk ref rk hrk
  unfold MBound
  rw [e1, e2]
  exact hb

/-- **T04_pseudo.** The sequence `pseudoalignment` returns for sample `s` is `finalise` after
folding `writeSplitKmer` over the match list (gap cells are skipped). -/
theorem T04_pseudo (r : RefSka) (d : MDict) (n s : Nat) (hs : s < n) :
    (r.pseudoalignment n (r.map d)).getD s #[] =
      AlnWriter.finalise r.seq (halfK r.k) r.repeatCoors
        ((matchesOf r d s).foldl
          (fun w m => AlnWriter.writeSplitKmer r.seq (halfK r.k) r.ambigMask w m.2.1 m.1 m.2.2)
          (AlnWriter.new r.seq r.k)) :=
  pseudoalignment_getD r n (r.map d) s hs

/-! ### repeats -/

/-- **T04_repeatsOf.** `track_repeats` ends with exactly the keys seen at least twice, each once. -/
theorem T04_repeatsOf (ks : List Nat) :
    (∀ x, x ∈ RefSka.repeatsOf ks ↔ 2 ≤ (ks.filter (· == x)).length) ∧ (RefSka.repeatsOf ks).Nodup := by
  refine ⟨fun x => ?_, repeatsOf_nodup ks⟩
  rw [mem_repeatsOf, count_eq_filter]

/-- **T04_repeat.** With `repeat_mask`, the absolute index `q` is in `repeat_coors` iff it lies
within `h` of a repeat centre `p` of some contig `c` (on that contig: the range
`[p - h, p + h]` never leaves the contig, `T04_repeat_range`); the list is strictly
increasing, so it has no duplicates. -/
theorem T04_repeat (W k : Nat) (rc : Bool) (hk : ValidK k) (hw : WidthOk W k) (names : List String)
    (ref : List (Array UInt8)) (amask : Bool) (r : RefSka)
    (hnew : RefSka.new W k rc names ref amask true = some r) :
    (∀ q, q ∈ r.repeatCoors ↔
      ∃ c contig, ref[c]? = some contig ∧
        ∃ p ∈ repeatCentres k rc (refKeys k rc ref) contig,
          ∃ pos, within (halfK k) pos p = true ∧ q = contigOffset ref c + pos) ∧
    r.repeatCoors.Pairwise (· < ·) ∧ r.repeatCoors.Nodup := by
  rw [new_some W k rc hk hw names ref amask true r hnew]
  have hp := newReps_pairwise k rc hk ref true
  refine ⟨fun q => mem_newReps k rc hk ref q, hp, ?_⟩
  exact List.Pairwise.imp (fun {a b} (h : a < b) => Nat.ne_of_lt h) hp

/-- a repeat centre's range `[p - h, p + h]` lies inside its contig -/
theorem T04_repeat_range (k : Nat) (rc : Bool) (hk : ValidK k) (keys : List Nat) (c : Array UInt8) (p : Nat)
    (hp : p ∈ repeatCentres k rc keys c) : halfK k ≤ p ∧ p + halfK k < c.size :=
  repeatCentre_range k rc hk keys c p hp

/-- without `repeat_mask` there are no repeat coordinates -/
theorem T04_repeat_off (W k : Nat) (rc : Bool) (hk : ValidK k) (hw : WidthOk W k) (names : List String)
    (ref : List (Array UInt8)) (amask : Bool) (r : RefSka)
    (hnew : RefSka.new W k rc names ref amask false = some r) : r.repeatCoors = [] := by
  rw [new_some W k rc hk hw names ref amask false r hnew]
  rfl

/-! ### main theorem -/

/-- `RM.GapSafe d`: rows hold nothing that reverse-complements to a gap except the gap
itself (true for rows of IUPAC letters and `-`) -/
theorem gapSafe_iff (d : MDict) :
    GapSafe d ↔ ∀ kr ∈ d.kmers, ∀ x ∈ kr.2, rcIupacAt x = 45 → x = 45 := Iff.rfl

/-- **T04_map.** Given the writer refinement: for a reference that `RefSka::new` accepts
and any dictionary `d` (gap-safe when both strands are used), the mapped sequence of
sample `s` is `Spec.mapSeq`: the strand-corrected middle base where the reference split
k-mer centred there is in the sample, else the upper-case reference base within `h` of
a matched centre of the same contig, else `-`; with the ambiguity and repeat masks. -/
theorem T04_map (W k : Nat) (rc : Bool) (hk : ValidK k) (hw : WidthOk W k) (hwr : WriterRefines k)
    (names : List String) (ref : List (Array UInt8)) (amask rmask : Bool) (r : RefSka)
    (hnew : RefSka.new W k rc names ref amask rmask = some r)
    (d : MDict) (hgs : rc = true → GapSafe d) (n s : Nat) (hs : s < n) :
    ((r.pseudoalignment n (r.map d)).getD s #[]).toList
      = Spec.mapSeq k rc (fun key => Assoc.lookup d.kmers key) ref amask rmask s := by
  have hwf := T04_matches_wf W k rc hk hw names ref amask rmask r hnew d s
  rw [T04_pseudo r d n s hs]
  have hr := new_some W k rc hk hw names ref amask rmask r hnew
  have hk' : r.k = k := by rw [hr]
  rw [hk', hwr r.seq (matchesOf r d s) r.ambigMask r.repeatCoors hwf, matchesOf_eq, hr]
  exact seq_bridge k rc hk d hgs s ref amask rmask

/-- `T04_map` for forward-strand-only references needs no condition on the dictionary -/
theorem T04_map_fwd (W k : Nat) (hk : ValidK k) (hw : WidthOk W k) (hwr : WriterRefines k)
    (names : List String) (ref : List (Array UInt8)) (amask rmask : Bool) (r : RefSka)
    (hnew : RefSka.new W k false names ref amask rmask = some r)
    (d : MDict) (n s : Nat) (hs : s < n) :
    ((r.pseudoalignment n (r.map d)).getD s #[]).toList
      = Spec.mapSeq k false (fun key => Assoc.lookup d.kmers key) ref amask rmask s :=
  T04_map W k false hk hw hwr names ref amask rmask r hnew d (fun h => by cases h) n s hs

/-! ### mapping a reference against itself -/

/-- **T04_self_spec.** Specification level: all bases in `ACGTacgt`, every contig at least
`k` long, sample `s` holds for every reference key the reference's own middle base in
the key's orientation, and (if the repeat mask is on) no key repeats. Then the mapped
sequence is the upper-cased reference. -/
theorem T04_self_spec (k : Nat) (rc : Bool) (hk : ValidK k) (dict : Nat → Option (List UInt8))
    (ref : List (Array UInt8)) (s : Nat) (amask rmask : Bool)
    (hacgt : ∀ c ∈ ref, ∀ i, i < c.size → IsACGT (c.getD i 0))
    (hlen : ∀ c ∈ ref, k ≤ c.size)
    (hnd : rmask = true → (refKeys k rc ref).Nodup)
    (hdict : ∀ c ∈ ref, ∀ j ∈ windows k c, ∃ row, dict (obs k rc c j).1 = some row ∧
      row.getD s 45 = decodeBase (obs k rc c j).2.1) :
    mapSeq k rc dict ref amask rmask s = ref.flatMap (fun c => c.toList.map upperByte) :=
  mapSeq_self k rc hk dict ref s amask rmask hacgt hlen hnd hdict

/-- **T04_self.** The same for the code, given the writer refinement. (A dictionary that
`ska build` makes from the reference satisfies `hdict` except at self-palindromic split
k-mers, where it stores the two-base code `W`/`S` instead of the base.) -/
theorem T04_self (W k : Nat) (rc : Bool) (hk : ValidK k) (hw : WidthOk W k) (hwr : WriterRefines k)
    (names : List String) (ref : List (Array UInt8)) (amask rmask : Bool) (r : RefSka)
    (hnew : RefSka.new W k rc names ref amask rmask = some r)
    (d : MDict) (hgs : rc = true → GapSafe d) (n s : Nat) (hs : s < n)
    (hacgt : ∀ c ∈ ref, ∀ i, i < c.size → IsACGT (c.getD i 0))
    (hlen : ∀ c ∈ ref, k ≤ c.size)
    (hnd : rmask = true → (refKeys k rc ref).Nodup)
    (hdict : ∀ c ∈ ref, ∀ j ∈ windows k c, ∃ row, Assoc.lookup d.kmers (obs k rc c j).1 = some row ∧
      row.getD s 45 = decodeBase (obs k rc c j).2.1) :
    ((r.pseudoalignment n (r.map d)).getD s #[]).toList = ref.flatMap (fun c => c.toList.map toUpper) := by
  rw [T04_map W k rc hk hw hwr names ref amask rmask r hnew d hgs n s hs]
  exact T04_self_spec k rc hk _ ref s amask rmask hacgt hlen hnd hdict

end SkaModel.Props.C04
