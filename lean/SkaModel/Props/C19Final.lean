/-
C19 — the truncation theorem with its hypothesis discharged by C09's
prefix-freeness theorem: no condition on the decompressor.
-/
import SkaModel.Props.C19
import SkaModel.Props.C09

namespace SkaModel.Props.C19

open SkaModel

/-- **Truncation.** Let `file` be any byte string whose frames decode (with any block
decompressor) to the serialisation of a valid array written at width `W`. Then every
proper prefix of `file` — what an interrupted save or in-place overwrite leaves behind —
is, at both integer widths, either rejected or decoded to exactly the original content;
it is never accepted as different data. -/
theorem T19_trunc_final (decomp : List UInt8 → Option (List UInt8)) {W : Nat} (f : SkfFile)
    (hv : C09.SkfFile.Valid W f) (file : List UInt8) (hok : unframe decomp file = .ok f.encode)
    (p : List UInt8) (hp : p <+: file) (hne : p ≠ file) (W' : Nat) :
    load decomp W' p = none ∨ load decomp W' p = load decomp W' file :=
  T19_trunc decomp f file (fun W'' q hq hqne => C09.T09_prefix hv W'' q hq hqne) hok p hp hne W'

end SkaModel.Props.C19
