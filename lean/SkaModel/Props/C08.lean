/-
C08 — `ska delete`: `delete_samples` refines column deletion on the plain table, its refusals, and
the one-name-per-line file reader (see DESIGN.md §7 C08).
-/
import SkaModel.Lemmas.DeleteLemmas

namespace SkaModel.Props.C08

open SkaModel SkaModel.Spec

/-- naming no sample, or as many DISTINCT names as there are samples, is refused -/
theorem T08_refuse_count (a : Arr) (del : List String)
    (h : del = [] ∨ del.eraseDups.length = a.names.length) :
    a.deleteSamples del = none := by
  unfold Arr.deleteSamples
  rcases h with h | h <;> simp [h]

/-! ### refusal, exactly -/

/-- **T08_refuse.** `delete_samples` panics (no output) exactly when the list is empty, or names as
many DISTINCT samples as the file has, or names a sample that is not in the file. Repeated entries do
not matter: `["s1","s1"]` on a two-sample file deletes `s1`, `["s1","s2","s2"]` on a two-sample file
is refused like `["s1","s2"]` (examples below; `T08_dups_irrelevant`). -/
theorem T08_refuse (a : Arr) (del : List String) :
    a.deleteSamples del = none ↔
      (del = [] ∨ del.eraseDups.length = a.names.length ∨ ∃ n ∈ del, n ∉ a.names) := by
  rw [deleteSamples_eq]
  by_cases h1 : del = []
  · simp [h1]
  · by_cases h2 : del.eraseDups.length = a.names.length
    · simp [h2]
    · have hb : (del.isEmpty || del.eraseDups.length == a.names.length) = false := by
        simp [h1, h2]
      simp only [hb, Bool.false_eq_true, if_false, h1, h2, false_or]
      by_cases h3 : (del.eraseDups.any (fun n => !a.names.contains n)) = true
      · simp only [h3, if_true, true_iff]
        rw [List.any_eq_true] at h3
        obtain ⟨n, hn, hc⟩ := h3
        refine ⟨n, List.mem_eraseDups.mp hn, ?_⟩
        simpa using hc
      · simp only [h3]
        constructor
        · intro h; cases h
        · rintro ⟨n, hn, hc⟩
          exfalso; apply h3
          rw [List.any_eq_true]
          exact ⟨n, List.mem_eraseDups.mpr hn, by simpa using hc⟩

/-- **T08_refuse_all.** naming all samples is refused, however often a name is repeated (and whatever
else is named): on a file with pairwise distinct sample names, a list in which every sample occurs
never deletes. -/
theorem T08_refuse_all (a : Arr) (del : List String) (hn : a.names.Nodup)
    (hall : ∀ n ∈ a.names, n ∈ del) : a.deleteSamples del = none := by
  rw [T08_refuse]
  by_cases h3 : ∃ n ∈ del, n ∉ a.names
  · exact Or.inr (Or.inr h3)
  · refine Or.inr (Or.inl ?_)
    apply Dedup.length_eq_of_nodup_of_mem_iff (Dedup.eraseDups_nodup del) hn
    intro n
    rw [List.mem_eraseDups]
    constructor
    · intro hd
      apply Classical.byContradiction
      intro hc
      exact h3 ⟨n, hd, hc⟩
    · exact hall n

/-- **T08_dups_irrelevant.** the outcome (refusal or the file written) depends on the SET of names
given only: the list and its distinct entries behave alike. -/
theorem T08_dups_irrelevant (a : Arr) (del : List String) :
    a.deleteSamples del = a.deleteSamples del.eraseDups := by
  unfold Arr.deleteSamples
  rw [Dedup.eraseDups_idem, Dedup.eraseDups_isEmpty]

/-- lists with the same members are treated alike (order and repetitions are irrelevant for refusal;
for the result see `T08_dups_irrelevant`) -/
theorem T08_refuse_set (a : Arr) (del del' : List String) (h : ∀ n, n ∈ del ↔ n ∈ del') :
    a.deleteSamples del = none ↔ a.deleteSamples del' = none := by
  have hl : del.eraseDups.length = del'.eraseDups.length :=
    Dedup.length_eq_of_nodup_of_mem_iff (Dedup.eraseDups_nodup del) (Dedup.eraseDups_nodup del')
      (fun n => by rw [List.mem_eraseDups, List.mem_eraseDups]; exact h n)
  have he : del = [] ↔ del' = [] := by
    constructor
    · intro e; subst e
      cases del' with
      | nil => rfl
      | cons x t => exact absurd ((h x).mpr (List.mem_cons_self ..)) (by simp)
    · intro e; subst e
      cases del with
      | nil => rfl
      | cons x t => exact absurd ((h x).mp (List.mem_cons_self ..)) (by simp)
  rw [T08_refuse, T08_refuse, hl, he]
  have hm : (∃ n ∈ del, n ∉ a.names) ↔ (∃ n ∈ del', n ∉ a.names) :=
    ⟨fun ⟨n, h1, h2⟩ => ⟨n, (h n).mp h1, h2⟩, fun ⟨n, h1, h2⟩ => ⟨n, (h n).mpr h1, h2⟩⟩
  rw [hm]

/-! ### the effect -/

/-- the kept positions: exactly the positions of the names not requested, in increasing order
(for files without repeated sample names) -/
theorem T08_keepIdx (names del : List String) (hn : names.Nodup) :
    (∀ i, i ∈ Table.keepIdx names del ↔ ∃ h : i < names.length, names[i] ∉ del)
    ∧ (Table.keepIdx names del).Pairwise (· < ·)
    ∧ (Table.keepIdx names del).map (fun i => names.getD i "") = names.filter (fun n => !del.contains n) :=
  ⟨mem_keepIdx names del hn, keepIdx_sorted names del hn, keepIdx_names names del hn⟩

/-- for a file with pairwise distinct sample names and a list of sample names: as many distinct names
as samples means that every sample is named -/
theorem all_named_iff (names del : List String) (hn : names.Nodup) (h3 : ∀ n ∈ del, n ∈ names) :
    del.eraseDups.length = names.length ↔ ∀ n ∈ names, n ∈ del := by
  constructor
  · intro hl n hmem
    apply Classical.byContradiction
    intro hnd
    have hsub : del.eraseDups ⊆ names.erase n := by
      intro x hx
      have hx' : x ∈ del := List.mem_eraseDups.mp hx
      have hne : x ≠ n := fun e => hnd (e ▸ hx')
      exact (List.mem_erase_of_ne hne).mpr (h3 x hx')
    have hle := (Dedup.eraseDups_nodup del).length_le_of_subset hsub
    rw [List.length_erase_of_mem hmem] at hle
    have hpos : 0 < names.length := List.length_pos_of_mem hmem
    omega
  · intro hall
    apply Dedup.length_eq_of_nodup_of_mem_iff (Dedup.eraseDups_nodup del) hn
    intro n
    rw [List.mem_eraseDups]
    exact ⟨h3 n, hall n⟩

/-- **T08_accept.** on a file with pairwise distinct sample names `delete_samples` returns exactly
when the list is not empty, names samples of the file only, and leaves some sample unnamed -/
theorem T08_accept (a : Arr) (del : List String) (hn : a.names.Nodup) :
    (∃ a', a.deleteSamples del = some a') ↔
      (del ≠ [] ∧ (∀ n ∈ del, n ∈ a.names) ∧ ∃ n ∈ a.names, n ∉ del) := by
  constructor
  · rintro ⟨a', ha'⟩
    have hnr : ¬ (del = [] ∨ del.eraseDups.length = a.names.length ∨ ∃ n ∈ del, n ∉ a.names) := by
      intro h
      rw [(T08_refuse a del).mpr h] at ha'
      cases ha'
    have h3 : ∀ n ∈ del, n ∈ a.names := by
      intro n hd
      apply Classical.byContradiction
      intro hc
      exact hnr (Or.inr (Or.inr ⟨n, hd, hc⟩))
    refine ⟨fun e => hnr (Or.inl e), h3, ?_⟩
    apply Classical.byContradiction
    intro hc
    apply hnr
    refine Or.inr (Or.inl ((all_named_iff a.names del hn h3).mpr ?_))
    intro n hmem
    apply Classical.byContradiction
    intro hnd
    exact hc ⟨n, hmem, hnd⟩
  · rintro ⟨h1, h3, n, hmem, hnd⟩
    cases hd : a.deleteSamples del with
    | some a' => exact ⟨a', rfl⟩
    | none =>
      rcases (T08_refuse a del).mp hd with h | h | ⟨m, hm, hc⟩
      · exact absurd h h1
      · exact absurd ((all_named_iff a.names del hn h3).mp h n hmem) hnd
      · exact absurd (h3 m hm) hc

/-- **T08_delete.** deleting existing samples (not none, not all: fewer distinct names than samples) succeeds; the result is the
plain table with those columns removed and the all-gap rows dropped; it is well formed, every row is
present somewhere, the stored counts are the true counts, and the remaining names are the names not
requested, in file order. (`abs`, `WF`, `RowsPresent`, `counts` hold without `Nodup`; the names
equation needs it — see `ex_dupNames`.) -/
theorem T08_delete (a : Arr) (del : List String) (ha : a.WF) (hn : a.names.Nodup)
    (h1 : del ≠ []) (h2 : del.eraseDups.length ≠ a.names.length) (h3 : ∀ n ∈ del, n ∈ a.names) :
    ∃ a', a.deleteSamples del = some a'
      ∧ a'.abs = a.abs.deleteSamples del
      ∧ a'.WF ∧ a'.RowsPresent
      ∧ a'.counts = a'.variants.map (Arr.cellCount false)
      ∧ a'.names = a.names.filter (fun n => !del.contains n)
      ∧ a'.k = a.k ∧ a'.rc = a.rc ∧ a'.kBits = a.kBits := by
  refine ⟨a.deleteResult del, ?_, deleteResult_abs a del, deleteResult_wf a del ha,
    deleteResult_rowsPresent a del, deleteResult_counts a del, ?_, rfl, rfl, rfl⟩
  · cases hd : a.deleteSamples del with
    | none =>
      rcases (T08_refuse a del).mp hd with h | h | ⟨n, hn', hc⟩
      · exact absurd h h1
      · exact absurd h h2
      · exact absurd (h3 n hn') hc
    | some a' =>
      rw [deleteSamples_eq] at hd
      split at hd
      · cases hd
      · split at hd
        · cases hd
        · exact hd.symm ▸ rfl
  · rw [deleteResult_names, keepIdx_names a.names del hn]

/-- whenever `delete_samples` returns, it returns the column-deleted table (no hypotheses) -/
theorem T08_delete_abs (a a' : Arr) (del : List String) (h : a.deleteSamples del = some a') :
    a'.abs = a.abs.deleteSamples del ∧ a'.RowsPresent ∧ a'.counts = a'.variants.map (Arr.cellCount false)
      ∧ (a.WF → a'.WF) := by
  rw [deleteSamples_eq] at h
  split at h
  · cases h
  · split at h
    · cases h
    · cases h
      exact ⟨deleteResult_abs a del, deleteResult_rowsPresent a del, deleteResult_counts a del,
        deleteResult_wf a del⟩

/-- `Modes.delete` is `delete_samples` -/
theorem T08_mode (a : Arr) (del : List String) : Modes.delete a del = a.deleteSamples del := rfl

/-! ### the name-list file -/

/-- first whitespace-separated field of a line (`line.split_whitespace().next()`), on characters -/
def firstField (cs : List Char) : List Char :=
  (cs.dropWhile Char.isWhitespace).takeWhile (fun c => !c.isWhitespace)

/-- one name per line: the first field of every line that has one -/
def parseNames (lines : List String) : List String :=
  lines.filterMap (fun l =>
    let f := firstField l.toList
    if f.isEmpty then none else some (String.ofList f))

theorem takeWhile_all {α : Type} (p : α → Bool) (l : List α) (h : ∀ x ∈ l, p x = true) : l.takeWhile p = l := by
  induction l with
  | nil => rfl
  | cons x l ih =>
    rw [List.takeWhile_cons, if_pos (h x (List.mem_cons_self ..)), ih]
    intro y hy; exact h y (List.mem_cons_of_mem _ hy)

theorem dropWhile_all_append {α : Type} (p : α → Bool) (l r : List α) (h : ∀ x ∈ l, p x = true) :
    (l ++ r).dropWhile p = r.dropWhile p := by
  induction l with
  | nil => rfl
  | cons x l ih =>
    rw [List.cons_append, List.dropWhile_cons, if_pos (h x (List.mem_cons_self ..)), ih]
    intro y hy; exact h y (List.mem_cons_of_mem _ hy)

/-- a line `lead ++ name ++ rest` with blank `lead`, a non-empty name free of white space, and `rest`
empty or starting with white space, reads as `name` -/
theorem firstField_padded (lead n rest : List Char) (hl : ∀ c ∈ lead, c.isWhitespace = true)
    (hne : n ≠ []) (hn : ∀ c ∈ n, c.isWhitespace = false)
    (hr : rest = [] ∨ ∃ c t, rest = c :: t ∧ c.isWhitespace = true) :
    firstField (lead ++ (n ++ rest)) = n := by
  unfold firstField
  rw [dropWhile_all_append _ _ _ hl]
  obtain ⟨c, t, rfl⟩ := List.exists_cons_of_ne_nil hne
  have hc : c.isWhitespace = false := hn c (List.mem_cons_self ..)
  rw [List.cons_append, List.dropWhile_cons]
  simp only [hc, Bool.false_eq_true, if_false]
  rw [← List.cons_append, List.takeWhile_append]
  have hall : ∀ x ∈ c :: t, (fun c : Char => !c.isWhitespace) x = true := by
    intro x hx; simp [hn x hx]
  rw [takeWhile_all _ _ hall]
  simp only [if_true]
  rcases hr with rfl | ⟨d, u, rfl, hd⟩
  · simp
  · simp [hd]

theorem firstField_name (n : List Char) (hne : n ≠ []) (hn : ∀ c ∈ n, c.isWhitespace = false) :
    firstField n = n := by
  have := firstField_padded [] n [] (by simp) hne hn (Or.inl rfl)
  simpa using this

/-- blank lines are skipped -/
theorem parseNames_blank (l : String) (rest : List String) (h : ∀ c ∈ l.toList, c.isWhitespace = true) :
    parseNames (l :: rest) = parseNames rest := by
  have : firstField l.toList = [] := by
    unfold firstField
    have := dropWhile_all_append Char.isWhitespace l.toList [] h
    rw [List.append_nil] at this
    rw [this]; rfl
  simp [parseNames, this]

/-- **T08_names.** a file with one name per line (names non-empty, without white space) reads back as
the list of names -/
theorem T08_names (names : List String) (h : ∀ n ∈ names, n ≠ "" ∧ ∀ c ∈ n.toList, c.isWhitespace = false) :
    parseNames names = names := by
  induction names with
  | nil => rfl
  | cons n names ih =>
    obtain ⟨h1, h2⟩ := h n (List.mem_cons_self ..)
    have hne : n.toList ≠ [] := fun e => h1 (String.toList_eq_nil_iff.mp e)
    have hf := firstField_name n.toList hne h2
    have ih' := ih (fun m hm => h m (List.mem_cons_of_mem _ hm))
    unfold parseNames at ih' ⊢
    rw [List.filterMap_cons]
    simp only [hf]
    have : n.toList.isEmpty = false := by
      cases hh : n.toList with
      | nil => exact absurd hh hne
      | cons _ _ => rfl
    simp only [this, Bool.false_eq_true, if_false, String.ofList_toList]
    rw [ih']

theorem T08_names_id (names : List String) (h : ∀ n ∈ names, n ≠ "" ∧ ∀ c ∈ n.toList, c.isWhitespace = false) :
    parseNames (names.map id) = names := by
  rw [List.map_id]; exact T08_names names h

/-- the same with surrounding blanks and trailing fields: line `i` is `lead ++ name ++ rest` -/
theorem T08_names_padded (ls : List (List Char × String × List Char))
    (h : ∀ t ∈ ls, t.2.1 ≠ "" ∧ (∀ c ∈ t.2.1.toList, c.isWhitespace = false) ∧
      (∀ c ∈ t.1, c.isWhitespace = true) ∧ (t.2.2 = [] ∨ ∃ c u, t.2.2 = c :: u ∧ c.isWhitespace = true)) :
    parseNames (ls.map (fun t => String.ofList (t.1 ++ (t.2.1.toList ++ t.2.2)))) = ls.map (·.2.1) := by
  induction ls with
  | nil => rfl
  | cons t ls ih =>
    obtain ⟨h1, h2, hlead, hrest⟩ := h t (List.mem_cons_self ..)
    have hne : t.2.1.toList ≠ [] := fun e => h1 (String.toList_eq_nil_iff.mp e)
    have hf : firstField (String.ofList (t.1 ++ (t.2.1.toList ++ t.2.2))).toList = t.2.1.toList := by
      rw [String.toList_ofList]; exact firstField_padded t.1 t.2.1.toList t.2.2 hlead hne h2 hrest
    have ih' := ih (fun m hm => h m (List.mem_cons_of_mem _ hm))
    unfold parseNames at ih' ⊢
    rw [List.map_cons, List.filterMap_cons]
    simp only [hf]
    have : t.2.1.toList.isEmpty = false := by
      cases hh : t.2.1.toList with
      | nil => exact absurd hh hne
      | cons _ _ => rfl
    simp only [this, Bool.false_eq_true, if_false, String.ofList_toList]
    rw [ih']
    rfl

/-! ### non-vacuity -/

def exA : Arr := { k := 3, rc := true, names := ["s1", "s2", "s3"], kmers := [5, 7, 9], variants := [[65, 67, 45], [45, 71, 45], [84, 84, 84]], counts := [2, 1, 3], kBits := 64 }

example : exA.WF ∧ exA.names.Nodup := by decide

/-- deleting `s2` drops row 7 (it was present in `s2` only) -/
example : exA.deleteSamples ["s2"] = some
    { k := 3, rc := true, names := ["s1", "s3"], kmers := [5, 9], variants := [[65, 45], [84, 84]],
      counts := [1, 2], kBits := 64 } := by decide

example : exA.abs.deleteSamples ["s2"] = { names := ["s1", "s3"], rows := [(5, [65, 45]), (9, [84, 84])] } := by
  decide

example : Table.keepIdx exA.names ["s2"] = [0, 2] := by decide

-- refusals and repeated entries
example : exA.deleteSamples [] = none := by decide
example : exA.deleteSamples ["s1", "s2", "s3"] = none := by decide
example : exA.deleteSamples ["s1", "zz"] = none := by decide
/-- three entries on a three-sample file naming one sample: that sample is deleted (was refused when
the entries were counted) -/
example : (exA.deleteSamples ["s1", "s1", "s1"]).map (·.names) = some ["s2", "s3"] := by decide
/-- two entries naming one sample: that sample is deleted -/
example : (exA.deleteSamples ["s1", "s1"]).map (·.names) = some ["s2", "s3"] := by decide
/-- all three samples named, one of them twice: refused (four entries used to pass the count test and
delete every sample) -/
example : exA.deleteSamples ["s1", "s2", "s3", "s3"] = none := by decide
example : exA.deleteSamples ["s3", "s1", "s3", "s2", "s1"] = none := by decide
/-- the same by the general theorem -/
example : exA.deleteSamples ["s1", "s2", "s3", "s3"] = none :=
  T08_refuse_all exA _ (by decide) (by decide)

/-- a two-sample file (the first two columns of `exA`) -/
def exA2 : Arr := { k := 3, rc := true, names := ["s1", "s2"], kmers := [5, 7, 9], variants := [[65, 67], [45, 71], [84, 84]], counts := [2, 1, 2], kBits := 64 }

example : exA2.WF ∧ exA2.names.Nodup := by decide
/-- `s1 s1` on a two-sample file now DELETES `s1` (two entries = two samples was refused) -/
example : exA2.deleteSamples ["s1", "s1"] = some
    { k := 3, rc := true, names := ["s2"], kmers := [5, 7, 9], variants := [[67], [71], [84]],
      counts := [1, 1, 1], kBits := 64 } := by decide
example : exA2.deleteSamples ["s1", "s1"] = exA2.deleteSamples ["s1"] := by decide
/-- `s1 s2 s2` on a two-sample file is now REFUSED (three entries ≠ two samples used to delete both
and write a file without samples) -/
example : exA2.deleteSamples ["s1", "s2", "s2"] = none := by decide
example : exA2.deleteSamples ["s1", "s2"] = none := by decide

/-- with a repeated sample name only its first column is removed, so the remaining names are not
`names.filter (· ∉ del)`; the table equation of `T08_delete_abs` still holds -/
def exDup : Arr := { exA with names := ["x", "x", "y"] }
theorem ex_dupNames : (exDup.deleteSamples ["x"]).map (·.names) = some ["x", "y"]
    ∧ exDup.names.filter (fun n => !["x"].contains n) = ["y"] := by decide

example : parseNames ["s1", "  s2\tcomment", "", "s3 "] = ["s1", "s2", "s3"] := by decide

end SkaModel.Props.C08
