/-
C08 — property theorems (see DESIGN.md §7 C08). First theorems; the refinement
theorems are being added.
-/
import SkaModel.Spec.Abs

namespace SkaModel.Props.C08

open SkaModel SkaModel.Spec

/-- naming no sample, or as many names as there are samples, is refused -/
theorem T08_refuse_count (a : Arr) (del : List String) (h : del = [] ∨ del.length = a.names.length) :
    a.deleteSamples del = none := by
  unfold Arr.deleteSamples
  rcases h with h | h <;> simp [h]

end SkaModel.Props.C08
