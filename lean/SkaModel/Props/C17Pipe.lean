/-
C17 / C11 / C18 on the model of the whole reference-free `ska lo` pipeline
(`SkaModel/Impl/SkaloPipe.lean`); proofs in `SkaModel/Lemmas/LOPipe.lean`.

* `T17_columns_wf`, `T17_columns_readable` — every SNP column `analyse` emits has one entry per
  sample, is written over '-', N, A, C, G, T, shows at least two different A/C/G/T alleles and
  at most the allowed fraction of entries that are not A/C/G/T.
* `T17_analyse_order` — `analyse` does not depend on the order in which the two group maps are
  iterated (C11); `T17_groups_keys_nodup` discharges its distinct-key hypotheses for the output
  of `buildVariantGroups`, `T17_pipeline_order` combines the two.
* `T18_indel_records`, `T18_indel_records_two` — every indel record is the genotyping of a kept
  (de-replicated) group from the colours of its paths (C18).
* `T17_groups` — classification of `buildVariantGroups`.
-/
import SkaModel.Lemmas.LOPipe

namespace SkaModel.Props.C17P

open SkaModel SkaModel.Skalo

/-! ### 1. well-formed SNP columns -/

/-- **T17_columns_wf**: in every run all columns have one entry per sample (so all output sequences
have equal length), at least two distinct A/C/G/T alleles and at most the allowed fraction of
missing samples -/
theorem T17_columns_wf (W kGraph nSamples mNum mDen ik : Nat) (col : Colours) (gr : Groups)
    (cols : List (List UInt8)) (recs : List IndelRec)
    (h : analyse W kGraph nSamples mNum mDen ik col gr = some (cols, recs)) :
    ∀ c ∈ cols, c.length = nSamples ∧ (checkMissingData c).1 = true ∧
      ratioLe (checkMissingData c).2 nSamples mNum mDen = true := by
  intro c hc
  obtain ⟨hwf, h1, h2⟩ := LOP.analyse_cols W kGraph nSamples mNum mDen ik col gr cols recs h c hc
  exact ⟨hwf.1, h1, h2⟩

/-- the same in plain words: every entry is one of '-', N, A, C, G, T; two different letters among
A, C, G, T occur; the number of entries that are not A/C/G/T, as a fraction of the samples, is at
most `mNum / mDen` -/
theorem T17_columns_readable (W kGraph nSamples mNum mDen ik : Nat) (col : Colours) (gr : Groups)
    (cols : List (List UInt8)) (recs : List IndelRec)
    (h : analyse W kGraph nSamples mNum mDen ik col gr = some (cols, recs)) :
    ∀ c ∈ cols,
      c.length = nSamples ∧
      (∀ b ∈ c, b = 45 ∨ b = 78 ∨ b = 65 ∨ b = 67 ∨ b = 71 ∨ b = 84) ∧
      (∃ a b : UInt8, a ≠ b ∧ (a = 65 ∨ a = 67 ∨ a = 71 ∨ a = 84) ∧ (b = 65 ∨ b = 67 ∨ b = 71 ∨ b = 84) ∧
        a ∈ c ∧ b ∈ c) ∧
      (checkMissingData c).2 =
        (c.filter (fun b => !(b == 65 || b == 67 || b == 71 || b == 84))).length ∧
      (c.filter (fun b => !(b == 65 || b == 67 || b == 71 || b == 84))).length * mDen ≤ mNum * nSamples := by
  intro c hc
  obtain ⟨hwf, h1, h2⟩ := LOP.analyse_cols W kGraph nSamples mNum mDen ik col gr cols recs h c hc
  have hacgt : ∀ a : UInt8, isACGT a = true → (a = 65 ∨ a = 67 ∨ a = 71 ∨ a = 84) := by
    intro a ha
    simp only [isACGT, Bool.or_eq_true, beq_iff_eq] at ha
    rcases ha with ((h | h) | h) | h <;> simp [h]
  refine ⟨hwf.1, hwf.2, ?_, rfl, ?_⟩
  · obtain ⟨a, b, hab, ha, hb, hac, hbc⟩ := (LO.check_fst_exists c).mp h1
    exact ⟨a, b, hab, hacgt a ha, hacgt b hb, hac, hbc⟩
  · have : ratioLe (c.filter (fun b => !(b == 65 || b == 67 || b == 71 || b == 84))).length
        nSamples mNum mDen = true := h2
    simpa [ratioLe] using this

/-- all output sequences have equal length: any two columns have the same number of entries -/
theorem T17_columns_equal_length (W kGraph nSamples mNum mDen ik : Nat) (col : Colours) (gr : Groups)
    (cols : List (List UInt8)) (recs : List IndelRec)
    (h : analyse W kGraph nSamples mNum mDen ik col gr = some (cols, recs)) :
    ∀ c ∈ cols, ∀ c' ∈ cols, c.length = c'.length := by
  intro c hc c' hc'
  rw [(T17_columns_wf _ _ _ _ _ _ _ _ _ _ h c hc).1, (T17_columns_wf _ _ _ _ _ _ _ _ _ _ h c' hc').1]

/-! ### 2. order independence -/

/-- a lookup in a map does not depend on the iteration order (keys distinct) -/
theorem T17_lookup_order {ν : Type} (l l' : Assoc (Nat × Nat) ν) (hp : l.Perm l')
    (hnd : (l.map (·.1)).Nodup) (k : Nat × Nat) : Assoc.lookup l k = Assoc.lookup l' k :=
  LOP.lookup_perm l l' hp hnd k

/-- `process_indels` does not depend on the order of the indel groups -/
theorem T17_processIndels_order (W kGraph nSamples mNum mDen : Nat) (col : Colours)
    (ig ig' : List ((Nat × Nat) × List Variant)) (hp : ig.Perm ig') (hnd : (ig.map (·.1)).Nodup) :
    processIndels W kGraph nSamples mNum mDen col ig = processIndels W kGraph nSamples mNum mDen col ig' :=
  LOP.processIndels_perm W kGraph nSamples mNum mDen col ig ig' hp hnd

/-- **T17_analyse_order**: the two group lists stand for hash maps (distinct keys); whatever their
iteration orders, `analyse` returns the same columns in the same order and the same records -/
theorem T17_analyse_order (W kGraph nSamples mNum mDen ik : Nat) (col : Colours) (gr gr' : Groups)
    (hs : gr.snpGroups.Perm gr'.snpGroups) (hi : gr.indelGroups.Perm gr'.indelGroups)
    (hsn : (gr.snpGroups.map (·.1)).Nodup) (hin : (gr.indelGroups.map (·.1)).Nodup) :
    analyse W kGraph nSamples mNum mDen ik col gr = analyse W kGraph nSamples mNum mDen ik col gr' :=
  LOP.analyse_perm W kGraph nSamples mNum mDen ik col gr gr' hs hi hsn hin

/-- the groups `buildVariantGroups` produces have distinct keys when the entry nodes are distinct,
so the hypotheses of `T17_analyse_order` hold for them -/
theorem T17_groups_keys_nodup (W kGraph : Nat) (g0 : Graph) (starts ends : List Nat) (maxDepth : Nat)
    (hs : starts.Nodup) :
    (((buildVariantGroups W kGraph g0 starts ends maxDepth).snpGroups).map (·.1)).Nodup ∧
    (((buildVariantGroups W kGraph g0 starts ends maxDepth).indelGroups).map (·.1)).Nodup := by
  rw [LOP.buildVariantGroups_eq]
  exact ⟨LOP.filter_keys_nodup _ _ _ (LOP.built_keys_nodup W kGraph g0 starts ends maxDepth hs),
    LOP.filter_keys_nodup _ _ _ (LOP.built_keys_nodup W kGraph g0 starts ends maxDepth hs)⟩

/-- the groups of the pipeline, handed to `analyse` in any two orders, give the same result -/
theorem T17_pipeline_order (W kGraph nSamples mNum mDen ik maxDepth : Nat) (col : Colours)
    (g0 : Graph) (starts ends : List Nat) (hst : starts.Nodup) (gr' : Groups)
    (hs : (buildVariantGroups W kGraph g0 starts ends maxDepth).snpGroups.Perm gr'.snpGroups)
    (hi : (buildVariantGroups W kGraph g0 starts ends maxDepth).indelGroups.Perm gr'.indelGroups) :
    analyse W kGraph nSamples mNum mDen ik col (buildVariantGroups W kGraph g0 starts ends maxDepth) =
      analyse W kGraph nSamples mNum mDen ik col gr' :=
  T17_analyse_order W kGraph nSamples mNum mDen ik col _ gr' hs hi
    (T17_groups_keys_nodup W kGraph g0 starts ends maxDepth hst).1
    (T17_groups_keys_nodup W kGraph g0 starts ends maxDepth hst).2

/-- the whole reference-free pipeline from the merged table: graph, entry nodes, groups.  The entry
nodes are distinct (the graph is a map), so the group maps have distinct keys and the result of
`analyse` is the same for every iteration order of the two group maps -/
theorem T17_lo_order (W kGraph nSamples mNum mDen ik maxDepth : Nat) (a : Arr)
    (starts ends : List Nat)
    (hid : identifyGoodKmers W kGraph (buildGraph W a).1 (buildGraph W a).2 = some (starts, ends))
    (gr' : Groups)
    (hs : (buildVariantGroups W kGraph (buildGraph W a).1 starts ends maxDepth).snpGroups.Perm gr'.snpGroups)
    (hi : (buildVariantGroups W kGraph (buildGraph W a).1 starts ends maxDepth).indelGroups.Perm gr'.indelGroups) :
    starts.Nodup ∧
    analyse W kGraph nSamples mNum mDen ik (buildGraph W a).2
        (buildVariantGroups W kGraph (buildGraph W a).1 starts ends maxDepth) =
      analyse W kGraph nSamples mNum mDen ik (buildGraph W a).2 gr' := by
  have hst := LOP.identifyGoodKmers_nodup W kGraph _ _ starts ends hid (LOP.buildGraph_keys_nodup W a)
  exact ⟨hst, T17_pipeline_order W kGraph nSamples mNum mDen ik maxDepth _ _ starts ends hst gr' hs hi⟩

/-! ### 3. indel records are genotyped from the colours -/

/-- allele 0 (insert `i0`, samples `s0`) is the one reported as REF: it is carried by more samples,
or by as many and its insert is not the bytewise larger one -/
def RefIsFirst (i0 i1 : List UInt8) (s0 s1 : List Nat) : Prop :=
  s1.eraseDups.length < s0.eraseDups.length ∨
    (s0.eraseDups.length = s1.eraseDups.length ∧ bytesLt i1 i0 = false)

/-- record `r` genotypes the two alleles (`i0` carried by the samples `s0`, `i1` by `s1`) over `n`
samples: REF/ALT are the two inserts, sample `i` is called "0" iff it carries only REF, "1" iff only
ALT, "0/1" iff both, "." iff neither; the both-or-neither samples are at most the allowed fraction,
and a pure REF and a pure ALT sample exist -/
def Genotyped (n mNum mDen : Nat) (i0 i1 : List UInt8) (s0 s1 : List Nat) (r : IndelRec) : Prop :=
  ∃ (refI altI : List UInt8) (refS altS : List Nat),
    ((RefIsFirst i0 i1 s0 s1 ∧ (refI, altI, refS, altS) = (i0, i1, s0, s1)) ∨
     (¬ RefIsFirst i0 i1 s0 s1 ∧ (refI, altI, refS, altS) = (i1, i0, s1, s0))) ∧
    r.ref = refI ∧ r.alt = altI ∧ r.calls.length = n ∧
    (∀ i, i < n → ∃ g, r.calls[i]? = some g ∧
      (g = "0" ↔ i ∈ refS ∧ i ∉ altS) ∧ (g = "1" ↔ i ∉ refS ∧ i ∈ altS) ∧
      (g = "0/1" ↔ i ∈ refS ∧ i ∈ altS) ∧ (g = "." ↔ i ∉ refS ∧ i ∉ altS)) ∧
    ratioLe ((List.range n).filter
      (fun i => decide ((i ∈ refS ∧ i ∈ altS) ∨ (i ∉ refS ∧ i ∉ altS)))).length n mNum mDen = true ∧
    (∃ i, i < n ∧ r.calls[i]? = some "0") ∧ (∃ i, i < n ∧ r.calls[i]? = some "1")

theorem genotyped_of_lop {n mNum mDen : Nat} {i0 i1 : List UInt8} {s0 s1 : List Nat} {r : IndelRec}
    (h : LOP.Genotyped n mNum mDen i0 i1 s0 s1 r) : Genotyped n mNum mDen i0 i1 s0 s1 r := by
  obtain ⟨href, halt, hlen, hcalls, hmiss, ⟨p0, hp0, hp0a, hp0b⟩, ⟨p1, hp1, hp1a, hp1b⟩⟩ := h
  cases hb : LOP.refFirst i0 i1 s0 s1 with
  | true =>
    have hF : RefIsFirst i0 i1 s0 s1 := by
      unfold LOP.refFirst LOP.card at hb
      unfold RefIsFirst
      exact of_decide_eq_true hb
    simp only [hb, if_true] at href halt hcalls
    refine ⟨i0, i1, s0, s1, Or.inl ⟨hF, rfl⟩, href, halt, hlen, hcalls, hmiss, ?_, ?_⟩
    · obtain ⟨g, hg, g0, _, _, _⟩ := hcalls p0 hp0
      exact ⟨p0, hp0, by rw [hg, g0.mpr ⟨hp0a, hp0b⟩]⟩
    · obtain ⟨g, hg, _, g1, _, _⟩ := hcalls p1 hp1
      exact ⟨p1, hp1, by rw [hg, g1.mpr ⟨hp1a, hp1b⟩]⟩
  | false =>
    have hF : ¬ RefIsFirst i0 i1 s0 s1 := by
      intro hF
      have : LOP.refFirst i0 i1 s0 s1 = true := by
        unfold LOP.refFirst LOP.card
        unfold RefIsFirst at hF
        exact decide_eq_true hF
      rw [hb] at this
      exact Bool.false_ne_true this
    simp only [hb, Bool.false_eq_true, if_false] at href halt hcalls
    have hfun : (fun i => decide ((i ∈ s1 ∧ i ∈ s0) ∨ (i ∉ s1 ∧ i ∉ s0))) =
        (fun i => decide ((i ∈ s0 ∧ i ∈ s1) ∨ (i ∉ s0 ∧ i ∉ s1))) := by
      funext i
      apply decide_eq_decide.mpr
      constructor
      · rintro (⟨a, b⟩ | ⟨a, b⟩)
        · exact Or.inl ⟨b, a⟩
        · exact Or.inr ⟨b, a⟩
      · rintro (⟨a, b⟩ | ⟨a, b⟩)
        · exact Or.inl ⟨b, a⟩
        · exact Or.inr ⟨b, a⟩
    refine ⟨i1, i0, s1, s0, Or.inr ⟨hF, rfl⟩, href, halt, hlen, ?_, ?_, ?_, ?_⟩
    · intro i hi
      obtain ⟨g, hg, g0, g1, g01, gd⟩ := hcalls i hi
      refine ⟨g, hg, g0, g1, ?_, ?_⟩
      · rw [g01]; exact and_comm
      · rw [gd]; exact and_comm
    · rw [hfun]; exact hmiss
    · obtain ⟨g, hg, g0, _, _, _⟩ := hcalls p1 hp1
      exact ⟨p1, hp1, by rw [hg, g0.mpr ⟨hp1b, hp1a⟩]⟩
    · obtain ⟨g, hg, _, g1, _, _⟩ := hcalls p0 hp0
      exact ⟨p0, hp0, by rw [hg, g1.mpr ⟨hp0b, hp0a⟩]⟩

/-- the group record handed to `dereplicate` for one entry of the indel map -/
abbrev toGroup (kv : (Nat × Nat) × List Variant) : IndelGroup :=
  { entry := kv.1.1, exit := kv.1.2, len := (kv.2.map (·.1.length)).sum }

/-- **T18_indel_records** (general form, groups with any number of paths): the extremities are those
of the de-replication; every record comes from a kept group, whose paths `vs` are the entry of the
indel map at its key; with `sets` the colour sets of the paths that have one (in path order), the
record genotypes insert 0 with `sets[0]` and insert 1 with `sets[1]`; conversely every kept group
yields a record or is filtered out.
When a group has more than two paths or a path without colours, `sets[0]`, `sets[1]` need not be the
colours of paths 0 and 1 (see the counterexample below); `T18_indel_records_two` is the statement
for groups of exactly two paths, which is what `buildVariantGroups` produces (`T17_groups`). -/
theorem T18_indel_records (W kGraph n mNum mDen : Nat) (col : Colours)
    (ig : List ((Nat × Nat) × List Variant)) (recs : List IndelRec) (ext : List Nat)
    (h : processIndels W kGraph n mNum mDen col ig = some (recs, ext)) :
    ext = (dereplicate W kGraph (ig.map toGroup)).2 ∧
    (∀ r ∈ recs, ∃ kg ∈ (dereplicate W kGraph (ig.map toGroup)).1, ∃ (vs : List Variant) (s0 s1 : List Nat),
      Assoc.lookup ig (kg.entry, kg.exit) = some vs ∧ ((kg.entry, kg.exit), vs) ∈ ig ∧
      (vs.filterMap (fun v => Assoc.lookup col (encodeKmer W (v.1.take (kGraph + 1)))))[0]? = some s0 ∧
      (vs.filterMap (fun v => Assoc.lookup col (encodeKmer W (v.1.take (kGraph + 1)))))[1]? = some s1 ∧
      r.before = ((vs.map (·.1)).headD []).take kGraph ∧
      r.after = (extractMiddleBases (vs.map (·.1)) kGraph).2 ∧
      Genotyped n mNum mDen ((extractMiddleBases (vs.map (·.1)) kGraph).1.getD 0 [])
        ((extractMiddleBases (vs.map (·.1)) kGraph).1.getD 1 []) s0 s1 r) ∧
    (∀ kg ∈ (dereplicate W kGraph (ig.map toGroup)).1, ∃ o,
      LOP.recOf W kGraph n mNum mDen col ((Assoc.lookup ig (kg.entry, kg.exit)).getD []) = some o ∧
      ∀ r, o = some r → r ∈ recs) := by
  obtain ⟨he, hr, hk⟩ := LOP.processIndels_spec W kGraph n mNum mDen col ig recs ext h
  refine ⟨he, ?_, hk⟩
  intro r hrm
  obtain ⟨kg, hkg, hrec⟩ := hr r hrm
  obtain ⟨vs, hvs, hmem⟩ := LOP.kept_lookup W kGraph ig kg hkg
  rw [hvs, Option.getD_some] at hrec
  obtain ⟨s0, s1, h0, h1, hb, ha, hg⟩ := LOP.recOf_spec W kGraph n mNum mDen col vs r hrec
  exact ⟨kg, hkg, vs, s0, s1, hvs, hmem, h0, h1, hb, ha, genotyped_of_lop hg⟩

/-- **T18_indel_records_two**: when every indel group has exactly two paths (as `buildVariantGroups`
guarantees), every record `r` comes from a kept group whose two paths `v0`, `v1` both have a colour
set (`s0`, `s1`, looked up by their first k-mer), `before` is the shared first (k-1)-mer, `after` the
shared last k-mer of `extractMiddleBases`, REF/ALT are the two inserts, and the genotype strings say
exactly which of the two paths each sample carries: no sample is genotyped for an allele it does
not carry. -/
theorem T18_indel_records_two (W kGraph n mNum mDen : Nat) (col : Colours)
    (ig : List ((Nat × Nat) × List Variant)) (recs : List IndelRec) (ext : List Nat)
    (h2 : ∀ kv ∈ ig, kv.2.length = 2)
    (h : processIndels W kGraph n mNum mDen col ig = some (recs, ext)) :
    ext = (dereplicate W kGraph (ig.map toGroup)).2 ∧
    ∀ r ∈ recs, ∃ kg ∈ (dereplicate W kGraph (ig.map toGroup)).1,
      ∃ (v0 v1 : Variant) (s0 s1 : List Nat) (i0 i1 : List UInt8),
        Assoc.lookup ig (kg.entry, kg.exit) = some [v0, v1] ∧
        Assoc.lookup col (encodeKmer W (v0.1.take (kGraph + 1))) = some s0 ∧
        Assoc.lookup col (encodeKmer W (v1.1.take (kGraph + 1))) = some s1 ∧
        (extractMiddleBases [v0.1, v1.1] kGraph).1 = [i0, i1] ∧
        r.before = v0.1.take kGraph ∧
        r.after = (extractMiddleBases [v0.1, v1.1] kGraph).2 ∧
        Genotyped n mNum mDen i0 i1 s0 s1 r := by
  obtain ⟨he, hr, _⟩ := LOP.processIndels_spec W kGraph n mNum mDen col ig recs ext h
  refine ⟨he, ?_⟩
  intro r hrm
  obtain ⟨kg, hkg, hrec⟩ := hr r hrm
  obtain ⟨vs, hvs, hmem⟩ := LOP.kept_lookup W kGraph ig kg hkg
  rw [hvs, Option.getD_some] at hrec
  have hlen := h2 _ hmem
  match vs, hlen with
  | [v0, v1], _ =>
    obtain ⟨s0, s1, h0, h1, hb, ha, i0, i1, hi, hg⟩ := LOP.recOf_two W kGraph n mNum mDen col v0 v1 r hrec
    exact ⟨kg, hkg, v0, v1, s0, s1, i0, i1, hvs, h0, h1, hi, hb, ha, genotyped_of_lop hg⟩

/-! ### 4. classification of the groups -/

/-- **T17_groups**: every indel group has exactly two variants, of different sequence length, one of
them at most `2 * kGraph` long; every SNP group has at least two variants; no key is in both maps -/
theorem T17_groups (W kGraph : Nat) (g0 : Graph) (starts ends : List Nat) (maxDepth : Nat) :
    (∀ kv ∈ (buildVariantGroups W kGraph g0 starts ends maxDepth).indelGroups,
      ∃ v0 v1 : Variant, kv.2 = [v0, v1] ∧ v0.1.length ≠ v1.1.length ∧
        (v0.1.length ≤ 2 * kGraph ∨ v1.1.length ≤ 2 * kGraph)) ∧
    (∀ kv ∈ (buildVariantGroups W kGraph g0 starts ends maxDepth).snpGroups, 2 ≤ kv.2.length) ∧
    (∀ kv ∈ (buildVariantGroups W kGraph g0 starts ends maxDepth).snpGroups,
      ∀ kv' ∈ (buildVariantGroups W kGraph g0 starts ends maxDepth).indelGroups, kv.1 ≠ kv'.1) := by
  rw [LOP.buildVariantGroups_eq]
  refine ⟨?_, ?_, ?_⟩
  · intro kv hkv
    exact LOP.clsIndel_spec kGraph kv.2 (List.mem_filter.mp hkv).2
  · intro kv hkv
    exact LOP.clsSnp_spec kv.2 (List.mem_filter.mp hkv).2
  · intro kv hkv kv' hkv' heq
    obtain ⟨hm, hc⟩ := List.mem_filter.mp hkv
    obtain ⟨hm', hc'⟩ := List.mem_filter.mp hkv'
    have := LOP.built_key_unique W kGraph g0 starts ends maxDepth kv kv' hm hm' heq
    subst this
    have hd := LOP.cls_disjoint kGraph kv.2 hc
    rw [hd] at hc'
    exact Bool.false_ne_true hc'

/-- the indel groups of `buildVariantGroups` satisfy the hypothesis of `T18_indel_records_two` -/
theorem T17_groups_two (W kGraph : Nat) (g0 : Graph) (starts ends : List Nat) (maxDepth : Nat) :
    ∀ kv ∈ (buildVariantGroups W kGraph g0 starts ends maxDepth).indelGroups, kv.2.length = 2 := by
  intro kv hkv
  obtain ⟨v0, v1, h, _⟩ := (T17_groups W kGraph g0 starts ends maxDepth).1 kv hkv
  rw [h]; rfl

/-! ### non-vacuity -/

/-- an SNP bubble  A[C|G]A  over two samples (k-1 = 1): one column "CG" -/
def exCol : Colours := [(1, [0]), (3, [1])]
def exGr : Groups :=
  { snpGroups := [((1, 2), [([65, 67, 65], [1]), ([65, 71, 65], [1])])], indelGroups := [] }

theorem ex_analyse : analyse 64 1 2 0 1 5 exCol exGr = some ([[67, 71]], []) := by
  have hnil : processIndels 64 1 2 0 1 exCol [] = some ([], []) := by
    rw [LOP.processIndels_eq]
    simp [dereplicate]
  unfold analyse
  simp only [exGr, hnil, List.map_cons, List.map_nil, List.mergeSort_singleton]
  decide

/-- `T17_columns_wf` applies to a run that emits a column -/
example : ∀ c ∈ [([67, 71] : List UInt8)], c.length = 2 ∧ (checkMissingData c).1 = true ∧
    ratioLe (checkMissingData c).2 2 0 1 = true :=
  T17_columns_wf 64 1 2 0 1 5 exCol exGr _ _ ex_analyse

/-- `T17_analyse_order`: two SNP groups and two indel groups in both orders -/
example :
    let a : (Nat × Nat) × List Variant := ((1, 2), [([65, 67, 65], [1]), ([65, 71, 65], [1])])
    let b : (Nat × Nat) × List Variant := ((5, 2), [([67, 67, 65], [1]), ([67, 71, 65], [1])])
    let c : (Nat × Nat) × List Variant := ((7, 9), [([65, 67, 65], []), ([65, 65], [])])
    let d : (Nat × Nat) × List Variant := ((8, 9), [([67, 67, 65], []), ([67, 65], [])])
    analyse 64 1 2 0 1 5 exCol { snpGroups := [a, b], indelGroups := [c, d] } =
      analyse 64 1 2 0 1 5 exCol { snpGroups := [b, a], indelGroups := [d, c] } := by
  intro a b c d
  exact T17_analyse_order 64 1 2 0 1 5 exCol _ _ (List.Perm.swap _ _ _) (List.Perm.swap _ _ _)
    (by decide) (by decide)

/-- an indel bubble  A[C|-]A  over three samples: path 0 carried by samples 0 and 2, path 1 by 1 -/
def exColI : Colours := [(1, [0, 2]), (0, [1])]
def exIg : List ((Nat × Nat) × List Variant) := [((7, 9), [([65, 67, 65], []), ([65, 65], [])])]

theorem ex_processIndels : processIndels 64 1 3 0 1 exColI exIg =
    some ([{ ref := [67], alt := [45], before := [65], after := [65], calls := ["0", "1", "0"] }],
      [7, 1, 9, 3]) := by
  have hd : dereplicate 64 1 (exIg.map LOP.toGroup) = ([⟨7, 9, 5⟩], [7, 1, 9, 3]) := by
    simp only [exIg, List.map_cons, List.map_nil, dereplicate, List.mergeSort_singleton]
    decide
  rw [LOP.processIndels_eq, hd]
  simp only [List.mergeSort_singleton]
  decide

/-- `T18_indel_records_two` applies to it -/
example := T18_indel_records_two 64 1 3 0 1 exColI exIg _ _ (by decide) ex_processIndels

/-- counterexample to the two-path reading of `T18_indel_records` for a group with three paths, the
first without colours: REF "G" (insert of path 0, which no sample carries) is genotyped with the
samples of path 1 (insert "C"), so samples 0 and 2 are called for an allele they do not carry.
`buildVariantGroups` never produces such a group (`T17_groups`). -/
example : processIndels 64 1 3 0 1 exColI
      [((7, 9), [([65, 71, 65], []), ([65, 67, 65], []), ([65, 65], [])])] =
    some ([{ ref := [71], alt := [67], before := [65], after := [65], calls := ["0", "1", "0"] }],
      [7, 1, 9, 3]) := by
  have hd : dereplicate 64 1
      (([((7, 9), [([65, 71, 65], []), ([65, 67, 65], []), ([65, 65], [])])] :
        List ((Nat × Nat) × List Variant)).map LOP.toGroup) = ([⟨7, 9, 8⟩], [7, 1, 9, 3]) := by
    simp only [List.map_cons, List.map_nil, dereplicate, List.mergeSort_singleton]
    decide
  rw [LOP.processIndels_eq, hd]
  simp only [List.mergeSort_singleton]
  decide

/-- `T17_groups`: a graph with an indel bubble (entry 4, exit 10) and an SNP bubble (entry 15, exit 13) -/
def exGraph : Graph :=
  [(4, [1, 2]), (1, [6]), (6, [10]), (2, [10]), (15, [12, 14]), (12, [3]), (14, [11]), (3, [13]), (11, [13])]

example : (buildVariantGroups 64 2 exGraph [4, 15] [10, 13] 4).snpGroups =
      [((15, 13), [([71, 71, 65, 71, 67], [2, 2]), ([71, 71, 84, 71, 67], [2, 2])])] ∧
    (buildVariantGroups 64 2 exGraph [4, 15] [10, 13] 4).indelGroups =
      [((4, 10), [([67, 65, 67, 84, 84], [2, 2]), ([67, 65, 84, 84], [2, 1])])] := by decide

/-- `T17_lo_order`: a merged table of two samples (CACT and CAGT, k = 3) whose graph has the entry
node CA -/
def exArr : Arr :=
  { k := 3, rc := true, names := ["a", "b"], kmers := [2, 5, 7],
    variants := [[67, 71], [65, 45], [45, 65]], counts := [2, 1, 1], kBits := 64 }

example : identifyGoodKmers 64 2 (buildGraph 64 exArr).1 (buildGraph 64 exArr).2 = some ([4], [11]) := by
  decide

end SkaModel.Props.C17P
