/-
C03 — Reference-free alignment recovers exactly the true SNP columns.
`T03_table_shape`, `T03_equal_lengths`: shape facts valid for every table.
`T03_align_single`, `T03_column_true_base`, `T03_equal_lengths_names`: the recovery
theorem for single-contig samples (definitions in `Lemmas/SNP.lean`).
`weak_repeatFree_counterexample`: why repeat-freeness must be stated on both strands.
`T03_align_contigs`, `T03_align`: several contigs per sample, given in any order, on either
strand and in any letter case (definitions in `Lemmas/SNPMulti.lean`, presentation
invariance from C02).
-/
import SkaModel.Spec.BuildTable
import SkaModel.Spec.Abs
import SkaModel.Lemmas.SNPMulti
import SkaModel.Props.C02

namespace SkaModel.Props.C03

open SkaModel SkaModel.Spec

/-- every row of the joint-build table has one cell per sample, names are the inputs' -/
theorem T03_table_shape (k : Nat) (rc : Bool) (names : List String) (samples : List (List (Array UInt8))) :
    (specTable k rc names samples).names = names ∧
    ∀ r ∈ (specTable k rc names samples).rows, r.2.length = samples.length := by
  refine ⟨rfl, ?_⟩
  intro r hr
  simp only [specTable, List.mem_map] at hr
  obtain ⟨key, _, rfl⟩ := hr
  simp

/-- all output sequences of `align` have the same length: the number of emitted columns -/
theorem T03_equal_lengths (tb : Table) (t : Nat) (famb : Bool) (ft : Table.SiteFilter) (mask gaps : Bool) (i j : Nat) :
    ((tb.alignColumns t famb ft mask gaps).map (fun col => col.getD i gap)).length
      = ((tb.alignColumns t famb ft mask gaps).map (fun col => col.getD j gap)).length := by
  simp

/-! ## Recovery of the true SNP columns (single-contig samples)

Setting (`Lemmas/SNP.lean`): `S` is a list of samples, each one record of length `L` over
upper-case A, C, G, T (`SNP.Family L S`). `SNP.varSites L S` are the positions at which two
samples differ. `SNP.RepeatFree k rc L S`: equal split k-mer keys occur only at equal
window coordinates *and with equal arms* (unique on both strands), and no window is its own
reverse complement. `SNP.Isolated k L S`: every variable site is at least `h = (k-1)/2`
from both ends and more than `h` from every other variable site. Each of the three has a
`Bool` checker (`familyB`, `repeatFreeB`, `isolatedB`) with an `_iff` theorem.

Neither `h ≥ 1` nor `n ≥ 2` is needed (for `n ≤ 1` both sides are empty). -/

open SkaModel.SNP

/-- **C03, single contig.** `ska align --min-freq 1 --filter no-const` on the joint build of
the family outputs, up to the order of the columns, exactly one column per variable site `p`
-- the row of the window centred on `p`, holding for each sample the base the iterator
reports for it -- and no other column. -/
theorem T03_align_single {k L : Nat} {rc : Bool} (names : List String) {S : List (Array UInt8)}
    (hk : k % 2 = 1) (hF : Family L S) (hR : RepeatFree k rc L S) (hI : Isolated k L S) :
    ((specTable k rc names (S.map fun s => [s])).alignColumns S.length false .noConst false false).Perm
      ((varSites L S).map fun p => S.map fun s => decodeBase (obs k rc s (p - (k - 1) / 2)).2.1) := by
  rw [alignColumns_eq]
  exact passing_rows_perm hF hk hR hI

/-- the column of a variable site `p`: all samples were read on the same strand there
(flag `f`); the column holds each sample's true base at `p` when `f = false` and the
complement of each sample's true base when `f = true` -/
theorem T03_column_strand {k L : Nat} {rc : Bool} {S : List (Array UInt8)}
    (hk : k % 2 = 1) (hI : Isolated k L S) {p : Nat} (hp : p ∈ varSites L S) :
    ∃ f : Bool, (∀ s ∈ S, (obs k rc s (p - (k - 1) / 2)).2.2 = f) ∧
      (S.map fun s => decodeBase (obs k rc s (p - (k - 1) / 2)).2.1)
        = S.map fun s => decodeBase
            (if f then code (s.getD p 0) ^^^ 2 else code (s.getD p 0)) := by
  obtain ⟨s0, hs0, _⟩ := varSite_true.mp (mem_varSites.mp hp).2
  have hflag : ∀ s ∈ S, (obs k rc s (p - (k - 1) / 2)).2.2 = (obs k rc s0 (p - (k - 1) / 2)).2.2 :=
    fun s hs => (obs_of_arms_eq (arms_agree hI hp hs hs0)).2.1
  refine ⟨_, hflag, ?_⟩
  apply List.map_congr_left
  intro s hs
  rw [obs_mid, hflag s hs]
  unfold midAt
  rw [(window_of_site hk hI hp).2]

/-- **C03, the bases.** The column of a variable site is the list of the samples' true
bases there, or the list of their complements -- the same choice for every sample. -/
theorem T03_column_true_base {k L : Nat} {rc : Bool} {S : List (Array UInt8)}
    (hk : k % 2 = 1) (hI : Isolated k L S) {p : Nat} (hp : p ∈ varSites L S) :
    (S.map fun s => decodeBase (obs k rc s (p - (k - 1) / 2)).2.1)
        = S.map (fun s => decodeBase (code (s.getD p 0))) ∨
    (S.map fun s => decodeBase (obs k rc s (p - (k - 1) / 2)).2.1)
        = S.map (fun s => decodeBase (code (s.getD p 0) ^^^ 2)) := by
  obtain ⟨f, _, h⟩ := T03_column_strand (rc := rc) hk hI hp
  cases f with
  | false => exact Or.inl (by simpa using h)
  | true => exact Or.inr (by simpa using h)

/-- `decodeBase (code b)` is the byte itself: in the first case of `T03_column_true_base`
the column is literally the bytes of the samples at `p` -/
theorem T03_true_base_bytes {L : Nat} {S : List (Array UInt8)} (hF : Family L S) {p : Nat}
    (hp : p < L) :
    S.map (fun s => decodeBase (code (s.getD p 0))) = S.map (fun s => s.getD p 0) := by
  apply List.map_congr_left
  intro s hs
  exact decode_code (hF.acgt s hs p hp)

/-- on one strand (`rc = false`) the column is always the list of true bases -/
theorem T03_column_true_base_fwd {k L : Nat} {S : List (Array UInt8)}
    (hk : k % 2 = 1) (hI : Isolated k L S) {p : Nat} (hp : p ∈ varSites L S) :
    (S.map fun s => decodeBase (obs k false s (p - (k - 1) / 2)).2.1)
        = S.map (fun s => decodeBase (code (s.getD p 0))) := by
  obtain ⟨f, hf, h⟩ := T03_column_strand (rc := false) hk hI hp
  obtain ⟨s0, hs0, _⟩ := varSite_true.mp (mem_varSites.mp hp).2
  have : f = false := by
    rw [← hf s0 hs0]
    simp [obs]
  subst this
  simpa using h

/-- **C03, shape.** Every output sequence (sample `i` read across the emitted columns) has
length `|V|`; every column has one entry per sample; the names are the input names in input
order. -/
theorem T03_equal_lengths_names {k L : Nat} {rc : Bool} (names : List String)
    {S : List (Array UInt8)}
    (hk : k % 2 = 1) (hF : Family L S) (hR : RepeatFree k rc L S) (hI : Isolated k L S) :
    let tb := specTable k rc names (S.map fun s => [s])
    tb.names = names ∧
    (∀ i, ((tb.alignColumns S.length false .noConst false false).map
        (fun col => col.getD i gap)).length = (varSites L S).length) ∧
    (∀ col ∈ tb.alignColumns S.length false .noConst false false, col.length = S.length) := by
  intro tb
  have hperm := T03_align_single names hk hF hR hI
  refine ⟨rfl, ?_, ?_⟩
  · intro i
    rw [List.length_map, hperm.length_eq, List.length_map]
  · intro col hcol
    have := hperm.mem_iff.mp hcol
    obtain ⟨p, _, rfl⟩ := List.mem_map.mp this
    simp

/-! ## Uniqueness of the keys alone is not enough on both strands

`SNP.RepeatFreeWeak` only asks that equal keys occur at equal coordinates. With `rc = true`
that is too weak: two substitutions `k - 1` apart (which `Isolated` allows, `k - 1 > h`) can
turn a window `x·w·m·w'·y` of one sample into the reverse complement of the same window of
another sample; both samples then store the same canonical key at the same coordinate,
but read on opposite strands, and the row shows `m` against its complement: a column
for a site at which no sample differs. -/

/-- `ACAAGTCAA` and `ACGAGTTAA`: substitutions at 2 and 6; `AAGTC` reverse-complemented is
`GACTT`, so window 2 of the second sample (`GAGTT`, arms `GA·TT`) is the reverse complement
of the arms `AA·TC` of the first -/
def cexS : List (Array UInt8) :=
  [#[65, 67, 65, 65, 71, 84, 67, 65, 65], #[65, 67, 71, 65, 71, 84, 84, 65, 65]]

/-- all hypotheses of `T03_align_single` hold with `RepeatFreeWeak` in place of `RepeatFree`,
there are two variable sites, and three columns come out; the middle one, `G`/`C`, belongs to
position 4 where both samples have `G` -/
theorem weak_repeatFree_counterexample :
    Family 9 cexS ∧ RepeatFreeWeak 5 true 9 cexS ∧ Isolated 5 9 cexS ∧
    varSites 9 cexS = [2, 6] ∧
    (specTable 5 true ["a", "b"] (cexS.map fun s => [s])).alignColumns 2 false .noConst false false
      = [[65, 71], [71, 67], [71, 65]] ∧
    ¬ RepeatFree 5 true 9 cexS := by
  refine ⟨(family_iff _ _).mp (by decide), (repeatFreeWeak_iff _ _ _ _).mp (by decide),
    (isolated_iff _ _ _).mp (by decide), by decide, by decide, ?_⟩
  rw [← repeatFree_iff]
  decide

/-! ## Non-vacuity: three samples, two isolated SNPs -/

/-- `CGTTTAGCGTCCC`, `CGTATAGCGTCCC`, `CGTCTAGCGACCC` -/
def exS : List (Array UInt8) :=
  [#[67, 71, 84, 84, 84, 65, 71, 67, 71, 84, 67, 67, 67],
   #[67, 71, 84, 65, 84, 65, 71, 67, 71, 84, 67, 67, 67],
   #[67, 71, 84, 67, 84, 65, 71, 67, 71, 65, 67, 67, 67]]

theorem exS_hyps : Family 13 exS ∧ RepeatFree 5 true 13 exS ∧ Isolated 5 13 exS :=
  ⟨(family_iff _ _).mp (by decide), (repeatFree_iff _ _ _ _).mp (by decide),
    (isolated_iff _ _ _).mp (by decide)⟩

/-- the variable sites are 3 (T/A/C) and 9 (T/T/A) -/
example : varSites 13 exS = [3, 9] := by decide

/-- the table has 18 rows; `align` emits two columns: `ATG` (site 3, read on the reverse
strand: the complements of T, A, C) and `TTA` (site 9, read forward) -/
example :
    (specTable 5 true ["a", "b", "c"] (exS.map fun s => [s])).alignColumns 3 false .noConst false false
      = [[65, 84, 71], [84, 84, 65]] := by decide

/-- the instance of `T03_align_single` -/
example :
    ((specTable 5 true ["a", "b", "c"] (exS.map fun s => [s])).alignColumns 3 false .noConst false
      false).Perm
      ((varSites 13 exS).map fun p => exS.map fun s => decodeBase (obs 5 true s (p - 2)).2.1) :=
  T03_align_single (k := 5) _ (by decide) exS_hyps.1 exS_hyps.2.1 exS_hyps.2.2

/-! ## Several contigs, in any order and orientation

`A` is the family as it would be written with every sample listing its version of contig
`0, 1, …, m-1` in that order and on the same strand: `SNP.contig A c` is the single-contig
family of contig `c`, of length `L c` (`SNP.FamilyM m L A`). `SNP.RepeatFreeM`: a key occurs
in one contig only, there at one coordinate only, always with the same arms; no palindromic
window. Isolation is per contig. The variable sites are the pairs `(c, p)` with
`p ∈ varSites (L c) (contig A c)`.

`T` is what is actually fed to `ska build`: sample `i` of `T` presents sample `i` of `A`
with its records permuted, any of them reverse-complemented, any letters in lower case
(`Presents`, the transformations of C02). -/

/-- `t` lists the records of `a` in some order, each on either strand, in any letter case -/
def Presents (a t : List (Array UInt8)) : Prop :=
  ∃ a', Pointwise C02.StrandCaseVariant a a' ∧ a'.Perm t

theorem acgt_isDna {b : UInt8} (h : acgt b = true) : isDna b = true := by
  rcases acgt_cases h with rfl | rfl | rfl | rfl <;> decide

theorem isDna_of_acgt_array {r : Array UInt8} (h : ∀ p, p < r.size → acgt (r.getD p 0) = true) :
    ∀ b, b ∈ r.toList → isDna b = true := by
  intro b hb
  obtain ⟨p, hp, rfl⟩ := List.mem_iff_getElem.mp hb
  have hp' : p < r.size := by simpa using hp
  have e : r.getD p 0 = r.toList[p] := by
    rw [Array.getD_eq_getD_getElem?]
    simp [hp']
  rw [← e]
  exact acgt_isDna (h p hp')

theorem dnaInput_of_familyM {m : Nat} {L : Nat → Nat} {A : List (List (Array UInt8))}
    (hF : FamilyM m L A) {recs : List (Array UInt8)} (hrecs : recs ∈ A) : C02.DnaInput recs := by
  intro r hr
  obtain ⟨c, hc, rfl⟩ := mem_iff_getD.mp hr
  rw [hF.width recs hrecs] at hc
  have hs : recs.getD c #[] ∈ contig A c := List.mem_map.mpr ⟨recs, hrecs, rfl⟩
  have hsz := (hF.fam c hc).size _ hs
  apply isDna_of_acgt_array
  intro p hp
  exact (hF.fam c hc).acgt _ hs p (by omega)

/-- C02 at the level of observation sets: a presentation of a record list contributes the
same set of (key, middle-base set) observations -/
theorem sameObsList_of_presents {k : Nat} (hk : k % 2 = 1) {a t : List (Array UInt8)}
    (hd : C02.DnaInput a) (h : Presents a t) : SameObsList k true a t := by
  obtain ⟨a', hv, hp⟩ := h
  intro o
  rw [← (C02.T02_perm_observations k true hp).mem_iff]
  have hs : Pointwise (SameObs k true) a a' := by
    refine hv.mono_mem (fun r hmem b hab => ?_)
    obtain ⟨m, e | e⟩ := hab
    · intro o; rw [e, C02.T02_case_single]
    · intro o
      rw [e, C02.T02_case_single]
      exact sameObs_revCompSeq hk (C02.allDna_of_forall (hd _ hmem)) o
  exact (observations_mem_congr hs o).symm

/-- **C03, contig by contig** (same record order and strand in every sample; either `rc`):
one column per variable site `(c, p)`, nothing else. -/
theorem T03_align_contigs {k m : Nat} {rc : Bool} {L : Nat → Nat} (names : List String)
    {A : List (List (Array UInt8))} (hk : k % 2 = 1) (hF : FamilyM m L A)
    (hR : RepeatFreeM k rc m L A) (hI : ∀ c, c < m → Isolated k (L c) (contig A c)) :
    ((specTable k rc names A).alignColumns A.length false .noConst false false).Perm
      ((List.range m).flatMap fun c => (varSites (L c) (contig A c)).map fun p =>
        (contig A c).map fun s => decodeBase (obs k rc s (p - (k - 1) / 2)).2.1) :=
  align_contigs hF hk hR hI names

/-- **C03.** Samples derived from a common repeat-free set of contigs by isolated
substitutions, each sample giving its contigs in any order, on either strand, in any
letter case: `ska align --min-freq 1 --filter no-const` on their joint build (both strands
in use) outputs, up to column order, exactly one column per variable site `(c, p)` and no
other column. The column is the one described by `T03_column_true_base` for the family
`contig A c`: each sample's true base at `(c, p)` in the frame of `A`, or each sample's
complemented base. -/
theorem T03_align {k m : Nat} {L : Nat → Nat} (names : List String)
    {A T : List (List (Array UInt8))} (hk : k % 2 = 1) (hF : FamilyM m L A)
    (hR : RepeatFreeM k true m L A) (hI : ∀ c, c < m → Isolated k (L c) (contig A c))
    (hT : Pointwise Presents A T) :
    ((specTable k true names T).alignColumns T.length false .noConst false false).Perm
      ((List.range m).flatMap fun c => (varSites (L c) (contig A c)).map fun p =>
        (contig A c).map fun s => decodeBase (obs k true s (p - (k - 1) / 2)).2.1) := by
  have hS : Pointwise (SameObsList k true) A T :=
    hT.mono_mem (fun a ha t hat => sameObsList_of_presents hk (dnaInput_of_familyM hF ha) hat)
  rw [Pointwise.length_eq hS]
  exact (alignColumns_perm_of_sameObs hS names names A.length).trans
    (align_contigs hF hk hR hI names)

/-- shape of the output of `T03_align`: input names in input order, every sequence as long
as the number of variable sites, one entry per sample in every column -/
theorem T03_align_lengths_names {k m : Nat} {L : Nat → Nat} (names : List String)
    {A T : List (List (Array UInt8))} (hk : k % 2 = 1) (hF : FamilyM m L A)
    (hR : RepeatFreeM k true m L A) (hI : ∀ c, c < m → Isolated k (L c) (contig A c))
    (hT : Pointwise Presents A T) :
    let tb := specTable k true names T
    tb.names = names ∧
    (∀ i, ((tb.alignColumns T.length false .noConst false false).map
        (fun col => col.getD i gap)).length
        = ((List.range m).flatMap fun c => varSites (L c) (contig A c)).length) ∧
    (∀ col ∈ tb.alignColumns T.length false .noConst false false, col.length = T.length) := by
  intro tb
  have hperm := T03_align names hk hF hR hI hT
  refine ⟨rfl, ?_, ?_⟩
  · intro i
    rw [List.length_map, hperm.length_eq, List.length_flatMap, List.length_flatMap]
    simp only [List.length_map]
  · intro col hcol
    obtain ⟨c, _, hc⟩ := List.mem_flatMap.mp (hperm.mem_iff.mp hcol)
    obtain ⟨p, _, rfl⟩ := List.mem_map.mp hc
    have hS : Pointwise (SameObsList k true) A T :=
      hT.mono_mem (fun a ha t hat => sameObsList_of_presents hk (dnaInput_of_familyM hF ha) hat)
    rw [List.length_map, contig_length, Pointwise.length_eq hS]

/-! ### Non-vacuity, two contigs -/

/-- contigs `GCGAGGGGT` (site 4: G/T/G) and `TGAGGTCGTG` (site 5: T/T/C) -/
def exA : List (List (Array UInt8)) :=
  [[#[71, 67, 71, 65, 71, 71, 71, 71, 84], #[84, 71, 65, 71, 71, 84, 67, 71, 84, 71]],
   [#[71, 67, 71, 65, 84, 71, 71, 71, 84], #[84, 71, 65, 71, 71, 84, 67, 71, 84, 71]],
   [#[71, 67, 71, 65, 71, 71, 71, 71, 84], #[84, 71, 65, 71, 71, 67, 67, 71, 84, 71]]]

/-- the input: sample 2 lists its contigs in the other order, sample 3 gives contig 0
reverse-complemented (`ACCCCTCGC`) -/
def exT : List (List (Array UInt8)) :=
  [[#[71, 67, 71, 65, 71, 71, 71, 71, 84], #[84, 71, 65, 71, 71, 84, 67, 71, 84, 71]],
   [#[84, 71, 65, 71, 71, 84, 67, 71, 84, 71], #[71, 67, 71, 65, 84, 71, 71, 71, 84]],
   [#[65, 67, 67, 67, 67, 84, 67, 71, 67], #[84, 71, 65, 71, 71, 67, 67, 71, 84, 71]]]

def exL : Nat → Nat := fun c => if c = 0 then 9 else 10

theorem exA_hyps : FamilyM 2 exL exA ∧ RepeatFreeM 5 true 2 exL exA ∧
    ∀ c, c < 2 → Isolated 5 (exL c) (contig exA c) := by
  refine ⟨(familyM_iff _ _ _).mp (by decide), (repeatFreeM_iff _ _ _ _ _).mp (by decide), ?_⟩
  have h : ∀ c : Fin 2, isolatedB 5 (exL c.val) (contig exA c.val) = true := by decide
  intro c hc
  exact (isolated_iff _ _ _).mp (h ⟨c, hc⟩)

theorem exT_presents : Pointwise Presents exA exT := by
  have v : ∀ r : Array UInt8, applyCase [] r = r → C02.StrandCaseVariant r r :=
    fun r h => ⟨[], Or.inl h.symm⟩
  refine Pointwise.cons ⟨_, Pointwise.cons (v _ (by decide)) (Pointwise.cons (v _ (by decide))
    Pointwise.nil), List.Perm.refl _⟩ ?_
  refine Pointwise.cons ⟨_, Pointwise.cons (v _ (by decide)) (Pointwise.cons (v _ (by decide))
    Pointwise.nil), List.Perm.swap _ _ _⟩ ?_
  refine Pointwise.cons ⟨[#[65, 67, 67, 67, 67, 84, 67, 71, 67],
    #[84, 71, 65, 71, 71, 67, 67, 71, 84, 71]],
    Pointwise.cons ⟨[], Or.inr (by decide)⟩ (Pointwise.cons (v _ (by decide))
    Pointwise.nil), List.Perm.refl _⟩ Pointwise.nil

/-- two columns come out, `CAC` (contig 0 site 4, complemented) and `AAG` (contig 1 site 5,
complemented) -/
example : (specTable 5 true ["a", "b", "c"] exT).alignColumns 3 false .noConst false false
    = [[67, 65, 67], [65, 65, 71]] := by decide

example : ((List.range 2).flatMap fun c => (varSites (exL c) (contig exA c)).map fun p =>
    (contig exA c).map fun s => decodeBase (obs 5 true s (p - 2)).2.1)
    = [[67, 65, 67], [65, 65, 71]] := by decide

/-- the instance of `T03_align` -/
example :
    ((specTable 5 true ["a", "b", "c"] exT).alignColumns 3 false .noConst false false).Perm
      ((List.range 2).flatMap fun c => (varSites (exL c) (contig exA c)).map fun p =>
        (contig exA c).map fun s => decodeBase (obs 5 true s (p - 2)).2.1) :=
  T03_align (k := 5) _ (by decide) exA_hyps.1 exA_hyps.2.1 exA_hyps.2.2 exT_presents

end SkaModel.Props.C03
