/-
C03 — Reference-free alignment recovers exactly the true SNP columns.
First theorems; `T03_align` is being added.
-/
import SkaModel.Spec.BuildTable
import SkaModel.Spec.Abs

namespace SkaModel.Props.C03

open SkaModel SkaModel.Spec

/-- every row of the joint-build table has one cell per sample, names are the inputs' -/
theorem T03_table_shape (k : Nat) (rc : Bool) (names : List String) (samples : List (List (Array UInt8))) :
    (specTable k rc names samples).names = names ∧
    ∀ r ∈ (specTable k rc names samples).rows, r.2.length = samples.length := by
  refine ⟨rfl, ?_⟩
  intro r hr
  simp only [specTable, List.mem_map] at hr
  obtain ⟨key, _, rfl⟩ := hr
  simp

/-- all output sequences of `align` have the same length: the number of emitted columns -/
theorem T03_equal_lengths (tb : Table) (t : Nat) (famb : Bool) (ft : Table.SiteFilter) (mask gaps : Bool) (i j : Nat) :
    ((tb.alignColumns t famb ft mask gaps).map (fun col => col.getD i gap)).length
      = ((tb.alignColumns t famb ft mask gaps).map (fun col => col.getD j gap)).length := by
  simp

end SkaModel.Props.C03
