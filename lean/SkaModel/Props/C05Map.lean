/-
C05 ∘ C04 — `ska map -f vcf` carries exactly the information of `ska map -f aln` of the
specification.

`C04.T04_map_final`: the modelled pseudoalignment of sample `s` is `Spec.mapSeq …`.
`C05.T05_rel_ref` : for ANY alignment of the right width the modelled VCF records are
`Spec.vcfSpec ref aln` up to contig naming. Composition: `T05_map`.
-/
import SkaModel.Props.C04Final
import SkaModel.Props.C05

namespace SkaModel.Props.C05

open SkaModel SkaModel.Spec SkaModel.VCF SkaModel.Props.C16

/-- the specified mapped sequence is as long as the concatenated reference -/
theorem mapSeq_length (k : Nat) (rc : Bool) (dict : Nat → Option (List UInt8)) (ref : List (Array UInt8))
    (amask rmask : Bool) (s : Nat) :
    (Spec.mapSeq k rc dict ref amask rmask s).length = (ref.map (·.size)).sum := by
  unfold Spec.mapSeq
  simp only
  generalize refKeys k rc ref = keys
  induction ref with
  | nil => rfl
  | cons c ref ih =>
    rw [List.flatMap_cons, List.length_append, ih, List.map_cons, List.sum_cons, List.length_map, List.length_range]

/-- `pseudoalignment` yields one sequence per sample -/
theorem pseudoalignment_length (r : RefSka) (n : Nat) (mapped : List ((Nat × Nat) × List UInt8)) :
    (r.pseudoalignment n mapped).length = n := by
  unfold RefSka.pseudoalignment
  simp

/-- the modelled alignment, as lists, is the specified alignment of all `n` samples -/
theorem T05_map_aln (W k : Nat) (rc : Bool) (hk : ValidK k) (hw : WidthOk W k)
    (names : List String) (ref : List (Array UInt8)) (amask rmask : Bool) (r : RefSka)
    (hnew : RefSka.new W k rc names ref amask rmask = some r) (d : MDict)
    (hgs : rc = true → RM.GapSafe d) (n : Nat) :
    (r.pseudoalignment n (r.map d)).map Array.toList =
      (List.range n).map (fun s => Spec.mapSeq k rc (fun key => Assoc.lookup d.kmers key) ref amask rmask s) := by
  have hlen := pseudoalignment_length r n (r.map d)
  apply List.ext_getElem (by simp [hlen])
  intro i h1 h2
  simp only [List.length_map, hlen] at h1
  simp only [List.getElem_map, List.getElem_range]
  rw [← C04.T04_map_final W k rc hk hw names ref amask rmask r hnew d hgs n i h1]
  rw [List.getD_eq_getElem?_getD, List.getElem?_eq_getElem (by rw [hlen]; exact h1), Option.getD_some]

/-- every sequence of the modelled alignment has the width of the concatenated reference -/
theorem T05_map_width (W k : Nat) (rc : Bool) (hk : ValidK k) (hw : WidthOk W k)
    (names : List String) (ref : List (Array UInt8)) (amask rmask : Bool) (r : RefSka)
    (hnew : RefSka.new W k rc names ref amask rmask = some r) (d : MDict)
    (hgs : rc = true → RM.GapSafe d) (n : Nat) :
    ∀ s ∈ r.pseudoalignment n (r.map d), s.size = (ref.map (·.size)).sum := by
  intro s hs
  have hlen := pseudoalignment_length r n (r.map d)
  obtain ⟨i, hi, rfl⟩ := List.getElem_of_mem hs
  have hi' : i < n := by rw [hlen] at hi; exact hi
  have h := C04.T04_map_final W k rc hk hw names ref amask rmask r hnew d hgs n i hi'
  rw [List.getD_eq_getElem?_getD, List.getElem?_eq_getElem hi, Option.getD_some] at h
  rw [← Array.length_toList, h, mapSeq_length]

/-- **`T05_map`** (C05 composed with C04). For a successfully built reference (`RefSka.new … = some r`,
every contig with at least one base and without '-' bytes), every valid `k`, both widths, both strand
modes (dictionary `GapSafe` when `rc`), both masks and `n` samples: the VCF records written from the
modelled pseudoalignment, read as (contig name, 1-based position, REF, decoded genotype characters),
are exactly `Spec.vcfSpec` of the *specified* alignment `Spec.mapSeq` of the `n` samples, with contig
index `c` named `names[c]`. -/
theorem T05_map (W k : Nat) (rc : Bool) (hk : ValidK k) (hw : WidthOk W k)
    (names : List String) (ref : List (Array UInt8)) (amask rmask : Bool) (r : RefSka)
    (hnew : RefSka.new W k rc names ref amask rmask = some r) (d : MDict)
    (hgs : rc = true → RM.GapSafe d) (n : Nat)
    (hsz : ∀ c ∈ ref, 1 ≤ c.size)
    (hgap : ∀ c ∈ ref, ∀ b ∈ c.toList, b ≠ 45) :
    (RefSka.vcfRecords r (r.pseudoalignment n (r.map d))).map
        (fun rec => (rec.chrom, rec.pos, rec.ref, rec.gts.map (decodeGt rec))) =
      (vcfSpec ref ((List.range n).map
          (fun s => Spec.mapSeq k rc (fun key => Assoc.lookup d.kmers key) ref amask rmask s))).map
        (fun x => (names.getD x.1 "", x.2.1, x.2.2.1, x.2.2.2)) := by
  have hseq := T05_new_seq W k rc names ref amask rmask r hnew
  have hnames : r.chromNames = names := (C04.T04_new_fields W k rc hk hw names ref amask rmask r hnew).2.2.1
  rw [T05_rel_ref r ref _ hseq hsz hgap (T05_map_width W k rc hk hw names ref amask rmask r hnew d hgs n),
    T05_map_aln W k rc hk hw names ref amask rmask r hnew d hgs n, hnames]

end SkaModel.Props.C05
