/-
C17 / C18 — definitions for "every reported path is a real walk of the original graph"
(`SkaModel/Props/C17Paths.lean`).
-/
import SkaModel.Impl.SkaloPipe

namespace SkaModel.Props.C17G

open SkaModel SkaModel.Skalo

/-- `a → b` is an edge of the graph -/
def Edge (g : Graph) (a b : Nat) : Prop := b ∈ succs g a

/-- consecutive elements are edges -/
def Walk (g : Graph) : List Nat → Prop
  | a :: b :: rest => Edge g a b ∧ Walk g (b :: rest)
  | _ => True

/-- consecutive elements are *the only* successor: `all_kmers[a] == [b]` -/
def Chain1 (g : Graph) : List Nat → Prop
  | a :: b :: rest => Assoc.lookup g a = some [b] ∧ Chain1 g (b :: rest)
  | _ => True

/-- the interior nodes hidden behind the compacted node `a` (`[]` when `a` starts no segment) -/
def interior (comp : List (Nat × List Nat)) (a : Nat) : List Nat := (Assoc.lookup comp a).getD []

/-- the chain of original nodes an edge `a → b` of the compacted graph stands for -/
def expand (comp : List (Nat × List Nat)) (a b : Nat) : List Nat := a :: interior comp a ++ [b]

/-- `b / 4 = a % 4^(k-1)`: the last `k-1` bases of `a` are the first `k-1` bases of `b` -/
def Overlap (kGraph a b : Nat) : Prop := b / 4 = a % 4 ^ (kGraph - 1)

/-- what the path enumeration needs to know about a compacted graph `g'` with interiors `comp`
relative to the original graph `g` (established for `compactGraph` by `compactGraph_sound`) -/
structure Sound (g g' : Graph) (comp : List (Nat × List Nat)) : Prop where
  /-- every edge of `g'`, with the interior of its source spliced in, is a walk of `g` -/
  step : ∀ a b, Edge g' a b → Walk g (expand comp a b)
  /-- a node followed by its interior is a walk of `g` -/
  inner : ∀ a, Walk g (a :: interior comp a)
  /-- a node that starts a segment has at most one successor in `g'` -/
  single : ∀ a, Assoc.lookup comp a ≠ none → ∀ b c, Edge g' a b → Edge g' a c → b = c
  /-- recorded interiors are not empty -/
  nonempty : ∀ a I, Assoc.lookup comp a = some I → I ≠ []

instance (g : Graph) (a b : Nat) : Decidable (Edge g a b) := inferInstanceAs (Decidable (b ∈ succs g a))

instance decWalk (g : Graph) : (l : List Nat) → Decidable (Walk g l)
  | [] => isTrue trivial
  | [_] => isTrue trivial
  | a :: b :: rest =>
    match (inferInstance : Decidable (Edge g a b)), decWalk g (b :: rest) with
    | isTrue h1, isTrue h2 => isTrue ⟨h1, h2⟩
    | isFalse h1, _ => isFalse (fun h => h1 h.1)
    | _, isFalse h2 => isFalse (fun h => h2 h.2)

instance decChain1 (g : Graph) : (l : List Nat) → Decidable (Chain1 g l)
  | [] => isTrue trivial
  | [_] => isTrue trivial
  | a :: b :: rest =>
    match (inferInstance : Decidable (Assoc.lookup g a = some [b])), decChain1 g (b :: rest) with
    | isTrue h1, isTrue h2 => isTrue ⟨h1, h2⟩
    | isFalse h1, _ => isFalse (fun h => h1 h.1)
    | _, isFalse h2 => isFalse (fun h => h2 h.2)

instance (k a b : Nat) : Decidable (Overlap k a b) := inferInstanceAs (Decidable (_ = _))

end SkaModel.Props.C17G

