/-
C17 "SNP calls are real" / C18 "every record describes a real difference", graph stage of
`ska lo`: every path the traversal reports is a genuine walk of the ORIGINAL (uncompacted) graph,
and the reported sequence spells the nodes of that walk.

Definitions: `SkaModel/Props/C17PathsDefs.lean` (`Edge`, `Walk`, `Chain1`, `interior`, `expand`,
`Overlap`, `Sound`).  Proofs: `SkaModel/Lemmas/LOPathWalk.lean`, `LOPathCompact.lean`,
`LOPathExplore.lean`, `LOPathGroups.lean`, `LOPathSpell.lean`, `LOPathBuild.lean`.
-/
import SkaModel.Lemmas.LOPathGroups
import SkaModel.Lemmas.LOPathSpell
import SkaModel.Lemmas.LOPathBuild

namespace SkaModel.Props.C17G

open SkaModel SkaModel.Skalo SkaModel.LOG SkaModel.Props.C16

/-! ### 1. `compactWalk` -/

/-- the walk of `compact_graph` from `s`: `s` followed by the visited nodes is a walk of `g`;
no node is visited twice; every visited node except possibly the last is neither an entry nor an
exit node; and every node of `s :: v` except the last has exactly one successor in `g`, the next
element (indexed form, and as `Chain1`); at most `fuel` nodes are visited -/
theorem compactWalk_walk (g : Graph) (starts ends : List Nat) (fuel s : Nat) :
    Walk g (s :: compactWalk g starts ends fuel s []) ∧
    (compactWalk g starts ends fuel s []).Nodup ∧
    (∀ x ∈ (compactWalk g starts ends fuel s []).dropLast, x ∉ starts ∧ x ∉ ends) ∧
    (∀ (i x y : Nat), (s :: compactWalk g starts ends fuel s [])[i]? = some x →
      (compactWalk g starts ends fuel s [])[i]? = some y → Assoc.lookup g x = some [y]) ∧
    Chain1 g (s :: compactWalk g starts ends fuel s []) ∧
    (compactWalk g starts ends fuel s []).length ≤ fuel := by
  obtain ⟨ext, h1, h2, h3, h4, h5⟩ := compactWalk_inv g starts ends fuel s []
  rw [List.nil_append] at h1
  rw [h1]
  refine ⟨walk_of_chain1 h2, by simpa using h3, h4, ?_, h2, h5⟩
  intro i x y hx hy
  rw [chain1_eq_chainR] at h2
  exact chainR_getElem? (s :: ext) i x y h2 hx (by rw [List.getElem?_cons_succ]; exact hy)

/-- the accumulator form of item 1 -/
theorem compactWalk_acc (g : Graph) (starts ends : List Nat) (fuel cur : Nat) (acc : List Nat) :
    ∃ ext, compactWalk g starts ends fuel cur acc = acc ++ ext ∧
      Chain1 g (cur :: ext) ∧ (acc.Nodup → (acc ++ ext).Nodup) ∧
      (∀ x ∈ ext.dropLast, x ∉ starts ∧ x ∉ ends) ∧ ext.length ≤ fuel :=
  compactWalk_inv g starts ends fuel cur acc

/-! ### 2. `compactSegments` -/

/-- every compacted segment `(s, v)` is the walk from `s`, has at least two nodes and starts at a
successor of an entry or exit node; the keys are distinct -/
theorem compactSegments_spec (g : Graph) (starts ends : List Nat) :
    (∀ sv ∈ compactSegments g starts ends,
      sv.2 = compactWalk g starts ends (edgeCount g + 1) sv.1 [] ∧ sv.2.length > 1 ∧
        ∃ k ∈ starts ++ ends, Edge g k sv.1) ∧
    ((compactSegments g starts ends).map (·.1)).Nodup :=
  compactSegments_inv g starts ends

/-! ### 3. the compacted graph -/

/-- the strong form: an edge `a → b` of the compacted graph is either an edge of `g` out of a
node that starts no segment, or the shortcut of the segment recorded for `a`, whose non-empty
interior followed by `b` is a chain of single-successor nodes of `g` -/
theorem compactGraph_edge_cases (g : Graph) (starts ends : List Nat) (a b : Nat)
    (h : Edge (compactGraph g starts ends).1 a b) :
    (Edge g a b ∧ Assoc.lookup (compactGraph g starts ends).2 a = none) ∨
      ∃ I, Assoc.lookup (compactGraph g starts ends).2 a = some I ∧ I ≠ [] ∧
        Chain1 g (a :: I ++ [b]) :=
  compactGraph_edge g starts ends a b h

/-- item 3 as stated: every edge of the compacted graph is an edge of `g` or stands for a real chain -/
theorem compactGraph_sound_edges (g : Graph) (starts ends : List Nat) (a b : Nat)
    (h : Edge (compactGraph g starts ends).1 a b) :
    Edge g a b ∨ ∃ I, (a, I) ∈ (compactGraph g starts ends).2 ∧ Walk g (a :: I ++ [b]) := by
  rcases compactGraph_edge g starts ends a b h with ⟨h1, _⟩ | ⟨I, h1, _, h3⟩
  · exact Or.inl h1
  · exact Or.inr ⟨I, Assoc.mem_of_lookup h1, walk_of_chain1 h3⟩

/-- in either case the expansion of the edge is a walk of `g` -/
theorem compactGraph_expand (g : Graph) (starts ends : List Nat) (a b : Nat)
    (h : Edge (compactGraph g starts ends).1 a b) :
    Walk g (expand (compactGraph g starts ends).2 a b) :=
  (compactGraph_sound g starts ends).step a b h

/-- the recorded interiors: non-empty chains of single-successor nodes that are neither entry nor
exit nodes, behind a successor of an entry or exit node -/
theorem compactGraph_interior_spec (g : Graph) (starts ends : List Nat) (a : Nat) (I : List Nat)
    (h : Assoc.lookup (compactGraph g starts ends).2 a = some I) :
    I ≠ [] ∧ Chain1 g (a :: I) ∧ I.Nodup ∧ (∀ x ∈ I, x ∉ starts ∧ x ∉ ends) ∧
      ∃ k ∈ starts ++ ends, Edge g k a :=
  compactGraph_interior g starts ends a I h

/-- `compactGraph` delivers what the path enumeration needs -/
theorem T17_compact_sound (g : Graph) (starts ends : List Nat) :
    Sound g (compactGraph g starts ends).1 (compactGraph g starts ends).2 :=
  compactGraph_sound g starts ends

/-! ### 4. `explore` -/

/-- **the main lemma**.  `vec = pre ++ cur :: interior comp cur` is the path so far: the nodes up
to the current graph-level node `cur` form a walk of `g`, and `cur` is followed by the interior of
its segment.  Then every reported `(exit, path)` has: `path` is a walk of `g`; `exit` is an exit
node; `path` extends `vec` and ends with `exit` followed by the interior of `exit`'s segment. -/
theorem explore_walk {g g' : Graph} {comp : List (Nat × List Nat)} (hs : Sound g g' comp)
    (ends : List Nat) (maxDepth fuel cur : Nat) (visited pre : List Nat) (depth : Nat)
    (hpre : Walk g (pre ++ [cur])) :
    ∀ ep ∈ explore g' comp ends maxDepth fuel cur visited (pre ++ cur :: interior comp cur) depth,
      Walk g ep.2 ∧ ep.1 ∈ ends ∧ ep.1 ∈ ep.2 ∧
      ep.2.head? = (pre ++ [cur]).head? ∧
      ∃ q, ep.2 = (pre ++ cur :: interior comp cur) ++ q ++ ep.1 :: interior comp ep.1 := by
  intro ep hep
  obtain ⟨h1, q, h2⟩ := explore_shape _ _ _ _ _ _ _ _ _ _ hep
  refine ⟨explore_walk_aux hs ends maxDepth fuel cur visited pre depth ep hpre hep, h1, ?_, ?_, q, h2⟩
  · rw [h2]; simp
  · rw [h2]
    cases pre <;> simp

/-- item 4 for the compacted graph of `compactGraph` -/
theorem explore_walk_compact (g : Graph) (starts ends : List Nat)
    (maxDepth fuel cur : Nat) (visited pre : List Nat) (depth : Nat)
    (hpre : Walk g (pre ++ [cur])) :
    ∀ ep ∈ explore (compactGraph g starts ends).1 (compactGraph g starts ends).2 ends maxDepth fuel cur
        visited (pre ++ cur :: interior (compactGraph g starts ends).2 cur) depth,
      Walk g ep.2 ∧ ep.1 ∈ ends ∧ ep.1 ∈ ep.2 ∧ ep.2.head? = (pre ++ [cur]).head? :=
  fun ep hep =>
    let ⟨a, b, c, d, _⟩ := explore_walk (compactGraph_sound g starts ends) ends maxDepth fuel cur visited
      pre depth hpre ep hep
    ⟨a, b, c, d⟩

/-- the paths from an entry node that starts no segment are walks of `g` from that node to the exit;
the exit is followed by its own interior (`[]` when the exit starts no segment) -/
theorem pathsFrom_real {g g' : Graph} {comp : List (Nat × List Nat)} (hs : Sound g g' comp)
    (ends : List Nat) (maxDepth kmer : Nat) (hk : Assoc.lookup comp kmer = none) :
    ∀ ep ∈ pathsFrom g' comp ends maxDepth kmer, ∀ p ∈ ep.2,
      Walk g p ∧ ep.1 ∈ ends ∧ ∃ q, p = kmer :: q ++ ep.1 :: interior comp ep.1 := by
  intro ep hep p hp
  obtain ⟨h1, s, q, _, h2⟩ := pathsFrom_shape (e := ep.1) (ps := ep.2) hep p hp
  exact ⟨pathsFrom_walk hs hk (e := ep.1) (ps := ep.2) hep p hp, h1,
    s :: interior comp s ++ q, by rw [h2]; simp⟩

/-! ### 5. the variant groups -/

/-- **T17 paths are real**: every variant of every reported group `((kmer, exit), variants)` is
`buildVariant` of a path that is a walk of the ORIGINAL graph `g`, starts at the entry node `kmer`
(an element of `starts`), ends at the exit node `exit` (an element of `ends`; it is the LAST node of
the path: in a reported group neither the entry nor the exit starts a compacted segment) and has
at least three nodes. -/
theorem T17_paths_real (W kGraph : Nat) (g : Graph) (starts ends : List Nat) (maxDepth : Nat) :
    ∀ grp ∈ (buildVariantGroups W kGraph g starts ends maxDepth).snpGroups ++
        (buildVariantGroups W kGraph g starts ends maxDepth).indelGroups,
      grp.1.1 ∈ starts ∧ grp.1.2 ∈ ends ∧
      ∀ var ∈ grp.2, ∃ path, var = buildVariant W kGraph starts ends grp.1.1 path ∧
        Walk g path ∧ path.head? = some grp.1.1 ∧ path.getLast? = some grp.1.2 ∧
        3 ≤ path.length := by
  intro grp hgrp
  obtain ⟨kmer, hk, hmem⟩ := buildVariantGroups_mem hgrp
  obtain ⟨h1, h2, _, _, h5⟩ := groupsFrom_real (compactGraph_sound g starts ends) hmem
  rw [h1]
  exact ⟨hk, h2, h5⟩

/-- by-product: in a reported group neither the entry nor the exit node starts a compacted segment -/
theorem T17_group_ends_plain (W kGraph : Nat) (g : Graph) (starts ends : List Nat) (maxDepth : Nat) :
    ∀ grp ∈ (buildVariantGroups W kGraph g starts ends maxDepth).snpGroups ++
        (buildVariantGroups W kGraph g starts ends maxDepth).indelGroups,
      Assoc.lookup (compactGraph g starts ends).2 grp.1.1 = none ∧
      Assoc.lookup (compactGraph g starts ends).2 grp.1.2 = none := by
  intro grp hgrp
  obtain ⟨kmer, _, hmem⟩ := buildVariantGroups_mem hgrp
  obtain ⟨h1, _, h3, h4, _⟩ := groupsFrom_real (compactGraph_sound g starts ends) hmem
  rw [h1]
  exact ⟨h3, h4⟩

/-! ### 6. the sequence spells the path -/

/-- if the nodes of the path are `kGraph`-mers (`< 4^kGraph`) and consecutive nodes overlap, the
sequence of `buildVariant` has `path.length + kGraph - 1` letters and its `i`-th window of
`kGraph` letters encodes to the `i`-th node of the path -/
theorem buildVariant_spells (W kGraph : Nat) (starts ends : List Nat) (kmer : Nat) (path : List Nat)
    (hW : 2 * (kGraph + 1) ≤ W) (hhead : path.head? = some kmer)
    (hlt : ∀ n ∈ path, n < 4 ^ kGraph)
    (hov : ∀ (i a b : Nat), path[i]? = some a → path[i + 1]? = some b → Overlap kGraph a b) :
    (buildVariant W kGraph starts ends kmer path).1.length = path.length + kGraph - 1 ∧
    ∀ (i x : Nat), path[i]? = some x →
      encodeKmer W (((buildVariant W kGraph starts ends kmer path).1.drop i).take kGraph) = x := by
  cases path with
  | nil => simp at hhead
  | cons a rest =>
    simp at hhead
    subst hhead
    rw [buildVariant_seq W kGraph starts ends a rest (hlt a (List.mem_cons_self ..)) (by omega)]
    refine ⟨?_, ?_⟩
    · simp [cseq, digs_length]; omega
    · intro i x hi
      rw [encode_window W kGraph _ (cseq_codes kGraph a rest) i (by omega)]
      cases kGraph with
      | zero =>
        have := hlt x (List.mem_of_getElem? hi)
        simp [Spec.packL] at this ⊢
        omega
      | succ m =>
        exact cseq_windows m rest a (chainR_of_getElem? _ hov) hlt i x hi

/-- **items 5 and 6 together**: if every edge of the original graph joins two overlapping
`kGraph`-mers, every reported sequence spells a walk of the original graph from the entry node
to the exit node of its group: window `i` of the sequence encodes to node `i` of the walk -/
theorem T17_paths_spelled (W kGraph : Nat) (g : Graph) (starts ends : List Nat) (maxDepth : Nat)
    (hW : 2 * (kGraph + 1) ≤ W)
    (hg : ∀ a b, Edge g a b → a < 4 ^ kGraph ∧ b < 4 ^ kGraph ∧ Overlap kGraph a b) :
    ∀ grp ∈ (buildVariantGroups W kGraph g starts ends maxDepth).snpGroups ++
        (buildVariantGroups W kGraph g starts ends maxDepth).indelGroups,
      ∀ var ∈ grp.2, ∃ path : List Nat,
        Walk g path ∧ path.head? = some grp.1.1 ∧ path.getLast? = some grp.1.2 ∧
        var.1.length = path.length + kGraph - 1 ∧
        ∀ (i x : Nat), path[i]? = some x → encodeKmer W ((var.1.drop i).take kGraph) = x := by
  intro grp hgrp var hvar
  obtain ⟨_, _, h⟩ := T17_paths_real W kGraph g starts ends maxDepth grp hgrp
  obtain ⟨path, rfl, hwalk, hhead, hlast, hlen⟩ := h var hvar
  have hch : ChainR (Edge g) path := (walk_eq_chainR g path).1 hwalk
  have hlt : ∀ n ∈ path, n < 4 ^ kGraph := by
    intro n hn
    obtain ⟨m, hm | hm⟩ := chainR_incident path hch (by omega) n hn
    · exact (hg n m hm).1
    · exact (hg m n hm).2.1
  have hov : ∀ (i a b : Nat), path[i]? = some a → path[i + 1]? = some b → Overlap kGraph a b :=
    fun i a b ha hb => (hg a b (chainR_getElem? path i a b hch ha hb)).2.2
  obtain ⟨h1, h2⟩ := buildVariant_spells W kGraph starts ends grp.1.1 path hW hhead hlt hov
  exact ⟨path, hwalk, hhead, hlast, h1, h2⟩

/-! ### 7. the graph of a table -/

/-- the edges of `build_graph` join overlapping `(k-1)`-mers, when the keys of the table are packed
split k-mers (`< 4^(k-1)`) -/
theorem buildGraph_edges_overlap (W : Nat) (a : Arr) (hk : ValidK a.k) (hw : WidthOk W a.k)
    (hkeys : ∀ key ∈ a.kmers, key < 4 ^ (a.k - 1)) :
    ∀ x y, Edge (buildGraph W a).1 x y →
      x < 4 ^ (a.k - 1) ∧ y < 4 ^ (a.k - 1) ∧ Overlap (a.k - 1) x y :=
  buildGraph_overlap W a hk hw hkeys

/-- **reported sequences are real**: for the graph of a table (valid `k`, keys below `4^(k-1)`),
whatever the entry and exit nodes, every sequence of every reported group spells a walk of the
table's graph from the group's entry node to its exit node -/
theorem T17_table_paths_spelled (W : Nat) (a : Arr) (hk : ValidK a.k) (hw : WidthOk W a.k)
    (hkeys : ∀ key ∈ a.kmers, key < 4 ^ (a.k - 1)) (starts ends : List Nat) (maxDepth : Nat) :
    ∀ grp ∈ (buildVariantGroups W (a.k - 1) (buildGraph W a).1 starts ends maxDepth).snpGroups ++
        (buildVariantGroups W (a.k - 1) (buildGraph W a).1 starts ends maxDepth).indelGroups,
      ∀ var ∈ grp.2, ∃ path : List Nat,
        Walk (buildGraph W a).1 path ∧ path.head? = some grp.1.1 ∧ path.getLast? = some grp.1.2 ∧
        var.1.length = path.length + (a.k - 1) - 1 ∧
        ∀ (i x : Nat), path[i]? = some x → encodeKmer W ((var.1.drop i).take (a.k - 1)) = x := by
  have hb := validK_bounds hk hw
  exact T17_paths_spelled W (a.k - 1) (buildGraph W a).1 starts ends maxDepth (by omega)
    (buildGraph_overlap W a hk hw hkeys)

/-! ### examples: the hypotheses are satisfiable, the conclusions are not vacuous -/

/-- a SNP bubble of 3-mers (A=0, C=1, T=2, G=3): `AACGTTGCA` / `AACCTTGCA`;
AAC=1 → ACG=7 → CGT=30 → GTT=58 → TTG=43, AAC → ACC=5 → CCT=22 → CTT=26 → TTG, TTG → TGC=45 → GCA=52 -/
def exBubble : Graph :=
  [(1, [7, 5]), (7, [30]), (30, [58]), (58, [43]), (5, [22]), (22, [26]), (26, [43]), (43, [45]), (45, [52])]

-- item 1
example : compactWalk exBubble [1] [43] 10 7 [] = [30, 58, 43] := by decide
example : Walk exBubble (7 :: compactWalk exBubble [1] [43] 10 7 []) :=
  (compactWalk_walk exBubble [1] [43] 10 7).1
example : Assoc.lookup exBubble 30 = some [58] :=
  (compactWalk_walk exBubble [1] [43] 10 7).2.2.2.1 1 30 58 (by decide) (by decide)

-- item 2
example : compactSegments exBubble [1] [43] = [(7, [30, 58, 43]), (5, [22, 26, 43])] := by decide
example : ∃ k ∈ [1] ++ [43], Edge exBubble k 7 :=
  ((compactSegments_spec exBubble [1] [43]).1 (7, [30, 58, 43]) (by decide)).2.2

-- item 3: the shortcut 7 → 43 of the compacted graph stands for the chain 7 → 30 → 58 → 43
example : compactGraph exBubble [1] [43] =
    ([(1, [7, 5]), (7, [43]), (30, []), (58, [43]), (5, [43]), (22, []), (26, [43]), (43, [45]), (45, [52])],
     [(7, [30, 58]), (5, [22, 26])]) := by decide
example : ¬ Edge exBubble 7 43 := by decide
example : expand (compactGraph exBubble [1] [43]).2 7 43 = [7, 30, 58, 43] := by decide
example : Walk exBubble (expand (compactGraph exBubble [1] [43]).2 7 43) :=
  compactGraph_expand exBubble [1] [43] 7 43 (by decide)
example : ∃ I, (7, I) ∈ (compactGraph exBubble [1] [43]).2 ∧ Walk exBubble (7 :: I ++ [43]) :=
  (compactGraph_sound_edges exBubble [1] [43] 7 43 (by decide)).resolve_left (by decide)

-- item 4: the exploration from the successor 7 of the entry node 1
example : explore (compactGraph exBubble [1] [43]).1 (compactGraph exBubble [1] [43]).2 [43] 10 12 7 [1, 7]
    ([1] ++ 7 :: interior (compactGraph exBubble [1] [43]).2 7) 0 = [(43, [1, 7, 30, 58, 43])] := by decide
example : ∀ ep ∈ explore (compactGraph exBubble [1] [43]).1 (compactGraph exBubble [1] [43]).2 [43] 10 12 7 [1, 7]
    ([1] ++ 7 :: interior (compactGraph exBubble [1] [43]).2 7) 0,
    Walk exBubble ep.2 ∧ ep.1 ∈ [43] ∧ ep.1 ∈ ep.2 ∧ ep.2.head? = ([1] ++ [7]).head? :=
  explore_walk_compact exBubble [1] [43] 10 12 7 [1, 7] [1] 0 (by decide)

-- item 5
example : (buildVariantGroups 64 3 exBubble [1] [43] 10).snpGroups =
    [((1, 43), [([65, 65, 67, 71, 84, 84, 71], [3, 3]), ([65, 65, 67, 67, 84, 84, 71], [3, 3])])] := by
  decide
example : ∃ path, (([65, 65, 67, 71, 84, 84, 71], [3, 3]) : Variant) = buildVariant 64 3 [1] [43] 1 path ∧
    Walk exBubble path ∧ path.head? = some 1 ∧ path.getLast? = some 43 ∧ 3 ≤ path.length :=
  (T17_paths_real 64 3 exBubble [1] [43] 10
    ((1, 43), [([65, 65, 67, 71, 84, 84, 71], [3, 3]), ([65, 65, 67, 67, 84, 84, 71], [3, 3])])
    (by decide)).2.2 _ (by decide)

-- item 6: AACGTTG spells AAC, ACG, CGT, GTT, TTG
example : (buildVariant 64 3 [1] [43] 1 [1, 7, 30, 58, 43]).1 = [65, 65, 67, 71, 84, 84, 71] := by decide
example : encodeKmer 64 (((buildVariant 64 3 [1] [43] 1 [1, 7, 30, 58, 43]).1.drop 2).take 3) = 30 :=
  (buildVariant_spells 64 3 [1] [43] 1 [1, 7, 30, 58, 43] (by decide) rfl (by decide)
    (fun i a b ha hb => chainR_getElem? _ i a b (by decide : ChainR (Overlap 3) [1, 7, 30, 58, 43]) ha hb)).2
    2 30 rfl
example : ∀ a b, Edge exBubble a b → a < 4 ^ 3 ∧ b < 4 ^ 3 ∧ Overlap 3 a b := by
  intro a b h
  have ha : a ∈ exBubble.map (·.1) := by
    unfold Edge succs at h
    cases hl : Assoc.lookup exBubble a with
    | none => rw [hl] at h; simp at h
    | some l => exact Assoc.mem_keys_of_lookup hl
  have : ∀ a ∈ exBubble.map (·.1), ∀ b ∈ succs exBubble a, a < 4 ^ 3 ∧ b < 4 ^ 3 ∧ Overlap 3 a b := by
    decide
  exact this a ha b h

-- item 7: one row of a table with k = 5 (arms AC / TG, cells A - R N)
example : Overlap 4 18 75 ∧ Edge (buildGraph 64
    { k := 5, rc := true, names := [], kmers := [27], variants := [[65, 45, 82, 78]], counts := [],
      kBits := 64 }).1 18 75 := by decide
example : 18 < 4 ^ (5 - 1) ∧ 75 < 4 ^ (5 - 1) ∧ Overlap (5 - 1) 18 75 :=
  buildGraph_edges_overlap 64
    { k := 5, rc := true, names := [], kmers := [27], variants := [[65, 45, 82, 78]], counts := [],
      kBits := 64 } (by unfold ValidK; decide) (by unfold WidthOk; decide) (by decide) 18 75 (by decide)

/-! ### counterexamples to stronger statements -/

/-- `pathsFrom` alone: the exit node is NOT always the last node of the path.  Here the exit 6 is also
the successor of the entry node 1, so it starts the segment 6 → 9 → 10 → 11 and is followed by its
interior 9, 10.  (Such paths never reach a reported group: their second-last nodes coincide,
`T17_paths_real`.)  The same example shows that the first successor of the entry node is never
tested for being an exit: the path 1 → 6 is not reported. -/
example : pathsFrom (compactGraph [(1, [6, 3]), (3, [6]), (6, [9]), (9, [10]), (10, [11])] [1] [6]).1
    (compactGraph [(1, [6, 3]), (3, [6]), (6, [9]), (9, [10]), (10, [11])] [1] [6]).2 [6] 10 1 =
    [(6, [[1, 3, 6, 9, 10]])] := by decide

/-- `pathsFrom` from a node that starts a segment is NOT sound: with the exit nodes 5 and 8 the entry
node 0 is a successor of the exit 5, the chain 0 → 1 → 2 → 3 is compacted to 0 → 3, and the path
0, 3, 8 reported from 0 skips the interior 1, 2: it is not a walk of the original graph.  (No group is
reported from such an entry node, since it has a single successor in the compacted graph.) -/
example : pathsFrom (compactGraph [(5, [0]), (0, [1]), (1, [2]), (2, [3]), (3, [8, 9])] [0] [5, 8]).1
    (compactGraph [(5, [0]), (0, [1]), (1, [2]), (2, [3]), (3, [8, 9])] [0] [5, 8]).2 [5, 8] 10 0 =
    [(8, [[0, 3, 8]])] ∧ ¬ Walk [(5, [0]), (0, [1]), (1, [2]), (2, [3]), (3, [8, 9])] [0, 3, 8] := by
  decide

end SkaModel.Props.C17G
