/-
C11 (offsets) — the index bookkeeping of `build_and_merge`.

`Impl/BuildAndMerge.lean` models the split tree with the Rust code's offsets: the sample
index handed to `SkaDict::new` is `position in the slice + offset`, the bottom half of a
split gets `offset`, the top half `offset + split_point`. `Impl/MergeDict.lean` has the same
tree over samples that already carry their index. Here:

* `parallelAppendOff_eq`, `T11_offsets`: the two are equal when sample `i` of the file list
  is given `idx = i` (so the offsets computed by the tree are exactly the global positions);
* `T11_threads_off`, `T02_samples_off`: hence, by `C11.T11_threads` / `C11.T02_samples`, the
  result of `buildAndMergeOff` does not depend on the thread count and column `i` is raw
  sample `i`'s dictionary.
-/
import SkaModel.Impl.BuildAndMerge
import SkaModel.Props.C11
import SkaModel.Lemmas.Offsets

namespace SkaModel.Props.C11

open SkaModel SkaModel.Assoc SkaModel.OFF

/-- `multiAppendOff` is `multiAppend` of the slice placed at `offset, offset+1, …` -/
theorem multiAppendOff_eq (k : Nat) (rc : Bool) (total offset : Nat) (files : List RawSample) :
    multiAppendOff k rc total offset files = multiAppend k rc total (idxd k rc files offset) := by
  rw [multiAppendOff, map_add_eq_idxd, Nat.zero_add]

theorem parallelAppendOff_idxd (k : Nat) (rc : Bool) (total : Nat) : ∀ (depth offset : Nat) (files : List RawSample),
    parallelAppendOff k rc total depth offset files = parallelAppend k rc total depth (idxd k rc files offset) := by
  intro depth
  induction depth with
  | zero =>
    intro offset files
    rw [parallelAppendOff, parallelAppend, multiAppendOff_eq]
  | succ depth ih =>
    intro offset files
    rw [parallelAppendOff, parallelAppend]
    simp only [length_idxd, idxd_take, idxd_drop, multiAppendOff_eq, ih]

/-- **`parallelAppendOff_eq`**: the split tree with the Rust offsets (`offset` for the bottom half,
`offset + split` for the top half) is the split tree over the samples carrying `idx = position + offset`. -/
theorem parallelAppendOff_eq (k : Nat) (rc : Bool) (total : Nat) (depth offset : Nat) (files : List RawSample) :
    parallelAppendOff k rc total depth offset files =
      parallelAppend k rc total depth (files.zipIdx.map (fun ri => ri.1.at k rc (ri.2 + offset))) := by
  rw [parallelAppendOff_idxd, map_add_eq_idxd, Nat.zero_add]

/-- the sample list `build_and_merge` effectively works on: raw sample `i` at slot `i` -/
def indexed (k : Nat) (rc : Bool) (files : List RawSample) : List SampleDict :=
  files.zipIdx.map (fun ri => ri.1.at k rc ri.2)

theorem indexed_eq_idxd (k : Nat) (rc : Bool) (files : List RawSample) : indexed k rc files = idxd k rc files 0 := rfl

theorem length_indexed (k : Nat) (rc : Bool) (files : List RawSample) : (indexed k rc files).length = files.length := by
  rw [indexed_eq_idxd, length_idxd]

theorem getElem_indexed (k : Nat) (rc : Bool) (files : List RawSample) (i : Nat) (hi : i < files.length) :
    (indexed k rc files)[i]'(by rw [length_indexed]; exact hi) = files[i].at k rc i := by
  simp only [indexed_eq_idxd]
  rw [getElem_idxd, Nat.zero_add]

/-- **`T11_offsets`**: `build_and_merge` with the offsets of the Rust code is `buildAndMerge` of the
per-sample dictionaries in which sample `i` has `idx = i`. -/
theorem T11_offsets (k : Nat) (rc : Bool) (threads : Nat) (files : List RawSample) :
    buildAndMergeOff k rc threads files =
      buildAndMerge k rc threads (files.zipIdx.map (fun ri => ri.1.at k rc ri.2)) := by
  have hlen : (files.zipIdx.map (fun ri => ri.1.at k rc ri.2)).length = files.length := length_indexed k rc files
  have hidx : files.zipIdx.map (fun ri => ri.1.at k rc ri.2) = idxd k rc files 0 := rfl
  unfold buildAndMergeOff buildAndMerge
  simp only [hlen]
  rw [hidx, parallelAppendOff_idxd, multiAppendOff_eq]

/-- what `SkaDict::new` guarantees of every input: the k-mers come from a hash map (distinct keys),
no stored letter is 0, and there is at least one k-mer (`ska build` refuses inputs without any) -/
structure RawOK (files : List RawSample) : Prop where
  keysNodup : ∀ r ∈ files, (Assoc.keys r.kmers).Nodup
  noZero : ∀ r ∈ files, ∀ kb ∈ r.kmers, kb.2 ≠ 0
  nonempty : ∀ r ∈ files, r.kmers ≠ []

/-- the indexed list is a well-formed slice (needs only `keysNodup` and `noZero`) -/
theorem indexed_sliceWF (k : Nat) (rc : Bool) {files : List RawSample}
    (hn : ∀ r ∈ files, (Assoc.keys r.kmers).Nodup) (hz : ∀ r ∈ files, ∀ kb ∈ r.kmers, kb.2 ≠ 0) :
    SliceWF k rc files.length 0 (indexed k rc files) where
  idx := by
    intro j h
    have hj : j < files.length := by rw [length_indexed] at h; exact h
    rw [getElem_indexed k rc files j hj, Nat.zero_add]
    rfl
  bound := by rw [length_indexed]; omega
  hk := by
    intro s hs
    obtain ⟨r, _, i, rfl⟩ := mem_idxd hs
    rfl
  hrc := by
    intro s hs
    obtain ⟨r, _, i, rfl⟩ := mem_idxd hs
    rfl
  keysNodup := by
    intro s hs
    obtain ⟨r, hr, i, rfl⟩ := mem_idxd hs
    exact hn r hr
  noZero := by
    intro s hs
    obtain ⟨r, hr, i, rfl⟩ := mem_idxd hs
    exact hz r hr

theorem indexed_nonempty (k : Nat) (rc : Bool) {files : List RawSample} (hne : ∀ r ∈ files, r.kmers ≠ []) :
    AllNonempty (indexed k rc files) := by
  intro s hs
  obtain ⟨r, hr, i, rfl⟩ := mem_idxd hs
  exact hne r hr

/-- `SliceWF` in the form `T11_threads`/`T02_samples` want (total = length of the indexed list) -/
theorem indexed_sliceWF' (k : Nat) (rc : Bool) {files : List RawSample} (h : RawOK files) :
    SliceWF k rc (indexed k rc files).length 0 (indexed k rc files) := by
  rw [length_indexed]
  exact indexed_sliceWF k rc h.keysNodup h.noZero

/-- **`T11_threads_off`** (thread independence, with the Rust offsets): for inputs as `SkaDict::new`
produces them, any two thread counts make `build_and_merge` succeed with dictionaries that have the
same `k`, `rc`, number of samples, names, key set and cells. -/
theorem T11_threads_off (k : Nat) (rc : Bool) {files : List RawSample} (h : RawOK files) (threads₁ threads₂ : Nat) :
    ∃ d₁ d₂, buildAndMergeOff k rc threads₁ files = .ok d₁ ∧ buildAndMergeOff k rc threads₂ files = .ok d₂ ∧
      Same d₁ d₂ := by
  rw [T11_offsets, T11_offsets]
  exact T11_threads (indexed_sliceWF' k rc h) (indexed_nonempty k rc h.nonempty) threads₁ threads₂

/-- **`T02_samples_off`** (column `i` is raw sample `i`, with the Rust offsets): for every thread count
the build succeeds, has `files.length` columns, the names in input order, cell `(key, i)` = the letter
raw sample `i` has for `key` (0 when it lacks it, 0 beyond the last column), and a row exists exactly
for the k-mers of some input. -/
theorem T02_samples_off (k : Nat) (rc : Bool) {files : List RawSample} (h : RawOK files) (threads : Nat) :
    ∃ d, buildAndMergeOff k rc threads files = .ok d ∧ d.k = k ∧ d.rc = rc ∧ d.nSamples = files.length ∧
      d.names = files.map (·.name) ∧
      (∀ i (hi : i < files.length) key, cell d key i = (Assoc.lookup files[i].kmers key).getD 0) ∧
      (∀ i key, files.length ≤ i → cell d key i = 0) ∧
      (∀ key, key ∈ Assoc.keys d.kmers ↔ ∃ r ∈ files, key ∈ Assoc.keys r.kmers) := by
  rw [T11_offsets]
  have hwf := indexed_sliceWF' k rc h
  have hne := indexed_nonempty k rc h.nonempty
  obtain ⟨d', hd', hrep⟩ := buildAndMerge_rep hwf hne threads
  obtain ⟨d, hd, hnS, hnames, hcell, hout, hkeys⟩ := T02_samples hwf hne threads
  have hdd : d' = d := by
    have := hd'.symm.trans hd
    exact Except.ok.inj this
  subst hdd
  rw [length_indexed] at hnS hout
  refine ⟨d', hd, hrep.hk, hrep.hrc, hnS, ?_, ?_, hout, ?_⟩
  · rw [hnames]
    apply List.ext_getElem (by simp [length_indexed])
    intro i h1 h2
    simp only [List.length_map, length_indexed] at h1
    simp only [List.getElem_map]
    rw [getElem_indexed k rc files i h1]
    rfl
  · intro i hi key
    rw [hcell i (by rw [length_indexed]; exact hi) key, getElem_indexed k rc files i hi]
    rfl
  · intro key
    rw [hkeys]
    constructor
    · rintro ⟨s, hs, hk⟩
      obtain ⟨r, hr, i, rfl⟩ := mem_idxd hs
      exact ⟨r, hr, hk⟩
    · rintro ⟨r, hr, hk⟩
      obtain ⟨i, hi, rfl⟩ := List.getElem_of_mem hr
      refine ⟨files[i].at k rc i, ?_, hk⟩
      rw [← getElem_indexed k rc files i hi]
      exact List.getElem_mem _

/-- both statements together: the two thread counts agree and the (common) columns are the inputs -/
theorem T11_threads_off_cols (k : Nat) (rc : Bool) {files : List RawSample} (h : RawOK files) (threads₁ threads₂ : Nat) :
    ∃ d₁ d₂, buildAndMergeOff k rc threads₁ files = .ok d₁ ∧ buildAndMergeOff k rc threads₂ files = .ok d₂ ∧
      Same d₁ d₂ ∧ d₁.names = files.map (·.name) ∧ d₂.names = files.map (·.name) ∧
      (∀ i (hi : i < files.length) key,
        cell d₁ key i = (Assoc.lookup files[i].kmers key).getD 0 ∧
        cell d₂ key i = (Assoc.lookup files[i].kmers key).getD 0) := by
  obtain ⟨d₁, h₁, -, -, -, n₁, c₁, -, -⟩ := T02_samples_off k rc h threads₁
  obtain ⟨d₂, h₂, -, -, -, n₂, c₂, -, -⟩ := T02_samples_off k rc h threads₂
  obtain ⟨e₁, e₂, g₁, g₂, hs⟩ := T11_threads_off k rc h threads₁ threads₂
  have : e₁ = d₁ := Except.ok.inj (g₁.symm.trans h₁)
  subst this
  have : e₂ = d₂ := Except.ok.inj (g₂.symm.trans h₂)
  subst this
  exact ⟨e₁, e₂, h₁, h₂, hs, n₁, n₂, fun i hi key => ⟨c₁ i hi key, c₂ i hi key⟩⟩

/-! ### sanity checks (closed terms) -/

private def exRaw : List RawSample :=
  (List.range 25).map (fun i => { name := s!"s{i}", kmers := [(i, 1), (i + 1, 2), (100, 4)] })

example : (buildAndMergeOff 31 true 8 exRaw |>.toOption.map (·.names)) =
    (buildAndMerge 31 true 8 (indexed 31 true exRaw) |>.toOption.map (·.names)) := by decide +kernel

end SkaModel.Props.C11
