/-
C13 — property theorems (see DESIGN.md §7 C13). First theorems; the refinement
theorems are being added.
-/
import SkaModel.Spec.Abs

namespace SkaModel.Props.C13

open SkaModel SkaModel.Spec

/-- weeding never changes the sample names, k or strand mode -/
theorem T13_names (a : Arr) (ks : List Nat) (rev : Bool) :
    (a.weed ks rev).names = a.names ∧ (a.weed ks rev).k = a.k ∧ (a.weed ks rev).rc = a.rc := by
  simp [Arr.weed]

end SkaModel.Props.C13
