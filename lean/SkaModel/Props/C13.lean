/-
C13 — `ska weed` removes exactly the rows whose split k-mer is in the weed set
(or, with `--reverse`, keeps exactly those), and touches nothing else
(see DESIGN.md §7 C13).

* `T13_exact`  refinement: `abs (weed a) = Table.weed (abs a)`, shape invariant, counts aligned
* `T13_partition`  weed / reverse-weed partition the rows; key sets disjoint
* `T13_idem`  weeding twice = weeding once
* `T13_mode`  the `weed` mode with threshold 0 and default flags runs no filter
* `T13_membership_only`  only membership in the weed list matters
-/
import SkaModel.Spec.Abs
import SkaModel.Lemmas.ZipFilter

namespace SkaModel.Props.C13

open SkaModel SkaModel.Spec SkaModel.ZipFilter

/-- weeding never changes the sample names, k or strand mode -/
theorem T13_names (a : Arr) (ks : List Nat) (rev : Bool) :
    (a.weed ks rev).names = a.names ∧ (a.weed ks rev).k = a.k ∧ (a.weed ks rev).rc = a.rc := by
  simp [Arr.weed]

/-! ### The row test -/

/-- the Rust row test `(!reverse && !found) || (reverse && found)` is `found == reverse` -/
theorem keep_test (found rev : Bool) : ((!rev && !found) || (rev && found)) = (found == rev) := by
  cases found <;> cases rev <;> rfl

/-- the rows `weed` keeps, as one filter over the zipped containers -/
def keptRows (a : Arr) (ks : List Nat) (rev : Bool) : List ((Nat × List UInt8) × Nat) :=
  ((a.kmers.zip a.variants).zip a.counts).filter (fun krc => ks.contains krc.1.1 == rev)

theorem weed_eq (a : Arr) (ks : List Nat) (rev : Bool) :
    a.weed ks rev = { a with kmers := (keptRows a ks rev).map (·.1.1)
                             variants := (keptRows a ks rev).map (·.1.2)
                             counts := (keptRows a ks rev).map (·.2) } := by
  simp only [Arr.weed, keptRows, keep_test]

/-- the three containers of the result, zipped, are exactly the kept triples:
counts (and cells) stay attached to their own k-mer -/
theorem weed_zip3 (a : Arr) (ks : List Nat) (rev : Bool) :
    ((a.weed ks rev).kmers.zip (a.weed ks rev).variants).zip (a.weed ks rev).counts
      = ((a.kmers.zip a.variants).zip a.counts).filter (fun krc => ks.contains krc.1.1 == rev) := by
  rw [weed_eq]; exact rezip3 _

theorem weed_rows (a : Arr) (h : a.WF) (ks : List Nat) (rev : Bool) :
    (a.weed ks rev).kmers.zip (a.weed ks rev).variants
      = (a.kmers.zip a.variants).filter (fun r => ks.contains r.1 == rev) := by
  have hlen : (a.kmers.zip a.variants).length ≤ a.counts.length := by
    simp [List.length_zip, h.lenV, h.lenC]
  have := map_fst_filter_zip (fun r : Nat × List UInt8 => ks.contains r.1 == rev)
    (a.kmers.zip a.variants) a.counts hlen
  rw [← this, weed_eq]
  simp only [keptRows]
  generalize List.filter _ _ = l
  induction l with
  | nil => rfl
  | cons x xs ih => simp_all

theorem weed_kmers (a : Arr) (h : a.WF) (ks : List Nat) (rev : Bool) :
    (a.weed ks rev).kmers = a.kmers.filter (fun key => ks.contains key == rev) := by
  have h1 : (a.weed ks rev).kmers = ((a.weed ks rev).kmers.zip (a.weed ks rev).variants).map (·.1) := by
    rw [List.map_fst_zip]; simp [Arr.weed]
  rw [h1, weed_rows a h]
  exact map_fst_filter_zip (fun key => ks.contains key == rev) a.kmers a.variants (by simp [h.lenV])

/-! ### T13_exact -/

theorem weed_abs (a : Arr) (h : a.WF) (ks : List Nat) (rev : Bool) :
    (a.weed ks rev).abs = a.abs.weed ks rev := by
  simp only [Arr.abs, Table.weed, Table.filterRows, weed_rows a h]
  simp [Arr.weed]

theorem weed_WF (a : Arr) (h : a.WF) (ks : List Nat) (rev : Bool) : (a.weed ks rev).WF := by
  refine ⟨?_, ?_, ?_, ?_⟩
  · simp [Arr.weed]
  · simp [Arr.weed]
  · intro row hrow
    have hn : (a.weed ks rev).names = a.names := (T13_names a ks rev).1
    rw [hn]
    apply h.rowLen
    rw [weed_eq] at hrow
    simp only [List.mem_map] at hrow
    obtain ⟨x, hx, rfl⟩ := hrow
    have hx' := (List.mem_filter.mp hx).1
    obtain ⟨⟨k, v⟩, c⟩ := x
    exact (List.of_mem_zip (List.of_mem_zip hx').1).2
  · rw [weed_kmers a h]
    exact h.nodup.sublist List.filter_sublist

/-- **C13, refinement.** On a well-formed array, `weed` is the table operation
"keep the rows whose key is in the weed set exactly when `rev`" (cells unchanged),
the result is well-formed, and the per-row counts stay attached to their rows:
the zipped (k-mer, cells, count) triples of the result are the kept triples of the input. -/
theorem T13_exact (a : Arr) (h : a.WF) (ks : List Nat) (rev : Bool) :
    (a.weed ks rev).abs = a.abs.weed ks rev
    ∧ (a.weed ks rev).WF
    ∧ ((a.weed ks rev).kmers.zip (a.weed ks rev).variants).zip (a.weed ks rev).counts
        = ((a.kmers.zip a.variants).zip a.counts).filter (fun krc => ks.contains krc.1.1 == rev)
    ∧ (a.weed ks rev).kmers.zip (a.weed ks rev).counts
        = (a.kmers.zip a.counts).filter (fun kc => ks.contains kc.1 == rev) :=
  ⟨weed_abs a h ks rev, weed_WF a h ks rev, weed_zip3 a ks rev, by
    have h3 := weed_zip3 a ks rev
    have hw := weed_WF a h ks rev
    -- project the triple statement on (k-mer, count)
    have e1 := zip_proj13 (a.weed ks rev).kmers (a.weed ks rev).variants (a.weed ks rev).counts
      (by simp [hw.lenV])
    have e2 := zip_proj13 a.kmers a.variants a.counts (by simp [h.lenV])
    rw [e1, h3, e2, List.filter_map]
    rfl⟩

/-! ### T13_partition -/

/-- **C13, partition.** Weeding and reverse-weeding with the same list split the rows:
together they are a permutation of the input rows, and no key is in both outputs. -/
theorem T13_partition (a : Arr) (h : a.WF) (ks : List Nat) :
    ((a.weed ks false).abs.rows ++ (a.weed ks true).abs.rows).Perm a.abs.rows
    ∧ ∀ key, key ∈ (a.weed ks false).abs.keys → key ∉ (a.weed ks true).abs.keys := by
  rw [weed_abs a h, weed_abs a h]
  constructor
  · simp only [Table.weed, Table.filterRows]
    have := List.filter_append_perm (fun r : Nat × List UInt8 => ks.contains r.1 == false) a.abs.rows
    have e : (fun r : Nat × List UInt8 => ks.contains r.1 == true)
        = (fun r => !(ks.contains r.1 == false)) := by
      funext r; cases ks.contains r.1 <;> rfl
    rw [e]; exact this
  · intro key h1 h2
    simp only [Table.keys, Table.weed, Table.filterRows, List.mem_map, List.mem_filter] at h1 h2
    obtain ⟨r1, ⟨_, hr1⟩, rfl⟩ := h1
    obtain ⟨r2, ⟨_, hr2⟩, e⟩ := h2
    rw [e] at hr2
    simp at hr1 hr2
    exact hr1 hr2

/-- every input key ends up in exactly one of the two outputs -/
theorem T13_partition_keys (a : Arr) (h : a.WF) (ks : List Nat) (key : Nat) (hk : key ∈ a.abs.keys) :
    (key ∈ (a.weed ks false).abs.keys ∧ ¬ key ∈ ks) ∨ (key ∈ (a.weed ks true).abs.keys ∧ key ∈ ks) := by
  rw [weed_abs a h, weed_abs a h]
  simp only [Table.keys, Table.weed, Table.filterRows, List.mem_map, List.mem_filter] at hk ⊢
  obtain ⟨r, hr, rfl⟩ := hk
  by_cases hm : r.1 ∈ ks
  · exact Or.inr ⟨⟨r, ⟨hr, by simp [hm]⟩, rfl⟩, hm⟩
  · exact Or.inl ⟨⟨r, ⟨hr, by simp [hm]⟩, rfl⟩, hm⟩

/-! ### T13_idem -/

/-- **C13, idempotence.** (Holds for every array; well-formedness is not needed.) -/
theorem T13_idem (a : Arr) (ks : List Nat) (rev : Bool) :
    (a.weed ks rev).weed ks rev = a.weed ks rev := by
  have h3 := weed_zip3 a ks rev
  rw [weed_eq (a.weed ks rev)]
  simp only [keptRows, h3, List.filter_filter, Bool.and_self]
  rw [weed_eq a]
  simp only [keptRows]

/-! ### T13_mode -/

/-- **C13, mode.** With threshold 0 and the default flags the `weed` mode runs no filter:
its output is exactly `weed` of the input (or the input itself without a weed file). -/
theorem T13_mode (a : Arr) (ks : List Nat) (rev famb : Bool) :
    Modes.weed a (some ks) rev 0 famb .noFilter false false = a.weed ks rev
    ∧ Modes.weed a none rev 0 famb .noFilter false false = a := by
  have hne : (FilterType.noFilter != FilterType.noFilter) = false := by decide
  constructor <;> simp [Modes.weed, hne]

/-! ### T13_membership_only -/

/-- **C13.** Only membership in the weed list matters: order and multiplicity of the
weed k-mers are irrelevant. -/
theorem T13_membership_only (a : Arr) (ks ks' : List Nat) (rev : Bool)
    (hmem : ∀ x, x ∈ ks ↔ x ∈ ks') : a.weed ks rev = a.weed ks' rev := by
  have hc : ∀ x, ks.contains x = ks'.contains x := by
    intro x; simp only [List.contains_eq_mem]; exact decide_eq_decide.mpr (hmem x)
  simp only [Arr.weed, hc]

/-- in particular the weed list may be deduplicated or permuted -/
theorem T13_eraseDups (a : Arr) (ks : List Nat) (rev : Bool) :
    a.weed ks.eraseDups rev = a.weed ks rev :=
  T13_membership_only a _ _ rev (fun _ => List.mem_eraseDups)

theorem T13_perm (a : Arr) (ks ks' : List Nat) (rev : Bool) (hp : ks.Perm ks') :
    a.weed ks rev = a.weed ks' rev :=
  T13_membership_only a _ _ rev (fun _ => hp.mem_iff)

/-! ### Non-vacuity: a concrete 3-sample, 6-row table -/

def exampleArr : Arr := Arr.mk 3 true ["x", "y", "z"] [1, 2, 3, 4, 5, 6]
    [[65, 65, 65], [65, 67, 45], [45, 45, 84], [71, 71, 45], [67, 84, 71], [84, 84, 84]]
    [3, 2, 1, 2, 3, 3] 64

theorem exampleArr_WF : exampleArr.WF := ⟨by decide, by decide, by decide, by decide⟩

example : (exampleArr.weed [2, 4, 99, 2] false).kmers = [1, 3, 5, 6] := by decide
example : (exampleArr.weed [2, 4, 99, 2] true).abs.rows = [(2, [65, 67, 45]), (4, [71, 71, 45])] := by
  decide
example : (exampleArr.weed [2, 4, 99, 2] true).counts = [2, 2] := by decide
example : exampleArr.weed [2, 4, 2] true = exampleArr.weed [4, 2] true :=
  T13_membership_only _ _ _ _ (by
    intro x; simp only [List.mem_cons, List.not_mem_nil, or_false]; omega)
/-- the hypotheses of the refinement theorem are satisfiable -/
example := T13_exact exampleArr exampleArr_WF [2, 4, 99, 2] true

end SkaModel.Props.C13
