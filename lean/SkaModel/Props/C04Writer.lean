/-
C04 — the incremental alignment writer `AlnWriter` refines the position-wise
specification `Spec.writerSpec` (`T04_writer`), and its output has the length of the
concatenated reference (`T04_length`).

Proof structure (helper files, namespace `SkaModel.AW`):
* `Lemmas/AWBasic.lean` — contig offsets, disjointness of contig ranges, `getD` of `copyRef`,
  of the middle-base pass and of the repeat-mask pass of `finalise`;
* `Lemmas/AWInv.lean`   — the invariant (`Base`, `ModeA`, `ModeB`) and `fillFwdBases`;
* `Lemmas/AWStep.lean`  — preservation by `fillContig`, `fillTo`, `writeSplitKmer`;
* `Lemmas/AWFinal.lean` — `MatchesOK`, the fold over the matches, `finalise`, flattening.
-/
import SkaModel.Lemmas.AWFinal

namespace SkaModel.Props.C04

open SkaModel SkaModel.Spec SkaModel.AW

/-- the invariant holds after all matches have been written -/
private theorem writer_inv (ref : List (Array UInt8)) (k : Nat) (hk : 1 ≤ halfK k)
    (ms : List Match) (hok : MatchesOK ref (halfK k) ms) (maskAmbig : Bool) :
    Base ref (halfK k) maskAmbig ms
      (ms.foldl (fun w m => AlnWriter.writeSplitKmer ref (halfK k) maskAmbig w m.2.1 m.1 m.2.2)
        (AlnWriter.new ref k)) ∧
    (ModeA (halfK k) ms
      (ms.foldl (fun w m => AlnWriter.writeSplitKmer ref (halfK k) maskAmbig w m.2.1 m.1 m.2.2)
        (AlnWriter.new ref k)) ∨
     ModeB ref (halfK k) ms
      (ms.foldl (fun w m => AlnWriter.writeSplitKmer ref (halfK k) maskAmbig w m.2.1 m.1 m.2.2)
        (AlnWriter.new ref k))) := by
  obtain ⟨hp, hbnd⟩ := matchesOK_spec ms hok
  obtain ⟨hb0, hA0, hc0⟩ := base_new (ref := ref) (ma := maskAmbig) k
  have := fold_inv hk ms [] _ hb0 (Or.inr ⟨hA0, hc0⟩) (by rw [List.nil_append]; exact hp) hbnd
  rw [List.nil_append] at this
  refine ⟨this.1, ?_⟩
  rcases this.2 with hB | ⟨hA, _⟩
  · exact Or.inr hB
  · exact Or.inl hA

/-- **T04_length**: the finalised output is as long as the concatenated reference. -/
theorem T04_length (ref : List (Array UInt8)) (k : Nat) (hk : 1 ≤ halfK k)
    (ms : List Match) (hok : MatchesOK ref (halfK k) ms) (maskAmbig : Bool) (reps : List Nat) :
    (AlnWriter.finalise ref (halfK k) reps
      (ms.foldl (fun w m => AlnWriter.writeSplitKmer ref (halfK k) maskAmbig w m.2.1 m.1 m.2.2)
        (AlnWriter.new ref k))).size
      = (ref.map (·.size)).foldl (· + ·) 0 := by
  obtain ⟨hb, hmode⟩ := writer_inv ref k hk ms hok maskAmbig
  rw [finalise_size reps hb hmode, total_eq]

/-- **T04_writer**: the incremental writer produces exactly `Spec.writerSpec`. -/
theorem T04_writer (ref : List (Array UInt8)) (k : Nat) (hk : 1 ≤ halfK k)
    (ms : List Match) (hok : MatchesOK ref (halfK k) ms) (maskAmbig : Bool) (reps : List Nat) :
    (AlnWriter.finalise ref (halfK k) reps
      (ms.foldl (fun w m => AlnWriter.writeSplitKmer ref (halfK k) maskAmbig w m.2.1 m.1 m.2.2)
        (AlnWriter.new ref k))).toList
      = writerSpec ref (halfK k) maskAmbig reps ms := by
  obtain ⟨hb, hmode⟩ := writer_inv ref k hk ms hok maskAmbig
  obtain ⟨hp, hbnd⟩ := matchesOK_spec ms hok
  have hsize := finalise_size reps hb hmode
  unfold writerSpec
  apply flat_ext ref 0 _ (writerChar ref (halfK k) maskAmbig reps ms)
  · rw [Array.length_toList, hsize]
  · intro j p hj hpj
    have hlt := abs_lt_total ref hj hpj
    rw [Array.getElem?_toList, Nat.zero_add, ← final_char reps hb hmode hp hbnd hj hpj,
      Array.getD_eq_getD_getElem?, Array.getElem?_eq_getElem (by rw [hsize]; exact hlt)]
    rfl

end SkaModel.Props.C04
