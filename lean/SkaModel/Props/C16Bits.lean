/-
C16 — encode / decode / reverse complement of packed split k-mers are exact,
for both integer widths and every valid k.
-/
import SkaModel.Props.C16
import SkaModel.Lemmas.Pack
import SkaModel.Lemmas.Codec
import SkaModel.Lemmas.RevComp

namespace SkaModel.Props.C16

open SkaModel SkaModel.Spec

theorem validK_bounds {W k : Nat} (hk : ValidK k) (hw : WidthOk W k) :
    2 ≤ halfK k ∧ k = 2 * halfK k + 1 ∧ 2 * k ≤ W := by
  obtain ⟨h5, h63, hodd⟩ := hk
  unfold halfK
  rcases hw with ⟨rfl, h31⟩ | rfl <;> omega

/-- `encode_kmer` packs the 2-bit codes of the bases, most significant first -/
theorem T16_encode (W : Nat) (s : List UInt8) (hW : 2 * s.length ≤ W) :
    encodeKmer W s = Spec.packL (s.map code) :=
  encodeKmer_eq W s hW

/-- `decode_kmer` returns the letters of the two arms -/
theorem T16_decode (W k : Nat) (cs : List Nat) (hc : ∀ c ∈ cs, c < 4)
    (hlen : cs.length = 2 * halfK k) (hk : ValidK k) (hw : WidthOk W k) :
    decodeKmer W k (Spec.packL cs)
      = ((cs.take (halfK k)).map decodeBase, (cs.drop (halfK k)).map decodeBase) := by
  obtain ⟨hh2, hkh, hkW⟩ := validK_bounds hk hw
  obtain ⟨hlo, hup⟩ := T16_masks W k hk hw
  have hc' : Codes cs := hc
  have hU : Codes (cs.take (halfK k)) := hc'.take _
  have hL : Codes (cs.drop (halfK k)) := hc'.drop _
  have lU : (cs.take (halfK k)).length = halfK k := by rw [List.length_take]; omega
  have lL : (cs.drop (halfK k)).length = halfK k := by rw [List.length_drop]; omega
  have hsplit : packL cs = packL (cs.take (halfK k) ++ cs.drop (halfK k)) := by
    rw [List.take_append_drop]
  unfold decodeKmer
  simp only
  rw [hlo, hup, and_lowMask, and_upMask, hsplit]
  have hmod := packL_append_mod (a := cs.take (halfK k)) hL
  have hdiv := packL_append_div (a := cs.take (halfK k)) hL
  rw [lL] at hmod hdiv
  have hUlt : packL (cs.take (halfK k)) < 4 ^ halfK k := by
    have := packL_lt hU
    rwa [lU] at this
  rw [hmod, hdiv, Nat.mod_eq_of_lt hUlt,
    Nat.shiftRight_eq_div_pow, two_pow_double, Nat.mul_div_cancel _ (Nat.pow_pos (by omega))]
  rw [decodeLoop_packL' _ hU _ lU, decodeLoop_packL' _ hL _ lL]

/-- `skalo_decode_kmer` returns the letters of the whole k-mer -/
theorem T16_skalo_decode (W n : Nat) (cs : List Nat) (hc : ∀ c ∈ cs, c < 4)
    (hlen : cs.length = n) (hW : 2 * n < W) :
    skaloDecode W (Spec.packL cs) n = cs.map decodeBase := by
  have hc' : Codes cs := hc
  unfold skaloDecode
  rw [skaloMask_eq W n (by omega), and_lowMask,
    Nat.mod_eq_of_lt (by rw [← hlen]; exact packL_lt hc'), decodeLoop_packL' _ hc' _ hlen]

/-- `rev_comp` is the reverse complement of the packed bases, for both widths and
every length that fits -/
theorem T16_rc (W : Nat) (hW : W = 64 ∨ W = 128) (cs : List Nat) (hc : ∀ c ∈ cs, c < 4)
    (n : Nat) (hlen : cs.length = n) (hn : n ≤ W / 2) :
    revComp W (Spec.packL cs) n = Spec.packL (Spec.rcCodes cs) :=
  revComp_packL W hW cs hc n hlen hn

theorem T16_rc_invol (W : Nat) (hW : W = 64 ∨ W = 128) (cs : List Nat) (hc : ∀ c ∈ cs, c < 4)
    (n : Nat) (hlen : cs.length = n) (hn : n ≤ W / 2) :
    revComp W (revComp W (Spec.packL cs) n) n = Spec.packL cs :=
  revComp_invol W hW cs hc n hlen hn

end SkaModel.Props.C16
