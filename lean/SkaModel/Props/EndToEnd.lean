/-
End-to-end statements about the MODELLED pipelines of ska.rust, composed from the
per-layer theorems (C01, C02, C03, C06, C07, C08, C10, C11, C13):

  FASTA records --buildDict--> per-sample dictionaries --buildAndMerge/ofDict--> array
     --merge / delete / weed--> array --align--> FASTA records

* `T02_build*`      the build of a sample is invariant under everything `maskFor` is invariant
                    under (record order, letter case, strand).
* `T13_refKmers`, `T13_weed_fasta*`  weeding with a FASTA file removes (keeps, with `rev`) exactly
                    the rows whose key is a split k-mer of the weed sequences.
* `T_build_table`   the joint build of several samples denotes `Spec.specTable`.
* `T03_pipeline`, `T03_final`  `ska align` on the joint build emits the columns the specification
                    table prescribes; with C03: exactly the planted variable sites.
* `T07_build`, `T07_merge_eq_build`  merging two builds = building all samples together.
* `T08_build*`, `T08_delete_eq_build`  deleting samples = building the remaining ones.

Standing hypotheses: `ValidK k` (5 ≤ k ≤ 63 odd) and `WidthOk W k` (C16).
Helper lemmas: `Lemmas/E2EBuild.lean`, `Lemmas/E2ETable.lean`, `Lemmas/E2EMerge.lean`.
-/
import SkaModel.Lemmas.E2EMerge
import SkaModel.Props.C02
import SkaModel.Props.C03
import SkaModel.Props.C10

namespace SkaModel.Props.E2E

open SkaModel SkaModel.Spec SkaModel.Props.C16 SkaModel.E2E

/-! ## 1. invariance of the modelled build (C01 ∘ C02) -/

/-- **T02_build.** `buildDict` depends on the records only through the function
`key ↦ maskFor k rc recs key`: equal base sets for every key give the same result (the same
key-sorted dictionary, or "no valid sequence" on both sides). -/
theorem T02_build (W k : Nat) (rc : Bool) (hk : ValidK k) (hw : WidthOk W k)
    (recs recs' : List (Array UInt8))
    (h : ∀ key, maskFor k rc recs' key = maskFor k rc recs key) :
    buildDict W k rc recs' = buildDict W k rc recs := by
  rw [C01.T01_build_eq_spec W k rc hk hw recs', C01.T01_build_eq_spec W k rc hk hw recs]
  have hc : observations k rc recs' = [] ↔ observations k rc recs = [] := by
    rw [observations_nil_iff, observations_nil_iff]
    constructor
    · intro h1 key; rw [← h key]; exact h1 key
    · intro h1 key; rw [h key]; exact h1 key
  by_cases h0 : observations k rc recs = []
  · rw [if_pos h0, if_pos (hc.2 h0)]
  · rw [if_neg h0, if_neg (fun e => h0 (hc.1 e)), specDict_congr k rc recs recs' h]

/-- the build does not depend on the order of the records -/
theorem T02_build_perm (W k : Nat) (rc : Bool) (hk : ValidK k) (hw : WidthOk W k)
    {recs recs' : List (Array UInt8)} (hp : recs.Perm recs') :
    buildDict W k rc recs' = buildDict W k rc recs :=
  T02_build W k rc hk hw recs recs' (fun key => (C02.T02_perm k rc hp key).symm)

/-- the build does not depend on letter case (one case mask per record) -/
theorem T02_build_case (W k : Nat) (rc : Bool) (hk : ValidK k) (hw : WidthOk W k)
    (recs : List (Array UInt8)) (ms : List (List Bool)) (hlen : ms.length = recs.length) :
    buildDict W k rc (List.zipWith applyCase ms recs) = buildDict W k rc recs :=
  T02_build W k rc hk hw recs _ (C02.T02_case k rc recs ms hlen)

/-- the build (both strands in use) does not depend on the strand each record is given on -/
theorem T02_build_revcomp (W k : Nat) (hk : ValidK k) (hw : WidthOk W k)
    (recs : List (Array UInt8)) (hd : C02.DnaInput recs) (sel : List Bool) :
    buildDict W k true
        (List.zipWith (fun b r => if b then revCompSeq r else r) sel recs ++ recs.drop sel.length)
      = buildDict W k true recs :=
  T02_build W k true hk hw recs _ (C02.T02_revcomp k hk.2.2 recs hd sel)

/-- all three at once: reorder the records, give any of them on the other strand, write any
letters in the other case -/
theorem T02_build_all (W k : Nat) (hk : ValidK k) (hw : WidthOk W k)
    (recs recs' recs'' : List (Array UInt8)) (hd : C02.DnaInput recs)
    (hv : Pointwise C02.StrandCaseVariant recs recs') (hp : recs'.Perm recs'') :
    buildDict W k true recs'' = buildDict W k true recs :=
  T02_build W k true hk hw recs recs'' (C02.T02 k hk.2.2 recs recs' recs'' hd hv hp)

/-! ## 2. weeding with a FASTA file (C01 ∘ C13) -/

/-- **T13_refKmers.** the weed k-mers `RefSka::new(..).kmer_iter()` lists for a FASTA file are
the keys of the specification's observations, in order -/
theorem T13_refKmers (W k : Nat) (rc : Bool) (hk : ValidK k) (hw : WidthOk W k)
    (recs : List (Array UInt8)) :
    Modes.refKmers W k rc recs = (observations k rc recs).map (·.1) :=
  refKmers_eq W k rc hk hw recs

/-- **T13_weed_fasta.** weeding a well-formed array with a FASTA file is the table operation
"keep the rows whose key is a split k-mer of the weed sequences exactly when `rev`" -/
theorem T13_weed_fasta (W k : Nat) (rc : Bool) (hk : ValidK k) (hw : WidthOk W k)
    (a : Arr) (ha : a.WF) (recs : List (Array UInt8)) (rev : Bool) :
    (a.weed (Modes.refKmers W k rc recs) rev).abs
        = a.abs.weed ((observations k rc recs).map (·.1)) rev
    ∧ (a.weed (Modes.refKmers W k rc recs) rev).WF := by
  rw [T13_refKmers W k rc hk hw]
  exact ⟨(C13.T13_exact a ha _ rev).1, (C13.T13_exact a ha _ rev).2.1⟩

/-- the same, row by row: a row survives iff it was there and ("its key is a split k-mer of the
weed sequences" = `rev`) -/
theorem T13_weed_fasta_mem (W k : Nat) (rc : Bool) (hk : ValidK k) (hw : WidthOk W k)
    (a : Arr) (ha : a.WF) (recs : List (Array UInt8)) (rev : Bool) (r : Nat × List UInt8) :
    r ∈ (a.weed (Modes.refKmers W k rc recs) rev).abs.rows
      ↔ r ∈ a.abs.rows ∧ (decide (maskFor k rc recs r.1 ≠ 0) = rev) := by
  rw [(T13_weed_fasta W k rc hk hw a ha recs rev).1]
  unfold Table.weed Table.filterRows
  simp only [List.mem_filter]
  have hc : ((observations k rc recs).map (·.1)).contains r.1
      = decide (maskFor k rc recs r.1 ≠ 0) := by
    rw [Bool.eq_iff_iff, List.contains_iff_mem, decide_eq_true_iff,
      C01.maskFor_ne_zero_iff, List.mem_map]
  rw [hc, beq_iff_eq]

/-- the `weed` mode with a weed file, threshold 0 and default flags is this `weed` -/
theorem T13_weed_fasta_mode (W k : Nat) (rc : Bool) (hk : ValidK k) (hw : WidthOk W k)
    (a : Arr) (ha : a.WF) (recs : List (Array UInt8)) (rev famb : Bool) :
    (Modes.weed a (some (Modes.refKmers W k rc recs)) rev 0 famb .noFilter false false).abs
      = a.abs.weed ((observations k rc recs).map (·.1)) rev := by
  rw [(C13.T13_mode a _ rev famb).1]
  exact (T13_weed_fasta W k rc hk hw a ha recs rev).1

/-! ## 3. the joint build denotes `specTable` (C01 ∘ C11) -/

/-- **T_build_table.** `sds` are the per-sample dictionaries of `samples` (`BuiltFrom`: sample `i`
is `{ k, rc, idx := i, name := names[i], kmers := dᵢ }` with `buildDict W k rc samples[i] = .dict dᵢ`;
in particular no sample is empty of k-mers). For every thread count `build_and_merge` succeeds and
the array `MergeSkaArray::new` makes of it denotes, up to row order, the specification table
`specTable k rc names samples`; the array is well formed with cells `≥ '-'`. -/
theorem T_build_table (W k : Nat) (rc : Bool) (hk : ValidK k) (hw : WidthOk W k)
    (names : List String) (samples : List (List (Array UInt8))) (sds : List SampleDict)
    (hb : BuiltFrom W k rc names samples sds) (threads : Nat) :
    ∃ md, buildAndMerge k rc threads sds = .ok md
      ∧ (Arr.ofDict W md).abs.Equiv (specTable k rc names samples)
      ∧ (Arr.ofDict W md).WF ∧ (Arr.ofDict W md).CellsGE
      ∧ (Arr.ofDict W md).k = k ∧ (Arr.ofDict W md).rc = rc ∧ (Arr.ofDict W md).names = names := by
  have hs := hb.sliceWF hk hw
  have hne := hb.allNonempty hk hw
  obtain ⟨md, hmd, hrep⟩ := C11.buildAndMerge_rep hs hne threads
  obtain ⟨md', hmd', _, hnames, hcells, _, hkeys⟩ := C11.T02_samples hs hne threads
  have hmm : md' = md := by
    rw [hmd] at hmd'
    exact (Except.ok.inj hmd').symm
  subst hmm
  have hnames' : md'.names = names := hnames.trans hb.names_eq
  have hwf : C11.MWF samples.length md' := hb.lenS ▸ hrep.wf
  refine ⟨md', hmd, ⟨hnames', ?_⟩, C11.ofDict_wf W hrep.wf, ofDict_cellsGE W md', hrep.hk, hrep.hrc,
    hnames'⟩
  apply ofDict_rows_perm W md' k rc names samples hwf
  · intro i hi key
    have hi' : i < sds.length := hb.lenS ▸ hi
    rw [hcells i hi' key, hb.lookup hk hw i hi' key]
  · intro key
    exact (hkeys key).trans (hb.mem_keys hk hw key)

/-- the same with the built samples computed from the inputs: every sample has at least one
split k-mer, as many names as samples -/
theorem T_build_table_fn (W k : Nat) (rc : Bool) (hk : ValidK k) (hw : WidthOk W k)
    (names : List String) (samples : List (List (Array UInt8)))
    (hlen : names.length = samples.length)
    (hne : ∀ recs ∈ samples, observations k rc recs ≠ []) (threads : Nat) :
    ∃ md, buildAndMerge k rc threads (builtSamples W k rc names samples) = .ok md
      ∧ (Arr.ofDict W md).abs.Equiv (specTable k rc names samples)
      ∧ (Arr.ofDict W md).WF ∧ (Arr.ofDict W md).CellsGE
      ∧ (Arr.ofDict W md).k = k ∧ (Arr.ofDict W md).rc = rc ∧ (Arr.ofDict W md).names = names :=
  T_build_table W k rc hk hw names samples _
    (builtSamples_builtFrom W k rc hk hw names samples hlen hne) threads

/-! ## 4. `ska align <fastas>` (… ∘ C06 ∘ C03) -/

/-- **T03_pipeline.** build the samples jointly, then `align`: one output record per sample,
named as the inputs in input order, and the sequence of sample `i` is cell `i` of every column of
a list `cols` that is a permutation of the columns the specification table emits
(`Table.alignColumns` of `specTable`). -/
theorem T03_pipeline (W k : Nat) (rc : Bool) (hk : ValidK k) (hw : WidthOk W k)
    (names : List String) (samples : List (List (Array UInt8))) (sds : List SampleDict)
    (hb : BuiltFrom W k rc names samples sds) (threads : Nat)
    (t : Nat) (ft : FilterType) (mask gaps famb : Bool) :
    ∃ (md : MDict) (cols : List (List UInt8)), buildAndMerge k rc threads sds = .ok md
      ∧ cols.Perm ((specTable k rc names samples).alignColumns t famb (toSite ft) mask gaps)
      ∧ Modes.align (Arr.ofDict W md) t ft mask gaps famb
          = names.zipIdx.map (fun ni => (ni.1, cols.map (fun col => col.getD ni.2 GAP)))
      ∧ (Modes.align (Arr.ofDict W md) t ft mask gaps famb).map (·.1) = names := by
  obtain ⟨md, hmd, heq, _, hc, _, _, hn⟩ := T_build_table W k rc hk hw names samples sds hb threads
  refine ⟨md, (Arr.ofDict W md).abs.alignColumns t famb (toSite ft) mask gaps, hmd,
    Hist.alignColumns_perm heq t famb (toSite ft) mask gaps, ?_, ?_⟩
  · rw [C06.T06_align (Arr.ofDict W md) hc t ft mask gaps famb, hn]
  · rw [C06.T06_align_names, hn]

open SkaModel.SNP in
/-- **T03_final.** under the hypotheses of `C03.T03_align_single` (single-contig samples of equal
length over A, C, G, T, repeat-free on both strands, isolated substitutions), the modelled
pipeline `ska build` (any thread count) then `ska align --min-freq 1 --filter no-const` outputs
one record per sample whose sequences, read column by column, are a permutation of exactly the
planted variable-site columns. -/
theorem T03_final (W k L : Nat) (rc : Bool) (hk : ValidK k) (hw : WidthOk W k)
    (names : List String) (S : List (Array UInt8)) (sds : List SampleDict)
    (hb : BuiltFrom W k rc names (S.map fun s => [s]) sds) (threads : Nat)
    (hF : Family L S) (hR : RepeatFree k rc L S) (hI : Isolated k L S) :
    ∃ (md : MDict) (cols : List (List UInt8)), buildAndMerge k rc threads sds = .ok md
      ∧ cols.Perm ((varSites L S).map fun p =>
          S.map fun s => decodeBase (obs k rc s (p - (k - 1) / 2)).2.1)
      ∧ Modes.align (Arr.ofDict W md) S.length .noConst false false false
          = names.zipIdx.map (fun ni => (ni.1, cols.map (fun col => col.getD ni.2 GAP))) := by
  obtain ⟨md, cols, hmd, hp, hal, _⟩ := T03_pipeline W k rc hk hw names _ sds hb threads
    S.length .noConst false false false
  exact ⟨md, cols, hmd, hp.trans (C03.T03_align_single names hk.2.2 hF hR hI), hal⟩

/-! ## 5. merging = building together (… ∘ C07) -/

/-- **T07_build.** at table level: the column concatenation of two joint-build tables is, up to
row order, the joint-build table of all samples (rows keyed by the union of the keys, cells
concatenated, gaps where a side lacks the key) -/
theorem T07_build (k : Nat) (rc : Bool) (namesA namesB : List String)
    (A B : List (List (Array UInt8))) (hA : namesA.length = A.length) (hB : namesB.length = B.length) :
    ((specTable k rc namesA A).concat (specTable k rc namesB B)).Equiv
      (specTable k rc (namesA ++ namesB) (A ++ B)) :=
  specTable_concat k rc namesA namesB A B hA hB

/-- **T07_merge_eq_build.** `ska merge` of the builds of `A` and of `B` succeeds and denotes, up to
row order, the same table as the build of `A ++ B` (any thread counts). -/
theorem T07_merge_eq_build (W k : Nat) (rc : Bool) (hk : ValidK k) (hw : WidthOk W k)
    (namesA namesB : List String) (A B : List (List (Array UInt8)))
    (sdsA sdsB sdsAB : List SampleDict)
    (hA : BuiltFrom W k rc namesA A sdsA) (hB : BuiltFrom W k rc namesB B sdsB)
    (hAB : BuiltFrom W k rc (namesA ++ namesB) (A ++ B) sdsAB) (tA tB tAB : Nat) :
    ∃ mdA mdB mdAB r, buildAndMerge k rc tA sdsA = .ok mdA ∧ buildAndMerge k rc tB sdsB = .ok mdB
      ∧ buildAndMerge k rc tAB sdsAB = .ok mdAB
      ∧ Modes.merge W (Arr.ofDict W mdA) [Arr.ofDict W mdB] = .ok r
      ∧ r.abs.Equiv (Arr.ofDict W mdAB).abs
      ∧ r.abs.Equiv (specTable k rc (namesA ++ namesB) (A ++ B)) := by
  obtain ⟨mdA, hmA, heA, hwA, hcA, hkA, hrA, _⟩ := T_build_table W k rc hk hw namesA A sdsA hA tA
  obtain ⟨mdB, hmB, heB, hwB, hcB, hkB, hrB, _⟩ := T_build_table W k rc hk hw namesB B sdsB hB tB
  obtain ⟨mdAB, hmAB, heAB, _⟩ := T_build_table W k rc hk hw _ _ sdsAB hAB tAB
  obtain ⟨r, hr, habs, _⟩ := C07.T07_merge W (Arr.ofDict W mdA) [Arr.ofDict W mdB] hwA hcA (by
    intro b hb
    rw [List.mem_singleton] at hb
    subst hb
    exact ⟨hwB, hcB, hkB.trans hkA.symm, hrB.trans hrA.symm⟩)
  have hspec : r.abs.Equiv (specTable k rc (namesA ++ namesB) (A ++ B)) := by
    rw [habs]
    show ((Arr.ofDict W mdA).abs.concat (Arr.ofDict W mdB).abs).Equiv _
    exact Hist.equiv_trans
      (Hist.concat_equiv heA heB (Arr.abs_wf hwA).2 (Arr.abs_wf hwB).2)
      (T07_build k rc namesA namesB A B hA.lenN hB.lenN)
  exact ⟨mdA, mdB, mdAB, r, hmA, hmB, hmAB, hr, Hist.equiv_trans hspec (Hist.equiv_symm heAB), hspec⟩

/-! ## 6. deleting = building the rest (… ∘ C08) -/

/-- **T08_build (positions).** deleting samples from the joint-build table gives, up to row order,
the joint-build table of the samples at the kept positions; no hypothesis is needed (rows that
become all-gap disappear on the left; on the right their key occurs in no remaining sample). -/
theorem T08_build_idx (k : Nat) (rc : Bool) (names : List String)
    (samples : List (List (Array UInt8))) (del : List String) :
    ((specTable k rc names samples).deleteSamples del).Equiv
      (specTable k rc ((Table.keepIdx names del).map (fun i => names.getD i ""))
        ((Table.keepIdx names del).map (fun i => samples.getD i []))) :=
  specTable_selectCols k rc names samples _

/-- for distinct names the kept positions select the (name, sample) entries whose name is not
requested -/
theorem keepIdx_entries (names : List String) (samples : List (List (Array UInt8)))
    (del : List String) (hn : names.Nodup) (hlen : names.length = samples.length) :
    (Table.keepIdx names del).map (fun i => names.getD i "")
        = names.filter (fun n => !del.contains n)
    ∧ (Table.keepIdx names del).map (fun i => samples.getD i [])
        = ((names.zip samples).filter (fun p => !del.contains p.1)).map (·.2) := by
  refine ⟨keepIdx_names names del hn, ?_⟩
  have hz : ∀ i, (names.zip samples).getD i ("", []) = (names.getD i "", samples.getD i []) := by
    intro i
    simp only [List.getD_eq_getElem?_getD]
    by_cases hi : i < names.length
    · have hi' : i < samples.length := hlen ▸ hi
      rw [(List.getElem?_zip_eq_some (z := (names[i], samples[i]))).2
        ⟨List.getElem?_eq_getElem hi, List.getElem?_eq_getElem hi'⟩,
        List.getElem?_eq_getElem hi, List.getElem?_eq_getElem hi']
      rfl
    · have hi' : ¬ i < samples.length := hlen ▸ hi
      rw [List.getElem?_eq_none (Nat.le_of_not_lt hi), List.getElem?_eq_none (Nat.le_of_not_lt hi'),
        List.getElem?_eq_none (by rw [List.length_zip]; omega)]
      rfl
  have hl : (names.zip samples).length = names.length := by
    rw [List.length_zip, hlen, Nat.min_self]
  rw [← map_getD_range_filter (names.zip samples) ("", []) (fun p => !del.contains p.1),
    keepIdx_eq_filter names del hn, List.map_map, hl]
  have hf : (fun i => !del.contains ((names.zip samples).getD i ("", [])).1)
      = (fun i => !del.contains (names.getD i "")) := by
    funext i; rw [hz i]
  rw [hf]
  apply List.map_congr_left
  intro i _
  simp only [Function.comp, hz i]

/-- **T08_build.** for distinct names: deleting samples from the joint-build table is, up to row
order, the joint-build table of the entries whose name is not requested -/
theorem T08_build (k : Nat) (rc : Bool) (names : List String)
    (samples : List (List (Array UInt8))) (del : List String)
    (hn : names.Nodup) (hlen : names.length = samples.length) :
    ((specTable k rc names samples).deleteSamples del).Equiv
      (specTable k rc (names.filter (fun n => !del.contains n))
        (((names.zip samples).filter (fun p => !del.contains p.1)).map (·.2))) := by
  have h := T08_build_idx k rc names samples del
  rw [(keepIdx_entries names samples del hn hlen).1, (keepIdx_entries names samples del hn hlen).2] at h
  exact h

/-- **T08_delete_eq_build.** the modelled `ska delete` on a joint build: whenever it returns, the
file it writes denotes, up to row order, the same table as the joint build of the remaining
samples (`sds'` = the built samples of the remaining entries; any thread counts). -/
theorem T08_delete_eq_build (W k : Nat) (rc : Bool) (hk : ValidK k) (hw : WidthOk W k)
    (names : List String) (samples : List (List (Array UInt8))) (sds sds' : List SampleDict)
    (del : List String) (hn : names.Nodup)
    (hb : BuiltFrom W k rc names samples sds)
    (hb' : BuiltFrom W k rc (names.filter (fun n => !del.contains n))
      (((names.zip samples).filter (fun p => !del.contains p.1)).map (·.2)) sds')
    (t t' : Nat) :
    ∃ md md', buildAndMerge k rc t sds = .ok md ∧ buildAndMerge k rc t' sds' = .ok md'
      ∧ ∀ a', Modes.delete (Arr.ofDict W md) del = some a' →
          a'.abs.Equiv (Arr.ofDict W md').abs
          ∧ a'.abs.Equiv (specTable k rc (names.filter (fun n => !del.contains n))
              (((names.zip samples).filter (fun p => !del.contains p.1)).map (·.2))) := by
  obtain ⟨md, hmd, he, _⟩ := T_build_table W k rc hk hw names samples sds hb t
  obtain ⟨md', hmd', he', _⟩ := T_build_table W k rc hk hw _ _ sds' hb' t'
  refine ⟨md, md', hmd, hmd', ?_⟩
  intro a' ha'
  have habs := (C08.T08_delete_abs (Arr.ofDict W md) a' del ha').1
  have hspec : a'.abs.Equiv (specTable k rc (names.filter (fun n => !del.contains n))
      (((names.zip samples).filter (fun p => !del.contains p.1)).map (·.2))) := by
    rw [habs]
    exact Hist.equiv_trans (Hist.deleteSamples_equiv he del) (T08_build k rc names samples del hn hb.lenN)
  exact ⟨Hist.equiv_trans hspec (Hist.equiv_symm he'), hspec⟩

/-! ## 7. the same with the built samples computed from the inputs, and C03 for several contigs -/

open SkaModel.SNP in
/-- **T03_final_contigs.** under the hypotheses of `C03.T03_align` (samples derived from a common
repeat-free set of contigs by isolated substitutions; each sample of `T` presents the contigs of
the corresponding sample of `A` in any order, on either strand, in any letter case), the modelled
pipeline `ska build` (both strands, any thread count) then `ska align --min-freq 1 --filter
no-const` on the presented samples `T` outputs, up to column order, exactly one column per
variable site `(c, p)` of `A`. -/
theorem T03_final_contigs (W k m : Nat) (L : Nat → Nat) (hk : ValidK k) (hw : WidthOk W k)
    (names : List String) (A T : List (List (Array UInt8))) (sds : List SampleDict)
    (hb : BuiltFrom W k true names T sds) (threads : Nat)
    (hF : FamilyM m L A) (hR : RepeatFreeM k true m L A)
    (hI : ∀ c, c < m → Isolated k (L c) (contig A c)) (hT : Pointwise C03.Presents A T) :
    ∃ (md : MDict) (cols : List (List UInt8)), buildAndMerge k true threads sds = .ok md
      ∧ cols.Perm ((List.range m).flatMap fun c => (varSites (L c) (contig A c)).map fun p =>
          (contig A c).map fun s => decodeBase (obs k true s (p - (k - 1) / 2)).2.1)
      ∧ Modes.align (Arr.ofDict W md) T.length .noConst false false false
          = names.zipIdx.map (fun ni => (ni.1, cols.map (fun col => col.getD ni.2 GAP))) := by
  obtain ⟨md, cols, hmd, hp, hal, _⟩ := T03_pipeline W k true hk hw names T sds hb threads
    T.length .noConst false false false
  exact ⟨md, cols, hmd, hp.trans (C03.T03_align names hk.2.2 hF hR hI hT), hal⟩

/-- `T07_merge_eq_build` for the built samples computed from the inputs -/
theorem T07_merge_eq_build_fn (W k : Nat) (rc : Bool) (hk : ValidK k) (hw : WidthOk W k)
    (namesA namesB : List String) (A B : List (List (Array UInt8)))
    (hlA : namesA.length = A.length) (hlB : namesB.length = B.length)
    (hnA : ∀ recs ∈ A, observations k rc recs ≠ []) (hnB : ∀ recs ∈ B, observations k rc recs ≠ [])
    (tA tB tAB : Nat) :
    ∃ mdA mdB mdAB r, buildAndMerge k rc tA (builtSamples W k rc namesA A) = .ok mdA
      ∧ buildAndMerge k rc tB (builtSamples W k rc namesB B) = .ok mdB
      ∧ buildAndMerge k rc tAB (builtSamples W k rc (namesA ++ namesB) (A ++ B)) = .ok mdAB
      ∧ Modes.merge W (Arr.ofDict W mdA) [Arr.ofDict W mdB] = .ok r
      ∧ r.abs.Equiv (Arr.ofDict W mdAB).abs
      ∧ r.abs.Equiv (specTable k rc (namesA ++ namesB) (A ++ B)) :=
  T07_merge_eq_build W k rc hk hw namesA namesB A B _ _ _
    (builtSamples_builtFrom W k rc hk hw namesA A hlA hnA)
    (builtSamples_builtFrom W k rc hk hw namesB B hlB hnB)
    (builtSamples_builtFrom W k rc hk hw _ _ (by rw [List.length_append, List.length_append, hlA, hlB])
      (by
        intro recs hr
        rcases List.mem_append.1 hr with h | h
        · exact hnA recs h
        · exact hnB recs h))
    tA tB tAB

/-- `T08_delete_eq_build` for the built samples computed from the inputs, with the conditions
under which `ska delete` does return: some but not all names requested, all of them present -/
theorem T08_delete_eq_build_fn (W k : Nat) (rc : Bool) (hk : ValidK k) (hw : WidthOk W k)
    (names : List String) (samples : List (List (Array UInt8))) (del : List String)
    (hn : names.Nodup) (hlen : names.length = samples.length)
    (hne : ∀ recs ∈ samples, observations k rc recs ≠ [])
    (h1 : del ≠ []) (h2 : del.eraseDups.length ≠ names.length) (h3 : ∀ n ∈ del, n ∈ names) (t t' : Nat) :
    ∃ md md' a', buildAndMerge k rc t (builtSamples W k rc names samples) = .ok md
      ∧ buildAndMerge k rc t' (builtSamples W k rc (names.filter (fun n => !del.contains n))
          (((names.zip samples).filter (fun p => !del.contains p.1)).map (·.2))) = .ok md'
      ∧ Modes.delete (Arr.ofDict W md) del = some a'
      ∧ a'.abs.Equiv (Arr.ofDict W md').abs
      ∧ a'.names = names.filter (fun n => !del.contains n) := by
  have hb := builtSamples_builtFrom W k rc hk hw names samples hlen hne
  have hent := keepIdx_entries names samples del hn hlen
  have hlen' : (names.filter (fun n => !del.contains n)).length
      = (((names.zip samples).filter (fun p => !del.contains p.1)).map (·.2)).length := by
    rw [← hent.1, ← hent.2, List.length_map, List.length_map]
  have hne' : ∀ recs ∈ ((names.zip samples).filter (fun p => !del.contains p.1)).map (·.2),
      observations k rc recs ≠ [] := by
    intro recs hr
    obtain ⟨p, hp, rfl⟩ := List.mem_map.1 hr
    exact hne _ (List.of_mem_zip (List.mem_filter.1 hp).1).2
  have hb' := builtSamples_builtFrom W k rc hk hw _ _ hlen' hne'
  obtain ⟨md, md', hmd, hmd', hdel⟩ :=
    T08_delete_eq_build W k rc hk hw names samples _ _ del hn hb hb' t t'
  obtain ⟨md₂, hmd₂, _, hwf, _, _, _, hnames⟩ := T_build_table W k rc hk hw names samples _ hb t
  have hmm : md₂ = md := by
    rw [hmd] at hmd₂
    exact (Except.ok.inj hmd₂).symm
  subst hmm
  obtain ⟨a', ha', _, _, _, _, han, _⟩ := C08.T08_delete (Arr.ofDict W md₂) del hwf
    (by rw [hnames]; exact hn) h1 (by rw [hnames]; exact h2) (by rw [hnames]; exact h3)
  refine ⟨md₂, md', a', hmd, hmd', ha', (hdel a' ha').1, ?_⟩
  rw [han, hnames]

/-! ## Non-vacuity: the hypotheses of `T03_final` hold for the example of C03 (k = 5, three
samples, two isolated SNPs), for the built samples computed from the inputs -/

theorem validK5 : ValidK 5 := by unfold ValidK; decide
theorem widthOk5 : WidthOk 64 5 := Or.inl (by decide)

theorem exS_nonempty : ∀ recs ∈ C03.exS.map (fun s => [s]), observations 5 true recs ≠ [] := by
  decide

example (threads : Nat) :
    ∃ (md : MDict) (cols : List (List UInt8)),
      buildAndMerge 5 true threads
          (builtSamples 64 5 true ["a", "b", "c"] (C03.exS.map fun s => [s])) = .ok md
      ∧ cols.Perm ((SNP.varSites 13 C03.exS).map fun p =>
          C03.exS.map fun s => decodeBase (obs 5 true s (p - (5 - 1) / 2)).2.1)
      ∧ Modes.align (Arr.ofDict 64 md) C03.exS.length .noConst false false false
          = ["a", "b", "c"].zipIdx.map (fun ni => (ni.1, cols.map (fun col => col.getD ni.2 GAP))) :=
  T03_final 64 5 13 true validK5 widthOk5 ["a", "b", "c"] C03.exS _
    (builtSamples_builtFrom 64 5 true validK5 widthOk5 _ _ rfl exS_nonempty) threads
    C03.exS_hyps.1 C03.exS_hyps.2.1 C03.exS_hyps.2.2

end SkaModel.Props.E2E
