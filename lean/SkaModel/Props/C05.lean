/-
C05 — The VCF from map carries the same information as the mapped alignment.

`T05_idx`    : the `IdxCheck` iterator yields (contig, position) of every absolute index, in order
               (all contigs non-empty); `idx_zero_length_counterexample` otherwise.
`T05_decode` : per column, decoding every genotype string through REF/ALT gives the class of the
               sample's aligned character; ALT alleles are distinct, all used, and equal REF only as N.
`T05_rel`    : the decoded records are exactly `Spec.vcfSpec` (for every alignment of the right width),
               for a reference without '-' bytes; `gap_in_reference_counterexample` otherwise.
Proof machinery in `SkaModel/Lemmas/{IdxCheck,VcfColumn,VcfRel}.lean` (namespace `SkaModel.VCF`).
-/
import SkaModel.Impl.RefSka
import SkaModel.Spec.MapSpec
import SkaModel.Lemmas.Bytes
import SkaModel.Lemmas.IdxCheck
import SkaModel.Lemmas.VcfColumn
import SkaModel.Lemmas.VcfRel

namespace SkaModel.Props.C05

open SkaModel SkaModel.Spec SkaModel.VCF

/-- REF/ALT classes: A, C, G, T stay, every other byte is N -/
theorem T05_class : ∀ b : UInt8,
    u8ToBase b = (if b == 65 || b == 67 || b == 71 || b == 84 then b else 78) := by
  intro b; rfl

/-- the spec's genotype class agrees with the code's allele class on everything but the gap -/
theorem T05_vcfClass : ∀ b : UInt8, b ≠ 45 → vcfClass b = u8ToBase b :=
  forall_uint8 (by decide +kernel)

/-! ### T05_idx -/

/-- `IdxCheck` yields exactly (c, p) for absolute index `offset c + p`, in order, and stops after
`Σ size` items — when every contig has at least one base -/
theorem T05_idx (seq : List (Array UInt8)) (hsz : ∀ c ∈ seq, 1 ≤ c.size) :
    RefSka.idxCheck seq
      = seq.zipIdx.flatMap (fun ci => (List.range ci.1.size).map (fun p => (ci.2, p))) :=
  idxCheck_eq_coords seq hsz

/-- number of items = total length -/
theorem T05_idx_length (seq : List (Array UInt8)) (hsz : ∀ c ∈ seq, 1 ≤ c.size) :
    (RefSka.idxCheck seq).length = (seq.map (·.size)).sum := by
  rw [T05_idx seq hsz]; exact coords_length seq

/-- a zero-length contig in the middle breaks the iterator: with sizes [3, 0, 2] the fourth item is
(1, 0) — a position inside the empty contig — instead of (2, 0). (The Rust would then index
`self.seq[1][0]` and panic.) -/
theorem idx_zero_length_counterexample :
    RefSka.idxCheck [#[65, 67, 71], #[], #[84, 65]] = [(0, 0), (0, 1), (0, 2), (1, 0), (2, 1)] ∧
    RefSka.idxCheck [#[65, 67, 71], #[], #[84, 65]] ≠
      [#[65, 67, 71], #[], #[84, 65]].zipIdx.flatMap
        (fun ci => (List.range ci.1.size).map (fun p => (ci.2, p))) := by
  decide

/-! ### T05_decode -/

/-- the records are the columns with a variant, in column order -/
theorem T05_records (r : RefSka) (aln : List (Array UInt8)) :
    RefSka.vcfRecords r aln =
      ((List.range (aln.headD #[]).size).zip (RefSka.idxCheck r.seq)).filterMap
        (fun ic => vcfColumn r aln ic.1 ic.2.1 ic.2.2) :=
  vcfRecords_eq r aln

theorem T05_mem (r : RefSka) (aln : List (Array UInt8)) (rec : RefSka.VcfRecord) :
    rec ∈ RefSka.vcfRecords r aln ↔
      ∃ i c p, (i, c, p) ∈ (List.range (aln.headD #[]).size).zip (RefSka.idxCheck r.seq) ∧
        vcfColumn r aln i c p = some rec := by
  rw [T05_records, List.mem_filterMap]
  constructor
  · rintro ⟨⟨i, c, p⟩, h1, h2⟩; exact ⟨i, c, p, h1, h2⟩
  · rintro ⟨i, c, p, h1, h2⟩; exact ⟨(i, c, p), h1, h2⟩

/-- the genotype strings are the decimal rendering of allele indices
(`none` ↦ ".", `some 0` ↦ "0", `some i` ↦ decimal of `i`), and decoding inverts the rendering -/
theorem T05_render (rec : RefSka.VcfRecord) (gi : Option Nat) :
    decodeGt rec (render gi) = decodeIdx rec.ref rec.alts gi :=
  decodeGt_render rec gi

theorem u8ToBase_eq_of_ne (b rb : UInt8) (hne : b ≠ rb) (h : u8ToBase b = u8ToBase rb) :
    u8ToBase b = 78 := by
  unfold u8ToBase at *
  split at h <;> split at h <;> simp_all

/-- a column yields a record iff some sample differs from the reference byte -/
theorem T05_exists (r : RefSka) (aln : List (Array UInt8)) (i c p : Nat) :
    (vcfColumn r aln i c p).isSome = true ↔
      ∃ s ∈ aln, s.getD i GAP ≠ (r.seq.getD c #[]).getD p 0 := by
  rw [vcfColumn_eq]
  simp only
  rw [(colInv_colIdx _ _).flag]
  split
  · rename_i h
    simp only [Option.isSome_some, true_iff]
    simpa using h
  · rename_i h
    simp only [Option.isSome_none, Bool.false_eq_true, false_iff]
    simpa using h

/-- the record of column `i` at (contig `c`, position `p`), with `rb` the stored reference byte:
coordinates and REF; every genotype decodes (through REF/ALT) to `gtClass rb` of the sample's
character — i.e. REF for a character equal to `rb`, otherwise `vcfClass`; if `rb` is not '-' this
is `vcfClass` of the character for every sample. ALT alleles are distinct, each comes from a
sample character that differs from `rb` and is not a gap, each is referenced by some genotype,
and an ALT can equal REF only when both are N. -/
theorem T05_decode (r : RefSka) (aln : List (Array UInt8)) (i c p : Nat) (rec : RefSka.VcfRecord)
    (h : vcfColumn r aln i c p = some rec) :
    rec.chrom = r.chromNames.getD c "" ∧ rec.pos = p + 1 ∧
    rec.ref = u8ToBase ((r.seq.getD c #[]).getD p 0) ∧
    rec.gts.map (decodeGt rec) = aln.map (fun s => gtClass ((r.seq.getD c #[]).getD p 0) (s.getD i GAP)) ∧
    ((r.seq.getD c #[]).getD p 0 ≠ 45 →
      rec.gts.map (decodeGt rec) = aln.map (fun s => vcfClass (s.getD i GAP))) ∧
    rec.alts.Nodup ∧
    (∀ a ∈ rec.alts, ∃ s ∈ aln, s.getD i GAP ≠ (r.seq.getD c #[]).getD p 0 ∧ s.getD i GAP ≠ 45 ∧
      a = u8ToBase (s.getD i GAP)) ∧
    (∀ a ∈ rec.alts, a = rec.ref → a = 78) ∧
    (∀ j, j < rec.alts.length → toString (j + 1) ∈ rec.gts) := by
  generalize hrb : (r.seq.getD c #[]).getD p 0 = rb
  rw [vcfColumn_eq] at h
  simp only [hrb] at h
  have inv := colInv_colIdx rb (aln.map (fun s => s.getD i GAP))
  split at h
  · injection h with h
    subst h
    have hgts := decode_colIdx rb (aln.map (fun s => s.getD i GAP)) (r.chromNames.getD c "") (p + 1)
    have hsrc : ∀ a ∈ (colIdx rb (aln.map (fun s => s.getD i GAP))).1,
        ∃ s ∈ aln, s.getD i GAP ≠ rb ∧ s.getD i GAP ≠ 45 ∧ a = u8ToBase (s.getD i GAP) := by
      intro a ha
      obtain ⟨b, hb, h1, h2, h3⟩ := inv.src a ha
      rw [List.mem_map] at hb
      obtain ⟨s, hs, rfl⟩ := hb
      exact ⟨s, hs, h1, h2, h3⟩
    refine ⟨rfl, rfl, rfl, ?_, ?_, inv.nodup, hsrc, ?_, ?_⟩
    · rw [hgts, List.map_map]; rfl
    · intro hg
      rw [hgts, List.map_map]
      apply List.map_congr_left
      intro s _
      exact gtClass_eq_vcfClass rb _ hg
    · intro a ha hEq
      obtain ⟨s, _, h1, _, h3⟩ := hsrc a ha
      rw [h3]
      apply u8ToBase_eq_of_ne _ rb h1
      rw [← h3]; exact hEq
    · intro j hj
      exact List.mem_map.mpr ⟨some (j + 1), inv.used j hj, rfl⟩
  · cases h

/-! ### T05_rel -/

/-- Main relation. For a reference whose stored bytes are upper-case and never '-', all contigs
non-empty, and EVERY alignment whose sequences have the total reference length: the records, read
as (contig name, 1-based position, REF, decoded genotype characters), are exactly `Spec.vcfSpec`
with the contig index replaced by its name. So a record exists at (c, p+1) iff some sample's
character differs from the reference byte there, REF is the reference base (N if not A/C/G/T),
records are in coordinate order and the sample order is preserved. -/
theorem T05_rel (r : RefSka) (aln : List (Array UInt8))
    (hsz : ∀ c ∈ r.seq, 1 ≤ c.size)
    (hup : ∀ c ∈ r.seq, ∀ b ∈ c.toList, upperByte b = b)
    (hgap : ∀ c ∈ r.seq, ∀ b ∈ c.toList, b ≠ 45)
    (haln : ∀ s ∈ aln, s.size = (r.seq.map (·.size)).sum) :
    (RefSka.vcfRecords r aln).map
        (fun rec => (rec.chrom, rec.pos, rec.ref, rec.gts.map (decodeGt rec))) =
      (vcfSpec r.seq (aln.map Array.toList)).map
        (fun x => (r.chromNames.getD x.1 "", x.2.1, x.2.2.1, x.2.2.2)) :=
  records_eq_spec r aln hsz hup hgap haln

/-- the same against the original (mixed-case) reference `ref`, `r.seq` being its upper-casing as
`RefSka.new` stores it -/
theorem T05_rel_ref (r : RefSka) (ref : List (Array UInt8)) (aln : List (Array UInt8))
    (hr : r.seq = ref.map (fun c => c.map toUpper))
    (hsz : ∀ c ∈ ref, 1 ≤ c.size)
    (hgap : ∀ c ∈ ref, ∀ b ∈ c.toList, b ≠ 45)
    (haln : ∀ s ∈ aln, s.size = (ref.map (·.size)).sum) :
    (RefSka.vcfRecords r aln).map
        (fun rec => (rec.chrom, rec.pos, rec.ref, rec.gts.map (decodeGt rec))) =
      (vcfSpec ref (aln.map Array.toList)).map
        (fun x => (r.chromNames.getD x.1 "", x.2.1, x.2.2.1, x.2.2.2)) :=
  records_eq_spec_ref r ref aln hr hsz hgap haln

/-- `RefSka.new` stores exactly such a reference -/
theorem T05_new_seq (W k : Nat) (rc : Bool) (names : List String) (contigs : List (Array UInt8))
    (am rm : Bool) (r : RefSka) (h : RefSka.new W k rc names contigs am rm = some r) :
    r.seq = contigs.map (fun c => c.map toUpper) := by
  unfold RefSka.new at h
  simp only at h
  split at h
  · cases h
  · injection h with h; rw [← h]

/-! ### counterexample: '-' in the reference -/

def gapRef : RefSka :=
  { k := 3, kmers := [], ambigMask := false, chromNames := ["c1"], seq := [#[65, 45, 67]], repeatCoors := [] }

def gapAln : List (Array UInt8) := [#[65, 45, 67], #[65, 65, 67]]

/-- If the reference has a '-' byte, a sample with a gap there gets genotype "0" (it "equals the
reference byte"), which decodes to REF = N, while the specification reports it as missing ('.'):
`T05_rel` fails without `hgap`. -/
theorem gap_in_reference_counterexample :
    RefSka.vcfRecords gapRef gapAln =
      [{ chrom := "c1", pos := 2, ref := 78, alts := [65], gts := ["0", "1"] }] ∧
    vcfSpec gapRef.seq (gapAln.map Array.toList) = [(0, 2, 78, [46, 65])] ∧
    (RefSka.vcfRecords gapRef gapAln).map
        (fun rec => (rec.chrom, rec.pos, rec.ref, rec.gts.map (decodeGt rec))) = [("c1", 2, 78, [78, 65])] := by
  have h1 : RefSka.vcfRecords gapRef gapAln =
      [{ chrom := "c1", pos := 2, ref := 78, alts := [65], gts := ["0", "1"] }] := by decide
  refine ⟨h1, by decide, ?_⟩
  rw [h1]
  have e0 := decodeGt_render { chrom := "c1", pos := 2, ref := 78, alts := [65], gts := ["0", "1"] } (some 0)
  have e1 := decodeGt_render { chrom := "c1", pos := 2, ref := 78, alts := [65], gts := ["0", "1"] } (some 1)
  have r0 : render (some 0) = "0" := by decide
  have r1 : render (some 1) = "1" := by decide
  rw [r0] at e0; rw [r1] at e1
  simp only [List.map_cons, List.map_nil, e0, e1]
  rfl

/-! ### non-vacuity -/

/-- reference: contig c1 = "ACN", contig c2 = "GT" -/
def exRef : RefSka :=
  { k := 3, kmers := [], ambigMask := false, chromNames := ["c1", "c2"],
    seq := [#[65, 67, 78], #[71, 84]], repeatCoors := [] }

/-- three samples: "AGRG-", "ATNGT", "CGYGA" — a multi-allelic site (column 1: G, T, G against C),
a gap (column 4), ambiguity codes R and Y (column 2, where the reference has N) -/
def exAln : List (Array UInt8) :=
  [#[65, 71, 82, 71, 45], #[65, 84, 78, 71, 84], #[67, 71, 89, 71, 65]]

example : ∀ c ∈ exRef.seq, 1 ≤ c.size := by decide
example : ∀ c ∈ exRef.seq, ∀ b ∈ c.toList, upperByte b = b := by decide
example : ∀ c ∈ exRef.seq, ∀ b ∈ c.toList, b ≠ 45 := by decide
example : ∀ s ∈ exAln, s.size = (exRef.seq.map (·.size)).sum := by decide

example : RefSka.idxCheck exRef.seq = [(0, 0), (0, 1), (0, 2), (1, 0), (1, 1)] := by decide

/-- the records the writer model produces: note REF = ALT = N at c1:3 (reference N, samples R and Y) -/
example : RefSka.vcfRecords exRef exAln =
    [{ chrom := "c1", pos := 1, ref := 65, alts := [67], gts := ["0", "0", "1"] },
     { chrom := "c1", pos := 2, ref := 67, alts := [71, 84], gts := ["1", "2", "1"] },
     { chrom := "c1", pos := 3, ref := 78, alts := [78], gts := ["1", "0", "1"] },
     { chrom := "c2", pos := 2, ref := 84, alts := [65], gts := [".", "0", "1"] }] := by decide

example : vcfSpec exRef.seq (exAln.map Array.toList) =
    [(0, 1, 65, [65, 65, 67]), (0, 2, 67, [71, 84, 71]), (0, 3, 78, [78, 78, 78]),
     (1, 2, 84, [46, 84, 65])] := by decide

/-- `T05_rel` on the example: the decoded records -/
example : (RefSka.vcfRecords exRef exAln).map
      (fun rec => (rec.chrom, rec.pos, rec.ref, rec.gts.map (decodeGt rec))) =
    [("c1", 1, 65, [65, 65, 67]), ("c1", 2, 67, [71, 84, 71]), ("c1", 3, 78, [78, 78, 78]),
     ("c2", 2, 84, [46, 84, 65])] := by
  rw [T05_rel exRef exAln (by decide) (by decide) (by decide) (by decide)]
  decide

/-- a record can have an empty ALT list: the only difference in the column is a gap -/
example : RefSka.vcfRecords exRef [#[65, 67, 78, 71, 84], #[65, 67, 78, 71, 45]] =
    [{ chrom := "c2", pos := 2, ref := 84, alts := [], gts := ["0", "."] }] := by decide

end SkaModel.Props.C05
