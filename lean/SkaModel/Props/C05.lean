/-
C05 — The VCF from map carries the same information as the mapped alignment.
First theorems; `T05_idx` / `T05_rel` are being added.
-/
import SkaModel.Impl.RefSka
import SkaModel.Spec.MapSpec
import SkaModel.Lemmas.Bytes

namespace SkaModel.Props.C05

open SkaModel SkaModel.Spec

/-- REF/ALT classes: A, C, G, T stay, every other byte is N -/
theorem T05_class : ∀ b : UInt8,
    u8ToBase b = (if b == 65 || b == 67 || b == 71 || b == 84 then b else 78) := by
  intro b; rfl

/-- the spec's genotype class agrees with the code's allele class on everything but the gap -/
theorem T05_vcfClass : ∀ b : UInt8, b ≠ 45 → vcfClass b = u8ToBase b :=
  forall_uint8 (by decide +kernel)

end SkaModel.Props.C05
