/-
C15 — Ambiguity codes form the union algebra over {A,C,G,T}; complement respects it.

Every statement about a table is a complete enumeration (`decide +kernel`) of the
table regenerated from the running code (`Generated/Tables.lean`), lifted to all
bytes; `T15_fold` is the unbounded statement, by induction.
-/
import SkaModel.Impl.Base
import SkaModel.Spec.Iupac
import SkaModel.Lemmas.Bytes

namespace SkaModel.Props.C15

open SkaModel SkaModel.Spec

/-! ### The hand-written byte functions are the functions the code computes -/

theorem T15_tie_encode : ∀ b : UInt8, (encodeBase b).toNat = Tables.at8 Tables.encodeBase b.toNat :=
  forall_uint8 (by decide +kernel)

theorem T15_tie_valid : ∀ b : UInt8, validBase b = (Tables.at8 Tables.validBase b.toNat == 1) :=
  forall_uint8 (by decide +kernel)

theorem T15_tie_ambig : ∀ b : UInt8, isAmbiguous b = (Tables.at8 Tables.isAmbiguous b.toNat == 1) :=
  forall_uint8 (by decide +kernel)

theorem T15_tie_decode : ∀ c, c < 4 → (decodeBase c).toNat = Tables.at8 Tables.decodeBase c :=
  forall_code (by decide +kernel)

theorem T15_tie_rcbase : ∀ c, c < 4 → rcBase c = Tables.at8 Tables.rcBase c :=
  forall_code (by decide +kernel)

theorem T15_tie_u8tobase : ∀ b : UInt8, (u8ToBase b).toNat = Tables.at8 Tables.u8ToBase b.toNat :=
  forall_uint8 (by decide +kernel)

/-! ### Union -/

/-- Adding base `b` to the code `c` gives the code of the enlarged set; every
byte that is not one of the 15 IUPAC letters (either case) maps to no code. -/
theorem T15_add : ∀ b, b < 4 → ∀ c : UInt8,
    iupacAdd b c = (match maskOfLetter c with
                    | some m => letterOfMask (m ||| (1 <<< b))
                    | none => 0) :=
  forall_code (p := fun b => ∀ c : UInt8, iupacAdd b c = (match maskOfLetter c with
                    | some m => letterOfMask (m ||| (1 <<< b))
                    | none => 0))
    (by intro b; exact forall_uint8 (by revert b; decide +kernel))

/-- letters and non-empty sets correspond -/
theorem mask_letter_roundtrip : ∀ m : Fin 16, m.val ≠ 0 → maskOfLetter (letterOfMask m.val) = some m.val := by
  decide +kernel

theorem decode_is_singleton : ∀ b, b < 4 → decodeBase b = letterOfMask (1 <<< b) :=
  forall_code (by decide +kernel)

/-- set of a list of 2-bit base codes -/
def maskOfCodes (bs : List Nat) : Nat := bs.foldl (fun m b => m ||| (1 <<< b)) 0

private theorem or_shift_lt16 (m b : Nat) (hm : m < 16) (hb : b < 4) : m ||| (1 <<< b) < 16 := by
  have : (1 <<< b) < 2 ^ 4 := by
    have h4 : ∀ b : Fin 4, (1 <<< b.val) < 2 ^ 4 := by decide
    exact h4 ⟨b, hb⟩
  exact Nat.or_lt_two_pow (n := 4) hm this

private theorem or_shift_ne_zero (m b : Nat) : m ||| (1 <<< b) ≠ 0 := by
  intro h
  have h2 : (1 <<< b) = 0 := by
    have := Nat.or_eq_zero_iff.mp h
    exact this.2
  simp [Nat.shiftLeft_eq] at h2

private theorem fold_step (acc : UInt8) (m : Nat) (hm : m < 16) (hm0 : m ≠ 0)
    (hacc : acc = letterOfMask m) (bs : List Nat) (hbs : ∀ b ∈ bs, b < 4) :
    bs.foldl (fun a b => iupacAdd b a) acc
      = letterOfMask (bs.foldl (fun m b => m ||| (1 <<< b)) m) := by
  induction bs generalizing acc m with
  | nil => simpa using hacc
  | cons b bs ih =>
    have hb : b < 4 := hbs b (by simp)
    simp only [List.foldl_cons]
    apply ih (m := m ||| (1 <<< b))
    · exact or_shift_lt16 m b hm hb
    · exact or_shift_ne_zero m b
    · rw [T15_add b hb acc, hacc, mask_letter_roundtrip ⟨m, hm⟩ hm0]
    · intro x hx; exact hbs x (by simp [hx])

/-- **Unbounded.** The code stored for a split k-mer after any non-empty sequence
of observations `b0, bs…` (first `or_insert(decode_base)`, then `IUPAC[..]` for
each further one) is the letter of the *set* of observed bases — hence
independent of order and multiplicity. -/
theorem T15_fold (b0 : Nat) (bs : List Nat) (h0 : b0 < 4) (hbs : ∀ b ∈ bs, b < 4) :
    bs.foldl (fun a b => iupacAdd b a) (decodeBase b0) = letterOfMask (maskOfCodes (b0 :: bs)) := by
  have h := fold_step (decodeBase b0) (1 <<< b0)
    (by have h4 : ∀ b : Fin 4, (1 <<< b.val) < 16 := by decide
        exact h4 ⟨b0, h0⟩)
    (by simp [Nat.shiftLeft_eq])
    (decode_is_singleton b0 h0) bs hbs
  simpa [maskOfCodes] using h

/-- the set of a list does not depend on order -/
theorem maskOfCodes_perm {l₁ l₂ : List Nat} (h : l₁.Perm l₂) : maskOfCodes l₁ = maskOfCodes l₂ := by
  unfold maskOfCodes
  apply h.foldl_eq'
  intro a _ b _ m
  rw [Nat.or_assoc, Nat.or_assoc, Nat.or_comm (1 <<< a)]

/-- … nor on multiplicity -/
theorem maskOfCodes_dup (m : Nat) (b : Nat) : (m ||| (1 <<< b)) ||| (1 <<< b) = m ||| (1 <<< b) := by
  rw [Nat.or_assoc, Nat.or_self]

/-- order/multiplicity independence of the stored code, as a corollary -/
theorem T15_fold_perm (b0 : Nat) (bs : List Nat) (c0 : Nat) (cs : List Nat)
    (h0 : b0 < 4) (hbs : ∀ b ∈ bs, b < 4) (hc0 : c0 < 4) (hcs : ∀ b ∈ cs, b < 4)
    (hperm : (b0 :: bs).Perm (c0 :: cs)) :
    bs.foldl (fun a b => iupacAdd b a) (decodeBase b0)
      = cs.foldl (fun a b => iupacAdd b a) (decodeBase c0) := by
  rw [T15_fold b0 bs h0 hbs, T15_fold c0 cs hc0 hcs, maskOfCodes_perm hperm]

/-! ### Complement -/

/-- `RC_IUPAC` maps each of the 15 code letters (either case) to the letter of
the complemented set and every other byte — U included, which is never stored —
to `-`. -/
theorem T15_rc : ∀ c : UInt8,
    rcIupacAt c = (match maskOfLetter c with
                   | some m => letterOfMask (compMask m)
                   | none => 45) :=
  forall_uint8 (by decide +kernel)

/-- complement is an involution on the stored (upper-case) codes and on `-` -/
theorem T15_rc_invol : ∀ m : Fin 16, m.val ≠ 0 →
    rcIupacAt (rcIupacAt (letterOfMask m.val)) = letterOfMask m.val := by decide +kernel

theorem T15_rc_fixes : rcIupacAt 83 = 83 ∧ rcIupacAt 87 = 87 ∧ rcIupacAt 78 = 78 ∧ rcIupacAt 45 = 45 := by
  decide +kernel

/-- complementing a set is an involution and preserves its size -/
theorem compMask_props : ∀ m : Fin 16, compMask (compMask m.val) = m.val ∧ maskCard (compMask m.val) = maskCard m.val := by
  decide +kernel

/-! ### Classification and weights -/

/-- On IUPAC letters and U (either case) a symbol is ambiguous exactly when its
set is not a single base; the gap is not ambiguous. -/
theorem T15_ambig : ∀ c : UInt8, ∀ m, maskOfLetterU c = some m →
    isAmbiguous c = (maskCard m != 1) := by
  have h : ∀ c : UInt8, (maskOfLetterU c).all (fun m => isAmbiguous c == (maskCard m != 1)) = true :=
    forall_uint8 (by decide +kernel)
  intro c m hm
  have := h c
  rw [hm] at this
  simpa using this

theorem T15_ambig_gap : isAmbiguous 45 = false := by decide +kernel

/-- weight of base `j` under symbol `c`, times 6 -/
def specProb6 (m j : Nat) : Nat :=
  if m = 15 then 0 else if (m >>> j) &&& 1 = 1 then 6 / maskCard m else 0

/-- For stored (upper-case) codes and U the distance weights are uniform over
the code's set and 0 off it, except that N carries no weight; gap carries none. -/
theorem T15_prob : ∀ c : UInt8, c < 97 → ∀ m, maskOfLetterU c = some m →
    ∀ j, j < 4 → prob6 c j = specProb6 m j := by
  have h : ∀ c : UInt8, (decide (c < 97) && (maskOfLetterU c).any (fun m =>
      !(List.range 4).all (fun j => prob6 c j == specProb6 m j))) = false :=
    forall_uint8 (by decide +kernel)
  intro c hc m hm j hj
  have := h c
  rw [hm] at this
  simp only [hc, decide_true, Bool.true_and, Option.any_some, Bool.not_eq_false',
    List.all_eq_true, List.mem_range, beq_iff_eq] at this
  exact this j hj

theorem T15_prob_gap : ∀ j : Fin 4, prob6 45 j.val = 0 := by decide +kernel

/-! ### Non-vacuity: concrete instances -/

example : iupacAdd 0 89 = 72 := by decide +kernel           -- A + Y = H
example : [2, 0].foldl (fun a b => iupacAdd b a) (decodeBase 1) = 72 := by decide +kernel  -- C,T,A = H
example : rcIupacAt 66 = 86 := by decide +kernel            -- B -> V

end SkaModel.Props.C15
