/-
C11 / C02 — the thread count never changes the table `ska build` produces, and
column `i` of the table is exactly sample `i`'s dictionary.

`build_and_merge` combines the per-sample dictionaries either serially
(`multiAppend`) or by a binary split tree (`parallelAppend`), whose depth is the
only thing the thread count selects. Both are shown to produce a dictionary that
*represents* the sample list (`Rep`): names at their `idx`, one row per k-mer of
any sample, cell `(key, i)` = sample `i`'s letter for `key` (0 when absent).
Hence they agree in names, key set and cells for every depth (`T11_tree`),
every thread count (`T11_threads`), and the arrays built from them are equal up
to row order (`T11_order`, `T11_threads_table`).

Hypothesis that is really needed (and a counterexample without it is recorded at
the end): every sample dictionary has at least one k-mer. `merge` returns `self`
unchanged when `other.ksize() == 0` and takes `other`'s names wholesale when
`self.ksize() == 0`; a sample without k-mers therefore loses its *name* (not any
cell) in the tree build.
-/
import SkaModel.Impl.MergeArray
import SkaModel.Spec.Abs
import SkaModel.Lemmas.AssocFold
import SkaModel.Lemmas.Rows

namespace SkaModel.Props.C11

open SkaModel SkaModel.Spec SkaModel.Assoc SkaModel.Rows

set_option linter.unusedSimpArgs false

/-- cell of sample `i` for `key`: the stored byte, 0 when the k-mer or the cell is absent -/
def cell (d : MDict) (key : Nat) (i : Nat) : UInt8 :=
  ((Assoc.lookup d.kmers key).map (fun row => row.getD i 0)).getD 0

/-- shape invariant of a dictionary over `total` sample slots -/
structure MWF (total : Nat) (d : MDict) : Prop where
  nS : d.nSamples = total
  namesLen : d.names.length = total
  rowLen : ∀ kv ∈ d.kmers, kv.2.length = total
  nodup : (Assoc.keys d.kmers).Nodup

/-- the sample of a slice that owns column `i` (first one with `idx = i`) -/
def pick (samples : List SampleDict) (i : Nat) : Option SampleDict :=
  samples.find? (fun s => s.idx == i)

/-- the cell a slice of samples prescribes for `(key, i)` -/
def sliceCell (samples : List SampleDict) (key i : Nat) : UInt8 :=
  match pick samples i with
  | some s => (Assoc.lookup s.kmers key).getD 0
  | none => 0

/-- the name a slice of samples prescribes for column `i` -/
def sliceName (samples : List SampleDict) (i : Nat) : String :=
  match pick samples i with
  | some s => s.name
  | none => ""

/-- `d` is the dictionary over `total` slots that holds exactly the samples of the slice -/
structure Rep (k : Nat) (rc : Bool) (total : Nat) (samples : List SampleDict) (d : MDict) : Prop where
  wf : MWF total d
  hk : d.k = k
  hrc : d.rc = rc
  names : ∀ i, i < total → d.names.getD i "" = sliceName samples i
  cells : ∀ key i, cell d key i = sliceCell samples key i
  keys : ∀ key, key ∈ Assoc.keys d.kmers ↔ ∃ s ∈ samples, key ∈ Assoc.keys s.kmers

/-- what the proofs need of a list of samples: distinct column indices below `total`,
the common `k`/`rc`, duplicate-free k-mer keys (they come from a hash map) -/
structure SamplesOK (k : Nat) (rc : Bool) (total : Nat) (samples : List SampleDict) : Prop where
  idxNodup : (samples.map (·.idx)).Nodup
  idxLt : ∀ s ∈ samples, s.idx < total
  hk : ∀ s ∈ samples, s.k = k
  hrc : ∀ s ∈ samples, s.rc = rc
  keysNodup : ∀ s ∈ samples, (Assoc.keys s.kmers).Nodup

/-- well-formed slice of a build of `total` samples starting at `offset`
(the `noZero` field is part of the stated contract; no proof below uses it) -/
structure SliceWF (k : Nat) (rc : Bool) (total offset : Nat) (samples : List SampleDict) : Prop where
  idx : ∀ j (h : j < samples.length), samples[j].idx = offset + j
  bound : offset + samples.length ≤ total
  hk : ∀ s ∈ samples, s.k = k
  hrc : ∀ s ∈ samples, s.rc = rc
  keysNodup : ∀ s ∈ samples, (Assoc.keys s.kmers).Nodup
  noZero : ∀ s ∈ samples, ∀ kb ∈ s.kmers, kb.2 ≠ 0

/-- every sample has at least one k-mer (`ska build` refuses inputs without any) -/
def AllNonempty (samples : List SampleDict) : Prop := ∀ s ∈ samples, s.kmers ≠ []

/-! ### slices -/

theorem SliceWF.map_idx {k rc total offset samples} (h : SliceWF k rc total offset samples) :
    samples.map (·.idx) = List.range' offset samples.length := by
  apply List.ext_getElem (by simp)
  intro i h1 h2
  simp only [List.length_map] at h1
  simp [h.idx i h1]

theorem SliceWF.samplesOK {k rc total offset samples} (h : SliceWF k rc total offset samples) :
    SamplesOK k rc total samples where
  idxNodup := by rw [h.map_idx]; exact List.nodup_range' 1
  idxLt := by
    intro s hs
    obtain ⟨j, hj, rfl⟩ := List.getElem_of_mem hs
    rw [h.idx j hj]
    have := h.bound
    omega
  hk := h.hk
  hrc := h.hrc
  keysNodup := h.keysNodup

theorem SamplesOK.of_append {k rc total a b} (h : SamplesOK k rc total (a ++ b)) :
    SamplesOK k rc total a ∧ SamplesOK k rc total b ∧ (∀ s ∈ a, ∀ s' ∈ b, s.idx ≠ s'.idx) := by
  have hn := h.idxNodup
  rw [List.map_append, List.nodup_append] at hn
  refine ⟨⟨hn.1, fun s hs => h.idxLt s (List.mem_append_left _ hs), fun s hs => h.hk s (List.mem_append_left _ hs),
      fun s hs => h.hrc s (List.mem_append_left _ hs), fun s hs => h.keysNodup s (List.mem_append_left _ hs)⟩,
    ⟨hn.2.1, fun s hs => h.idxLt s (List.mem_append_right _ hs), fun s hs => h.hk s (List.mem_append_right _ hs),
      fun s hs => h.hrc s (List.mem_append_right _ hs), fun s hs => h.keysNodup s (List.mem_append_right _ hs)⟩, ?_⟩
  intro s hs s' hs'
  exact hn.2.2 _ (List.mem_map.2 ⟨s, hs, rfl⟩) _ (List.mem_map.2 ⟨s', hs', rfl⟩)

/-! ### `pick` -/

theorem pick_nil (i : Nat) : pick [] i = none := rfl

theorem pick_append (a b : List SampleDict) (i : Nat) : pick (a ++ b) i = (pick a i).or (pick b i) := by
  simp [pick, List.find?_append]

theorem pick_eq_none_iff (l : List SampleDict) (i : Nat) : pick l i = none ↔ ∀ s ∈ l, s.idx ≠ i := by
  simp [pick, List.find?_eq_none]

theorem pick_some {l : List SampleDict} {i : Nat} {s : SampleDict} (h : pick l i = some s) : s ∈ l ∧ s.idx = i := by
  refine ⟨List.mem_of_find?_eq_some h, ?_⟩
  have := List.find?_some h
  simpa using this

theorem pick_single (s : SampleDict) (i : Nat) : pick [s] i = if s.idx = i then some s else none := by
  by_cases h : s.idx = i
  · simp [pick, List.find?_cons, h]
  · have hb : (s.idx == i) = false := by simpa using h
    simp [pick, List.find?_cons, hb, h]

/-- with distinct indices every member is the one picked for its own index -/
theorem pick_of_mem {l : List SampleDict} (hn : (l.map (·.idx)).Nodup) {s : SampleDict} (hs : s ∈ l) :
    pick l s.idx = some s := by
  induction l with
  | nil => cases hs
  | cons a rest ih =>
    simp only [List.map_cons, List.nodup_cons] at hn
    rcases List.mem_cons.1 hs with e | hm
    · subst e; simp [pick, List.find?_cons]
    · have hne : ¬ a.idx = s.idx := fun e => hn.1 (e ▸ List.mem_map.2 ⟨s, hm, rfl⟩)
      have hb : (a.idx == s.idx) = false := by simpa using hne
      have := ih hn.2 hm
      simpa [pick, List.find?_cons, hb] using this

/-! ### the empty dictionary -/

theorem cell_of_lookup_none {d : MDict} {key : Nat} (h : Assoc.lookup d.kmers key = none) (i : Nat) :
    cell d key i = 0 := by simp [cell, h]

theorem cell_of_lookup_some {d : MDict} {key : Nat} {row : List UInt8} (h : Assoc.lookup d.kmers key = some row)
    (i : Nat) : cell d key i = row.getD i 0 := by simp [cell, h]

theorem cell_of_kmers_nil {d : MDict} (h : d.kmers = []) (key i : Nat) : cell d key i = 0 := by
  simp [cell, h]

theorem rep_new (k : Nat) (rc : Bool) (total : Nat) : Rep k rc total [] (MDict.new k total rc) where
  wf := ⟨rfl, by simp [MDict.new], by simp [MDict.new], by simp [MDict.new]⟩
  hk := rfl
  hrc := rfl
  names := by
    intro i hi
    simp [MDict.new, sliceName, pick_nil, List.getD_eq_getElem?_getD, hi]
  cells := by intro key i; simp [cell, MDict.new, sliceCell, pick_nil]
  keys := by intro key; simp [MDict.new]

/-! ### `append` -/

/-- `append` succeeds on matching `k`/`rc`; its result in `foldUpsert` form -/
theorem append_ok (d : MDict) (s : SampleDict) (hk : s.k = d.k) (hrc : s.rc = d.rc) :
    d.append s = .ok { d with
      names := d.names.set s.idx s.name
      kmers := foldUpsert (fun kb => (List.replicate d.nSamples (0 : UInt8)).set s.idx kb.2)
        (fun kb row => row.set s.idx kb.2) d.kmers s.kmers } := by
  simp [MDict.append, hk, hrc, foldUpsert]

section appendStep
variable {total : Nat} (d : MDict) (s : SampleDict)

/-- the dictionary `append` produces -/
def appended : MDict := { d with
  names := d.names.set s.idx s.name
  kmers := foldUpsert (fun kb => (List.replicate d.nSamples (0 : UInt8)).set s.idx kb.2)
    (fun kb row => row.set s.idx kb.2) d.kmers s.kmers }

theorem appended_wf (hd : MWF total d) : MWF total (appended d s) where
  nS := hd.nS
  namesLen := by simp [appended, hd.namesLen]
  rowLen := by
    exact forall_foldUpsert (fun row : List UInt8 => row.length = total) _ _ _ _ hd.rowLen
      (by intro kb _; simp [hd.nS]) (by intro kb _ v hv; simpa using hv)
  nodup := nodup_keys_foldUpsert _ _ _ _ hd.nodup

theorem appended_cell (hd : MWF total d) (hidx : s.idx < total) (hn : (Assoc.keys s.kmers).Nodup) (key i : Nat) :
    cell (appended d s) key i =
      if i = s.idx then (match Assoc.lookup s.kmers key with | some b => b | none => cell d key i)
      else cell d key i := by
  have hl := lookup_foldUpsert (fun kb : Nat × UInt8 => (List.replicate d.nSamples (0 : UInt8)).set s.idx kb.2)
    (fun kb row => row.set s.idx kb.2) d.kmers s.kmers hn key
  cases hs : Assoc.lookup s.kmers key with
  | none =>
    rw [hs] at hl
    have : cell (appended d s) key i = cell d key i := by simp [cell, appended, hl]
    simp [this]
  | some b =>
    rw [hs] at hl
    cases hdk : Assoc.lookup d.kmers key with
    | none =>
      rw [hdk] at hl
      have hc : cell (appended d s) key i = ((List.replicate d.nSamples (0 : UInt8)).set s.idx b).getD i 0 := by
        simp [cell, appended, hl]
      rw [hc, getD_set _ _ _ _ _ (by simp [hd.nS, hidx]), getD_replicate_zero, cell_of_lookup_none hdk]
    | some row =>
      rw [hdk] at hl
      have hrow : row.length = total := hd.rowLen (key, row) (mem_of_lookup hdk)
      have hc : cell (appended d s) key i = (row.set s.idx b).getD i 0 := by
        simp [cell, appended, hl]
      rw [hc, getD_set _ _ _ _ _ (by simp [hrow, hidx]), cell_of_lookup_some hdk]

theorem appended_keys (key : Nat) :
    key ∈ Assoc.keys (appended d s).kmers ↔ key ∈ Assoc.keys d.kmers ∨ key ∈ Assoc.keys s.kmers :=
  mem_keys_foldUpsert _ _ _ _ _

end appendStep

/-- one serial step: appending a sample with a fresh index extends the represented slice -/
theorem append_rep {k rc total} {done : List SampleDict} {d : MDict} {s : SampleDict}
    (hrep : Rep k rc total done d) (hsk : s.k = k) (hsrc : s.rc = rc) (hidx : s.idx < total)
    (hfresh : ∀ s' ∈ done, s'.idx ≠ s.idx) (hn : (Assoc.keys s.kmers).Nodup) :
    ∃ d', d.append s = .ok d' ∧ Rep k rc total (done ++ [s]) d' := by
  refine ⟨appended d s, append_ok d s (by rw [hsk, hrep.hk]) (by rw [hsrc, hrep.hrc]), ?_⟩
  have hpn : pick done s.idx = none := (pick_eq_none_iff _ _).2 hfresh
  refine ⟨appended_wf d s hrep.wf, hrep.hk, hrep.hrc, ?_, ?_, ?_⟩
  · intro i hi
    have : (appended d s).names = d.names.set s.idx s.name := rfl
    rw [this, getD_set _ _ _ _ _ (by rw [hrep.wf.namesLen]; exact hidx), hrep.names i hi]
    simp only [sliceName, pick_append, pick_single]
    by_cases e : i = s.idx
    · subst e; simp [hpn]
    · have e' : ¬ s.idx = i := fun x => e x.symm
      simp [e, e']
  · intro key i
    rw [appended_cell d s hrep.wf hidx hn, hrep.cells]
    simp only [sliceCell, pick_append, pick_single]
    by_cases e : i = s.idx
    · subst e
      cases hs : Assoc.lookup s.kmers key <;> simp [hpn, hs]
    · have e' : ¬ s.idx = i := fun x => e x.symm
      simp [e, e']
  · intro key
    rw [appended_keys, hrep.keys]
    constructor
    · rintro (⟨s', hs', hk'⟩ | h)
      · exact ⟨s', List.mem_append_left _ hs', hk'⟩
      · exact ⟨s, by simp, h⟩
    · rintro ⟨s', hs', hk'⟩
      rcases List.mem_append.1 hs' with h | h
      · exact Or.inl ⟨s', h, hk'⟩
      · simp at h; subst h; exact Or.inr hk'

/-! ### `multiAppend` -/

theorem foldlM_append_rep {k rc total} (rest : List SampleDict) :
    ∀ (done : List SampleDict) (d : MDict), Rep k rc total done d → SamplesOK k rc total (done ++ rest) →
      ∃ d', rest.foldlM (fun d s => d.append s) d = .ok d' ∧ Rep k rc total (done ++ rest) d' := by
  induction rest with
  | nil => intro done d hrep _; exact ⟨d, rfl, by simpa using hrep⟩
  | cons s rest ih =>
    intro done d hrep hok
    have hs : s ∈ done ++ s :: rest := by simp
    obtain ⟨_, hb, hdis⟩ := hok.of_append
    have hfresh : ∀ s' ∈ done, s'.idx ≠ s.idx := fun s' h' => hdis s' h' s (by simp)
    obtain ⟨d1, h1, hrep1⟩ := append_rep hrep (hok.hk s hs) (hok.hrc s hs) (hok.idxLt s hs) hfresh
      (hok.keysNodup s hs)
    have hok' : SamplesOK k rc total ((done ++ [s]) ++ rest) := by simpa using hok
    obtain ⟨d', h2, hrep2⟩ := ih (done ++ [s]) d1 hrep1 hok'
    refine ⟨d', ?_, by simpa using hrep2⟩
    rw [List.foldlM_cons, h1]
    exact h2

/-- serial build of a list of samples represents that list -/
theorem multiAppend_rep {k rc total} {samples : List SampleDict} (hok : SamplesOK k rc total samples) :
    ∃ d, multiAppend k rc total samples = .ok d ∧ Rep k rc total samples d := by
  have := foldlM_append_rep samples [] (MDict.new k total rc) (rep_new k rc total) (by simpa using hok)
  simpa [multiAppend] using this

/-! ### `merge` -/

/-- the dictionary `merge` produces when both sides have k-mers -/
def merged (b t : MDict) : MDict := { b with
  names := zipPad (fun so : String × String => if so.1.isEmpty then so.2 else so.1) b.names t.names
  kmers := foldUpsert (fun kv : Nat × List UInt8 => kv.2) (fun kv row => orRow row kv.2) b.kmers t.kmers }

theorem merge_top_empty (b t : MDict) (hk : t.k = b.k) (hrc : t.rc = b.rc) (ht : t.kmers = []) :
    b.merge t = .ok b := by
  simp [MDict.merge, hk, hrc, MDict.ksize, ht]

theorem merge_bottom_empty (b t : MDict) (hk : t.k = b.k) (hrc : t.rc = b.rc) (ht : t.kmers ≠ [])
    (hb : b.kmers = []) : b.merge t = .ok { b with names := t.names, kmers := t.kmers } := by
  have : 0 < t.kmers.length := List.length_pos_iff.2 ht
  simp [MDict.merge, hk, hrc, MDict.ksize, hb, this]

theorem merge_general (b t : MDict) (hk : t.k = b.k) (hrc : t.rc = b.rc) (ht : t.kmers ≠ [])
    (hb : b.kmers ≠ []) : b.merge t = .ok (merged b t) := by
  have h1 : 0 < t.kmers.length := List.length_pos_iff.2 ht
  have h2 : ¬ b.kmers.length = 0 := fun e => hb (List.length_eq_zero_iff.1 e)
  have e1 : (t.k != b.k) = false := by simp [hk]
  have e2 : (t.rc != b.rc) = false := by simp [hrc]
  have e3 : (b.ksize == 0) = false := by simpa [MDict.ksize] using h2
  unfold MDict.merge
  rw [e1, e2, if_neg (by simp), if_neg (by simp), if_pos (by simpa [MDict.ksize] using h1), e3, if_neg (by simp)]
  rfl

theorem merged_wf {total : Nat} (b t : MDict) (hb : MWF total b) (ht : MWF total t) : MWF total (merged b t) where
  nS := hb.nS
  namesLen := by simp [merged, zipPad_length, hb.namesLen]
  rowLen :=
    forall_foldUpsert (fun row : List UInt8 => row.length = total) _ _ _ _ hb.rowLen
      (fun kv h => ht.rowLen kv h) (fun kv _ v hv => by rw [orRow_length]; exact hv)
  nodup := nodup_keys_foldUpsert _ _ _ _ hb.nodup

theorem merged_cell {total : Nat} (b t : MDict) (hb : MWF total b) (ht : MWF total t) (key i : Nat) :
    cell (merged b t) key i = cell b key i ||| cell t key i := by
  have hl := lookup_foldUpsert (fun kv : Nat × List UInt8 => kv.2) (fun kv row => orRow row kv.2)
    b.kmers t.kmers ht.nodup key
  cases hs : Assoc.lookup t.kmers key with
  | none =>
    rw [hs] at hl
    have : cell (merged b t) key i = cell b key i := by simp [cell, merged, hl]
    rw [this, cell_of_lookup_none hs, UInt8.or_zero]
  | some r2 =>
    rw [hs] at hl
    have hr2 : r2.length = total := ht.rowLen (key, r2) (mem_of_lookup hs)
    cases hbk : Assoc.lookup b.kmers key with
    | none =>
      rw [hbk] at hl
      have : cell (merged b t) key i = r2.getD i 0 := by simp [cell, merged, hl]
      rw [this, cell_of_lookup_none hbk, cell_of_lookup_some hs, UInt8.zero_or]
    | some row =>
      rw [hbk] at hl
      have hrow : row.length = total := hb.rowLen (key, row) (mem_of_lookup hbk)
      have : cell (merged b t) key i = (orRow row r2).getD i 0 := by simp [cell, merged, hl]
      rw [this, orRow_getD _ _ (by rw [hrow, hr2]), cell_of_lookup_some hbk, cell_of_lookup_some hs]

theorem merged_keys (b t : MDict) (key : Nat) :
    key ∈ Assoc.keys (merged b t).kmers ↔ key ∈ Assoc.keys b.kmers ∨ key ∈ Assoc.keys t.kmers :=
  mem_keys_foldUpsert _ _ _ _ _

theorem merged_names {total : Nat} (b t : MDict) (hb : MWF total b) (ht : MWF total t) (i : Nat) (hi : i < total) :
    (merged b t).names.getD i "" =
      if (b.names.getD i "").isEmpty then t.names.getD i "" else b.names.getD i "" := by
  have : (merged b t).names =
      zipPad (fun so : String × String => if so.1.isEmpty then so.2 else so.1) b.names t.names := rfl
  rw [this, zipPad_getD _ _ _ (by rw [hb.namesLen, ht.namesLen]) _ _ (by rw [hb.namesLen]; exact hi)]

/-- **Deliverable 2.** `merge` of two dictionaries over the same `total` slots ORs the cells,
unites the key sets and takes, per slot, `b`'s name unless it is empty. The two short cuts of the
code are covered by `htn`/`hbn`: a side without k-mers must not carry names (it would lose them). -/
theorem merge_cell {total : Nat} (b t : MDict) (hb : MWF total b) (ht : MWF total t)
    (hk : t.k = b.k) (hrc : t.rc = b.rc)
    (htn : t.kmers = [] → ∀ i, i < total → t.names.getD i "" = "")
    (hbn : b.kmers = [] → ∀ i, i < total → b.names.getD i "" = "") :
    ∃ m, b.merge t = .ok m ∧ MWF total m ∧ m.k = b.k ∧ m.rc = b.rc ∧
      (∀ key i, cell m key i = cell b key i ||| cell t key i) ∧
      (∀ i, i < total → m.names.getD i "" =
        if (b.names.getD i "").isEmpty then t.names.getD i "" else b.names.getD i "") ∧
      (∀ key, key ∈ Assoc.keys m.kmers ↔ key ∈ Assoc.keys b.kmers ∨ key ∈ Assoc.keys t.kmers) := by
  by_cases hte : t.kmers = []
  · refine ⟨b, merge_top_empty b t hk hrc hte, hb, rfl, rfl, ?_, ?_, ?_⟩
    · intro key i; rw [cell_of_kmers_nil hte, UInt8.or_zero]
    · intro i hi
      by_cases he : (b.names.getD i "").isEmpty
      · rw [if_pos he, htn hte i hi]; exact String.isEmpty_iff.1 he
      · rw [if_neg he]
    · intro key; simp [hte]
  · by_cases hbe : b.kmers = []
    · refine ⟨_, merge_bottom_empty b t hk hrc hte hbe, ⟨hb.nS, ht.namesLen, ht.rowLen, ht.nodup⟩, rfl, rfl, ?_, ?_, ?_⟩
      · intro key i
        rw [cell_of_kmers_nil hbe, UInt8.zero_or]; rfl
      · intro i hi
        rw [hbn hbe i hi]; rfl
      · intro key; simp [hbe]
    · exact ⟨_, merge_general b t hk hrc hte hbe, merged_wf b t hb ht, rfl, rfl, merged_cell b t hb ht,
        merged_names b t hb ht, merged_keys b t⟩

/-- over disjoint column ranges at most one of the two cells is non-zero and the merged cell is that one -/
theorem merge_cell_disjoint {b t m : MDict} {key i : Nat}
    (hc : cell m key i = cell b key i ||| cell t key i) (hd : cell b key i = 0 ∨ cell t key i = 0) :
    cell m key i = if cell b key i ≠ 0 then cell b key i else cell t key i := by
  rcases hd with h | h
  · simp [hc, h]
  · by_cases hb0 : cell b key i = 0 <;> simp [hc, h, hb0]


/-- **Deliverable 2, range form.** If `b` only uses the columns in `Sb` and `t` only columns outside
`Sb` (cells and names elsewhere are 0 / `""`), the merged dictionary has `b`'s column on `Sb` and
`t`'s column elsewhere. -/
theorem merge_cell_ranges {total : Nat} (b t : MDict) (hb : MWF total b) (ht : MWF total t)
    (hk : t.k = b.k) (hrc : t.rc = b.rc)
    (htn : t.kmers = [] → ∀ i, i < total → t.names.getD i "" = "")
    (hbn : b.kmers = [] → ∀ i, i < total → b.names.getD i "" = "")
    (Sb : Nat → Prop)
    (hbz : ∀ i, ¬ Sb i → (∀ key, cell b key i = 0) ∧ b.names.getD i "" = "")
    (htz : ∀ i, Sb i → (∀ key, cell t key i = 0) ∧ t.names.getD i "" = "") :
    ∃ m, b.merge t = .ok m ∧ MWF total m ∧ m.k = b.k ∧ m.rc = b.rc ∧
      (∀ key, key ∈ Assoc.keys m.kmers ↔ key ∈ Assoc.keys b.kmers ∨ key ∈ Assoc.keys t.kmers) ∧
      (∀ i, Sb i → (∀ key, cell m key i = cell b key i) ∧ (i < total → m.names.getD i "" = b.names.getD i "")) ∧
      (∀ i, ¬ Sb i → (∀ key, cell m key i = cell t key i) ∧ (i < total → m.names.getD i "" = t.names.getD i "")) := by
  obtain ⟨m, hm, hwf, hmk, hmrc, hcell, hnames, hkeys⟩ := merge_cell b t hb ht hk hrc htn hbn
  refine ⟨m, hm, hwf, hmk, hmrc, hkeys, ?_, ?_⟩
  · intro i hi
    refine ⟨fun key => by rw [hcell, (htz i hi).1 key, UInt8.or_zero], fun hlt => ?_⟩
    rw [hnames i hlt]
    by_cases he : (b.names.getD i "").isEmpty
    · rw [if_pos he, (htz i hi).2]; exact (String.isEmpty_iff.1 he).symm
    · rw [if_neg he]
  · intro i hi
    refine ⟨fun key => by rw [hcell, (hbz i hi).1 key, UInt8.zero_or], fun hlt => ?_⟩
    rw [hnames i hlt, (hbz i hi).2]
    rfl

/-! ### slices: union of two disjoint slices -/

theorem sliceCell_append {a b : List SampleDict} (hdis : ∀ s ∈ a, ∀ s' ∈ b, s.idx ≠ s'.idx) (key i : Nat) :
    sliceCell (a ++ b) key i = sliceCell a key i ||| sliceCell b key i := by
  simp only [sliceCell, pick_append]
  cases ha : pick a i with
  | none => simp
  | some s =>
    have ⟨hs, hi⟩ := pick_some ha
    have hb : pick b i = none := (pick_eq_none_iff _ _).2 (fun s' hs' e => hdis s hs s' hs' (hi.trans e.symm))
    simp [hb]

theorem sliceName_append {a b : List SampleDict} (hdis : ∀ s ∈ a, ∀ s' ∈ b, s.idx ≠ s'.idx) (i : Nat) :
    sliceName (a ++ b) i = if (sliceName a i).isEmpty then sliceName b i else sliceName a i := by
  cases ha : pick a i with
  | none => simp [sliceName, pick_append, ha]
  | some s =>
    have ⟨hs, hi⟩ := pick_some ha
    have hb : pick b i = none := (pick_eq_none_iff _ _).2 (fun s' hs' e => hdis s hs s' hs' (hi.trans e.symm))
    by_cases he : s.name.isEmpty
    · simp [sliceName, pick_append, ha, hb, he, String.isEmpty_iff.1 he]
    · simp [sliceName, pick_append, ha, hb, he]

theorem rep_kmers_nil {k rc total samples d} (hrep : Rep k rc total samples d) (hne : AllNonempty samples)
    (h : d.kmers = []) : samples = [] := by
  cases samples with
  | nil => rfl
  | cons s rest =>
    exfalso
    have hs : s.kmers ≠ [] := hne s (by simp)
    obtain ⟨kb, kbs, hkb⟩ := List.exists_cons_of_ne_nil hs
    have : kb.1 ∈ Assoc.keys d.kmers := (hrep.keys kb.1).2 ⟨s, by simp, by simp [hkb]⟩
    simp [h] at this

/-- merging the dictionaries of two disjoint slices (every sample non-empty) gives the dictionary
of the concatenated slice -/
theorem merge_rep {k rc total} {bs ts : List SampleDict} {b t : MDict}
    (hb : Rep k rc total bs b) (ht : Rep k rc total ts t)
    (hdis : ∀ s ∈ bs, ∀ s' ∈ ts, s.idx ≠ s'.idx)
    (hbne : AllNonempty bs) (htne : AllNonempty ts) :
    ∃ m, b.merge t = .ok m ∧ Rep k rc total (bs ++ ts) m := by
  obtain ⟨m, hm, hwf, hmk, hmrc, hcell, hnames, hkeys⟩ := merge_cell b t hb.wf ht.wf
    (by rw [hb.hk, ht.hk]) (by rw [hb.hrc, ht.hrc])
    (fun h i hi => by rw [ht.names i hi, rep_kmers_nil ht htne h]; rfl)
    (fun h i hi => by rw [hb.names i hi, rep_kmers_nil hb hbne h]; rfl)
  refine ⟨m, hm, hwf, hmk.trans hb.hk, hmrc.trans hb.hrc, ?_, ?_, ?_⟩
  · intro i hi
    rw [hnames i hi, hb.names i hi, ht.names i hi, sliceName_append hdis]
  · intro key i
    rw [hcell, hb.cells, ht.cells, sliceCell_append hdis]
  · intro key
    rw [hkeys, hb.keys, ht.keys]
    constructor
    · rintro (⟨s, hs, h⟩ | ⟨s, hs, h⟩)
      · exact ⟨s, List.mem_append_left _ hs, h⟩
      · exact ⟨s, List.mem_append_right _ hs, h⟩
    · rintro ⟨s, hs, h⟩
      rcases List.mem_append.1 hs with h' | h'
      · exact Or.inl ⟨s, h', h⟩
      · exact Or.inr ⟨s, h', h⟩

/-! ### the split tree -/

theorem parallelAppend_zero (k : Nat) (rc : Bool) (total : Nat) (samples : List SampleDict) :
    parallelAppend k rc total 0 samples = multiAppend k rc total samples := rfl

theorem parallelAppend_succ (k : Nat) (rc : Bool) (total depth : Nat) (samples : List SampleDict) :
    parallelAppend k rc total (depth + 1) samples =
      (do let b ← parallelAppend k rc total depth (samples.take (samples.length / 2))
          let t ← parallelAppend k rc total depth (samples.drop (samples.length / 2))
          b.merge t) := by
  cases depth with
  | zero => rfl
  | succ n => rfl

/-- the tree build of any depth represents the sample list -/
theorem parallelAppend_rep {k rc total} (depth : Nat) :
    ∀ samples : List SampleDict, SamplesOK k rc total samples → AllNonempty samples →
      ∃ d, parallelAppend k rc total depth samples = .ok d ∧ Rep k rc total samples d := by
  induction depth with
  | zero => intro samples hok _; exact multiAppend_rep hok
  | succ n ih =>
    intro samples hok hne
    have hsplit : samples.take (samples.length / 2) ++ samples.drop (samples.length / 2) = samples :=
      List.take_append_drop _ _
    obtain ⟨hokb, hokt, hdis⟩ := SamplesOK.of_append (hsplit.symm ▸ hok)
    have hneb : AllNonempty (samples.take (samples.length / 2)) := fun s hs => hne s (List.mem_of_mem_take hs)
    have hnet : AllNonempty (samples.drop (samples.length / 2)) := fun s hs => hne s (List.mem_of_mem_drop hs)
    obtain ⟨b, hb, hrb⟩ := ih _ hokb hneb
    obtain ⟨t, ht, hrt⟩ := ih _ hokt hnet
    obtain ⟨m, hm, hrm⟩ := merge_rep hrb hrt hdis hneb hnet
    refine ⟨m, ?_, hsplit ▸ hrm⟩
    rw [parallelAppend_succ, hb, ht]
    exact hm

/-! ### agreement of two dictionaries -/

/-- same parameters, names, key set and cells -/
structure Same (d₁ d₂ : MDict) : Prop where
  k : d₁.k = d₂.k
  rc : d₁.rc = d₂.rc
  nSamples : d₁.nSamples = d₂.nSamples
  names : d₁.names = d₂.names
  keys : ∀ key, key ∈ Assoc.keys d₁.kmers ↔ key ∈ Assoc.keys d₂.kmers
  cells : ∀ key i, cell d₁ key i = cell d₂ key i

theorem Rep.names_eq {k rc total samples d} (h : Rep k rc total samples d) :
    d.names = (List.range total).map (sliceName samples) := by
  apply ext_getD "" _ _ (by simp [h.wf.namesLen])
  intro i hi
  rw [h.wf.namesLen] at hi
  rw [h.names i hi]
  simp [List.getD_eq_getElem?_getD, List.getElem?_range hi, hi]

theorem Rep.same {k rc total samples d₁ d₂} (h₁ : Rep k rc total samples d₁) (h₂ : Rep k rc total samples d₂) :
    Same d₁ d₂ where
  k := h₁.hk.trans h₂.hk.symm
  rc := h₁.hrc.trans h₂.hrc.symm
  nSamples := h₁.wf.nS.trans h₂.wf.nS.symm
  names := h₁.names_eq.trans h₂.names_eq.symm
  keys := fun key => (h₁.keys key).trans (h₂.keys key).symm
  cells := fun key i => (h₁.cells key i).trans (h₂.cells key i).symm

/-! ### contiguous slices: `pick` by position -/

theorem SliceWF.pick_eq {k rc total offset samples} (h : SliceWF k rc total offset samples) (i : Nat) :
    pick samples i = if offset ≤ i then samples[i - offset]? else none := by
  by_cases hi : offset ≤ i ∧ i - offset < samples.length
  · have hmem : samples[i - offset] ∈ samples := List.getElem_mem hi.2
    have hidx : samples[i - offset].idx = i := by rw [h.idx _ hi.2]; omega
    have := pick_of_mem h.samplesOK.idxNodup hmem
    rw [hidx] at this
    rw [this, if_pos hi.1, List.getElem?_eq_getElem hi.2]
  · have hn : pick samples i = none := by
      rw [pick_eq_none_iff]
      intro s hs e
      obtain ⟨j, hj, rfl⟩ := List.getElem_of_mem hs
      rw [h.idx j hj] at e
      exact hi ⟨by omega, by omega⟩
    rw [hn]
    by_cases ho : offset ≤ i
    · rw [if_pos ho, List.getElem?_eq_none (by omega)]
    · rw [if_neg ho]

theorem SliceWF.sliceCell_eq {k rc total offset samples} (h : SliceWF k rc total offset samples) (key i : Nat) :
    sliceCell samples key i =
      if offset ≤ i then ((samples[i - offset]?).bind (fun s => Assoc.lookup s.kmers key)).getD 0 else 0 := by
  rw [sliceCell, h.pick_eq]
  by_cases ho : offset ≤ i
  · simp only [if_pos ho]
    cases samples[i - offset]? <;> rfl
  · simp only [if_neg ho]

theorem SliceWF.sliceName_eq {k rc total offset samples} (h : SliceWF k rc total offset samples) (i : Nat) :
    sliceName samples i = if offset ≤ i then ((samples[i - offset]?).map (·.name)).getD "" else "" := by
  rw [sliceName, h.pick_eq]
  by_cases ho : offset ≤ i
  · simp only [if_pos ho]
    cases samples[i - offset]? <;> rfl
  · simp only [if_neg ho]

/-! ## Deliverable 1 -/

/-- **`multiAppend_cell`**: the serial build of a well-formed slice succeeds; the result has `total`
slots, the names placed at their `idx` (others `""`), rows of length `total`, duplicate-free keys,
cell `(key, i)` = the letter sample `i - offset` of the slice has for `key` (0 when `i` is outside the
slice or the sample lacks `key`), and a key is present iff some sample of the slice has it. -/
theorem multiAppend_cell {k : Nat} {rc : Bool} {total offset : Nat} {samples : List SampleDict}
    (h : SliceWF k rc total offset samples) :
    ∃ d, multiAppend k rc total samples = .ok d ∧ d.k = k ∧ d.rc = rc ∧ d.nSamples = total ∧
      d.names = (List.range total).map (fun i =>
        if offset ≤ i then ((samples[i - offset]?).map (·.name)).getD "" else "") ∧
      (∀ kv ∈ d.kmers, kv.2.length = total) ∧
      (Assoc.keys d.kmers).Nodup ∧
      (∀ key i, cell d key i =
        if offset ≤ i then ((samples[i - offset]?).bind (fun s => Assoc.lookup s.kmers key)).getD 0 else 0) ∧
      (∀ key, key ∈ Assoc.keys d.kmers ↔ ∃ s ∈ samples, key ∈ Assoc.keys s.kmers) := by
  obtain ⟨d, hd, hrep⟩ := multiAppend_rep h.samplesOK
  refine ⟨d, hd, hrep.hk, hrep.hrc, hrep.wf.nS, ?_, hrep.wf.rowLen, hrep.wf.nodup, ?_, hrep.keys⟩
  · rw [hrep.names_eq]
    exact List.map_congr_left (fun i _ => h.sliceName_eq i)
  · intro key i
    rw [hrep.cells, h.sliceCell_eq]

/-! ## Deliverable 3 -/

/-- **`T11_tree`**: for a well-formed sample list (`idx` = position, every sample with at least one
k-mer) the split tree of EVERY depth and the serial build both succeed and agree in names, key set
and every cell. -/
theorem T11_tree {k : Nat} {rc : Bool} {samples : List SampleDict}
    (h : SliceWF k rc samples.length 0 samples) (hne : AllNonempty samples) (depth : Nat) :
    ∃ dp ds, parallelAppend k rc samples.length depth samples = .ok dp ∧
      multiAppend k rc samples.length samples = .ok ds ∧ Same dp ds := by
  obtain ⟨dp, hp, hrp⟩ := parallelAppend_rep depth samples h.samplesOK hne
  obtain ⟨ds, hs, hrs⟩ := multiAppend_rep h.samplesOK
  exact ⟨dp, ds, hp, hs, hrp.same hrs⟩

/-- `build_and_merge` with any thread count represents the sample list -/
theorem buildAndMerge_rep {k : Nat} {rc : Bool} {samples : List SampleDict}
    (h : SliceWF k rc samples.length 0 samples) (hne : AllNonempty samples) (threads : Nat) :
    ∃ d, buildAndMerge k rc threads samples = .ok d ∧ Rep k rc samples.length samples d := by
  unfold buildAndMerge
  simp only
  split
  · exact parallelAppend_rep _ samples h.samplesOK hne
  · exact multiAppend_rep h.samplesOK

/-- **`T11_threads`**: any two thread counts give dictionaries with the same names, key set and cells
(no lower bound on the thread counts is needed: the code clamps with `max 1`). -/
theorem T11_threads {k : Nat} {rc : Bool} {samples : List SampleDict}
    (h : SliceWF k rc samples.length 0 samples) (hne : AllNonempty samples) (threads₁ threads₂ : Nat) :
    ∃ d₁ d₂, buildAndMerge k rc threads₁ samples = .ok d₁ ∧ buildAndMerge k rc threads₂ samples = .ok d₂ ∧
      Same d₁ d₂ := by
  obtain ⟨d₁, h₁, r₁⟩ := buildAndMerge_rep h hne threads₁
  obtain ⟨d₂, h₂, r₂⟩ := buildAndMerge_rep h hne threads₂
  exact ⟨d₁, d₂, h₁, h₂, r₁.same r₂⟩

/-! ## Deliverable 4 -/

/-- **`T02_samples`**: column `i` of the build is sample `i`: its name and, for every k-mer, its letter
(0 when the sample lacks the k-mer); rows exist exactly for the k-mers of some sample. -/
theorem T02_samples {k : Nat} {rc : Bool} {samples : List SampleDict}
    (h : SliceWF k rc samples.length 0 samples) (hne : AllNonempty samples) (threads : Nat) :
    ∃ d, buildAndMerge k rc threads samples = .ok d ∧ d.nSamples = samples.length ∧
      d.names = samples.map (·.name) ∧
      (∀ i (hi : i < samples.length) key, cell d key i = (Assoc.lookup samples[i].kmers key).getD 0) ∧
      (∀ i key, samples.length ≤ i → cell d key i = 0) ∧
      (∀ key, key ∈ Assoc.keys d.kmers ↔ ∃ s ∈ samples, key ∈ Assoc.keys s.kmers) := by
  obtain ⟨d, hd, hrep⟩ := buildAndMerge_rep h hne threads
  refine ⟨d, hd, hrep.wf.nS, ?_, ?_, ?_, hrep.keys⟩
  · apply ext_getD "" _ _ (by simp [hrep.wf.namesLen])
    intro i hi
    rw [hrep.wf.namesLen] at hi
    rw [hrep.names i hi, h.sliceName_eq]
    simp [List.getD_eq_getElem?_getD, List.getElem?_eq_getElem hi]
  · intro i hi key
    rw [hrep.cells, h.sliceCell_eq]
    simp [List.getElem?_eq_getElem hi]
  · intro i key hi
    rw [hrep.cells, h.sliceCell_eq]
    simp [List.getElem?_eq_none hi]

/-- the part of a sample that does not depend on its position -/
def content (s : SampleDict) : String × Assoc Nat UInt8 := (s.name, s.kmers)

theorem eq_of_nodup_map {α β : Type} (f : α → β) {l : List α} (hn : (l.map f).Nodup) {a b : α}
    (ha : a ∈ l) (hb : b ∈ l) (e : f a = f b) : a = b := by
  induction l with
  | nil => cases ha
  | cons x rest ih =>
    simp only [List.map_cons, List.nodup_cons] at hn
    rcases List.mem_cons.1 ha with ha | ha <;> rcases List.mem_cons.1 hb with hb | hb
    · rw [ha, hb]
    · rw [ha] at e; exact absurd (e ▸ List.mem_map.2 ⟨b, hb, rfl⟩) hn.1
    · rw [hb] at e; exact absurd (e ▸ List.mem_map.2 ⟨a, ha, rfl⟩) hn.1
    · exact ih hn.2 ha hb

/-- **`T02_perm` (explicit positions)**: if the sample at position `i` of one input is the sample at
position `j` of another input (same k-mers), column `j` of the second build is column `i` of the first. -/
theorem T02_perm_pos {k : Nat} {rc : Bool} {samples samples' : List SampleDict}
    (h : SliceWF k rc samples.length 0 samples) (hne : AllNonempty samples)
    (h' : SliceWF k rc samples'.length 0 samples') (hne' : AllNonempty samples') (threads threads' : Nat) :
    ∃ d d', buildAndMerge k rc threads samples = .ok d ∧ buildAndMerge k rc threads' samples' = .ok d' ∧
      ∀ i j (hi : i < samples.length) (hj : j < samples'.length), samples'[j].kmers = samples[i].kmers →
        ∀ key, cell d' key j = cell d key i := by
  obtain ⟨d, hd, _, _, hc, _⟩ := T02_samples h hne threads
  obtain ⟨d', hd', _, _, hc', _⟩ := T02_samples h' hne' threads'
  refine ⟨d, d', hd, hd', ?_⟩
  intro i j hi hj e key
  rw [hc i hi, hc' j hj, e]

/-- **`T02_perm` (by name)**: permuting the input samples (indices reassigned to the new positions,
names distinct) permutes the columns: the column that carries a given sample name holds the same cells
in both builds; the name lists are permutations of each other and the key sets coincide. -/
theorem T02_perm {k : Nat} {rc : Bool} {samples samples' : List SampleDict}
    (h : SliceWF k rc samples.length 0 samples) (hne : AllNonempty samples)
    (h' : SliceWF k rc samples'.length 0 samples')
    (hperm : (samples.map content).Perm (samples'.map content))
    (hnames : (samples.map (·.name)).Nodup) (threads threads' : Nat) :
    ∃ d d', buildAndMerge k rc threads samples = .ok d ∧ buildAndMerge k rc threads' samples' = .ok d' ∧
      d.names.Perm d'.names ∧
      (∀ key, key ∈ Assoc.keys d.kmers ↔ key ∈ Assoc.keys d'.kmers) ∧
      (∀ s ∈ samples, ∀ s' ∈ samples', s.name = s'.name → ∀ key, cell d' key s'.idx = cell d key s.idx) := by
  have hne' : AllNonempty samples' := by
    intro s' hs'
    have : content s' ∈ samples.map content := hperm.mem_iff.2 (List.mem_map.2 ⟨s', hs', rfl⟩)
    obtain ⟨s, hs, e⟩ := List.mem_map.1 this
    have : s.kmers = s'.kmers := congrArg Prod.snd e
    rw [← this]; exact hne s hs
  obtain ⟨d, hd, hrep⟩ := buildAndMerge_rep h hne threads
  obtain ⟨d', hd', hrep'⟩ := buildAndMerge_rep h' hne' threads'
  obtain ⟨_, hd2, _, hn, _⟩ := T02_samples h hne threads
  obtain ⟨_, hd2', _, hn', _⟩ := T02_samples h' hne' threads'
  rw [hd] at hd2; cases hd2
  rw [hd'] at hd2'; cases hd2'
  refine ⟨d, d', hd, hd', ?_, ?_, ?_⟩
  · rw [hn, hn']
    have := hperm.map Prod.fst
    simpa [content, List.map_map, Function.comp_def] using this
  · intro key
    rw [hrep.keys, hrep'.keys]
    constructor
    · rintro ⟨s, hs, hk⟩
      have : content s ∈ samples'.map content := hperm.mem_iff.1 (List.mem_map.2 ⟨s, hs, rfl⟩)
      obtain ⟨s', hs', e⟩ := List.mem_map.1 this
      have e2 : s'.kmers = s.kmers := congrArg Prod.snd e
      exact ⟨s', hs', e2 ▸ hk⟩
    · rintro ⟨s', hs', hk⟩
      have : content s' ∈ samples.map content := hperm.mem_iff.2 (List.mem_map.2 ⟨s', hs', rfl⟩)
      obtain ⟨s, hs, e⟩ := List.mem_map.1 this
      have e2 : s.kmers = s'.kmers := congrArg Prod.snd e
      exact ⟨s, hs, e2 ▸ hk⟩
  · intro s hs s' hs' hnm key
    have : content s' ∈ samples.map content := hperm.mem_iff.2 (List.mem_map.2 ⟨s', hs', rfl⟩)
    obtain ⟨s0, hs0, e⟩ := List.mem_map.1 this
    have e1 : s0.name = s'.name := congrArg Prod.fst e
    have e2 : s0.kmers = s'.kmers := congrArg Prod.snd e
    have : s0 = s := eq_of_nodup_map (·.name) hnames hs0 hs (e1.trans hnm.symm)
    subst this
    rw [hrep.cells, hrep'.cells, sliceCell, sliceCell, pick_of_mem h.samplesOK.idxNodup hs,
      pick_of_mem h'.samplesOK.idxNodup hs']
    simp only [e2]


/-- a list permutation as an index map -/
theorem perm_exists_sigma {α : Type} {l₁ l₂ : List α} (h : l₁.Perm l₂) :
    ∃ σ : Nat → Nat, (∀ i, i < l₁.length → σ i < l₂.length) ∧
      (∀ i j, i < l₁.length → j < l₁.length → σ i = σ j → i = j) ∧
      (∀ i, i < l₁.length → l₂[σ i]? = l₁[i]?) := by
  induction h with
  | nil => exact ⟨id, by simp, by simp, by simp⟩
  | cons x _ ih =>
    obtain ⟨σ, h1, h2, h3⟩ := ih
    refine ⟨fun i => match i with | 0 => 0 | i + 1 => σ i + 1, ?_, ?_, ?_⟩
    · intro i hi
      cases i with
      | zero => simp
      | succ i => simp only [List.length_cons] at hi ⊢; have := h1 i (by omega); omega
    · intro i j hi hj e
      cases i <;> cases j <;> simp only [List.length_cons] at hi hj e
      · rfl
      · omega
      · omega
      · rename_i i j
        have := h2 i j (by omega) (by omega) (by omega)
        omega
    · intro i hi
      cases i with
      | zero => simp
      | succ i => simp only [List.length_cons] at hi; simpa using h3 i (by omega)
  | swap x y l =>
    refine ⟨fun i => match i with | 0 => 1 | 1 => 0 | i + 2 => i + 2, ?_, ?_, ?_⟩
    · intro i hi
      match i with
      | 0 => simp
      | 1 => simp
      | i + 2 => simpa using hi
    · intro i j _ _ e
      match i, j with
      | 0, 0 => rfl
      | 0, 1 => simp at e
      | 0, j + 2 => simp at e
      | 1, 0 => simp at e
      | 1, 1 => rfl
      | 1, j + 2 => simp at e
      | i + 2, 0 => simp at e
      | i + 2, 1 => simp at e
      | i + 2, j + 2 => simpa using e
    · intro i _
      match i with
      | 0 => simp
      | 1 => simp
      | i + 2 => simp
  | trans hp _ ih₁ ih₂ =>
    obtain ⟨σ₁, a1, a2, a3⟩ := ih₁
    obtain ⟨σ₂, b1, b2, b3⟩ := ih₂
    refine ⟨fun i => σ₂ (σ₁ i), ?_, ?_, ?_⟩
    · intro i hi; exact b1 _ (a1 i hi)
    · intro i j hi hj e
      exact a2 i j hi hj (b2 _ _ (a1 i hi) (a1 j hj) e)
    · intro i hi
      rw [b3 _ (a1 i hi), a3 i hi]

/-- **`T02_perm` (index map)**: permuting the input samples (idx reassigned to the new positions)
permutes the columns: there is a bijection `σ` of `{0..n-1}` with
`cell d' key (σ i) = cell d key i` and `d'.names[σ i] = d.names[i]`; the key sets coincide. -/
theorem T02_perm_sigma {k : Nat} {rc : Bool} {samples samples' : List SampleDict}
    (h : SliceWF k rc samples.length 0 samples) (hne : AllNonempty samples)
    (h' : SliceWF k rc samples'.length 0 samples')
    (hperm : (samples.map content).Perm (samples'.map content)) (threads threads' : Nat) :
    ∃ d d', buildAndMerge k rc threads samples = .ok d ∧ buildAndMerge k rc threads' samples' = .ok d' ∧
      samples'.length = samples.length ∧
      ∃ σ : Nat → Nat, (∀ i, i < samples.length → σ i < samples.length) ∧
        (∀ i j, i < samples.length → j < samples.length → σ i = σ j → i = j) ∧
        (∀ i, i < samples.length → ∀ key, cell d' key (σ i) = cell d key i) ∧
        (∀ i, i < samples.length → d'.names.getD (σ i) "" = d.names.getD i "") := by
  have hne' : AllNonempty samples' := by
    intro s' hs'
    have : content s' ∈ samples.map content := hperm.mem_iff.2 (List.mem_map.2 ⟨s', hs', rfl⟩)
    obtain ⟨s, hs, e⟩ := List.mem_map.1 this
    have : s.kmers = s'.kmers := congrArg Prod.snd e
    rw [← this]; exact hne s hs
  have hlen : samples'.length = samples.length := by simpa using hperm.length_eq.symm
  obtain ⟨d, hd, _, hn, hc, _⟩ := T02_samples h hne threads
  obtain ⟨d', hd', _, hn', hc', _⟩ := T02_samples h' hne' threads'
  obtain ⟨σ, s1, s2, s3⟩ := perm_exists_sigma hperm
  simp only [List.length_map] at s1 s2 s3
  have key_fact : ∀ i (hi : i < samples.length), ∃ hj : σ i < samples'.length,
      content samples'[σ i] = content samples[i] := by
    intro i hi
    have hj := s1 i hi
    refine ⟨hj, ?_⟩
    have := s3 i hi
    simpa [List.getElem?_eq_getElem hi, List.getElem?_eq_getElem hj] using this
  refine ⟨d, d', hd, hd', hlen, σ, fun i hi => hlen ▸ s1 i hi, s2, ?_, ?_⟩
  · intro i hi key
    obtain ⟨hj, e⟩ := key_fact i hi
    have e2 : samples'[σ i].kmers = samples[i].kmers := congrArg Prod.snd e
    rw [hc i hi, hc' _ hj, e2]
  · intro i hi
    obtain ⟨hj, e⟩ := key_fact i hi
    have e1 : samples'[σ i].name = samples[i].name := congrArg Prod.fst e
    rw [hn, hn']
    simp [List.getD_eq_getElem?_getD, List.getElem?_eq_getElem hi, List.getElem?_eq_getElem hj, e1]

/-! ## Deliverable 5 -/

theorem lookup_eq_of_same {total : Nat} {d₁ d₂ : MDict} (h₁ : MWF total d₁) (h₂ : MWF total d₂)
    (hkeys : ∀ key, key ∈ Assoc.keys d₁.kmers ↔ key ∈ Assoc.keys d₂.kmers)
    (hcells : ∀ key i, cell d₁ key i = cell d₂ key i) (key : Nat) :
    Assoc.lookup d₁.kmers key = Assoc.lookup d₂.kmers key := by
  cases e₁ : Assoc.lookup d₁.kmers key with
  | none =>
    have : key ∉ Assoc.keys d₂.kmers := fun hm => (lookup_eq_none_iff_L _ _).1 e₁ ((hkeys key).2 hm)
    exact ((lookup_eq_none_iff_L _ _).2 this).symm
  | some r₁ =>
    obtain ⟨r₂, e₂⟩ := exists_lookup_of_mem_keys ((hkeys key).1 (mem_keys_of_lookup e₁))
    rw [e₂]
    congr 1
    apply ext_getD 0
    · rw [h₁.rowLen _ (mem_of_lookup e₁), h₂.rowLen _ (mem_of_lookup e₂)]
    · intro i _
      have := hcells key i
      rwa [cell_of_lookup_some e₁, cell_of_lookup_some e₂] at this

theorem abs_ofDict_rows (W : Nat) (d : MDict) :
    (Arr.ofDict W d).abs.rows = d.kmers.map (fun kv => (kv.1, kv.2.map (fun b => max b GAP))) := by
  simp [Arr.abs, Arr.ofDict, List.zip_map']

/-- **`T11_order`**: two dictionaries with the same names, key set and cells (rows of the common
length, keys duplicate-free) give arrays with the same table up to a permutation of the rows: the
iteration order of the hash map only permutes rows. -/
theorem T11_order (W : Nat) {total : Nat} {d₁ d₂ : MDict} (h₁ : MWF total d₁) (h₂ : MWF total d₂)
    (hnames : d₁.names = d₂.names)
    (hkeys : ∀ key, key ∈ Assoc.keys d₁.kmers ↔ key ∈ Assoc.keys d₂.kmers)
    (hcells : ∀ key i, cell d₁ key i = cell d₂ key i) :
    Table.Equiv (Arr.ofDict W d₁).abs (Arr.ofDict W d₂).abs := by
  refine ⟨hnames, ?_⟩
  rw [abs_ofDict_rows, abs_ofDict_rows]
  exact (perm_of_lookup_eq h₁.nodup h₂.nodup (lookup_eq_of_same h₁ h₂ hkeys hcells)).map _

/-- the array built from a well-formed dictionary is well-formed -/
theorem ofDict_wf (W : Nat) {total : Nat} {d : MDict} (h : MWF total d) : (Arr.ofDict W d).WF where
  lenV := by simp [Arr.ofDict]
  lenC := by simp [Arr.ofDict]
  rowLen := by
    intro row hrow
    simp only [Arr.ofDict, List.mem_map] at hrow
    obtain ⟨kv, hkv, rfl⟩ := hrow
    simp [h.rowLen kv hkv, Arr.ofDict, h.namesLen]
  nodup := h.nodup

/-- **`T11_threads_table`**: the `.skf` table `ska build` writes does not depend on the thread
count, up to row order; the other serialised fields (`k`, `rc`, names, `k_bits`) are equal. -/
theorem T11_threads_table (W : Nat) {k : Nat} {rc : Bool} {samples : List SampleDict}
    (h : SliceWF k rc samples.length 0 samples) (hne : AllNonempty samples) (threads₁ threads₂ : Nat) :
    ∃ d₁ d₂, buildAndMerge k rc threads₁ samples = .ok d₁ ∧ buildAndMerge k rc threads₂ samples = .ok d₂ ∧
      Table.Equiv (Arr.ofDict W d₁).abs (Arr.ofDict W d₂).abs ∧
      (Arr.ofDict W d₁).k = (Arr.ofDict W d₂).k ∧ (Arr.ofDict W d₁).rc = (Arr.ofDict W d₂).rc ∧
      (Arr.ofDict W d₁).kBits = (Arr.ofDict W d₂).kBits ∧
      (Arr.ofDict W d₁).WF ∧ (Arr.ofDict W d₂).WF := by
  obtain ⟨d₁, e₁, r₁⟩ := buildAndMerge_rep h hne threads₁
  obtain ⟨d₂, e₂, r₂⟩ := buildAndMerge_rep h hne threads₂
  have hs := r₁.same r₂
  exact ⟨d₁, d₂, e₁, e₂, T11_order W r₁.wf r₂.wf hs.names hs.keys hs.cells, hs.k, hs.rc, rfl,
    ofDict_wf W r₁.wf, ofDict_wf W r₂.wf⟩

/-! ## The non-emptiness hypothesis is necessary (model finding)

A sample without k-mers keeps its name in the serial build and loses it in the tree build
(whichever half it is in). Cells are unaffected. -/

private def cexSample (i : Nat) (nm : String) (kv : List (Nat × UInt8)) : SampleDict :=
  { k := 31, rc := true, idx := i, name := nm, kmers := kv }

private def namesOf (r : Except Refusal MDict) : Option (List String) :=
  match r with | .ok d => some d.names | .error _ => none

/-- empty sample in the top half: `merge` returns `self` when `other.ksize() == 0` -/
theorem cex_empty_top :
    namesOf (multiAppend 31 true 2 [cexSample 0 "s0" [(1, 65)], cexSample 1 "s1" []]) = some ["s0", "s1"] ∧
    namesOf (parallelAppend 31 true 2 1 [cexSample 0 "s0" [(1, 65)], cexSample 1 "s1" []]) = some ["s0", ""] := by
  decide

/-- empty sample in the bottom half: `merge` takes `other.names` when `self.ksize() == 0` -/
theorem cex_empty_bottom :
    namesOf (multiAppend 31 true 2 [cexSample 0 "s0" [], cexSample 1 "s1" [(1, 65)]]) = some ["s0", "s1"] ∧
    namesOf (parallelAppend 31 true 2 1 [cexSample 0 "s0" [], cexSample 1 "s1" [(1, 65)]]) = some ["", "s1"] := by
  decide

/-! ## The hypotheses are satisfiable (non-vacuity check on a concrete input) -/

private def exSamples : List SampleDict :=
  [cexSample 0 "a" [(1, 65), (2, 67)], cexSample 1 "b" [(2, 71), (3, 84)], cexSample 2 "c" [(5, 65)]]

private theorem exSamples_wf : SliceWF 31 true exSamples.length 0 exSamples where
  idx := by
    intro j h
    have : j < 3 := h
    match j, this with
    | 0, _ => rfl
    | 1, _ => rfl
    | 2, _ => rfl
  bound := by decide
  hk := by decide
  hrc := by decide
  keysNodup := by decide
  noZero := by decide

private theorem exSamples_nonempty : AllNonempty exSamples := by unfold AllNonempty; decide

example (t₁ t₂ : Nat) : ∃ d₁ d₂, buildAndMerge 31 true t₁ exSamples = .ok d₁ ∧
    buildAndMerge 31 true t₂ exSamples = .ok d₂ ∧ Same d₁ d₂ :=
  T11_threads exSamples_wf exSamples_nonempty t₁ t₂

end SkaModel.Props.C11
