/-
C20 (real-analysis part) — the gradient `grad_ll` that the optimiser of `ska cov`
uses is the true gradient of the two-Poisson mixture log-likelihood `log_likelihood`,
when both formulas (written once over the abstract class `ExpLog`) are read over ℝ.
Also: log-sum-exp is exact over ℝ.
-/
import Mathlib.Analysis.SpecialFunctions.Log.Deriv
import Mathlib.Analysis.SpecialFunctions.ExpDeriv
import SkaModel.Impl.Coverage

namespace SkaModel.Props.C20Real

open SkaModel SkaModel.Coverage

/-- the real-number reading of the likelihood's operations -/
noncomputable instance instExpLogReal : ExpLog ℝ where
  add := fun a b => a + b
  sub := fun a b => a - b
  mul := fun a b => a * b
  div := fun a b => a / b
  exp := Real.exp
  log := Real.log
  ofNat := fun n => (n : ℝ)
  max := fun a b => max a b

@[simp] theorem add_eq (a b : ℝ) : ExpLog.add a b = a + b := rfl
@[simp] theorem sub_eq (a b : ℝ) : ExpLog.sub a b = a - b := rfl
@[simp] theorem mul_eq (a b : ℝ) : ExpLog.mul a b = a * b := rfl
@[simp] theorem div_eq (a b : ℝ) : ExpLog.div a b = a / b := rfl
@[simp] theorem exp_eq (a : ℝ) : ExpLog.exp a = Real.exp a := rfl
@[simp] theorem log_eq (a : ℝ) : ExpLog.log a = Real.log a := rfl
@[simp] theorem ofNat_eq (n : ℕ) : (ExpLog.ofNat n : ℝ) = (n : ℝ) := rfl
@[simp] theorem max_eq (a b : ℝ) : ExpLog.max a b = max a b := rfl

/-- **log-sum-exp is exact over ℝ** (the shift by `max a b` cancels). -/
theorem lse_eq (a b : ℝ) : lse a b = Real.log (Real.exp a + Real.exp b) := by
  unfold lse
  simp only [add_eq, sub_eq, exp_eq, log_eq, max_eq]
  generalize max a b = x
  have hx : Real.exp x ≠ 0 := (Real.exp_pos x).ne'
  have hs : Real.exp (a - x) + Real.exp (b - x) = (Real.exp a + Real.exp b) / Real.exp x := by
    rw [Real.exp_sub, Real.exp_sub]; ring
  have hpos : Real.exp a + Real.exp b ≠ 0 := (add_pos (Real.exp_pos a) (Real.exp_pos b)).ne'
  rw [hs, Real.log_div hpos hx, Real.log_exp]
  ring

/-! ### the two folds as sums over an arbitrary list of `(count, index)` pairs -/

/-- a fold of a pair of running sums is the pair of the folds -/
theorem foldl_pair {β : Type} (F G : β → ℝ) (l : List β) (p q : ℝ) :
    l.foldl (fun (g : ℝ × ℝ) ci => (g.1 + F ci, g.2 + G ci)) (p, q)
      = (l.foldl (fun g ci => g + F ci) p, l.foldl (fun g ci => g + G ci) q) := by
  induction l generalizing p q with
  | nil => rfl
  | cons x xs ih => simp only [List.foldl_cons]; exact ih _ _

/-- differentiating a running sum term by term -/
theorem hasDerivAt_foldl {β : Type} (f : ℝ → β → ℝ) (f' : β → ℝ) (x0 : ℝ) (l : List β)
    (h : ∀ ci ∈ l, HasDerivAt (fun x => f x ci) (f' ci) x0)
    (acc : ℝ → ℝ) (acc' : ℝ) (hacc : HasDerivAt acc acc' x0) :
    HasDerivAt (fun x => l.foldl (fun ll ci => ll + f x ci) (acc x))
      (l.foldl (fun g ci => g + f' ci) acc') x0 := by
  induction l generalizing acc acc' with
  | nil => simpa using hacc
  | cons y ys ih =>
    simp only [List.foldl_cons]
    apply ih (fun ci hci => h ci (List.mem_cons_of_mem _ hci)) (fun x => acc x + f x y) (acc' + f' y)
    exact hacc.add (h y List.mem_cons_self)

/-! ### one term of the likelihood -/

/-- the algebraic identity behind `dlda`, `dldb`: the softmax weights -/
theorem softmax_id (ea eb : ℝ) (ha : 0 < ea) (hb : 0 < eb) :
    1 / (1 + eb / ea) = ea / (ea + eb) := by
  have : ea + eb ≠ 0 := (add_pos ha hb).ne'
  field_simp

theorem dl_eq (a b : ℝ) :
    1 / (1 + Real.exp (b - a)) = Real.exp a / (Real.exp a + Real.exp b) := by
  rw [Real.exp_sub]
  exact softmax_id _ _ (Real.exp_pos a) (Real.exp_pos b)

theorem term_w (lg : ℕ → ℝ) (w c : ℝ) (i : ℕ) :
    lse (aTerm lg w i) (bTerm lg w c i)
      = Real.log (Real.exp (Real.log w + lnDpois lg i (ExpLog.ofNat 1))
          + Real.exp (Real.log (1 - w) + lnDpois lg i c)) := by
  rw [lse_eq]
  simp only [aTerm, bTerm, add_eq, sub_eq, log_eq, ofNat_eq, Nat.cast_one]

theorem lnDpois_real (lg : ℕ → ℝ) (i : ℕ) (x : ℝ) :
    lnDpois lg i x = (i : ℝ) * Real.log x - lg i - x := rfl

/-- derivative of one summand in `w0` -/
theorem term_deriv_w (lg : ℕ → ℝ) (w0 c : ℝ) (h0 : 0 < w0) (h1 : w0 < 1) (i : ℕ) :
    HasDerivAt (fun w => lse (aTerm lg w i) (bTerm lg w c i))
      (1 / (1 + Real.exp (bTerm lg w0 c i - aTerm lg w0 i)) / w0
        - 1 / (1 + Real.exp (aTerm lg w0 i - bTerm lg w0 c i)) / (1 - w0)) w0 := by
  have hfun : (fun w => lse (aTerm lg w i) (bTerm lg w c i))
      = fun w => Real.log (Real.exp (Real.log w + lnDpois lg i (ExpLog.ofNat 1))
          + Real.exp (Real.log (1 - w) + lnDpois lg i c)) := by
    funext w; exact term_w lg w c i
  have hav : aTerm lg w0 i = Real.log w0 + lnDpois lg i (ExpLog.ofNat 1) := rfl
  have hbv : bTerm lg w0 c i = Real.log (1 - w0) + lnDpois lg i c := by
    simp only [bTerm, add_eq, sub_eq, log_eq, ofNat_eq, Nat.cast_one]
  rw [hfun, dl_eq, dl_eq, hav, hbv]
  generalize lnDpois lg i (ExpLog.ofNat 1) = A
  generalize lnDpois lg i c = B
  have h1w : (1 - w0) ≠ 0 := by linarith
  have da : HasDerivAt (fun w => Real.log w + A) (w0⁻¹) w0 :=
    (Real.hasDerivAt_log h0.ne').add_const A
  have db : HasDerivAt (fun w => Real.log (1 - w) + B) ((-1) / (1 - w0)) w0 :=
    (((hasDerivAt_id w0).const_sub 1).log h1w).add_const B
  have hs : HasDerivAt (fun w => Real.exp (Real.log w + A) + Real.exp (Real.log (1 - w) + B))
      (Real.exp (Real.log w0 + A) * w0⁻¹ + Real.exp (Real.log (1 - w0) + B) * ((-1) / (1 - w0))) w0 :=
    da.exp.add db.exp
  have hpos : Real.exp (Real.log w0 + A) + Real.exp (Real.log (1 - w0) + B) ≠ 0 :=
    (add_pos (Real.exp_pos _) (Real.exp_pos _)).ne'
  have hl : HasDerivAt
      (fun w => Real.log (Real.exp (Real.log w + A) + Real.exp (Real.log (1 - w) + B)))
      ((Real.exp (Real.log w0 + A) * w0⁻¹ + Real.exp (Real.log (1 - w0) + B) * ((-1) / (1 - w0)))
        / (Real.exp (Real.log w0 + A) + Real.exp (Real.log (1 - w0) + B))) w0 := hs.log hpos
  refine hl.congr_deriv ?_
  have hea : 0 < Real.exp (Real.log w0 + A) := Real.exp_pos _
  have heb : 0 < Real.exp (Real.log (1 - w0) + B) := Real.exp_pos _
  clear hl hs hpos
  generalize Real.exp (Real.log w0 + A) = ea at hea ⊢
  generalize Real.exp (Real.log (1 - w0) + B) = eb at heb ⊢
  have hw0 : w0 ≠ 0 := h0.ne'
  have hp1 : ea + eb ≠ 0 := (add_pos hea heb).ne'
  have hp2 : eb + ea ≠ 0 := (add_pos heb hea).ne'
  field_simp
  ring

/-- derivative of one summand in `c` -/
theorem term_deriv_c (lg : ℕ → ℝ) (w0 c : ℝ) (hc : 0 < c) (i : ℕ) :
    HasDerivAt (fun x => lse (aTerm lg w0 i) (bTerm lg w0 x i))
      (1 / (1 + Real.exp (aTerm lg w0 i - bTerm lg w0 c i)) * ((i : ℝ) / c - 1)) c := by
  have hfun : (fun x => lse (aTerm lg w0 i) (bTerm lg w0 x i))
      = fun x => Real.log (Real.exp (aTerm lg w0 i)
          + Real.exp (Real.log (1 - w0) + ((i : ℝ) * Real.log x - lg i - x))) := by
    funext x
    rw [lse_eq]
    simp only [bTerm, lnDpois, add_eq, sub_eq, mul_eq, log_eq, ofNat_eq, Nat.cast_one]
  have hbv : bTerm lg w0 c i = Real.log (1 - w0) + ((i : ℝ) * Real.log c - lg i - c) := by
    simp only [bTerm, lnDpois, add_eq, sub_eq, mul_eq, log_eq, ofNat_eq, Nat.cast_one]
  rw [hfun, dl_eq, hbv]
  generalize aTerm lg w0 i = av
  generalize Real.log (1 - w0) = L
  have db : HasDerivAt (fun x => L + ((i : ℝ) * Real.log x - lg i - x)) ((i : ℝ) * c⁻¹ - 1) c :=
    ((((Real.hasDerivAt_log hc.ne').const_mul (i : ℝ)).sub_const (lg i)).sub
      (hasDerivAt_id c)).const_add L
  have da : HasDerivAt (fun _ : ℝ => Real.exp av) 0 c := hasDerivAt_const c _
  have hs : HasDerivAt
      (fun x => Real.exp av + Real.exp (L + ((i : ℝ) * Real.log x - lg i - x)))
      (0 + Real.exp (L + ((i : ℝ) * Real.log c - lg i - c)) * ((i : ℝ) * c⁻¹ - 1)) c :=
    da.add db.exp
  have hpos : Real.exp av + Real.exp (L + ((i : ℝ) * Real.log c - lg i - c)) ≠ 0 :=
    (add_pos (Real.exp_pos _) (Real.exp_pos _)).ne'
  have hl : HasDerivAt
      (fun x => Real.log (Real.exp av + Real.exp (L + ((i : ℝ) * Real.log x - lg i - x))))
      ((0 + Real.exp (L + ((i : ℝ) * Real.log c - lg i - c)) * ((i : ℝ) * c⁻¹ - 1))
        / (Real.exp av + Real.exp (L + ((i : ℝ) * Real.log c - lg i - c)))) c := hs.log hpos
  refine hl.congr_deriv ?_
  have hea : 0 < Real.exp av := Real.exp_pos _
  have heb : 0 < Real.exp (L + ((i : ℝ) * Real.log c - lg i - c)) := Real.exp_pos _
  clear hl hs hpos
  generalize Real.exp av = ea at hea ⊢
  generalize Real.exp (L + ((i : ℝ) * Real.log c - lg i - c)) = eb at heb ⊢
  have hc0 : c ≠ 0 := hc.ne'
  have hp1 : ea + eb ≠ 0 := (add_pos hea heb).ne'
  have hp2 : eb + ea ≠ 0 := (add_pos heb hea).ne'
  field_simp
  ring

/-! ### the gradient theorems -/

/-- `gradLL` over ℝ as a pair of plain sums -/
theorem gradLL_eq (lg : ℕ → ℝ) (w0 c : ℝ) (counts : List ℝ) :
    gradLL lg w0 c counts
      = (counts.zipIdx.foldl (fun g ci => g + ci.1 *
            (1 / (1 + Real.exp (bTerm lg w0 c (ci.2 + 1) - aTerm lg w0 (ci.2 + 1))) / w0
              - 1 / (1 + Real.exp (aTerm lg w0 (ci.2 + 1) - bTerm lg w0 c (ci.2 + 1))) / (1 - w0))) 0,
         counts.zipIdx.foldl (fun g ci => g + ci.1 *
            (1 / (1 + Real.exp (aTerm lg w0 (ci.2 + 1) - bTerm lg w0 c (ci.2 + 1)))
              * (((ci.2 + 1 : ℕ) : ℝ) / c - 1))) 0) := by
  unfold gradLL
  simp only [add_eq, sub_eq, mul_eq, div_eq, exp_eq, ofNat_eq, Nat.cast_one, Nat.cast_zero]
  exact foldl_pair _ _ _ 0 0

theorem logLik_eq (lg : ℕ → ℝ) (w0 c : ℝ) (counts : List ℝ) :
    logLik lg w0 c counts
      = counts.zipIdx.foldl (fun ll ci =>
          ll + ci.1 * lse (aTerm lg w0 (ci.2 + 1)) (bTerm lg w0 c (ci.2 + 1))) 0 := by
  unfold logLik
  simp only [add_eq, mul_eq, ofNat_eq, Nat.cast_zero]

/-- **T20_grad_w0.** The first component of `grad_ll` is the partial derivative of the
mixture log-likelihood in the error weight `w0`. -/
theorem T20_grad_w0 (lg : ℕ → ℝ) (w0 c : ℝ) (counts : List ℝ)
    (h0 : 0 < w0) (h1 : w0 < 1) (_hc : 0 < c) :
    HasDerivAt (fun w => logLik lg w c counts) (gradLL lg w0 c counts).1 w0 := by
  rw [gradLL_eq]
  simp only [logLik_eq]
  exact hasDerivAt_foldl
    (fun w ci => ci.1 * lse (aTerm lg w (ci.2 + 1)) (bTerm lg w c (ci.2 + 1))) _ w0 counts.zipIdx
    (fun ci _ => (term_deriv_w lg w0 c h0 h1 (ci.2 + 1)).const_mul ci.1)
    (fun _ => 0) 0 (hasDerivAt_const w0 0)

/-- **T20_grad_c.** The second component of `grad_ll` is the partial derivative of the
mixture log-likelihood in the coverage `c`. -/
theorem T20_grad_c (lg : ℕ → ℝ) (w0 c : ℝ) (counts : List ℝ)
    (_h0 : 0 < w0) (_h1 : w0 < 1) (hc : 0 < c) :
    HasDerivAt (fun x => logLik lg w0 x counts) (gradLL lg w0 c counts).2 c := by
  rw [gradLL_eq]
  simp only [logLik_eq]
  exact hasDerivAt_foldl
    (fun x ci => ci.1 * lse (aTerm lg w0 (ci.2 + 1)) (bTerm lg w0 x (ci.2 + 1))) _ c counts.zipIdx
    (fun ci _ => (term_deriv_c lg w0 c hc (ci.2 + 1)).const_mul ci.1)
    (fun _ => 0) 0 (hasDerivAt_const c 0)

/-- non-vacuity: the hypotheses are satisfiable and both theorems apply -/
example (lg : ℕ → ℝ) :
    HasDerivAt (fun w => logLik lg w 2 [3, 1]) (gradLL lg (1 / 2) 2 [3, 1]).1 (1 / 2)
    ∧ HasDerivAt (fun x => logLik lg (1 / 2) x [3, 1]) (gradLL lg (1 / 2) 2 [3, 1]).2 2 :=
  ⟨T20_grad_w0 lg (1 / 2) 2 [3, 1] (by norm_num) (by norm_num) (by norm_num),
   T20_grad_c lg (1 / 2) 2 [3, 1] (by norm_num) (by norm_num) (by norm_num)⟩

end SkaModel.Props.C20Real
