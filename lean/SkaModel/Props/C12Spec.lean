/-
C12 — the read pipeline against the counting specification.

`Props/C12.lean` shows that `buildReads` is determined by the observation stream the iterator
model presents to the count filter (`T12_buildReads`). Here that stream is identified with the
specification's (`T12_readObs`, `T12_allObs`): the iterator states that pass `middle_base_qual`
are exactly `Spec.passWindows`, each presenting key / base / palindrome flag of `Spec.obs` /
`Spec.isPalin` at its window, the ntHash of the window, and `obsClass` = `Spec.kmerClass`.
-/
import SkaModel.Props.C12
import SkaModel.Props.C01Iter
import SkaModel.Props.C16Roll
import SkaModel.Props.C16Hash
import SkaModel.Lemmas.ReadsObs
import SkaModel.Lemmas.ReadsDict
import SkaModel.Props.C01Dict

namespace SkaModel.Props.C12

open SkaModel SkaModel.Spec SkaModel.KF SkaModel.RDS SkaModel.Props.C16

/-- the `k` bytes of the window starting at `j` -/
def windowBytes (k : Nat) (seq : Array UInt8) (j : Nat) : List UInt8 :=
  (List.range k).map (fun t => seq.getD (j + t) 0)

/-- what the specification says the window at `j` presents to the count filter: the
from-scratch ntHash of its bytes, and key / middle base / palindrome flag of `Spec.obs` -/
def specObs (k : Nat) (rc : Bool) (seq : Array UInt8) (j : Nat) : Obs :=
  { hash := (NtHash.new (windowBytes k seq j) k rc).curr
    kmer := (obs k rc seq j).1
    base := (obs k rc seq j).2.1
    palin := isPalin k rc seq j }

/-- the filter's notion of "same full k-mer" on a specified observation is `Spec.kmerClass` -/
theorem obsClass_specObs (k : Nat) (rc : Bool) (seq : Array UInt8) (j : Nat) :
    obsClass (specObs k rc seq j) = kmerClass k rc seq j := by
  unfold obsClass kmerClass specObs
  simp only
  cases isPalin k rc seq j <;> rfl

/-- the position test of the read iterator, in the specification's words -/
theorem T12_okAt (W k : Nat) (rc : Bool) (minQual : Nat) (qf : QualFilter) (r : Read) (p : Nat) :
    (readConf W k rc minQual qf r).okAt p =
      (validBase (r.seq.getD p 0) && (ruleOf qf != .strict || decide (qualAt r.qual p ≥ minQual))) := by
  rw [readConf_okAt]; rfl

/-- `middle_base_qual` of a state of the read iterator whose window starts at `j` -/
theorem T12_middleBaseQual (W k : Nat) (rc : Bool) (hk : ValidK k) (hw : WidthOk W k)
    (minQual : Nat) (qf : QualFilter) (r : Read) :
    ∀ s ∈ (readConf W k rc minQual qf r).states,
      (readConf W k rc minQual qf r).middleBaseQual s =
        (ruleOf qf == .none || decide (qualAt r.qual (s.index + 1 - k + (k - 1) / 2) ≥ minQual)) := by
  intro s hs
  rw [readConf_middleBaseQual, (T16_states_obs (readConf W k rc minQual qf r) hk hw s hs).2.2]
  rfl

/-- the observation a state of the read iterator presents, in the specification's words -/
theorem T12_obsOfState (W k : Nat) (rc : Bool) (hk : ValidK k) (hw : WidthOk W k)
    (minQual : Nat) (qf : QualFilter) (r : Read) :
    ∀ s ∈ (readConf W k rc minQual qf r).states,
      obsOfState (readConf W k rc minQual qf r) s = specObs k rc r.seq (s.index + 1 - k) := by
  intro s hs
  obtain ⟨e1, e2, _⟩ := T16_states_obs (readConf W k rc minQual qf r) hk hw s hs
  have e3 := T16_get_hash (readConf W k rc minQual qf r) hk hw rfl s hs
  unfold obsOfState specObs
  rw [e1, e2, e3]
  rfl

/-- **`T12_readObs`**: for a valid `k` and a matching width, the observations the read branch
presents to the count filter for one read are, in order, exactly the specification's: one per
window of `Spec.passWindows` (rule none / middle / strict for `--qual-filter` no-filter /
middle / strict), with the ntHash of the window's bytes, and key, middle base and palindrome
flag of `Spec.obs` / `Spec.isPalin` there. -/
theorem T12_readObs (W k : Nat) (rc : Bool) (hk : ValidK k) (hw : WidthOk W k)
    (minQual : Nat) (qf : QualFilter) (r : Read) :
    readObs W k rc minQual qf r =
      (passWindows k (ruleOf qf) minQual r.seq r.qual).map (specObs k rc r.seq) := by
  have hk0 : 0 < k := by unfold ValidK at hk; omega
  have hidx : (readConf W k rc minQual qf r).states.map (fun s => s.index)
      = (windowsBy k r.seq.size (okPos (ruleOf qf) minQual r.seq r.qual)).map (fun j => j + k - 1) := by
    have h := C01.T01_states_index (readConf W k rc minQual qf r) hk0
    rw [readConf_okAt] at h
    exact h
  have hstep : readObs W k rc minQual qf r =
      (((readConf W k rc minQual qf r).states.map (fun s => s.index)).filter
        (fun i => ruleOf qf == .none || decide (qualAt r.qual (i + 1 - k + (k - 1) / 2) ≥ minQual))).map
        (fun i => specObs k rc r.seq (i + 1 - k)) :=
    filter_map_via (readConf W k rc minQual qf r).states (fun s => s.index)
      (fun s => (readConf W k rc minQual qf r).middleBaseQual s) (obsOfState (readConf W k rc minQual qf r))
      (fun i => ruleOf qf == .none || decide (qualAt r.qual (i + 1 - k + (k - 1) / 2) ≥ minQual))
      (fun i => specObs k rc r.seq (i + 1 - k))
      (T12_middleBaseQual W k rc hk hw minQual qf r) (T12_obsOfState W k rc hk hw minQual qf r)
  rw [hstep, hidx, List.filter_map, List.map_map, passWindows_eq]
  have hj : ∀ j, j + k - 1 + 1 - k = j := fun j => by omega
  have hfilt : ((fun i => ruleOf qf == .none || decide (qualAt r.qual (i + 1 - k + (k - 1) / 2) ≥ minQual)) ∘
      (fun j => j + k - 1)) = fun j => ruleOf qf == .none || decide (qualAt r.qual (j + (k - 1) / 2) ≥ minQual) := by
    funext j; simp only [Function.comp, hj]
  have hmap : ((fun i => specObs k rc r.seq (i + 1 - k)) ∘ (fun j => j + k - 1)) = specObs k rc r.seq := by
    funext j; simp only [Function.comp, hj]
  rw [hfilt, hmap]

/-- the classes of the observations of one read are the specification's `kmerClass`es -/
theorem T12_readObs_class (W k : Nat) (rc : Bool) (hk : ValidK k) (hw : WidthOk W k)
    (minQual : Nat) (qf : QualFilter) (r : Read) :
    (readObs W k rc minQual qf r).map obsClass =
      (passWindows k (ruleOf qf) minQual r.seq r.qual).map (kmerClass k rc r.seq) := by
  rw [T12_readObs W k rc hk hw, List.map_map]
  exact List.map_congr_left (fun j _ => obsClass_specObs k rc r.seq j)

/-! ## the whole stream -/

/-- a FASTQ record as the specification sees it: (sequence, quality string) -/
def readPair (r : Read) : Array UInt8 × Array UInt8 := (r.seq, r.qual)

/-- the specified observation stream of a list of reads: every passing window, in order -/
def specAllObs (k : Nat) (rc : Bool) (rule : QualRule) (minQual : Nat)
    (reads : List (Array UInt8 × Array UInt8)) : List Obs :=
  reads.flatMap (fun r => (passWindows k rule minQual r.1 r.2).map (specObs k rc r.1))

/-- **`T12_allObs`**: the stream `buildReads` presents to the count filter (both files, in order)
is the specified one -/
theorem T12_allObs (W k : Nat) (rc : Bool) (hk : ValidK k) (hw : WidthOk W k)
    (minQual : Nat) (qf : QualFilter) (file1 file2 : List Read) :
    allObs W k rc minQual qf file1 file2 =
      specAllObs k rc (ruleOf qf) minQual ((file1 ++ file2).map readPair) := by
  unfold allObs specAllObs
  rw [List.flatMap_map]
  congr 1
  funext r
  exact T12_readObs W k rc hk hw minQual qf r

/-- (class, key, base set) of an observation — an element of `Spec.readObservations` -/
def trip3 (o : Obs) : (Nat × Nat) × Nat × Nat := (obsClass o, maskO (tripO o))

theorem trip3_specObs (k : Nat) (rc : Bool) (seq : Array UInt8) (j : Nat) :
    trip3 (specObs k rc seq j) = (kmerClass k rc seq j, (obs k rc seq j).1, obsMask k rc seq j) := by
  unfold trip3
  rw [obsClass_specObs]
  rfl

/-- `Spec.readObservations` is the specified stream, read as (class, key, base set) -/
theorem readObservations_eq (k : Nat) (rc : Bool) (rule : QualRule) (minQual : Nat)
    (reads : List (Array UInt8 × Array UInt8)) :
    readObservations k rc rule minQual reads = (specAllObs k rc rule minQual reads).map trip3 := by
  unfold readObservations specAllObs
  rw [List.map_flatMap]
  congr 1
  funext r
  rw [List.map_map]
  exact List.map_congr_left (fun j _ => (trip3_specObs k rc r.1 j).symm)

theorem mem_specAllObs {k : Nat} {rc : Bool} {rule : QualRule} {minQual : Nat}
    {reads : List (Array UInt8 × Array UInt8)} {o : Obs} (h : o ∈ specAllObs k rc rule minQual reads) :
    ∃ (seq : Array UInt8) (j : Nat), o = specObs k rc seq j := by
  unfold specAllObs at h
  obtain ⟨r, _, ho⟩ := List.mem_flatMap.1 h
  obtain ⟨j, _, rfl⟩ := List.mem_map.1 ho
  exact ⟨r.1, j, rfl⟩

/-- bases are 2-bit codes and the palindrome flag is a function of the key, on the whole stream -/
theorem specAllObs_wf (k : Nat) (rc : Bool) (rule : QualRule) (minQual : Nat)
    (reads : List (Array UInt8 × Array UInt8)) :
    ∀ o ∈ specAllObs k rc rule minQual reads, (tripO o).2.1 < 4 ∧ ((tripO o).2.2 = true ↔ C01.PalinKey k rc (tripO o).1) := by
  intro o ho
  obtain ⟨seq, j, rfl⟩ := mem_specAllObs ho
  refine ⟨C01.obs_base_lt k rc seq j, ?_⟩
  constructor
  · intro h; exact ⟨seq, j, rfl, h⟩
  · rintro ⟨r', j', hkey, hp⟩
    show isPalin k rc seq j = true
    rw [← C01.palin_of_key k rc r' seq j' j hkey]; exact hp

/-- two observations of the stream in the same class have the same key and base set -/
theorem maskO_of_class {k : Nat} {rc : Bool} {rule : QualRule} {minQual : Nat}
    {reads : List (Array UInt8 × Array UInt8)} {o o' : Obs}
    (ho : o ∈ specAllObs k rc rule minQual reads) (ho' : o' ∈ specAllObs k rc rule minQual reads)
    (hc : obsClass o = obsClass o') : maskO (tripO o) = maskO (tripO o') := by
  obtain ⟨seq, j, rfl⟩ := mem_specAllObs ho
  obtain ⟨seq', j', rfl⟩ := mem_specAllObs ho'
  have hkey : (obs k rc seq j).1 = (obs k rc seq' j').1 := congrArg (fun x : Nat × Nat => x.1) hc
  have hpal : isPalin k rc seq j = isPalin k rc seq' j' := C01.palin_of_key k rc seq seq' j j' hkey
  have hsnd := congrArg (fun x : Nat × Nat => x.2) hc
  unfold obsClass specObs at hsnd
  simp only at hsnd
  unfold maskO tripO specObs
  simp only
  rw [← hpal] at hsnd ⊢
  rw [hkey]
  cases hp : isPalin k rc seq j
  · rw [hp] at hsnd
    simp only [Bool.false_eq_true, ↓reduceIte] at hsnd ⊢
    rw [hsnd]
  · rw [hp] at hsnd
    simp only [↓reduceIte] at hsnd ⊢
    have := palMask_of_min ⟨_, C01.obs_base_lt k rc seq j⟩ ⟨_, C01.obs_base_lt k rc seq' j'⟩ hsnd
    simp only at this
    rw [this]

/-! ## `T12_spec` -/

/-- the (key, base set) pairs the specification keeps: those of the observations whose class
occurs at least `max 1 minCount` times -/
def specKept (minCount : Nat) (O : List ((Nat × Nat) × Nat × Nat)) : List (Nat × Nat) :=
  (O.filter (fun x => decide ((O.filter (fun y => y.1 == x.1)).length ≥ max 1 minCount))).map (fun x => x.2)

theorem specReadsDict_eq (k : Nat) (rc : Bool) (rule : QualRule) (minQual minCount : Nat)
    (reads : List (Array UInt8 × Array UInt8)) :
    specReadsDict k rc rule minQual minCount reads =
      sortByKey (·.1) ((distinctKeys (specKept minCount (readObservations k rc rule minQual reads))).map
        (fun key => (key, letterOfMask (maskOf (specKept minCount (readObservations k rc rule minQual reads)) key)))) :=
  rfl

/-- the observations the occurrence-count rule on classes selects from a stream (the `==` on
classes is the one `T12_buildReads` uses, derived from decidable equality) -/
def selected (m : Nat) (A : List Obs) : List Obs :=
  kept A (@specRun (Nat × Nat) instBEqOfDecidableEq m [] (A.map obsClass))

theorem selected_sub {m : Nat} {A : List Obs} {o : Obs} (ho : o ∈ selected m A) : o ∈ A := by
  obtain ⟨i, hi, _⟩ := (mem_kept _ _ _).1 ho
  exact List.mem_of_getElem? hi

/-- the observations the count rule selects, as (key, base set) pairs, are as a set exactly the
pairs the specification keeps -/
theorem kept_set_eq (k : Nat) (rc : Bool) (rule : QualRule) (minQual m : Nat) (hm : m ≤ 65535)
    (reads : List (Array UInt8 × Array UInt8)) (x : Nat × Nat) :
    x ∈ ((selected m (specAllObs k rc rule minQual reads)).map tripO).map maskO ↔
      x ∈ specKept m ((specAllObs k rc rule minQual reads).map trip3) := by
  have hcount : ∀ c, (((specAllObs k rc rule minQual reads).map trip3).filter (fun y => y.1 == c)).length
      = @List.count (Nat × Nat) instBEqOfDecidableEq c ((specAllObs k rc rule minQual reads).map obsClass) :=
    fun c => filter_class_length instBEqProd (specAllObs k rc rule minQual reads) obsClass
      (fun o => maskO (tripO o)) c
  have hcls : ∀ c, (∃ o ∈ selected m (specAllObs k rc rule minQual reads), obsClass o = c) ↔
      max 1 m ≤ @List.count (Nat × Nat) instBEqOfDecidableEq c ((specAllObs k rc rule minQual reads).map obsClass) :=
    fun c => T12_dict_classes obsClass m hm (specAllObs k rc rule minQual reads) c
  unfold specKept
  simp only [List.mem_map, List.mem_filter, decide_eq_true_eq, hcount]
  constructor
  · rintro ⟨t, ⟨o, ho, rfl⟩, rfl⟩
    exact ⟨trip3 o, ⟨⟨o, selected_sub ho, rfl⟩, (hcls (obsClass o)).1 ⟨o, ho, rfl⟩⟩, rfl⟩
  · rintro ⟨y, ⟨⟨o, ho, rfl⟩, hc⟩, rfl⟩
    obtain ⟨o', ho', hcls'⟩ := (hcls (obsClass o)).2 hc
    exact ⟨tripO o', ⟨o', ho', rfl⟩, maskO_of_class (selected_sub ho') ho hcls'⟩

/-- **`T12_spec`**. For a valid `k`, a matching width and `minCount ≤ 65535`: if on the specified
observation stream (every window of `Spec.passWindows` of every read of both files, presenting the
ntHash of its bytes) two observations have the same hash exactly when they have the same
`Spec.kmerClass` (`HashFaithful`), and no Bloom check reports a hash as seen that has not occurred
(`NoFP`), then `buildReads` returns exactly the specification's dictionary — the split k-mers with the
middle bases of the full k-mers (up to strand) occurring at least `max 1 minCount` times among the
passing windows — or "no valid sequence" when that dictionary is empty; it never panics. -/
theorem T12_spec (W k : Nat) (rc : Bool) (hk : ValidK k) (hw : WidthOk W k)
    (minCount minQual : Nat) (qf : QualFilter) (file1 file2 : List Read) (hm : minCount ≤ 65535)
    (hfaith : HashFaithful obsClass (specAllObs k rc (ruleOf qf) minQual ((file1 ++ file2).map readPair)))
    (hfp : NoFP minCount ((specAllObs k rc (ruleOf qf) minQual ((file1 ++ file2).map readPair)).map (·.hash))) :
    buildReads W k rc minCount minQual qf file1 file2 =
      if specReadsDict k rc (ruleOf qf) minQual minCount ((file1 ++ file2).map readPair) = [] then .noValid
      else .dict (specReadsDict k rc (ruleOf qf) minQual minCount ((file1 ++ file2).map readPair)) := by
  have hall := T12_allObs W k rc hk hw minQual qf file1 file2
  rw [T12_buildReads obsClass W k rc minCount minQual qf file1 file2 (by rw [hall]; exact hfaith)
    (by rw [hall]; exact hfp), hall]
  have hwfA := specAllObs_wf k rc (ruleOf qf) minQual ((file1 ++ file2).map readPair)
  have hset := kept_set_eq k rc (ruleOf qf) minQual minCount hm ((file1 ++ file2).map readPair)
  rw [specReadsDict_eq, readObservations_eq]
  generalize specAllObs k rc (ruleOf qf) minQual ((file1 ++ file2).map readPair) = A at hwfA hset ⊢
  show (match (selected minCount A).foldlM addObs [] with
    | none => BuildResult.panicked
    | some [] => BuildResult.noValid
    | some d => BuildResult.dict (sortByKey (·.1) d)) = _
  -- the dictionary fold over the selected observations
  have hwf : WF (C01.PalinKey k rc) ([] ++ (selected minCount A).map tripO) := by
    intro t ht
    rw [List.nil_append] at ht
    obtain ⟨o, ho, rfl⟩ := List.mem_map.1 ht
    exact hwfA o (selected_sub ho)
  obtain ⟨d, hd, hinv⟩ := foldO_inv (P := C01.PalinKey k rc) _ [] [] hwf DictInv.nil
  rw [List.nil_append] at hinv hwf
  rw [foldlM_addObs, hd]
  -- … holds the letters of the specification's base sets
  have hinv' : DictInv d (specKept minCount (A.map trip3)) :=
    DictInv.congr hinv (fun key => maskOf_congr_mem hset key)
  have hne : ∀ o ∈ specKept minCount (A.map trip3), o.2 ≠ 0 := by
    intro x hx
    obtain ⟨t, ht, rfl⟩ := List.mem_map.1 ((hset x).2 hx)
    exact maskO_ne_zero (hwf t ht).1
  rw [← dict_sorted_eq hinv' hne]
  by_cases hnil : d = []
  · subst hnil
    rfl
  · have hs : sortByKey (fun x : Nat × UInt8 => x.1) d ≠ [] := fun h => hnil ((sortByKey_eq_nil_iff _ d).1 h)
    rw [if_neg hs]
    cases d with
    | nil => exact absurd rfl hnil
    | cons p rest => rfl

/-! ## non-vacuity of the hypotheses of `T12_spec` -/

private def exRead : Read := { seq := #[65, 67, 71, 84, 84], qual := #[73, 73, 35, 73, 73] }

private theorem exRead_windows (rule : QualRule) :
    passWindows 5 rule 20 exRead.seq exRead.qual = if rule = .none then [0] else [] := by
  cases rule <;> decide

private theorem ex_stream (rc : Bool) :
    specAllObs 5 rc .none 20 (([exRead] ++ [exRead]).map readPair)
      = List.replicate 2 (specObs 5 rc exRead.seq 0) := by
  simp only [specAllObs, List.cons_append, List.nil_append, List.map_cons, List.map_nil, readPair,
    List.flatMap_cons, List.flatMap_nil, exRead_windows, ↓reduceIte, List.append_nil, List.replicate]

/-- the same read (`ACGTT`, one window, k = 5) in both files, no quality filter: the hypotheses of
`T12_spec` hold for every `minCount ≤ 65535` (one hash value, one class), so `buildReads` returns the
specification's dictionary; with `--qual-filter middle` and a bad middle base the stream is empty. -/
example (rc : Bool) (m : Nat) (hm : m ≤ 65535) :
    buildReads 64 5 rc m 20 .noFilter [exRead] [exRead] =
      if specReadsDict 5 rc .none 20 m (([exRead] ++ [exRead]).map readPair) = [] then .noValid
      else .dict (specReadsDict 5 rc .none 20 m (([exRead] ++ [exRead]).map readPair)) := by
  apply T12_spec 64 5 rc (by unfold ValidK; omega) (by unfold WidthOk; omega) m 20 .noFilter _ _ hm
  · show HashFaithful obsClass (specAllObs 5 rc .none 20 _)
    rw [ex_stream]
    intro a ha b hb
    rw [(List.mem_replicate.1 ha).2, (List.mem_replicate.1 hb).2]
    simp
  · show NoFP m ((specAllObs 5 rc .none 20 _).map (·.hash))
    rw [ex_stream, List.map_replicate]
    exact noFP_replicate m _ 2

end SkaModel.Props.C12
