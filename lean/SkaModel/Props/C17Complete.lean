/-
C17 (first sentence) — completeness of SNP calling for isolated SNPs:

  "For samples derived from a common sequence whose (k-1)-mers are unique on both strands by substitutions
   at least 2k apart, the SNP alignment of `ska lo` has exactly one column per substituted site with every
   sample's true base, up to column order and strand."

Setting (`SkaModel/Lemmas/LOCDefs.lean`): `Planted k L A S P` — the decidable hypotheses `plantedB`: `k` odd,
`5 ≤ k`; ancestor `A` and samples `S` (at least two) of `L` letters A/C/G/T; the samples equal `A` outside the
sites `P`; every site shows two different bases; the sites are increasing, `2k` apart and `2k` from both
ends; the `(k-1)`-mers of `A` and of all samples are unique on both strands (`uniqueB`).  The table is
`tableOf k names S = specTable k true names (one record per sample)`; `IsArrOf a k names S` says that the array
`a` holds its rows IN ANY ORDER (`arrOf W k names S`: in table order).  `lo` is the reference-free pipeline
(graph, entry/exit nodes, variant groups, caller); `trueCols S P` the true columns; `ColsMatch cols truth`:
`cols` is `truth` up to the order of the columns and the complement (A<->T, C<->G) of individual columns.

MAIN THEOREM `T17_complete`: for every `maxDepth`, every missing-data threshold `mNum/mDen` and every `ik`,
`lo … a = some (cols, [])` with `ColsMatch cols (trueCols S P)`.  (`T17_complete_depth0`, `T17_complete_table`:
special cases.)

FINDING (Stage 0, `famPalin` below).  On the program as pinned the claim FAILED: a window whose two arms are
reverse complements of each other (a palindromic split k-mer, which the uniqueness of the `(k-1)`-mers does
not exclude) is stored by `ska build` in ONE row with the IUPAC code W or S, and `build_graph` pushed every
edge of that row twice.  The doubled successor made a fake branch node: with `-d 0` / `-d 1` the SNP bubble
through it was lost (no column at all), with larger depths the paths were duplicated.  The program was
repaired (`build_graph` stores an edge once, `addEdgeOnce`); on the repaired model the theorem holds WITHOUT
any hypothesis on palindromic split k-mers (`noPalinB` is not needed), rows in any order.

`T17_complete_check`: the executable checker `completeOn` of Stage 0 accepts (it is `#guard`ed below on 33
generated families and on the counterexample family, for depths 0, 1, 4 and several thresholds).

Stage 1 (`T17K_graph_edges`, `T17K_graph_succs_nodup`, `T17K_graph_branching`, `T17K_colours`,
`T17K_colours_sites`): the graph of a planted family in coordinates — every edge is `fw j → fw (j+1)` of a
sample or the reverse-strand analogue; a node branches iff the base entering is a site; the colour set of a
k-mer is the set of the samples with the same window (= agreeing on the at most one site inside).
Stage 2 (`T17K_entries`, `T17K_groups`, `T17K_group_span`, `T17K_group_keys`): entry nodes = the (k-1)-mer just
before every site and the reverse complement of the one just after it, exit nodes their reverse complements;
no indel group; every SNP group is a good group `GG` of one strand (variants spell windows of samples, every
site inside is marked, every base shown at such a site is shown by a variant: all allele combinations); the
keys of the groups from the entry node of `p` are exactly (node before `p`, node after the site reached by
`n ≤ maxDepth` steps to the next site) — for `maxDepth = 0` exactly the single-site bubbles.
Stage 3: the invariant of the fold of `analyse` over good groups of both strands in ANY order
(`SkaModel/Lemmas/LOCCall4.lean`, `CInv`; `LOCCall5.lean`, `fold_groups`), from which `T17_complete` follows.
Proofs: `SkaModel/Lemmas/LOC*.lean`.
-/
import SkaModel.Lemmas.LOCProps

namespace SkaModel.Props.C17K

open SkaModel SkaModel.Skalo SkaModel.Spec SkaModel.Props.C16 SkaModel.Props.C17G SkaModel.LOC

/-! ### Stage 0: the statement and its executable form -/

abbrev Planted := LOC.Planted
abbrev plantedB := LOC.plantedB
abbrev noPalinB := LOC.noPalinB
abbrev tableOf := LOC.tableOf
abbrev arrOf := LOC.arrOf
abbrev IsArrOf := LOC.IsArrOf
abbrev lo := LOC.lo
abbrev trueCols := LOC.trueCols
abbrev ColsMatch := LOC.ColsMatch
abbrev completeOn := LOC.completeOn

/-- the array in table order holds the rows of the table -/
theorem T17K_arrOf (W k : Nat) (names : List String) (S : List (List UInt8)) :
    IsArrOf (arrOf W k names S) k names S := isArrOf_arrOf W k names S

/-! ### Stage 3 (main theorem) -/

/-- **T17_complete**: completeness of SNP calling for isolated SNPs, any exploration depth, any
missing-data threshold, any `ik`, rows of the table in any order -/
theorem T17_complete (W k L : Nat) (A : List UInt8) (S : List (List UInt8)) (P : List Nat) (names : List String)
    (a : Arr) (hk : ValidK k) (hw : WidthOk W k) (hpl : Planted k L A S P) (ha : IsArrOf a k names S)
    (mNum mDen ik maxDepth : Nat) :
    ∃ cols, lo W k S.length mNum mDen ik maxDepth a = some (cols, []) ∧ ColsMatch cols (trueCols S P) :=
  lo_complete ha (pfam_of_planted hpl) hk hw mNum mDen ik maxDepth

/-- the depth-0 case (`-d 0`: single-site bubbles only) -/
theorem T17_complete_depth0 (W k L : Nat) (A : List UInt8) (S : List (List UInt8)) (P : List Nat)
    (names : List String) (a : Arr) (hk : ValidK k) (hw : WidthOk W k) (hpl : Planted k L A S P)
    (ha : IsArrOf a k names S) (mNum mDen ik : Nat) :
    ∃ cols, lo W k S.length mNum mDen ik 0 a = some (cols, []) ∧ ColsMatch cols (trueCols S P) :=
  T17_complete W k L A S P names a hk hw hpl ha mNum mDen ik 0

/-- the table in the order of `specTable` -/
theorem T17_complete_table (W k L : Nat) (A : List UInt8) (S : List (List UInt8)) (P : List Nat)
    (names : List String) (hk : ValidK k) (hw : WidthOk W k) (hpl : Planted k L A S P)
    (mNum mDen ik maxDepth : Nat) :
    ∃ cols, lo W k S.length mNum mDen ik maxDepth (arrOf W k names S) = some (cols, []) ∧
      ColsMatch cols (trueCols S P) :=
  T17_complete W k L A S P names _ hk hw hpl (T17K_arrOf W k names S) mNum mDen ik maxDepth

/-! ### Stage 1: the graph of a planted family -/

/-- **T17K_graph_edges**: every edge of the graph joins the `(k-1)`-mers of a sample at consecutive
coordinates, `fw j → fw (j+1)`, or their reverse complements in the opposite direction,
`rv (j+1) → rv j`; all these are edges -/
theorem T17K_graph_edges (W k L : Nat) (A : List UInt8) (S : List (List UInt8)) (P : List Nat)
    (names : List String) (a : Arr) (hk : ValidK k) (hw : WidthOk W k) (hpl : Planted k L A S P)
    (ha : IsArrOf a k names S) (x y : Nat) :
    Edge (buildGraph W a).1 x y ↔
      ∃ s ∈ S, ∃ j, j + k ≤ L ∧
        ((x = fwN W k s j ∧ y = fwN W k s (j + 1)) ∨ (x = rvN W k s (j + 1) ∧ y = rvN W k s j)) := by
  obtain ⟨_, _, hkW⟩ := validK_bounds hk hw
  have pf := pfam_of_planted hpl
  rw [edge_iff_mem_allEdges, mem_allEdges_fam ha pf.sf hk hw]
  constructor
  · rintro ⟨s, hs, j, hj, h⟩
    refine ⟨s, hs, j, hj, ?_⟩
    rw [fwN_eq hkW, fwN_eq hkW, rvN_eq hkW (pf.base hs), rvN_eq hkW (pf.base hs)]
    simpa [Prod.mk.injEq] using h
  · rintro ⟨s, hs, j, hj, h⟩
    refine ⟨s, hs, j, hj, ?_⟩
    rw [fwN_eq hkW, fwN_eq hkW, rvN_eq hkW (pf.base hs), rvN_eq hkW (pf.base hs)] at h
    simpa [Prod.mk.injEq] using h

/-- no successor is listed twice (the repaired `build_graph`), for every table -/
theorem T17K_graph_succs_nodup (W : Nat) (a : Arr) (x : Nat) : (succs (buildGraph W a).1 x).Nodup :=
  succs_nodup W a x

/-- **T17K_graph_branching**: a forward node has at least two successors iff the base entering is a site
(`j + k - 1 ∈ P`); a reverse node iff `j - 1 ∈ P`; every other node with a successor has exactly one -/
theorem T17K_graph_branching (W k L : Nat) (A : List UInt8) (S : List (List UInt8)) (P : List Nat)
    (names : List String) (a : Arr) (hk : ValidK k) (hw : WidthOk W k) (hpl : Planted k L A S P)
    (ha : IsArrOf a k names S) (s : List UInt8) (hs : s ∈ S) (j : Nat) :
    (j + k ≤ L → (2 ≤ (succs (buildGraph W a).1 (fwN W k s j)).length ↔ j + k - 1 ∈ P)) ∧
    (j + k ≤ L → j + k - 1 ∉ P → succs (buildGraph W a).1 (fwN W k s j) = [fwN W k s (j + 1)]) ∧
    (1 ≤ j → j + (k - 1) ≤ L → (2 ≤ (succs (buildGraph W a).1 (rvN W k s j)).length ↔ j - 1 ∈ P)) ∧
    (1 ≤ j → j + (k - 1) ≤ L → j - 1 ∉ P → succs (buildGraph W a).1 (rvN W k s j) = [rvN W k s (j - 1)]) := by
  obtain ⟨_, _, hkW⟩ := validK_bounds hk hw
  have pf := pfam_of_planted hpl
  have st := strand_of_fam ha pf hk hw
  have hk5 := hk.1
  have hrv : ∀ j', j' + (k - 1) ≤ L → rvN W k s j' = fN k (LOC.rcSeq s) (L - (k - 1) - j') := by
    intro j' hj'
    rw [rvN_eq hkW (pf.base hs), rN_eq_fN (pf.base hs) (by rw [pf.len hs]; exact hj'), pf.len hs]
  have hrs : LOC.rcSeq s ∈ rcFam S := List.mem_map.mpr ⟨s, hs, rfl⟩
  have hmir : ∀ j', 1 ≤ j' → j' + (k - 1) ≤ L → (L - (k - 1) - j' + k - 1 ∈ mirrorP L P ↔ j' - 1 ∈ P) := by
    intro j' h1 h2
    rw [mem_mirrorP]
    constructor
    · rintro ⟨p, hp, e⟩
      have := pf.ends p hp
      rw [show j' - 1 = p by omega]
      exact hp
    · intro hp
      exact ⟨j' - 1, hp, by omega⟩
  refine ⟨?_, ?_, ?_, ?_⟩
  · intro hj
    rw [fwN_eq hkW]
    exact st.branching_iff hs hj
  · intro hj hno
    rw [fwN_eq hkW, fwN_eq hkW]
    exact st.succs_single hs hj hno
  · intro h1 h2
    rw [hrv j h2, st.swap.branching_iff hrs (by omega)]
    exact hmir j h1 h2
  · intro h1 h2 hno
    rw [hrv j h2, hrv (j - 1) (by omega),
      st.swap.succs_single hrs (by omega) (fun h => hno ((hmir j h1 h2).mp h))]
    congr 2
    omega

/-- **T17K_colours**: the `k`-mer of a sample at `j` and its reverse complement are keys of the colour map
with the same strictly increasing sample list: the samples with the same `k`-window at `j` -/
theorem T17K_colours (W k L : Nat) (A : List UInt8) (S : List (List UInt8)) (P : List Nat)
    (names : List String) (a : Arr) (hk : ValidK k) (hw : WidthOk W k) (hpl : Planted k L A S P)
    (ha : IsArrOf a k names S) (s : List UInt8) (hs : s ∈ S) (j : Nat) (hj : j + k ≤ L) :
    ∃ Cs : List Nat,
      Assoc.lookup (buildGraph W a).2 (encodeKmer W (win s j k)) = some Cs ∧
      Assoc.lookup (buildGraph W a).2 (encodeKmer W (rcSeq (win s j k))) = some Cs ∧
      Cs.Pairwise (· < ·) ∧
      ∀ i, i ∈ Cs ↔ ∃ t, S[i]? = some t ∧ win t j k = win s j k := by
  obtain ⟨_, _, hkW⟩ := validK_bounds hk hw
  have pf := pfam_of_planted hpl
  have hl : (LOC.win s j k).length = k := win_length (by rw [pf.len hs]; exact hj)
  obtain ⟨Cs, h1, h2, h3⟩ := colour_fam ha pf.sf hk hw s hs j hj _ (Or.inl rfl)
  obtain ⟨Cs', h1', h2', h3'⟩ := colour_fam ha pf.sf hk hw s hs j hj _ (Or.inr rfl)
  have heq : Cs' = Cs := eq_of_sorted_mem h2' h2 (fun i => by rw [h3, h3'])
  refine ⟨Cs, ?_, ?_, h2, ?_⟩
  · rw [enc_eq W _ (by rw [hl]; exact hkW)]
    exact h1
  · rw [enc_eq W _ (by rw [rcSeq_length, hl]; exact hkW), cds_rcSeq ((pf.base hs).win _ _), ← heq]
    exact h1'
  · intro i
    rw [h3]
    constructor
    · rintro ⟨t, ht, hex⟩
      exact ⟨t, ht, (kmer_eq_iff pf hk.1 (List.mem_of_getElem? ht) hs hj).mp hex⟩
    · rintro ⟨t, ht, hex⟩
      exact ⟨t, ht, (kmer_eq_iff pf hk.1 (List.mem_of_getElem? ht) hs hj).mpr hex⟩

/-- the samples with the same window: those that agree on the sites inside the window (at most one) -/
theorem T17K_colours_sites (k L : Nat) (A : List UInt8) (S : List (List UInt8)) (P : List Nat)
    (hpl : Planted k L A S P) (s t : List UInt8) (hs : s ∈ S) (ht : t ∈ S) (j : Nat) (hj : j + k ≤ L) :
    (win t j k = win s j k ↔ ∀ p ∈ P, j ≤ p → p < j + k → t.getD p 0 = s.getD p 0) ∧
    (∀ p ∈ P, ∀ q ∈ P, j ≤ p → p < j + k → j ≤ q → q < j + k → p = q) := by
  have pf := pfam_of_planted hpl
  refine ⟨⟨?_, ?_⟩, ?_⟩
  · intro e p _ h1 h2
    exact PFam.win_getD (by rw [pf.len ht]; exact hj) (by rw [pf.len hs]; exact hj) e h1 h2
  · intro h
    rw [win_eq_iff (by rw [pf.len ht]; exact hj) (by rw [pf.len hs]; exact hj)]
    intro i hi
    by_cases hp : j + i ∈ P
    · exact h _ hp (by omega) (by omega)
    · exact pf.off t ht s hs _ (by omega) hp
  · intro p hp q hq h1 h2 h3 h4
    apply Classical.byContradiction
    intro hne
    rcases pf.sep hp hq hne with h | h <;> omega

/-! ### Stage 2: entry and exit nodes, variant groups -/

/-- **T17K_entries**: `identify_good_kmers` succeeds; the entry nodes are distinct: the `(k-1)`-mer just
before every site and the reverse complement of the `(k-1)`-mer just after it; the exit nodes are the
`(k-1)`-mer just after every site and the reverse complement of the one just before it -/
theorem T17K_entries (W k L : Nat) (A : List UInt8) (S : List (List UInt8)) (P : List Nat)
    (names : List String) (a : Arr) (hk : ValidK k) (hw : WidthOk W k) (hpl : Planted k L A S P)
    (ha : IsArrOf a k names S) :
    ∃ starts ends, identifyGoodKmers W (k - 1) (buildGraph W a).1 (buildGraph W a).2 = some (starts, ends) ∧
      starts.Nodup ∧
      (∀ x, x ∈ starts ↔ (∃ p ∈ P, ∃ s ∈ S, x = fwN W k s (p - k + 1)) ∨ (∃ p ∈ P, ∃ s ∈ S, x = rvN W k s (p + 1))) ∧
      (∀ x, x ∈ ends ↔ (∃ p ∈ P, ∃ s ∈ S, x = fwN W k s (p + 1)) ∨ (∃ p ∈ P, ∃ s ∈ S, x = rvN W k s (p - k + 1))) := by
  obtain ⟨_, _, hkW⟩ := validK_bounds hk hw
  have pf := pfam_of_planted hpl
  have hk5 := hk.1
  have st := strand_of_fam ha pf hk hw
  obtain ⟨starts, ends, hid, ex⟩ := st.identify (colOK_fam ha pf hk hw) (colOK_rc ha pf hk hw) (LOC.widthOk_cases hw) hkW
  refine ⟨starts, ends, hid, ex.snd, ?_, ?_⟩
  · intro x
    rw [ex.st]
    apply or_congr
    · constructor
      · rintro ⟨p, hp, s, hs, rfl⟩; exact ⟨p, hp, s, hs, (fwN_eq hkW s _).symm⟩
      · rintro ⟨p, hp, s, hs, rfl⟩; exact ⟨p, hp, s, hs, fwN_eq hkW s _⟩
    · constructor
      · rintro ⟨p', hp', t', ht', rfl⟩
        obtain ⟨p, hp, rfl⟩ := (mem_mirrorP L P p').mp hp'
        obtain ⟨s, hs, rfl⟩ := List.mem_map.mp ht'
        have hpe := pf.ends p hp
        refine ⟨p, hp, s, hs, ?_⟩
        rw [rvN_eq hkW (pf.base hs), rN_eq_fN (pf.base hs) (by rw [pf.len hs]; omega), pf.len hs]
        congr 1
        omega
      · rintro ⟨p, hp, s, hs, rfl⟩
        have hpe := pf.ends p hp
        refine ⟨L - 1 - p, (mem_mirrorP L P _).mpr ⟨p, hp, rfl⟩, LOC.rcSeq s, List.mem_map.mpr ⟨s, hs, rfl⟩, ?_⟩
        rw [rvN_eq hkW (pf.base hs), rN_eq_fN (pf.base hs) (by rw [pf.len hs]; omega), pf.len hs]
        congr 1
        omega
  · intro x
    rw [ex.en]
    apply or_congr
    · constructor
      · rintro ⟨p, hp, s, hs, rfl⟩; exact ⟨p, hp, s, hs, (fwN_eq hkW s _).symm⟩
      · rintro ⟨p, hp, s, hs, rfl⟩; exact ⟨p, hp, s, hs, fwN_eq hkW s _⟩
    · constructor
      · rintro ⟨p', hp', t', ht', rfl⟩
        obtain ⟨p, hp, rfl⟩ := (mem_mirrorP L P p').mp hp'
        obtain ⟨s, hs, rfl⟩ := List.mem_map.mp ht'
        have hpe := pf.ends p hp
        refine ⟨p, hp, s, hs, ?_⟩
        rw [rvN_eq hkW (pf.base hs), rN_eq_fN (pf.base hs) (by rw [pf.len hs]; omega), pf.len hs]
        congr 1
        omega
      · rintro ⟨p, hp, s, hs, rfl⟩
        have hpe := pf.ends p hp
        refine ⟨L - 1 - p, (mem_mirrorP L P _).mpr ⟨p, hp, rfl⟩, LOC.rcSeq s, List.mem_map.mpr ⟨s, hs, rfl⟩, ?_⟩
        rw [rvN_eq hkW (pf.base hs), rN_eq_fN (pf.base hs) (by rw [pf.len hs]; omega), pf.len hs]
        congr 1
        omega

/-- **T17K_groups**: for the entry and exit nodes of `identify_good_kmers`: there is no indel group; every
SNP group has at least two variants and is a good group (`GG`: start coordinate `c0`, `len` letters; every
variant spells `k`-windows of samples at the corresponding coordinates; every site inside is marked; every
base a sample shows at such a site is shown by a variant — all allele combinations) of the samples' strand
or of the reverse-complemented family (sites mirrored); the bubble of every site `p` — from the `(k-1)`-mer
just before `p` to the one just after it — is reported -/
theorem T17K_groups (W k L : Nat) (A : List UInt8) (S : List (List UInt8)) (P : List Nat)
    (names : List String) (a : Arr) (hk : ValidK k) (hw : WidthOk W k) (hpl : Planted k L A S P)
    (ha : IsArrOf a k names S) (starts ends : List Nat)
    (hid : identifyGoodKmers W (k - 1) (buildGraph W a).1 (buildGraph W a).2 = some (starts, ends))
    (maxDepth : Nat) :
    (buildVariantGroups W (k - 1) (buildGraph W a).1 starts ends maxDepth).indelGroups = [] ∧
    (∀ grp ∈ (buildVariantGroups W (k - 1) (buildGraph W a).1 starts ends maxDepth).snpGroups,
      2 ≤ grp.2.length ∧
      ((∃ c0 len, GG k L S P c0 len grp.2) ∨ (∃ c0 len, GG k L (rcFam S) (mirrorP L P) c0 len grp.2))) ∧
    (∀ p ∈ P, ∃ grp ∈ (buildVariantGroups W (k - 1) (buildGraph W a).1 starts ends maxDepth).snpGroups,
      (∃ s ∈ S, grp.1 = (fwN W k s (p - k + 1), fwN W k s (p + 1))) ∧
      ∃ c0 len, GG k L S P c0 len grp.2 ∧ c0 ≤ p ∧ p < c0 + len) := by
  obtain ⟨_, _, hkW⟩ := validK_bounds hk hw
  have pf := pfam_of_planted hpl
  have st := strand_of_fam ha pf hk hw
  obtain ⟨starts', ends', hid', ex⟩ := st.identify (colOK_fam ha pf hk hw) (colOK_rc ha pf hk hw) (LOC.widthOk_cases hw) hkW
  rw [hid] at hid'
  simp only [Option.some.injEq, Prod.mk.injEq] at hid'
  obtain ⟨rfl, rfl⟩ := hid'
  obtain ⟨h1, h2, h3⟩ := st.groups_spec ex hkW maxDepth
  refine ⟨h1, h2, ?_⟩
  intro p hp
  obtain ⟨grp, hgrp, ⟨t, ht, hkey⟩, hrest⟩ := h3 p hp
  exact ⟨grp, hgrp, ⟨t, ht, by rw [fwN_eq hkW, fwN_eq hkW]; exact hkey⟩, hrest⟩

/-- with `maxDepth = 0` only single-site bubbles are reported: the key of every group of the samples' strand
is (node before a site, node after the same site); in general a group spans at most `maxDepth` further sites -/
theorem T17K_group_span (W k L : Nat) (A : List UInt8) (S : List (List UInt8)) (P : List Nat)
    (names : List String) (a : Arr) (hk : ValidK k) (hw : WidthOk W k) (hpl : Planted k L A S P)
    (ha : IsArrOf a k names S) (starts ends : List Nat)
    (hid : identifyGoodKmers W (k - 1) (buildGraph W a).1 (buildGraph W a).2 = some (starts, ends))
    (maxDepth : Nat) (s : List UInt8) (hs : s ∈ S) (p : Nat) (hp : p ∈ P) (grp : (Nat × Nat) × List Variant)
    (hgrp : grp ∈ groupsFrom W (k - 1) (compactGraph (buildGraph W a).1 starts ends).1
      (compactGraph (buildGraph W a).1 starts ends).2 starts ends maxDepth (fwN W k s (p - k + 1))) :
    ∃ qs : List Nat, SitesOK P p qs ∧ qs.length ≤ maxDepth ∧
      grp.1 = (fwN W k s (p - k + 1), fwN W k s ((p :: qs).getLast (by simp) + 1)) := by
  obtain ⟨_, _, hkW⟩ := validK_bounds hk hw
  have pf := pfam_of_planted hpl
  have st := strand_of_fam ha pf hk hw
  obtain ⟨starts', ends', hid', ex⟩ := st.identify (colOK_fam ha pf hk hw) (colOK_rc ha pf hk hw) (LOC.widthOk_cases hw) hkW
  rw [hid] at hid'
  simp only [Option.some.injEq, Prod.mk.injEq] at hid'
  obtain ⟨rfl, rfl⟩ := hid'
  rw [fwN_eq hkW] at hgrp
  obtain ⟨qs, h1, h2, h3⟩ := st.group_span ex hkW maxDepth hs hp hgrp
  exact ⟨qs, h1, h2, by rw [fwN_eq hkW, fwN_eq hkW]; exact h3⟩

/-- **T17K_group_keys**: the keys of the SNP groups that start at the entry node of a site `p` of the samples'
strand are exactly the pairs (node before `p`, node after the site reached from `p` by `n ≤ maxDepth` steps to
the next site): the bubble of `p` (`n = 0`) and the spanning groups; with `maxDepth = 0` only the bubble -/
theorem T17K_group_keys (W k L : Nat) (A : List UInt8) (S : List (List UInt8)) (P : List Nat)
    (names : List String) (a : Arr) (hk : ValidK k) (hw : WidthOk W k) (hpl : Planted k L A S P)
    (ha : IsArrOf a k names S) (starts ends : List Nat)
    (hid : identifyGoodKmers W (k - 1) (buildGraph W a).1 (buildGraph W a).2 = some (starts, ends))
    (maxDepth : Nat) (s : List UInt8) (hs : s ∈ S) (p : Nat) (hp : p ∈ P) (key : Nat × Nat)
    (hkey : key.1 = fwN W k s (p - k + 1)) :
    (∃ grp ∈ (buildVariantGroups W (k - 1) (buildGraph W a).1 starts ends maxDepth).snpGroups, grp.1 = key) ↔
      ∃ qs : List Nat, SitesOK P p qs ∧ qs.length ≤ maxDepth ∧
        key = (fwN W k s (p - k + 1), fwN W k s ((p :: qs).getLast (by simp) + 1)) := by
  obtain ⟨_, _, hkW⟩ := validK_bounds hk hw
  have pf := pfam_of_planted hpl
  have st := strand_of_fam ha pf hk hw
  obtain ⟨starts', ends', hid', ex⟩ := st.identify (colOK_fam ha pf hk hw) (colOK_rc ha pf hk hw) (LOC.widthOk_cases hw) hkW
  rw [hid] at hid'
  simp only [Option.some.injEq, Prod.mk.injEq] at hid'
  obtain ⟨rfl, rfl⟩ := hid'
  rw [fwN_eq hkW] at hkey
  rw [st.snp_keys ex hkW maxDepth hs hp key hkey]
  simp only [fwN_eq hkW]

/-- the sites following `p`, one after the other (`SitesOK P p qs`): each is the next site of the previous one -/
example : SitesOK [10, 20, 30] 10 [20, 30] := by
  refine ⟨⟨by decide, by decide, ?_⟩, ⟨by decide, by decide, ?_⟩, trivial⟩ <;> decide

/-- **the executable checker of Stage 0 accepts** on every planted family -/
theorem T17_complete_check (W k L : Nat) (A : List UInt8) (S : List (List UInt8)) (P : List Nat)
    (names : List String) (a : Arr) (hk : ValidK k) (hw : WidthOk W k) (hpl : Planted k L A S P)
    (ha : IsArrOf a k names S) (mNum mDen ik maxDepth : Nat) :
    completeOn W k S.length mNum mDen ik maxDepth a S P = true :=
  completeOn_of_complete W k S.length mNum mDen ik maxDepth a S P
    (T17_complete W k L A S P names a hk hw hpl ha mNum mDen ik maxDepth)

/-- an array with the rows of the table in any other order -/
theorem T17K_arrOf_perm (W k : Nat) (names : List String) (S : List (List UInt8)) (rows' : List (Nat × List UInt8))
    (hp : rows'.Perm (tableOf k names S).rows) : IsArrOf (arrOfRows W k names rows') k names S :=
  isArrOf_rows W k names S rows' hp

/-! ### examples: the hypotheses are satisfiable, the theorems apply -/

/-- a planted family: k = 5, one site at 10 (G / A), ancestor CAGGTGGCGTGAAGAGTAGTC -/
def exA : List UInt8 := [67, 65, 71, 71, 84, 71, 71, 67, 71, 84, 71, 65, 65, 71, 65, 71, 84, 65, 71, 84, 67]
def exS : List (List UInt8) := [[67, 65, 71, 71, 84, 71, 71, 67, 71, 84, 71, 65, 65, 71, 65, 71, 84, 65, 71, 84, 67], [67, 65, 71, 71, 84, 71, 71, 67, 71, 84, 65, 65, 65, 71, 65, 71, 84, 65, 71, 84, 67]]

theorem ex_planted : Planted 5 21 exA exS [10] := by decide +kernel
theorem ex_k : ValidK 5 := by unfold ValidK; decide
theorem ex_w : WidthOk 64 5 := by unfold WidthOk; decide

/-- the main theorem on that family: depth 0, no missing data allowed, table order -/
example : ∃ cols, lo 64 5 2 0 1 2 0 (arrOf 64 5 ["s0", "s1"] exS) = some (cols, []) ∧
    ColsMatch cols (trueCols exS [10]) :=
  T17_complete_table 64 5 21 exA exS [10] ["s0", "s1"] ex_k ex_w ex_planted 0 1 2 0

/-- the same with depth 4, threshold 1/2 and the 128-bit width -/
example : ∃ cols, lo 128 5 2 1 2 0 4 (arrOf 128 5 ["s0", "s1"] exS) = some (cols, []) ∧
    ColsMatch cols (trueCols exS [10]) :=
  T17_complete_table 128 5 21 exA exS [10] ["s0", "s1"] ex_k (by unfold WidthOk; decide) ex_planted 1 2 0 4

-- what the model computes on that family: one column, C/T = the complement of the true column G/A
-- (the group of the other strand is processed first)
#guard lo 64 5 2 0 1 2 0 (arrOf 64 5 ["s0", "s1"] exS) = some ([[67, 84]], [])
example : trueCols exS [10] = [[71, 65]] := by decide

/-- the rows of the table in reverse order: the theorem applies as well -/
example : ∃ cols, lo 64 5 2 0 1 2 1 (arrOfRows 64 5 ["s0", "s1"] (tableOf 5 ["s0", "s1"] exS).rows.reverse) =
    some (cols, []) ∧ ColsMatch cols (trueCols exS [10]) :=
  T17_complete 64 5 21 exA exS [10] ["s0", "s1"] _ ex_k ex_w ex_planted
    (T17K_arrOf_perm 64 5 _ exS _ (List.reverse_perm _)) 0 1 2 1
#guard lo 64 5 2 0 1 2 1 (arrOfRows 64 5 ["s0", "s1"] (tableOf 5 ["s0", "s1"] exS).rows.reverse) = some ([[67, 84]], [])

/-- Stage 1 on that family: the 5-mer of sample 0 at coordinate 6 (GCGTG, covering the site) is carried by
sample 0 only, the 5-mer at 0 by both samples -/
example := T17K_colours 64 5 21 exA exS [10] ["s0", "s1"] _ ex_k ex_w ex_planted (T17K_arrOf 64 5 _ exS)
  (exS.getD 0 []) (by decide) 6 (by decide)
#guard Assoc.lookup (buildGraph 64 (arrOf 64 5 ["s0", "s1"] exS)).2 (encodeKmer 64 (LOC.win (exS.getD 0 []) 6 5)) = some [0]
#guard Assoc.lookup (buildGraph 64 (arrOf 64 5 ["s0", "s1"] exS)).2 (encodeKmer 64 (LOC.win (exS.getD 0 []) 0 5)) = some [0, 1]
example := T17K_entries 64 5 21 exA exS [10] ["s0", "s1"] _ ex_k ex_w ex_planted (T17K_arrOf 64 5 _ exS)
example := T17K_graph_branching 64 5 21 exA exS [10] ["s0", "s1"] _ ex_k ex_w ex_planted (T17K_arrOf 64 5 _ exS)
  (exS.getD 0 []) (by decide) 6

/-- THE COUNTEREXAMPLE OF STAGE 0 (k = 5, site 10, C / A): the window CGTCG of sample 0 at coordinate 7 has the
arms CG / CG, reverse complements of each other.  The hypotheses hold (`Planted`), `noPalinB` does not.  On the
program as pinned `lo` returned no column for depths 0 and 1 (the doubled edges CGTC → GTCG and TCGG → CGGA
are fake branches on the arm of the bubble); on the repaired program (an edge is stored once) the theorem
applies and the model returns the column G/T = the complement of C/A -/
def palA : List UInt8 := [71, 65, 65, 84, 65, 65, 71, 67, 71, 84, 71, 71, 71, 65, 71, 71, 67, 71, 65, 65, 71]
def palS : List (List UInt8) := [[71, 65, 65, 84, 65, 65, 71, 67, 71, 84, 67, 71, 71, 65, 71, 71, 67, 71, 65, 65, 71], [71, 65, 65, 84, 65, 65, 71, 67, 71, 84, 65, 71, 71, 65, 71, 71, 67, 71, 65, 65, 71]]

theorem pal_planted : Planted 5 21 palA palS [10] := by decide +kernel
example : noPalinB 5 palS = false := by decide +kernel
example : ∃ cols, lo 64 5 2 0 1 2 0 (arrOf 64 5 ["s0", "s1"] palS) = some (cols, []) ∧
    ColsMatch cols (trueCols palS [10]) :=
  T17_complete_table 64 5 21 palA palS [10] ["s0", "s1"] ex_k ex_w pal_planted 0 1 2 0
#guard lo 64 5 2 0 1 2 0 (arrOf 64 5 ["s0", "s1"] palS) = some ([[71, 84]], [])
#guard trueCols palS [10] = [[67, 65]]

-- Stage 0: the executable claim on 33 generated families (k = 5, 7, 9; 2-4 samples; 1-3 sites; two and
-- three alleles; with and without the ancestral allele) for the depths 0, 1, 4 and several thresholds
#guard fams.length = 33
#guard fams.all (fun f => (testFam f).1 && (testFam f).2.2.all id)
#guard (testFam famPalin).1 && !(testFam famPalin).2.1 && (testFam famPalin).2.2.all id
-- Stages 1 and 2 on the same families: edges, branching, colours
#guard fams.all (fun f => checkEdges 64 f && checkBranching 64 f && checkColours 64 f)

/-! ### axioms -/

#print axioms T17_complete
#print axioms T17_complete_depth0
#print axioms T17_complete_table
#print axioms T17_complete_check
#print axioms T17K_graph_edges
#print axioms T17K_graph_branching
#print axioms T17K_colours
#print axioms T17K_entries
#print axioms T17K_groups
#print axioms T17K_group_keys

end SkaModel.Props.C17K
