/-
C10 — Results depend only on the logical content of an .skf, not on its history.
-/
import SkaModel.Spec.Abs

namespace SkaModel.Props.C10

open SkaModel SkaModel.Spec

/-- The only field besides k, strand mode, names, k-mers and bases that is
carried between operations is `variant_count`; `filter` recomputes it before
reading it, so no filter result depends on what an earlier operation stored. -/
theorem T10_filter_ignores_counts (a : Arr) (c : List Nat) (t : Nat) (famb : Bool) (ft : FilterType)
    (mask gaps upd : Bool) :
    ({ a with counts := c } : Arr).filter t famb ft mask gaps upd = a.filter t famb ft mask gaps upd := by
  simp [Arr.filter, Arr.updateCounts]

/-- … hence neither does `align` -/
theorem T10_align_ignores_counts (a : Arr) (c : List Nat) (t : Nat) (ft : FilterType) (mask gaps famb : Bool) :
    Modes.align ({ a with counts := c } : Arr) t ft mask gaps famb = Modes.align a t ft mask gaps famb := by
  simp [Modes.align, Modes.applyFilters, T10_filter_ignores_counts]

/-- … nor `distance` -/
theorem T10_distance_ignores_counts (a : Arr) (c : List Nat) (t : Nat) (ge1 filt : Bool) :
    Modes.distance ({ a with counts := c } : Arr) t ge1 filt = Modes.distance a t ge1 filt := by
  simp [Modes.distance, Modes.applyFilters, T10_filter_ignores_counts]

/-- … nor `delete`, `nk`, `to_dict` (merge, map) -/
theorem T10_delete_ignores_counts (a : Arr) (c : List Nat) (del : List String) :
    Modes.delete ({ a with counts := c } : Arr) del = Modes.delete a del := by
  simp [Modes.delete, Arr.deleteSamples, Arr.updateCounts]

theorem T10_toDict_ignores_counts (a : Arr) (c : List Nat) :
    ({ a with counts := c } : Arr).toDict = a.toDict := by
  simp [Arr.toDict]

end SkaModel.Props.C10
