/-
C10 — Results depend only on the logical content of an .skf, not on its history.

* `T10_*_ignores_counts`  the stored `variant_count` never influences a later result
* `Op`, `step`, `specStep`  the rewriting commands (merge, delete, weed with all options, reload),
  what the modelled program does, and the documented effect on the plain table
* `Good`  invariant of written files (`WF` and cells `≥ '-'`); sample names need not be distinct
* `T10_refine`  one command: refused on both sides or on neither, results related by `Arr.abs`
* `T10_history` (`_prefix`, `_align`)  any list of commands, refused ones skipped
* `T10_obs_align(_I, _records)`, `T10_obs_distance`, `T10_obs_delete`, `T10_obs_weed`, `T10_obs_nk`,
  bundled as `ObsEq` / `T10_obs`: observers see the table only up to row order
* `specStep_equiv`, `T10_obs_step`, `T10_obs_modesWeed`, `T10_run_equiv`  further rewriting commands
  as observers (the documented effects are well defined on tables up to row order)
* `T10_history_obs`, `T10_history_fresh`, `T10_history_obs_step`  two histories with the same
  documented table cannot be told apart
Helper lemmas: `SkaModel/Lemmas/Hist.lean`.
-/
import SkaModel.Spec.Abs
import SkaModel.Lemmas.Hist

namespace SkaModel.Props.C10

open SkaModel SkaModel.Spec

/-- The only field besides k, strand mode, names, k-mers and bases that is
carried between operations is `variant_count`; `filter` recomputes it before
reading it, so no filter result depends on what an earlier operation stored. -/
theorem T10_filter_ignores_counts (a : Arr) (c : List Nat) (t : Nat) (famb : Bool) (ft : FilterType)
    (mask gaps upd : Bool) :
    ({ a with counts := c } : Arr).filter t famb ft mask gaps upd = a.filter t famb ft mask gaps upd := by
  simp [Arr.filter, Arr.updateCounts]

/-- … hence neither does `align` -/
theorem T10_align_ignores_counts (a : Arr) (c : List Nat) (t : Nat) (ft : FilterType) (mask gaps famb : Bool) :
    Modes.align ({ a with counts := c } : Arr) t ft mask gaps famb = Modes.align a t ft mask gaps famb := by
  simp [Modes.align, Modes.applyFilters, T10_filter_ignores_counts]

/-- … nor `distance` -/
theorem T10_distance_ignores_counts (a : Arr) (c : List Nat) (t : Nat) (ge1 filt : Bool) :
    Modes.distance ({ a with counts := c } : Arr) t ge1 filt = Modes.distance a t ge1 filt := by
  simp [Modes.distance, Modes.applyFilters, T10_filter_ignores_counts]

/-- … nor `delete`, `nk`, `to_dict` (merge, map) -/
theorem T10_delete_ignores_counts (a : Arr) (c : List Nat) (del : List String) :
    Modes.delete ({ a with counts := c } : Arr) del = Modes.delete a del := by
  simp [Modes.delete, Arr.deleteSamples, Arr.updateCounts]

theorem T10_toDict_ignores_counts (a : Arr) (c : List Nat) :
    ({ a with counts := c } : Arr).toDict = a.toDict := by
  simp [Arr.toDict]

/-! ## The operation language and its two semantics -/

open SkaModel.Hist

/-- one command that rewrites an .skf (each followed by save / reload) -/
inductive Op where
  /-- `ska merge cur others…` -/
  | merge (others : List Arr)
  /-- `ska delete` -/
  | delete (names : List String)
  /-- `ska weed` (weed file optional; `tf = floor(n * min_freq)`) -/
  | weed (weedKmers : Option (List Nat)) (reverse : Bool) (tf : Nat) (famb : Bool) (ft : FilterType)
      (mask gaps : Bool)
  /-- save and load again -/
  | reload

/-- what the modelled program does to the file; `none` = refused (file unchanged) -/
def step (W : Nat) (a : Arr) : Op → Option Arr
  | .merge others => (Modes.merge W a others).toOption
  | .delete names => Modes.delete a names
  | .weed wk rev tf famb ft mask gaps => some (Modes.weed a wk rev tf famb ft mask gaps)
  | .reload => some a

/-- the row filter of `ska weed`: keep the passing rows and mask their cells -/
def filterMask (t : Table) (tf : Nat) (famb : Bool) (ft : FilterType) (mask gaps : Bool) : Table :=
  { names := t.names
    rows := (t.filterRows (fun r => Table.passes tf famb (toSite ft) gaps r.2)).rows.map
      (fun r => (r.1, Table.maskRow mask r.2)) }

/-- the documented effect of each command on the plain table (`k`, `rc`: k-mer length and strand
mode of the file, which only `merge` looks at) -/
def specStep (t : Table) (k : Nat) (rc : Bool) : Op → Option Table
  | .merge others =>
    if ∀ b ∈ others, b.k = k ∧ b.rc = rc then some ((others.map Arr.abs).foldl Table.concat t) else none
  | .delete names =>
    if names = [] ∨ names.eraseDups.length = t.names.length ∨ ∃ n ∈ names, n ∉ t.names then none
    else some (t.deleteSamples names)
  | .weed wk rev tf famb ft mask gaps =>
    let t1 := match wk with
      | some ks => t.weed ks rev
      | none => t
    if tf > 0 ∨ ft ≠ .noFilter ∨ mask = true ∨ gaps = true then some (filterMask t1 tf famb ft mask gaps)
    else some t1
  | .reload => some t

theorem specStep_merge (t : Table) (k : Nat) (rc : Bool) (others : List Arr) :
    specStep t k rc (.merge others)
      = if ∀ b ∈ others, b.k = k ∧ b.rc = rc then some ((others.map Arr.abs).foldl Table.concat t) else none :=
  rfl

theorem specStep_delete (t : Table) (k : Nat) (rc : Bool) (names : List String) :
    specStep t k rc (.delete names)
      = if names = [] ∨ names.eraseDups.length = t.names.length ∨ ∃ n ∈ names, n ∉ t.names then none
        else some (t.deleteSamples names) := rfl

theorem specStep_weed (t : Table) (k : Nat) (rc : Bool) (wk : Option (List Nat)) (rev : Bool) (tf : Nat)
    (famb : Bool) (ft : FilterType) (mask gaps : Bool) :
    specStep t k rc (.weed wk rev tf famb ft mask gaps)
      = if tf > 0 ∨ ft ≠ .noFilter ∨ mask = true ∨ gaps = true then
          some (filterMask (match wk with | some ks => t.weed ks rev | none => t) tf famb ft mask gaps)
        else some (match wk with | some ks => t.weed ks rev | none => t) := rfl

/-! ## The invariant -/

/-- what every file written by `ska build / merge / delete / weed` satisfies: aligned containers,
distinct k-mers, rows as wide as the name list, every cell `≥ '-'`. Distinct sample names are NOT
required (a merge of files with a common sample name breaks that). -/
def Good (a : Arr) : Prop := a.WF ∧ a.CellsGE

/-- the two cell predicates in use (`C06.CellsGe45`, `Arr.CellsGE`) are the same -/
theorem cellsGE_iff_cellsGe45 (a : Arr) : a.CellsGE ↔ Props.C06.CellsGe45 a.variants := Iff.rfl

/-- the files named in a command are themselves good -/
def OpGood : Op → Prop
  | .merge others => ∀ b ∈ others, Good b
  | _ => True

/-! ## One step -/

theorem weedCond_iff (tf : Nat) (ft : FilterType) (mask gaps : Bool) :
    (decide (tf > 0) || ft != .noFilter || mask || gaps) = true
      ↔ (tf > 0 ∨ ft ≠ .noFilter ∨ mask = true ∨ gaps = true) := by
  have hft : (ft != .noFilter) = true ↔ ft ≠ .noFilter := by cases ft <;> decide
  simp only [Bool.or_eq_true, decide_eq_true_eq, hft, or_assoc]

theorem filter_abs (a : Arr) (hg : Good a) (tf : Nat) (famb : Bool) (ft : FilterType) (mask gaps : Bool) :
    (a.filter tf famb ft mask gaps true).1.abs = filterMask a.abs tf famb ft mask gaps
    ∧ Good (a.filter tf famb ft mask gaps true).1 := by
  refine ⟨?_, Props.C06.T06_filter_WF a hg.1 tf famb ft mask gaps,
    Props.C06.T06_filter_cellsGe45 a hg.2 tf famb ft mask gaps true⟩
  unfold filterMask Table.filterRows
  simp only [Arr.abs]
  rw [Props.C06.T06_filter a hg.2 tf famb ft mask gaps]
  rfl

/-- the optional filter stage of `ska weed` -/
theorem postFilter_abs (a : Arr) (hg : Good a) (tf : Nat) (famb : Bool) (ft : FilterType) (mask gaps : Bool) :
    (if tf > 0 ∨ ft ≠ .noFilter ∨ mask = true ∨ gaps = true then some (filterMask a.abs tf famb ft mask gaps)
      else some a.abs)
      = some (if (decide (tf > 0) || ft != .noFilter || mask || gaps) = true
          then (a.filter tf famb ft mask gaps true).1 else a).abs
    ∧ Good (if (decide (tf > 0) || ft != .noFilter || mask || gaps) = true
          then (a.filter tf famb ft mask gaps true).1 else a)
    ∧ (if (decide (tf > 0) || ft != .noFilter || mask || gaps) = true
          then (a.filter tf famb ft mask gaps true).1 else a).k = a.k
    ∧ (if (decide (tf > 0) || ft != .noFilter || mask || gaps) = true
          then (a.filter tf famb ft mask gaps true).1 else a).rc = a.rc := by
  by_cases hc : (tf > 0 ∨ ft ≠ .noFilter ∨ mask = true ∨ gaps = true)
  · rw [if_pos hc, if_pos ((weedCond_iff tf ft mask gaps).mpr hc)]
    obtain ⟨e1, e2⟩ := filter_abs a hg tf famb ft mask gaps
    exact ⟨by rw [e1], e2, rfl, rfl⟩
  · rw [if_neg hc, if_neg (fun h => hc ((weedCond_iff tf ft mask gaps).mp h))]
    exact ⟨rfl, hg, rfl, rfl⟩

theorem modesWeed_abs (a : Arr) (hg : Good a) (wk : Option (List Nat)) (rev : Bool) (tf : Nat) (famb : Bool)
    (ft : FilterType) (mask gaps : Bool) :
    specStep a.abs a.k a.rc (.weed wk rev tf famb ft mask gaps)
        = some (Modes.weed a wk rev tf famb ft mask gaps).abs
    ∧ Good (Modes.weed a wk rev tf famb ft mask gaps)
    ∧ (Modes.weed a wk rev tf famb ft mask gaps).k = a.k
    ∧ (Modes.weed a wk rev tf famb ft mask gaps).rc = a.rc := by
  cases wk with
  | none => exact postFilter_abs a hg tf famb ft mask gaps
  | some ks =>
    have h := postFilter_abs (a.weed ks rev)
      ⟨Props.C13.weed_WF a hg.1 ks rev, weed_cellsGE a hg.2 ks rev⟩ tf famb ft mask gaps
    rw [Props.C13.weed_abs a hg.1 ks rev] at h
    exact h

/-- the two semantics, step by step: both refuse, or both succeed with matching results -/
theorem step_spec (W : Nat) (a : Arr) (op : Op) (hg : Good a) (hop : OpGood op) :
    (step W a op = none ∧ specStep a.abs a.k a.rc op = none)
    ∨ ∃ a', step W a op = some a' ∧ specStep a.abs a.k a.rc op = some a'.abs
        ∧ Good a' ∧ a'.k = a.k ∧ a'.rc = a.rc := by
  cases op with
  | reload => exact Or.inr ⟨a, rfl, rfl, hg, rfl, rfl⟩
  | weed wk rev tf famb ft mask gaps =>
    obtain ⟨h1, h2, h3, h4⟩ := modesWeed_abs a hg wk rev tf famb ft mask gaps
    exact Or.inr ⟨_, rfl, h1, h2, h3, h4⟩
  | delete names =>
    cases hd : a.deleteSamples names with
    | none =>
      refine Or.inl ⟨hd, ?_⟩
      have := (Props.C08.T08_refuse a names).mp hd
      rw [specStep_delete]
      exact if_pos this
    | some a' =>
      refine Or.inr ⟨a', hd, ?_, ?_, ?_, ?_⟩
      · have hne : ¬ (names = [] ∨ names.eraseDups.length = a.names.length ∨ ∃ n ∈ names, n ∉ a.names) := by
          intro h
          rw [(Props.C08.T08_refuse a names).mpr h] at hd
          cases hd
        rw [specStep_delete, (Props.C08.T08_delete_abs a a' names hd).1]
        exact if_neg hne
      · refine ⟨(Props.C08.T08_delete_abs a a' names hd).2.2.2 hg.1, ?_⟩
        rw [deleteSamples_some hd]
        exact deleteResult_cellsGE a hg.2 names
      · rw [deleteSamples_some hd]; rfl
      · rw [deleteSamples_some hd]; rfl
  | merge others =>
    by_cases hall : ∀ b ∈ others, b.k = a.k ∧ b.rc = a.rc
    · obtain ⟨r, hr, habs, _, hgo, hk, hrc, _⟩ := Props.C07.T07_merge W a others hg.1 hg.2
        (fun b hb => ⟨(hop b hb).1, (hop b hb).2, (hall b hb).1, (hall b hb).2⟩)
      refine Or.inr ⟨r, ?_, ?_, ⟨hgo.wf, hgo.cellsGE⟩, hk, hrc⟩
      · show (Modes.merge W a others).toOption = some r
        rw [hr]; rfl
      · rw [specStep_merge, if_pos hall, habs]
    · refine Or.inl ⟨?_, ?_⟩
      · have : ∃ b ∈ others, b.k ≠ a.k ∨ b.rc ≠ a.rc := by
          apply Classical.byContradiction
          intro hne
          apply hall
          intro b hb
          refine ⟨Classical.byContradiction fun h => hne ⟨b, hb, Or.inl h⟩,
            Classical.byContradiction fun h => hne ⟨b, hb, Or.inr h⟩⟩
        obtain ⟨e, he⟩ := Props.C07.T07_refuse_merge W a others this
        show (Modes.merge W a others).toOption = none
        rw [he]; rfl
      · rw [specStep_merge]
        exact if_neg hall

/-- **T10_refine.** For a good file and a command whose other input files are good, the program
refuses exactly when the documented effect is undefined, and otherwise the table of the written
file is the documented effect applied to the table of the input; the written file is good again and
keeps `k` and the strand mode. -/
theorem T10_refine (W : Nat) (a : Arr) (op : Op) (hg : Good a) (hop : OpGood op) :
    (step W a op = none ↔ specStep a.abs a.k a.rc op = none)
    ∧ ∀ a', step W a op = some a' →
        specStep a.abs a.k a.rc op = some a'.abs ∧ Good a' ∧ a'.k = a.k ∧ a'.rc = a.rc := by
  rcases step_spec W a op hg hop with ⟨h1, h2⟩ | ⟨a', h1, h2, h3, h4, h5⟩
  · refine ⟨⟨fun _ => h2, fun _ => h1⟩, ?_⟩
    intro a' h; rw [h1] at h; cases h
  · refine ⟨⟨fun h => ?_, fun h => ?_⟩, ?_⟩
    · rw [h1] at h; cases h
    · rw [h2] at h; cases h
    intro a'' h
    rw [h1] at h
    cases h
    exact ⟨h2, h3, h4, h5⟩

/-- `reload` is the identity on both sides -/
theorem T10_reload (W : Nat) (a : Arr) (t : Table) (k : Nat) (rc : Bool) :
    step W a .reload = some a ∧ specStep t k rc .reload = some t := ⟨rfl, rfl⟩

/-! ## Histories -/

/-- run a list of commands; a refused command leaves the file as it was -/
def run (W : Nat) (a : Arr) : List Op → Arr
  | [] => a
  | op :: ops => run W ((step W a op).getD a) ops

def specRun (t : Table) (k : Nat) (rc : Bool) : List Op → Table
  | [] => t
  | op :: ops => specRun ((specStep t k rc op).getD t) k rc ops

/-- **T10_history.** After any list of commands (any length, refused ones skipped) the table of the
file is the table obtained by applying the documented effects in order to the table of the start
file; the file is good, `k` and the strand mode are those of the start file. -/
theorem T10_history (W : Nat) (ops : List Op) (a : Arr) (hg : Good a) (hops : ∀ op ∈ ops, OpGood op) :
    (run W a ops).abs = specRun a.abs a.k a.rc ops ∧ Good (run W a ops)
      ∧ (run W a ops).k = a.k ∧ (run W a ops).rc = a.rc := by
  induction ops generalizing a with
  | nil => exact ⟨rfl, hg, rfl, rfl⟩
  | cons op ops ih =>
    have hop := hops op (List.mem_cons_self ..)
    have hrest : ∀ o ∈ ops, OpGood o := fun o ho => hops o (List.mem_cons_of_mem _ ho)
    unfold run specRun
    rcases step_spec W a op hg hop with ⟨h1, h2⟩ | ⟨a', h1, h2, h3, h4, h5⟩
    · rw [h1, h2]
      exact ih a hg hrest
    · rw [h1, h2]
      simp only [Option.getD_some]
      obtain ⟨e1, e2, e3, e4⟩ := ih a' h3 hrest
      rw [h4, h5] at e1
      exact ⟨e1, e2, e3.trans h4, e4.trans h5⟩

/-- every prefix of the history is related as well (the statement "at every point") -/
theorem T10_history_prefix (W : Nat) (ops : List Op) (a : Arr) (hg : Good a) (hops : ∀ op ∈ ops, OpGood op)
    (n : Nat) :
    (run W a (ops.take n)).abs = specRun a.abs a.k a.rc (ops.take n) ∧ Good (run W a (ops.take n)) := by
  have := T10_history W (ops.take n) a hg (fun op h => hops op (List.mem_of_mem_take h))
  exact ⟨this.1, this.2.1⟩

/-! ## Observers depend only on the table, up to row order -/

/-- two optional tables: both absent, or both present and equal up to row order -/
def OptEquiv : Option Table → Option Table → Prop
  | none, none => True
  | some s, some t => s.Equiv t
  | _, _ => False

/-- (i) `ska align`: the emitted columns (one list of cells over all samples per column) of the two
files are permutations of each other, both outputs carry the same names in the same order, and the
sequence of sample `i` is read off position `i` of those columns — so all samples see the same
permutation of columns. Model-level row test (`alignColumnsI`), no hypothesis on the cells. -/
theorem T10_obs_align_I (a₁ a₂ : Arr) (he : a₁.abs.Equiv a₂.abs)
    (t : Nat) (ft : FilterType) (mask gaps famb : Bool) :
    (Props.C06.alignColumnsI a₁.abs t famb ft mask gaps).Perm (Props.C06.alignColumnsI a₂.abs t famb ft mask gaps)
    ∧ Modes.align a₁ t ft mask gaps famb = a₁.names.zipIdx.map (fun ni =>
        (ni.1, (Props.C06.alignColumnsI a₁.abs t famb ft mask gaps).map (fun col => col.getD ni.2 GAP)))
    ∧ Modes.align a₂ t ft mask gaps famb = a₁.names.zipIdx.map (fun ni =>
        (ni.1, (Props.C06.alignColumnsI a₂.abs t famb ft mask gaps).map (fun col => col.getD ni.2 GAP))) := by
  refine ⟨alignColumnsI_perm he t famb ft mask gaps, Props.C06.T06_align_I a₁ t ft mask gaps famb, ?_⟩
  have hn : a₁.names = a₂.names := he.1
  rw [hn]
  exact Props.C06.T06_align_I a₂ t ft mask gaps famb

/-- (i) the same against the specification `Table.alignColumns`, for files with cells `≥ '-'` -/
theorem T10_obs_align (a₁ a₂ : Arr) (he : a₁.abs.Equiv a₂.abs) (hc₁ : a₁.CellsGE) (hc₂ : a₂.CellsGE)
    (t : Nat) (ft : FilterType) (mask gaps famb : Bool) :
    (a₁.abs.alignColumns t famb (toSite ft) mask gaps).Perm (a₂.abs.alignColumns t famb (toSite ft) mask gaps)
    ∧ Modes.align a₁ t ft mask gaps famb = a₁.names.zipIdx.map (fun ni =>
        (ni.1, (a₁.abs.alignColumns t famb (toSite ft) mask gaps).map (fun col => col.getD ni.2 GAP)))
    ∧ Modes.align a₂ t ft mask gaps famb = a₁.names.zipIdx.map (fun ni =>
        (ni.1, (a₂.abs.alignColumns t famb (toSite ft) mask gaps).map (fun col => col.getD ni.2 GAP))) := by
  refine ⟨alignColumns_perm he t famb (toSite ft) mask gaps, Props.C06.T06_align a₁ hc₁ t ft mask gaps famb, ?_⟩
  have hn : a₁.names = a₂.names := he.1
  rw [hn]
  exact Props.C06.T06_align a₂ hc₂ t ft mask gaps famb

/-- (i) record by record: as many records, the `n`-th records have the same name and their
sequences are permutations of each other -/
theorem T10_obs_align_records (a₁ a₂ : Arr) (he : a₁.abs.Equiv a₂.abs)
    (t : Nat) (ft : FilterType) (mask gaps famb : Bool) :
    (Modes.align a₁ t ft mask gaps famb).length = (Modes.align a₂ t ft mask gaps famb).length
    ∧ ∀ (n : Nat) (r₁ r₂ : String × List UInt8), (Modes.align a₁ t ft mask gaps famb)[n]? = some r₁ →
        (Modes.align a₂ t ft mask gaps famb)[n]? = some r₂ → r₁.1 = r₂.1 ∧ r₁.2.Perm r₂.2 := by
  obtain ⟨hp, e1, e2⟩ := T10_obs_align_I a₁ a₂ he t ft mask gaps famb
  rw [e1, e2]
  refine ⟨by rw [List.length_map, List.length_map], ?_⟩
  intro n r₁ r₂ h1 h2
  rw [List.getElem?_map] at h1 h2
  cases hx : a₁.names.zipIdx[n]? with
  | none => rw [hx] at h1; cases h1
  | some x =>
    rw [hx] at h1 h2
    cases h1; cases h2
    exact ⟨rfl, hp.map _⟩

/-- (ii) `ska distance`: identical output -/
theorem T10_obs_distance (a₁ a₂ : Arr) (h₁ : a₁.WF) (h₂ : a₂.WF) (he : a₁.abs.Equiv a₂.abs)
    (t : Nat) (ge1 filt : Bool) :
    Modes.distance a₁ t ge1 filt = Modes.distance a₂ t ge1 filt := by
  have hn : a₁.names = a₂.names := he.1
  have hv := variants_perm h₁.lenV h₂.lenV he.2
  obtain ⟨b₁, hn₁, hv₁, hd₁⟩ := DM.modes_distance_struct a₁ (Nat.le_of_eq h₁.lenV) t ge1 filt
  obtain ⟨b₂, hn₂, hv₂, hd₂⟩ := DM.modes_distance_struct a₂ (Nat.le_of_eq h₂.lenV) t ge1 filt
  rw [hd₁, hd₂, hn, cstOf_perm hv]
  congr 1
  apply Props.C14.T14_perm_rows
  · rw [hn₁, hn₂, hn]
  · rw [hv₁, hv₂]
    exact V3_perm hv

/-- (iii) `ska delete`: refused for both or for neither, and the written tables agree up to row order -/
theorem T10_obs_delete (a₁ a₂ : Arr) (he : a₁.abs.Equiv a₂.abs) (del : List String) :
    OptEquiv ((Modes.delete a₁ del).map Arr.abs) ((Modes.delete a₂ del).map Arr.abs) := by
  have hn : a₁.names = a₂.names := he.1
  have href : a₁.deleteSamples del = none ↔ a₂.deleteSamples del = none := by
    rw [Props.C08.T08_refuse, Props.C08.T08_refuse, hn]
  show OptEquiv ((a₁.deleteSamples del).map Arr.abs) ((a₂.deleteSamples del).map Arr.abs)
  cases h1 : a₁.deleteSamples del with
  | none => rw [href.mp h1]; exact True.intro
  | some r₁ =>
    cases h2 : a₂.deleteSamples del with
    | none => rw [href.mpr h2] at h1; cases h1
    | some r₂ =>
      show r₁.abs.Equiv r₂.abs
      rw [(Props.C08.T08_delete_abs a₁ r₁ del h1).1, (Props.C08.T08_delete_abs a₂ r₂ del h2).1]
      exact deleteSamples_equiv he del

/-- (iv) weeding (`Arr.weed`): the written tables agree up to row order -/
theorem T10_obs_weed (a₁ a₂ : Arr) (h₁ : a₁.WF) (h₂ : a₂.WF) (he : a₁.abs.Equiv a₂.abs)
    (ks : List Nat) (rev : Bool) : (a₁.weed ks rev).abs.Equiv (a₂.weed ks rev).abs := by
  rw [Props.C13.weed_abs a₁ h₁, Props.C13.weed_abs a₂ h₂]
  exact weed_equiv he ks rev

/-- (v) `ska nk`: the same per-sample k-mer counts, the same number of k-mers, and the listed
k-mers / rows are permutations of each other -/
theorem T10_obs_nk (a₁ a₂ : Arr) (h₁ : a₁.WF) (h₂ : a₂.WF) (he : a₁.abs.Equiv a₂.abs) :
    a₁.nSampleKmers = a₂.nSampleKmers ∧ a₁.kmers.length = a₂.kmers.length
    ∧ a₁.kmers.Perm a₂.kmers ∧ a₁.variants.Perm a₂.variants
    ∧ (a₁.kmers.zip a₁.variants).Perm (a₂.kmers.zip a₂.variants) := by
  have hn : a₁.names = a₂.names := he.1
  have hv := variants_perm h₁.lenV h₂.lenV he.2
  have hk := kmers_perm h₁.lenV h₂.lenV he.2
  refine ⟨?_, hk.length_eq, hk, hv, he.2⟩
  unfold Arr.nSampleKmers Arr.column
  rw [hn]
  apply List.map_congr_left
  intro i _
  exact ((hv.map _).filter _).length_eq

/-! ### the documented effects are well defined on tables up to row order -/

theorem filterMask_equiv {s t : Table} (h : s.Equiv t) (tf : Nat) (famb : Bool) (ft : FilterType)
    (mask gaps : Bool) : (filterMask s tf famb ft mask gaps).Equiv (filterMask t tf famb ft mask gaps) :=
  ⟨h.1, (h.2.filter _).map _⟩

theorem OptEquiv.refl_some {s t : Table} (h : s.Equiv t) : OptEquiv (some s) (some t) := h

/-- `specStep` maps tables that agree up to row order to tables that agree up to row order, and
refuses for both or for neither (distinct keys are needed for `merge` only) -/
theorem specStep_equiv {s t : Table} (h : s.Equiv t) (hs : Table.WF s) (k : Nat) (rc : Bool) (op : Op)
    (hop : OpGood op) : OptEquiv (specStep s k rc op) (specStep t k rc op) := by
  cases op with
  | reload => exact h
  | merge others =>
    rw [specStep_merge, specStep_merge]
    by_cases hall : ∀ b ∈ others, b.k = k ∧ b.rc = rc
    · rw [if_pos hall, if_pos hall]
      refine (foldl_concat_equiv (others.map Arr.abs) ?_ h hs).1
      intro u hu
      obtain ⟨b, hb, rfl⟩ := List.mem_map.mp hu
      exact Arr.abs_wf (hop b hb).1
    · rw [if_neg hall, if_neg hall]
      exact True.intro
  | delete names =>
    rw [specStep_delete, specStep_delete, h.1]
    by_cases hc : names = [] ∨ names.eraseDups.length = t.names.length ∨ ∃ n ∈ names, n ∉ t.names
    · rw [if_pos hc, if_pos hc]; exact True.intro
    · rw [if_neg hc, if_neg hc]
      exact deleteSamples_equiv h names
  | weed wk rev tf famb ft mask gaps =>
    clear hop
    have h1 : (match wk with | some ks => s.weed ks rev | none => s).Equiv
        (match wk with | some ks => t.weed ks rev | none => t) := by
      cases wk with
      | none => exact h
      | some ks => exact weed_equiv h ks rev
    rw [specStep_weed, specStep_weed]
    by_cases hc : tf > 0 ∨ ft ≠ .noFilter ∨ mask = true ∨ gaps = true
    · rw [if_pos hc, if_pos hc]
      exact filterMask_equiv h1 tf famb ft mask gaps
    · rw [if_neg hc, if_neg hc]
      exact h1

/-- any further command (`merge`, `delete`, `weed` with all its options, `reload`) as an observer:
two good files with the same table up to row order, the same `k` and strand mode, are both refused
or both rewritten to files whose tables agree up to row order (`W`, the stored integer width, is
irrelevant) -/
theorem T10_obs_step (W₁ W₂ : Nat) (a₁ a₂ : Arr) (hg₁ : Good a₁) (hg₂ : Good a₂) (he : a₁.abs.Equiv a₂.abs)
    (hk : a₁.k = a₂.k) (hrc : a₁.rc = a₂.rc) (op : Op) (hop : OpGood op) :
    OptEquiv ((step W₁ a₁ op).map Arr.abs) ((step W₂ a₂ op).map Arr.abs) := by
  have hs := specStep_equiv he (Arr.abs_wf hg₁.1) a₁.k a₁.rc op hop
  rw [hk, hrc] at hs
  rcases step_spec W₁ a₁ op hg₁ hop with ⟨x1, x2⟩ | ⟨r₁, x1, x2, _⟩ <;>
    rcases step_spec W₂ a₂ op hg₂ hop with ⟨y1, y2⟩ | ⟨r₂, y1, y2, _⟩
  · rw [x1, y1]; exact True.intro
  · rw [hk, hrc] at x2; rw [x2, y2] at hs; exact hs.elim
  · rw [hk, hrc] at x2; rw [x2, y2] at hs; exact hs.elim
  · rw [hk, hrc] at x2; rw [x2, y2] at hs
    rw [x1, y1]
    exact hs

/-- `ska weed` with all its options as an observer -/
theorem T10_obs_modesWeed (a₁ a₂ : Arr) (hg₁ : Good a₁) (hg₂ : Good a₂) (he : a₁.abs.Equiv a₂.abs)
    (wk : Option (List Nat)) (rev : Bool) (tf : Nat) (famb : Bool) (ft : FilterType) (mask gaps : Bool) :
    (Modes.weed a₁ wk rev tf famb ft mask gaps).abs.Equiv (Modes.weed a₂ wk rev tf famb ft mask gaps).abs := by
  have e1 := (modesWeed_abs a₁ hg₁ wk rev tf famb ft mask gaps).1
  have e2 := (modesWeed_abs a₂ hg₂ wk rev tf famb ft mask gaps).1
  have hs := specStep_equiv he (Arr.abs_wf hg₁.1) a₁.k a₁.rc (.weed wk rev tf famb ft mask gaps) True.intro
  rw [e1] at hs
  have e2' : specStep a₂.abs a₁.k a₁.rc (.weed wk rev tf famb ft mask gaps)
      = some (Modes.weed a₂ wk rev tf famb ft mask gaps).abs := e2
  rw [e2'] at hs
  exact hs

/-! ### all observers together -/

/-- what "the two files cannot be told apart by later commands" means -/
structure ObsEq (a₁ a₂ : Arr) : Prop where
  names : a₁.names = a₂.names
  /-- `ska align`: same names, emitted columns are permutations of each other -/
  align : ∀ (t : Nat) (ft : FilterType) (mask gaps famb : Bool),
    (Props.C06.alignColumnsI a₁.abs t famb ft mask gaps).Perm (Props.C06.alignColumnsI a₂.abs t famb ft mask gaps)
    ∧ Modes.align a₁ t ft mask gaps famb = a₁.names.zipIdx.map (fun ni =>
        (ni.1, (Props.C06.alignColumnsI a₁.abs t famb ft mask gaps).map (fun col => col.getD ni.2 GAP)))
    ∧ Modes.align a₂ t ft mask gaps famb = a₁.names.zipIdx.map (fun ni =>
        (ni.1, (Props.C06.alignColumnsI a₂.abs t famb ft mask gaps).map (fun col => col.getD ni.2 GAP)))
  alignRecords : ∀ (t : Nat) (ft : FilterType) (mask gaps famb : Bool),
    (Modes.align a₁ t ft mask gaps famb).length = (Modes.align a₂ t ft mask gaps famb).length
    ∧ ∀ (n : Nat) (r₁ r₂ : String × List UInt8), (Modes.align a₁ t ft mask gaps famb)[n]? = some r₁ →
        (Modes.align a₂ t ft mask gaps famb)[n]? = some r₂ → r₁.1 = r₂.1 ∧ r₁.2.Perm r₂.2
  /-- `ska distance`: identical -/
  distance : ∀ (t : Nat) (ge1 filt : Bool), Modes.distance a₁ t ge1 filt = Modes.distance a₂ t ge1 filt
  /-- `ska delete` -/
  delete : ∀ del : List String, OptEquiv ((Modes.delete a₁ del).map Arr.abs) ((Modes.delete a₂ del).map Arr.abs)
  /-- weeding -/
  weed : ∀ (ks : List Nat) (rev : Bool), (a₁.weed ks rev).abs.Equiv (a₂.weed ks rev).abs
  /-- `ska nk` -/
  nk : a₁.nSampleKmers = a₂.nSampleKmers ∧ a₁.kmers.length = a₂.kmers.length
    ∧ a₁.kmers.Perm a₂.kmers ∧ a₁.variants.Perm a₂.variants
    ∧ (a₁.kmers.zip a₁.variants).Perm (a₂.kmers.zip a₂.variants)

/-- **T10_obs.** Two well-formed files whose tables agree up to row order give the same results in
`align` (up to one common permutation of the columns), `distance` (identical), `delete`, `weed`
(tables up to row order) and `nk`. -/
theorem T10_obs (a₁ a₂ : Arr) (h₁ : a₁.WF) (h₂ : a₂.WF) (he : a₁.abs.Equiv a₂.abs) : ObsEq a₁ a₂ where
  names := he.1
  align := T10_obs_align_I a₁ a₂ he
  alignRecords := T10_obs_align_records a₁ a₂ he
  distance := T10_obs_distance a₁ a₂ h₁ h₂ he
  delete := T10_obs_delete a₁ a₂ he
  weed := T10_obs_weed a₁ a₂ h₁ h₂ he
  nk := T10_obs_nk a₁ a₂ h₁ h₂ he

/-- **T10_history_obs.** Two histories (different start files, different commands, different
lengths) whose documented tables agree up to row order end in files that later commands cannot tell
apart. -/
theorem T10_history_obs (W₁ W₂ : Nat) (a b : Arr) (ops₁ ops₂ : List Op) (hga : Good a) (hgb : Good b)
    (ho₁ : ∀ op ∈ ops₁, OpGood op) (ho₂ : ∀ op ∈ ops₂, OpGood op)
    (he : (specRun a.abs a.k a.rc ops₁).Equiv (specRun b.abs b.k b.rc ops₂)) :
    ObsEq (run W₁ a ops₁) (run W₂ b ops₂) := by
  obtain ⟨e1, g1, _⟩ := T10_history W₁ ops₁ a hga ho₁
  obtain ⟨e2, g2, _⟩ := T10_history W₂ ops₂ b hgb ho₂
  rw [← e1, ← e2] at he
  exact T10_obs _ _ g1.1 g2.1 he

/-- a history versus a fresh file with the same content -/
theorem T10_history_fresh (W : Nat) (a b : Arr) (ops : List Op) (hga : Good a) (ho : ∀ op ∈ ops, OpGood op)
    (hb : b.WF) (he : (specRun a.abs a.k a.rc ops).Equiv b.abs) : ObsEq (run W a ops) b := by
  obtain ⟨e1, g1, _⟩ := T10_history W ops a hga ho
  rw [← e1] at he
  exact T10_obs _ _ g1.1 hb he

/-- … and any further rewriting command treats the two files alike (same `k` and strand mode) -/
theorem T10_history_obs_step (W₁ W₂ W₁' W₂' : Nat) (a b : Arr) (ops₁ ops₂ : List Op) (hga : Good a) (hgb : Good b)
    (ho₁ : ∀ op ∈ ops₁, OpGood op) (ho₂ : ∀ op ∈ ops₂, OpGood op)
    (he : (specRun a.abs a.k a.rc ops₁).Equiv (specRun b.abs b.k b.rc ops₂))
    (hk : a.k = b.k) (hrc : a.rc = b.rc) (op : Op) (hop : OpGood op) :
    OptEquiv ((step W₁' (run W₁ a ops₁) op).map Arr.abs) ((step W₂' (run W₂ b ops₂) op).map Arr.abs) := by
  obtain ⟨e1, g1, k1, r1⟩ := T10_history W₁ ops₁ a hga ho₁
  obtain ⟨e2, g2, k2, r2⟩ := T10_history W₂ ops₂ b hgb ho₂
  rw [← e1, ← e2] at he
  exact T10_obs_step W₁' W₂' _ _ g1 g2 he (by rw [k1, k2, hk]) (by rw [r1, r2, hrc]) op hop

/-- the same list of commands applied to two good files with the same content: same content after -/
theorem T10_run_equiv (W₁ W₂ : Nat) (ops : List Op) (a b : Arr) (hga : Good a) (hgb : Good b)
    (he : a.abs.Equiv b.abs) (hk : a.k = b.k) (hrc : a.rc = b.rc) (ho : ∀ op ∈ ops, OpGood op) :
    (run W₁ a ops).abs.Equiv (run W₂ b ops).abs := by
  induction ops generalizing a b with
  | nil => exact he
  | cons op ops ih =>
    have hop := ho op (List.mem_cons_self ..)
    have hrest : ∀ o ∈ ops, OpGood o := fun o h => ho o (List.mem_cons_of_mem _ h)
    have hs := T10_obs_step W₁ W₂ a b hga hgb he hk hrc op hop
    unfold run
    rcases step_spec W₁ a op hga hop with ⟨x1, _⟩ | ⟨r₁, x1, _, gx, kx, rx⟩ <;>
      rcases step_spec W₂ b op hgb hop with ⟨y1, _⟩ | ⟨r₂, y1, _, gy, ky, ry⟩
    · rw [x1, y1]; exact ih a b hga hgb he hk hrc hrest
    · rw [x1, y1] at hs; exact hs.elim
    · rw [x1, y1] at hs; exact hs.elim
    · rw [x1, y1] at hs
      rw [x1, y1]
      exact ih r₁ r₂ gx gy hs (by rw [kx, ky, hk]) (by rw [rx, ry, hrc]) hrest

/-- the alignment written after a history is a function of the documented table alone -/
theorem T10_history_align (W : Nat) (ops : List Op) (a : Arr) (hg : Good a) (ho : ∀ op ∈ ops, OpGood op)
    (t : Nat) (ft : FilterType) (mask gaps famb : Bool) :
    Modes.align (run W a ops) t ft mask gaps famb
      = (specRun a.abs a.k a.rc ops).names.zipIdx.map (fun ni =>
          (ni.1, ((specRun a.abs a.k a.rc ops).alignColumns t famb (toSite ft) mask gaps).map
            (fun col => col.getD ni.2 GAP))) := by
  obtain ⟨e1, g1, _⟩ := T10_history W ops a hg ho
  rw [← e1]
  exact Props.C06.T06_align (run W a ops) g1.2 t ft mask gaps famb

/-! ## Non-vacuity -/

def exA : Arr := { k := 3, rc := true, names := ["s1", "s2"], kmers := [5, 7, 9], variants := [[65, 67], [45, 71], [84, 84]], counts := [2, 1, 2], kBits := 64 }
def exB : Arr := { k := 3, rc := true, names := ["t1"], kmers := [9, 2, 5], variants := [[65], [67], [71]], counts := [1, 1, 1], kBits := 64 }
/-- shares the sample name `s1` with `exA` and holds an ambiguity code (`R` = 82) -/
def exC : Arr := { k := 3, rc := true, names := ["u1", "s1"], kmers := [1, 2, 7], variants := [[65, 45], [82, 67], [45, 71]], counts := [1, 2, 1], kBits := 64 }
def exK : Arr := { exB with k := 5 }

theorem exA_good : Good exA := ⟨by decide, by unfold Arr.CellsGE; decide⟩
theorem exB_good : Good exB := ⟨by decide, by unfold Arr.CellsGE; decide⟩
theorem exC_good : Good exC := ⟨by decide, by unfold Arr.CellsGE; decide⟩
theorem exK_good : Good exK := ⟨by decide, by unfold Arr.CellsGE; decide⟩

/-- merge (creating a repeated sample name), reload, delete, a refused merge (other k), a refused
delete (unknown name), weed, weed with filters and masking -/
def exOps : List Op := [.merge [exB, exC], .reload, .delete ["s1"], .merge [exK], .delete ["zz"],
  .weed (some [9, 1]) false 0 false .noFilter false false, .weed none false 2 false .noConst true false]

theorem exOps_good : ∀ op ∈ exOps, OpGood op := by
  intro op hop
  simp only [exOps, List.mem_cons, List.not_mem_nil, or_false] at hop
  rcases hop with rfl | rfl | rfl | rfl | rfl | rfl | rfl
  · intro b hb
    simp only [List.mem_cons, List.not_mem_nil, or_false] at hb
    rcases hb with rfl | rfl
    · exact exB_good
    · exact exC_good
  · exact True.intro
  · exact True.intro
  · intro b hb
    simp only [List.mem_cons, List.not_mem_nil, or_false] at hb
    subst hb
    exact exK_good
  · exact True.intro
  · exact True.intro
  · exact True.intro

example : specRun exA.abs exA.k exA.rc exOps
    = { names := ["s2", "t1", "u1", "s1"],
        rows := [(5, [67, 71, 45, 45]), (7, [71, 45, 45, 71]), (2, [45, 67, 78, 67])] } := by decide +kernel

example : (run 64 exA exOps).abs
    = { names := ["s2", "t1", "u1", "s1"],
        rows := [(5, [67, 71, 45, 45]), (7, [71, 45, 45, 71]), (2, [45, 67, 78, 67])] } := by
  rw [(T10_history 64 exOps exA exA_good exOps_good).1]; decide +kernel

/-- a freshly written file with the same content in another row order -/
def exFresh : Arr := { k := 3, rc := true, names := ["s2", "t1", "u1", "s1"], kmers := [2, 5, 7], variants := [[45, 67, 78, 67], [67, 71, 45, 45], [71, 45, 45, 71]], counts := [3, 2, 2], kBits := 64 }

example : ObsEq (run 64 exA exOps) exFresh := by
  apply T10_history_fresh 64 exA exFresh exOps exA_good exOps_good (by decide)
  refine ⟨by decide +kernel, ?_⟩
  have : (specRun exA.abs exA.k exA.rc exOps).rows
      = [(5, [67, 71, 45, 45]), (7, [71, 45, 45, 71]), (2, [45, 67, 78, 67])] := by decide +kernel
  rw [this]
  exact (List.perm_append_comm (l₁ := [((5 : Nat), ([67, 71, 45, 45] : List UInt8)), (7, [71, 45, 45, 71])])
    (l₂ := [(2, [45, 67, 78, 67])]))

end SkaModel.Props.C10
