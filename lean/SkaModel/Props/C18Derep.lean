/-
C18 — "no indel is reported twice": the greedy de-replication of indel groups
(`dereplicate_indels`, model `Skalo.dereplicate`).  For every list of groups and every k:
the kept groups are input groups; a kept group's entry k-mer is never the entry, the exit
or a reverse complement of those of a group kept before it (so a bubble and its
reverse-strand twin, or two groups opening at the same k-mer, are never both reported);
every dropped group is explained by such a clash; the recorded extremities are exactly
those of the kept groups; and the result does not depend on the (hash-map) order in
which the groups arrive.
-/
import SkaModel.Impl.SkaloDerep

namespace SkaModel.Props.C18

open SkaModel SkaModel.Skalo

namespace Derep

/-- invariant of the greedy fold -/
structure Inv (W k : Nat) (seen : List IndelGroup) (st : List IndelGroup × List Nat) : Prop where
  ext : st.2 = st.1.flatMap (extremities W k)
  sub : ∀ g ∈ st.1, g ∈ seen
  pw : st.1.Pairwise (fun a b => b.entry ∉ extremities W k a)
  dropped : ∀ g ∈ seen, g ∉ st.1 → ∃ a ∈ st.1, g.entry ∈ extremities W k a

theorem inv_step {W k : Nat} {seen : List IndelGroup} {st : List IndelGroup × List Nat}
    (h : Inv W k seen st) (g : IndelGroup) : Inv W k (seen ++ [g]) (derepStep W k st g) := by
  unfold derepStep
  by_cases hc : st.2.contains g.entry = true
  · rw [if_pos hc]
    have hm : g.entry ∈ st.1.flatMap (extremities W k) := by
      rw [← h.ext]; simpa using hc
    obtain ⟨a, ha, hga⟩ := List.mem_flatMap.mp hm
    refine ⟨h.ext, ?_, h.pw, ?_⟩
    · intro x hx; exact List.mem_append_left _ (h.sub x hx)
    · intro x hx hnx
      rcases List.mem_append.mp hx with hx | hx
      · exact h.dropped x hx hnx
      · have : x = g := by simpa using hx
        subst this; exact ⟨a, ha, hga⟩
  · rw [if_neg hc]
    have hnm : g.entry ∉ st.1.flatMap (extremities W k) := by
      rw [← h.ext]; simpa using hc
    refine ⟨?_, ?_, ?_, ?_⟩
    · simp [h.ext]
    · intro x hx
      rcases List.mem_append.mp hx with hx | hx
      · exact List.mem_append_left _ (h.sub x hx)
      · exact List.mem_append_right _ hx
    · refine List.pairwise_append.mpr ⟨h.pw, by simp, ?_⟩
      intro a ha b hb
      have : b = g := by simpa using hb
      subst this
      intro hmem
      exact hnm (List.mem_flatMap.mpr ⟨a, ha, hmem⟩)
    · intro x hx hnx
      rcases List.mem_append.mp hx with hx | hx
      · have hnx' : x ∉ st.1 := fun hh => hnx (List.mem_append_left _ hh)
        obtain ⟨a, ha, hxa⟩ := h.dropped x hx hnx'
        exact ⟨a, List.mem_append_left _ ha, hxa⟩
      · have : x = g := by simpa using hx
        subst this
        exact absurd (List.mem_append_right _ (List.mem_singleton.mpr rfl)) hnx

theorem inv_fold {W k : Nat} (l : List IndelGroup) :
    ∀ (seen : List IndelGroup) (st : List IndelGroup × List Nat), Inv W k seen st →
      Inv W k (seen ++ l) (l.foldl (derepStep W k) st) := by
  induction l with
  | nil => intro seen st h; simpa using h
  | cons g l ih =>
    intro seen st h
    have := ih (seen ++ [g]) (derepStep W k st g) (inv_step h g)
    simpa [List.append_assoc] using this

theorem inv_all (W k : Nat) (gs : List IndelGroup) :
    Inv W k (gs.mergeSort derepLe) (dereplicate W k gs) := by
  have h0 : Inv W k [] (([], []) : List IndelGroup × List Nat) :=
    ⟨by simp, by simp, by simp, by simp⟩
  simpa [dereplicate] using inv_fold (W := W) (k := k) (gs.mergeSort derepLe) [] _ h0

theorem derepLe_trans (a b c : IndelGroup) : derepLe a b = true → derepLe b c = true → derepLe a c = true := by
  simp only [derepLe, Bool.or_eq_true, decide_eq_true_eq, Bool.and_eq_true, beq_iff_eq]
  omega

theorem derepLe_total (a b : IndelGroup) : (derepLe a b || derepLe b a) = true := by
  simp only [derepLe, Bool.or_eq_true, decide_eq_true_eq, Bool.and_eq_true, beq_iff_eq]
  omega

theorem derepLe_antisymm (a b : IndelGroup) :
    derepLe a b = true → derepLe b a = true → a = b := by
  cases a; cases b
  simp only [derepLe, Bool.or_eq_true, decide_eq_true_eq, Bool.and_eq_true, beq_iff_eq, IndelGroup.mk.injEq]
  omega

end Derep

/-- **T18_derep** -/
theorem T18_derep (W k : Nat) (gs : List IndelGroup) :
    let r := dereplicate W k gs
    -- kept groups are input groups
    (∀ g ∈ r.1, g ∈ gs) ∧
    -- no indel twice: a kept group never opens at an extremity of a group kept before it
    r.1.Pairwise (fun a b => b.entry ∉ extremities W k a) ∧
    -- in particular two kept groups never share their entry k-mer
    r.1.Pairwise (fun a b => a.entry ≠ b.entry) ∧
    -- every dropped group clashes with a kept one
    (∀ g ∈ gs, g ∉ r.1 → ∃ a ∈ r.1, g.entry ∈ extremities W k a) ∧
    -- the recorded extremities are those of the kept groups
    r.2 = r.1.flatMap (extremities W k) := by
  have h := Derep.inv_all W k gs
  have hp := List.mergeSort_perm gs derepLe
  refine ⟨fun g hg => hp.mem_iff.mp (h.sub g hg), h.pw, ?_, ?_, h.ext⟩
  · refine h.pw.imp ?_
    intro a b hab heq
    exact hab (by simp [extremities, heq])
  · intro g hg hn
    exact h.dropped g (hp.mem_iff.mpr hg) hn

/-- a bubble and its reverse-strand twin (entry = rc exit, exit = rc entry) are never both kept,
whichever comes first -/
theorem T18_derep_twin (W k : Nat) (gs : List IndelGroup) (a b : IndelGroup)
    (ha : a ∈ (dereplicate W k gs).1) (hb : b ∈ (dereplicate W k gs).1) (hne : a ≠ b)
    (h1 : b.entry = revComp W a.exit k) (h2 : a.entry = revComp W b.exit k) : False := by
  have hpw := (T18_derep W k gs).2.1
  have hsym : ∀ x ∈ (dereplicate W k gs).1, ∀ y ∈ (dereplicate W k gs).1, x ≠ y →
      (y.entry ∉ extremities W k x ∨ x.entry ∉ extremities W k y) := by
    intro x hx y hy hxy
    have := List.Pairwise.forall_of_forall_of_flip
      (R := fun x y => x ≠ y → (y.entry ∉ extremities W k x ∨ x.entry ∉ extremities W k y))
      (l := (dereplicate W k gs).1)
      (by intro x _ h; exact absurd rfl h)
      (hpw.imp (by intro x y h _; exact Or.inl h))
      (hpw.imp (by intro x y h _; exact Or.inr h))
    exact this hx hy hxy
  rcases hsym a ha b hb hne with h | h
  · exact h (by simp [extremities, h1])
  · exact h (by simp [extremities, h2])

/-- order independence: any two arrival orders (hash-map iteration orders) of the same groups give
the same kept list and the same extremities -/
theorem T18_derep_order (W k : Nat) (gs gs' : List IndelGroup) (hperm : gs.Perm gs') :
    dereplicate W k gs = dereplicate W k gs' := by
  have hs : gs.mergeSort derepLe = gs'.mergeSort derepLe := by
    apply List.Perm.eq_of_pairwise (le := fun a b => derepLe a b = true)
    · intro a b _ _ hab hba
      exact Derep.derepLe_antisymm a b hab hba
    · exact List.pairwise_mergeSort Derep.derepLe_trans Derep.derepLe_total gs
    · exact List.pairwise_mergeSort Derep.derepLe_trans Derep.derepLe_total gs'
    · exact (List.mergeSort_perm gs derepLe).trans (hperm.trans (List.mergeSort_perm gs' derepLe).symm)
  simp [dereplicate, hs]

/-- non-vacuity: a concrete input on which a group is dropped and two are kept -/
example : (dereplicate 128 5 [⟨30, 40, 11⟩, ⟨10, 20, 12⟩, ⟨10, 50, 13⟩]).1 = [⟨30, 40, 11⟩, ⟨10, 20, 12⟩] := by
  have h1 : ([⟨30, 40, 11⟩, ⟨10, 20, 12⟩, ⟨10, 50, 13⟩] : List IndelGroup).mergeSort derepLe = _ :=
    List.mergeSort_of_pairwise (by decide)
  unfold dereplicate
  rw [h1]
  decide

/-- two groups of equal length opening at the same k-mer: the one with the smaller exit k-mer is kept,
in whichever order they arrive -/
example : (dereplicate 128 5 [⟨10, 40, 12⟩, ⟨10, 20, 12⟩]).1 = [⟨10, 20, 12⟩] := by
  rw [T18_derep_order 128 5 _ [⟨10, 20, 12⟩, ⟨10, 40, 12⟩] (List.Perm.swap _ _ _)]
  have h1 : ([⟨10, 20, 12⟩, ⟨10, 40, 12⟩] : List IndelGroup).mergeSort derepLe = _ :=
    List.mergeSort_of_pairwise (by decide)
  unfold dereplicate
  rw [h1]
  decide

end SkaModel.Props.C18
