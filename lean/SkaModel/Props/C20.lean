/-
C20 — cov tabulates exact k-mer multiplicities and labels the cutoff it defines.
Cutoff rule (`T20_cutoff`, `T20_labels`), histogram (`T20_histogram`), truncation
(`T20_truncate`), exact multiplicities (`T20_count`) and the link of the counted keys to
the window specification (`T20_readKeys`). The gradient identity over ℝ is in `C20Real.lean`.
This file is Mathlib-free.
-/
import SkaModel.Impl.Coverage
import SkaModel.Props.C01Dict

namespace SkaModel.Props.C20

open SkaModel SkaModel.Coverage

/-- scanning from `cutoff` with enough fuel returns the least `c ≥ cutoff` below `maxCutoff`
with a negative root, or `maxCutoff` if there is none (and `cutoff` itself if already at the cap) -/
theorem findCutoffFrom_spec (neg : Nat → Bool) (maxCutoff : Nat) :
    ∀ fuel cutoff, maxCutoff ≤ cutoff + fuel →
      let r := findCutoffFrom neg maxCutoff fuel cutoff
      cutoff ≤ r ∧ (∀ c, cutoff ≤ c → c < r → neg c = false) ∧
      ((r < maxCutoff ∧ neg r = true) ∨ (maxCutoff ≤ r ∧ r = max cutoff maxCutoff)) := by
  intro fuel
  induction fuel with
  | zero =>
    intro cutoff h
    simp only [findCutoffFrom]
    refine ⟨Nat.le_refl _, fun c h1 h2 => absurd h2 (by omega), Or.inr ⟨by omega, by omega⟩⟩
  | succ n ih =>
    intro cutoff h
    simp only [findCutoffFrom]
    by_cases hlt : cutoff < maxCutoff
    · simp only [hlt, ↓reduceIte]
      by_cases hn : neg cutoff = true
      · rw [if_pos hn]
        exact ⟨Nat.le_refl _, fun c h1 h2 => absurd h2 (by omega), Or.inl ⟨hlt, hn⟩⟩
      · rw [if_neg hn]
        have := ih (cutoff + 1) (by omega)
        obtain ⟨h1, h2, h3⟩ := this
        refine ⟨by omega, ?_, ?_⟩
        · intro c hc1 hc2
          by_cases hcc : c = cutoff
          · subst hcc; simpa using hn
          · exact h2 c (by omega) hc2
        · rcases h3 with h3 | h3
          · exact Or.inl h3
          · exact Or.inr ⟨h3.1, by omega⟩
    · simp only [hlt, ↓reduceIte]
      exact ⟨Nat.le_refl _, fun c h1 h2 => absurd h2 (by omega), Or.inr ⟨by omega, by omega⟩⟩

/-- **Cutoff rule.** `find_cutoff` returns the smallest count `c ≥ 1` at which the coverage
component outweighs the error component (`a(c) - b(c) < 0`), capped at the table length. -/
theorem T20_cutoff (neg : Nat → Bool) (maxCutoff : Nat) :
    let r := findCutoff neg maxCutoff
    1 ≤ r ∧ (∀ c, 1 ≤ c → c < r → neg c = false) ∧
    ((r < maxCutoff ∧ neg r = true) ∨ (maxCutoff ≤ r ∧ r = max 1 maxCutoff)) := by
  have := findCutoffFrom_spec neg maxCutoff maxCutoff 1 (by omega)
  simpa [findCutoff] using this

/-- rows below the cutoff are labelled Error, all others Coverage -/
theorem T20_labels (cutoff c : Nat) : isError cutoff c = true ↔ c < cutoff := by
  simp [isError]

example : findCutoff (fun c => decide (c ≥ 7)) 30 = 7 := by decide
example : findCutoff (fun _ => false) 12 = 12 := by decide


/-! ### histogram -/

/-- **Histogram.** The table has exactly 1000 rows and row `c` (1-based, `1 ≤ c ≤ 1000`) is the
number of k-mers with multiplicity exactly `c`; multiplicities above 1000 are not tabulated. -/
theorem T20_histogram (mults : List Nat) :
    (histogram mults).length = 1000 ∧
    ∀ c, 1 ≤ c → c ≤ 1000 →
      (histogram mults)[c - 1]? = some ((mults.filter (· == c)).length) := by
  refine ⟨by simp [histogram, MAX_COUNT], ?_⟩
  intro c h1 h2
  have hlt : c - 1 < 1000 := by omega
  have hc : c - 1 + 1 = c := by omega
  simp [histogram, MAX_COUNT, List.getElem?_map, List.getElem?_range hlt, hc]

/-! ### truncation -/

/-- `counts` = kept prefix ++ dropped tail, the tail being the longest all-`< 50` suffix -/
theorem truncate_split (counts : List Nat) :
    counts = truncate counts ++ (counts.reverse.takeWhile (· < MIN_FREQ)).reverse := by
  unfold truncate
  rw [← List.reverse_append, List.takeWhile_append_dropWhile, List.reverse_reverse]

theorem truncate_dropped (counts : List Nat) :
    ∀ x ∈ counts.drop (truncate counts).length, x < 50 := by
  intro x hx
  have hs := truncate_split counts
  have hd : counts.drop (truncate counts).length
      = (counts.reverse.takeWhile (· < MIN_FREQ)).reverse := by
    conv => lhs; arg 2; rw [hs]
    exact List.drop_left
  rw [hd, List.mem_reverse] at hx
  have hall := List.all_takeWhile (p := (· < MIN_FREQ)) (l := counts.reverse)
  rw [List.all_eq_true] at hall
  exact of_decide_eq_true (hall x hx)

theorem truncate_last (counts : List Nat) (h : truncate counts ≠ []) :
    50 ≤ (truncate counts).getLast h := by
  unfold truncate at h ⊢
  rw [List.getLast_reverse]
  have := List.head_dropWhile_not (· < MIN_FREQ) (l := counts.reverse) (by simpa using h)
  rw [decide_eq_false_iff_not] at this
  simp only [MIN_FREQ] at this ⊢
  omega

/-- **Truncation.** `truncate counts` is a prefix of `counts`; if non-empty it ends in an entry
`≥ 50`; every dropped entry is `< 50`; and its length is the largest `n ≤ counts.length` with
`n = 0 ∨ counts[n-1] ≥ 50` — the table ends at the last multiplicity shared by ≥ 50 k-mers. -/
theorem T20_truncate (counts : List Nat) :
    truncate counts <+: counts
    ∧ (∀ h : truncate counts ≠ [], 50 ≤ (truncate counts).getLast h)
    ∧ (∀ x ∈ counts.drop (truncate counts).length, x < 50)
    ∧ (truncate counts).length ≤ counts.length
    ∧ ((truncate counts).length = 0
        ∨ 50 ≤ counts[(truncate counts).length - 1]?.getD 0)
    ∧ (∀ n, n ≤ counts.length → (n = 0 ∨ 50 ≤ counts[n - 1]?.getD 0) →
        n ≤ (truncate counts).length) := by
  have hpre : truncate counts <+: counts := ⟨_, (truncate_split counts).symm⟩
  have hlen : (truncate counts).length ≤ counts.length := hpre.length_le
  refine ⟨hpre, truncate_last counts, truncate_dropped counts, hlen, ?_, ?_⟩
  · by_cases h0 : (truncate counts).length = 0
    · exact Or.inl h0
    · right
      have hne : truncate counts ≠ [] := by
        intro h; rw [h] at h0; exact h0 rfl
      have hl := truncate_last counts hne
      rw [List.getLast_eq_getElem] at hl
      have hlt : (truncate counts).length - 1 < (truncate counts).length := by omega
      have hlt' : (truncate counts).length - 1 < counts.length := by omega
      rw [List.getElem?_eq_getElem hlt', Option.getD_some, ← hpre.getElem hlt]
      exact hl
  · intro n hn hcond
    rcases hcond with h | h
    · omega
    · apply Classical.byContradiction
      intro hgt
      have hgt : (truncate counts).length < n := by omega
      have hn1 : n - 1 < counts.length := by omega
      have hmem : counts[n - 1] ∈ counts.drop (truncate counts).length := by
        rw [List.mem_drop_iff_getElem]
        refine ⟨n - 1 - (truncate counts).length, by omega, ?_⟩
        congr 1; omega
      have hlt := truncate_dropped counts _ hmem
      rw [List.getElem?_eq_getElem hn1] at h
      simp only [Option.getD_some] at h
      omega

/-! ### counting -/

/-- one step of `kmer_dict`: `*dict.entry(key).or_insert(0) += 1` -/
abbrev bump (d : Std.HashMap Nat Nat) (key : Nat) : Std.HashMap Nat Nat :=
  d.insert key (d.getD key 0 + 1)

/-- counting fold: each key's stored value grows by its number of occurrences in `keys` -/
theorem foldl_bump_getD (keys : List Nat) (d : Std.HashMap Nat Nat) (key : Nat) :
    (keys.foldl bump d).getD key 0 = d.getD key 0 + (keys.filter (· == key)).length := by
  induction keys generalizing d with
  | nil => simp
  | cons x xs ih =>
    rw [List.foldl_cons, ih, List.filter_cons]
    unfold bump
    rw [Std.HashMap.getD_insert]
    by_cases hx : x = key
    · subst hx; simp; omega
    · have : (x == key) = false := by simpa using hx
      simp [this]

/-- counting fold: the key set grows by exactly the keys of `keys` -/
theorem foldl_bump_mem (keys : List Nat) (d : Std.HashMap Nat Nat) (key : Nat) :
    key ∈ keys.foldl bump d ↔ key ∈ d ∨ key ∈ keys := by
  induction keys generalizing d with
  | nil => simp
  | cons x xs ih =>
    rw [List.foldl_cons, ih]
    unfold bump
    rw [Std.HashMap.mem_insert, List.mem_cons]
    simp only [beq_iff_eq]
    constructor
    · rintro ((h | h) | h)
      · exact Or.inr (Or.inl h.symm)
      · exact Or.inl h
      · exact Or.inr (Or.inr h)
    · rintro (h | h | h)
      · exact Or.inl (Or.inr h)
      · exact Or.inl (Or.inl h.symm)
      · exact Or.inr h

/-- `kmer_dict` is one counting fold over all windows of all reads -/
theorem kmerDict_eq (W k : Nat) (rc : Bool) (reads : List (Array UInt8)) :
    kmerDict W k rc reads = (reads.flatMap (readKeys W k rc)).foldl bump {} := by
  unfold kmerDict
  rw [List.foldl_flatMap]

/-- **Exact multiplicities.** The value stored for `key` (0 if absent) is the number of windows,
over all reads of both files, whose split-k-mer key is `key`; and a key is present iff it occurs. -/
theorem T20_count (W k : Nat) (rc : Bool) (reads : List (Array UInt8)) (key : Nat) :
    (kmerDict W k rc reads).getD key 0
        = ((reads.flatMap (readKeys W k rc)).filter (· == key)).length
    ∧ (key ∈ kmerDict W k rc reads ↔ key ∈ reads.flatMap (readKeys W k rc)) := by
  rw [kmerDict_eq]
  constructor
  · rw [foldl_bump_getD]; simp
  · rw [foldl_bump_mem]; simp

/-- **Counted keys = specification windows.** For a supported `k` and width, the keys counted for
a read are the canonical arm keys of the specification's valid windows, in order. -/
theorem T20_readKeys (W k : Nat) (rc : Bool) (hk : Props.C16.ValidK k) (hw : Props.C16.WidthOk W k)
    (r : Array UInt8) :
    readKeys W k rc r = (Spec.windows k r).map (fun j => (Spec.obs k rc r j).1) := by
  have h := Props.C01.T01_iter W k rc hk hw r
  simp only at h
  have h2 := congrArg (List.map (fun t : (Nat × Nat × Bool) × Nat × Bool => t.1.1)) h
  rw [List.map_map, List.map_map] at h2
  exact h2


/-! ### non-vacuity -/

example : truncate [60, 10, 70, 3, 49] = [60, 10, 70] := by decide
example : truncate [1, 2, 3] = [] := by decide
example : (histogram [1, 1, 3, 1001])[0]? = some 2 := by
  rw [(T20_histogram _).2 1 (by omega) (by omega)]; rfl
example : (({} : Std.HashMap Nat Nat) |> [5, 7, 5].foldl bump).getD 5 0 = 2 := by
  rw [foldl_bump_getD]; simp
example : C16.ValidK 31 ∧ C16.WidthOk 64 31 := by
  unfold C16.ValidK C16.WidthOk; omega

end SkaModel.Props.C20
