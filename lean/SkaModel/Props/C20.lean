/-
C20 — cov tabulates exact k-mer multiplicities and labels the cutoff it defines.
First theorems (cutoff rule); counting and the gradient identity are being added.
-/
import SkaModel.Impl.Coverage

namespace SkaModel.Props.C20

open SkaModel SkaModel.Coverage

/-- scanning from `cutoff` with enough fuel returns the least `c ≥ cutoff` below `maxCutoff`
with a negative root, or `maxCutoff` if there is none (and `cutoff` itself if already at the cap) -/
theorem findCutoffFrom_spec (neg : Nat → Bool) (maxCutoff : Nat) :
    ∀ fuel cutoff, maxCutoff ≤ cutoff + fuel →
      let r := findCutoffFrom neg maxCutoff fuel cutoff
      cutoff ≤ r ∧ (∀ c, cutoff ≤ c → c < r → neg c = false) ∧
      ((r < maxCutoff ∧ neg r = true) ∨ (maxCutoff ≤ r ∧ r = max cutoff maxCutoff)) := by
  intro fuel
  induction fuel with
  | zero =>
    intro cutoff h
    simp only [findCutoffFrom]
    refine ⟨Nat.le_refl _, fun c h1 h2 => absurd h2 (by omega), Or.inr ⟨by omega, by omega⟩⟩
  | succ n ih =>
    intro cutoff h
    simp only [findCutoffFrom]
    by_cases hlt : cutoff < maxCutoff
    · simp only [hlt, ↓reduceIte]
      by_cases hn : neg cutoff = true
      · rw [if_pos hn]
        exact ⟨Nat.le_refl _, fun c h1 h2 => absurd h2 (by omega), Or.inl ⟨hlt, hn⟩⟩
      · rw [if_neg hn]
        have := ih (cutoff + 1) (by omega)
        obtain ⟨h1, h2, h3⟩ := this
        refine ⟨by omega, ?_, ?_⟩
        · intro c hc1 hc2
          by_cases hcc : c = cutoff
          · subst hcc; simpa using hn
          · exact h2 c (by omega) hc2
        · rcases h3 with h3 | h3
          · exact Or.inl h3
          · exact Or.inr ⟨h3.1, by omega⟩
    · simp only [hlt, ↓reduceIte]
      exact ⟨Nat.le_refl _, fun c h1 h2 => absurd h2 (by omega), Or.inr ⟨by omega, by omega⟩⟩

/-- **Cutoff rule.** `find_cutoff` returns the smallest count `c ≥ 1` at which the coverage
component outweighs the error component (`a(c) - b(c) < 0`), capped at the table length. -/
theorem T20_cutoff (neg : Nat → Bool) (maxCutoff : Nat) :
    let r := findCutoff neg maxCutoff
    1 ≤ r ∧ (∀ c, 1 ≤ c → c < r → neg c = false) ∧
    ((r < maxCutoff ∧ neg r = true) ∨ (maxCutoff ≤ r ∧ r = max 1 maxCutoff)) := by
  have := findCutoffFrom_spec neg maxCutoff maxCutoff 1 (by omega)
  simpa [findCutoff] using this

/-- rows below the cutoff are labelled Error, all others Coverage -/
theorem T20_labels (cutoff c : Nat) : isError cutoff c = true ↔ c < cutoff := by
  simp [isError]

example : findCutoff (fun c => decide (c ≥ 7)) 30 = 7 := by decide
example : findCutoff (fun _ => false) 12 = 12 := by decide

end SkaModel.Props.C20
