/-
C09 — first theorems; the round-trip / truncation theorems are being added.
-/
import SkaModel.Impl.Skf
import SkaModel.Impl.Frame

namespace SkaModel.Props.C09

open SkaModel

/-- heads are in shortest form: an argument below 24 is a single byte -/
theorem head_small (m n : Nat) (h : n < 24) : Cbor.head m n = [UInt8.ofNat (m * 32 + n)] := by
  simp [Cbor.head, h]

/-- a file whose recorded width differs from the requested one is rejected -/
theorem T09_width_mismatch_example :
    (SkfFile.decode 64 (SkfFile.encode { arr := { k := 35, rc := true, names := [], kmers := [5], variants := [[65]], counts := [1], kBits := 128 }, version := [48] })).isNone = true := by
  decide

end SkaModel.Props.C09
