/-
C09 — the serialised form (`.skf` payload, CBOR) round-trips, and the width
dispatch of `load` selects the width the file was written with.

Proof machinery: SkaModel/Lemmas/CborCore.lean (big-endian bytes, heads),
CborSpec.lean (prefix-safe parsers `CB.Spec`), CborItems.lean (k-mers, sequences,
rows, UTF-8 names), CborSkf.lean (the decoder as a chain of prefix-safe parsers).
-/
import SkaModel.Impl.Skf
import SkaModel.Impl.Frame
import SkaModel.Lemmas.CborSkf

namespace SkaModel.Props.C09

open SkaModel SkaModel.Cbor

/-- heads are in shortest form: an argument below 24 is a single byte -/
theorem head_small (m n : Nat) (h : n < 24) : Cbor.head m n = [UInt8.ofNat (m * 32 + n)] := by
  simp [Cbor.head, h]

/-- a file whose recorded width differs from the requested one is rejected -/
theorem T09_width_mismatch_example :
    (SkfFile.decode 64 (SkfFile.encode { arr := { k := 35, rc := true, names := [], kmers := [5], variants := [[65]], counts := [1], kBits := 128 }, version := [48] })).isNone = true := by
  decide

/-! ## well-formedness of a file written at width `W` -/

/-- `f` is a well-formed file written at integer width `W`: the recorded width is `W ∈ {64,128}`,
every split k-mer fits `W` bits, all lengths/counts fit a CBOR head argument (`< 2^64`), and
`variants` is rectangular with one column per sample.  (Structure `CB.Valid`, fields `kBits width
kmers k counts nNames nKmers nCounts nRows nCells nameLen versionLen rows`.) -/
abbrev SkfFile.Valid (W : Nat) (f : SkfFile) : Prop := CB.Valid W f

/-- all split k-mers of `f` are readable by the deserialiser at width `W'` -/
abbrev SkfFile.Fits (W' : Nat) (f : SkfFile) : Prop := CB.Fits W' f

/-! ## 1. heads and elements -/

theorem T09_head (m n : Nat) (rest : List UInt8) (hm : m < 8) (hn : n < 2 ^ 64) :
    parseHead (head m n ++ rest) = some (m, n, rest) :=
  CB.parseHead_head m n rest hm hn

/-- heads are prefix-free -/
theorem T09_head_prefix (m n : Nat) (q : List UInt8) (hm : m < 8) (hn : n < 2 ^ 64)
    (hq : q <+: head m n) (hne : q ≠ head m n) : parseHead q = none := by
  obtain ⟨t, ht⟩ := hq
  refine CB.parseHead_prefix m n q t hm hn ht ?_
  rintro rfl
  exact hne (by simpa using ht)

theorem T09_uint (n : Nat) (rest : List UInt8) (hn : n < 2 ^ 64) :
    parseUint (uint n ++ rest) = some (n, rest) :=
  (CB.spec_uint hn).full rest

theorem T09_text (s rest : List UInt8) (hs : s.length < 2 ^ 64) :
    parseText (text s ++ rest) = some (s, rest) :=
  (CB.spec_text hs).full rest

theorem T09_bool (b : Bool) (rest : List UInt8) : parseBool (Cbor.bool b ++ rest) = some (b, rest) :=
  (CB.spec_bool b).full rest

theorem T09_kmer128 (x : Nat) (rest : List UInt8) (hx : x < 2 ^ 128) :
    parseKmer 128 (kmer x ++ rest) = some (x, rest) := by
  have := (CB.spec_kmer 128 x hx).full rest
  simpa [CB.kmerRes] using this

theorem T09_kmer64 (x : Nat) (rest : List UInt8) (hx : x < 2 ^ 64) :
    parseKmer 64 (kmer x ++ rest) = some (x, rest) := by
  have := (CB.spec_kmer 64 x (Nat.lt_trans hx (by decide))).full rest
  simpa [CB.kmerRes, hx] using this

/-- "integer too large": a tag-2 k-mer is rejected by the 64-bit deserialiser -/
theorem T09_kmer64_too_large (x : Nat) (rest : List UInt8) (hlo : 2 ^ 64 ≤ x) (hx : x < 2 ^ 128) :
    parseKmer 64 (kmer x ++ rest) = none := by
  have := (CB.spec_kmer 64 x hx).full rest
  have hn : ¬ x < 2 ^ 64 := Nat.not_lt.mpr hlo
  simpa [CB.kmerRes, hn] using this

/-- the names survive `String.toUTF8` / `String.fromUTF8?` (no hypothesis on the names needed) -/
theorem T09_name (s : String) : String.fromUTF8? (ByteArray.mk s.toUTF8.toList.toArray) = some s :=
  CB.fromUTF8_toUTF8 s

/-- `parseMany` over a flattened list of encodings, for any element parser that round-trips -/
theorem T09_parseMany {α : Type} (p : List UInt8 → Option (α × List UInt8)) (e : α → List UInt8)
    (xs : List α) (rest : List UInt8) (h : ∀ x ∈ xs, ∀ r, p (e x ++ r) = some (x, r)) :
    parseMany p xs.length ((xs.map e).flatten ++ rest) = some (xs, rest) := by
  induction xs generalizing rest with
  | nil => rfl
  | cons x xs ih =>
    simp only [List.map_cons, List.flatten_cons, List.length_cons, parseMany, List.append_assoc,
      h x (List.mem_cons_self ..), ih rest (fun y hy => h y (List.mem_cons_of_mem _ hy))]

theorem T09_parseArray {α : Type} (p : List UInt8 → Option (α × List UInt8)) (e : α → List UInt8)
    (xs : List α) (rest : List UInt8) (hl : xs.length < 2 ^ 64)
    (h : ∀ x ∈ xs, ∀ r, p (e x ++ r) = some (x, r)) :
    parseArray p (head 4 xs.length ++ (xs.map e).flatten ++ rest) = some (xs, rest) := by
  simp only [parseArray, List.append_assoc, CB.parseHead_head 4 xs.length _ (by decide) hl]
  exact T09_parseMany p e xs rest h

theorem T09_chunkRows (rows : List (List UInt8)) (c : Nat) (h : ∀ r ∈ rows, r.length = c) :
    chunkRows rows.length c rows.flatten = rows :=
  CB.chunkRows_flatten rows c h

/-! ## the decoder on a well-formed file, at either width -/

open Classical in
/-- Complete description of `decode W'` on (an extension of) the encoding of a file written at
width `W`: it succeeds, returning the file and exactly the unread rest, iff all k-mers are
readable at `W'` and `W' = W`. -/
theorem T09_decode_char {W : Nat} {f : SkfFile} (hv : SkfFile.Valid W f) (W' : Nat) (rest : List UInt8) :
    SkfFile.decode W' (f.encode ++ rest) = if SkfFile.Fits W' f ∧ W' = W then some (f, rest) else none := by
  rw [CB.decode_eq, CB.encode_eq, (CB.decode'_spec hv W').full rest]
  split <;> rfl

theorem fits_self {W : Nat} {f : SkfFile} (hv : SkfFile.Valid W f) : SkfFile.Fits W f := by
  intro x hx
  rcases hv.width with rfl | rfl
  · exact Or.inl (hv.kmers x hx)
  · exact Or.inr rfl

/-! ## 2. round trip -/

/-- saving and reloading preserves k, strand mode, names, every k-mer with its bases, the
counts and the version -/
theorem T09_roundtrip {W : Nat} {f : SkfFile} (hv : SkfFile.Valid W f) (rest : List UInt8) :
    SkfFile.decode W (f.encode ++ rest) = some (f, rest) := by
  rw [T09_decode_char hv W rest, if_pos ⟨fits_self hv, rfl⟩]

theorem T09_roundtrip_nil {W : Nat} {f : SkfFile} (hv : SkfFile.Valid W f) :
    SkfFile.decode W f.encode = some (f, []) := by
  simpa using T09_roundtrip hv []

/-- consequently the encoding is injective on well-formed files -/
theorem T09_encode_injective {W : Nat} {f g : SkfFile} (hf : SkfFile.Valid W f) (hg : SkfFile.Valid W g)
    (h : f.encode = g.encode) : f = g := by
  have h1 : some (g, ([] : List UInt8)) = some (f, []) :=
    (T09_roundtrip_nil hg).symm.trans ((congrArg (SkfFile.decode W) h.symm).trans (T09_roundtrip_nil hf))
  exact (Prod.mk.inj (Option.some.inj h1)).1.symm

/-! ## 3. dispatch -/

/-- a file written at one width is rejected by the deserialiser of the other width — also when
all k-mers of a 128-bit file are below 2^64 (then the `k_bits` check rejects) -/
theorem T09_wrong_width_general {W W' : Nat} {f : SkfFile} (hv : SkfFile.Valid W f) (hne : W' ≠ W)
    (rest : List UInt8) : SkfFile.decode W' (f.encode ++ rest) = none := by
  rw [T09_decode_char hv W' rest, if_neg (fun h => hne h.2)]

theorem T09_wrong_width {f : SkfFile} (hv : SkfFile.Valid 128 f) : SkfFile.decode 64 f.encode = none := by
  simpa using T09_wrong_width_general hv (W' := 64) (by decide) []

theorem T09_wrong_width' {f : SkfFile} (hv : SkfFile.Valid 64 f) : SkfFile.decode 128 f.encode = none := by
  simpa using T09_wrong_width_general hv (W' := 128) (by decide) []

/-- `load (save x)` selects the width `x` was written with -/
theorem T09_dispatch {W : Nat} {f : SkfFile} (hv : SkfFile.Valid W f) : SkfFile.loadAny f.encode = some f := by
  rcases hv.width with rfl | rfl
  · simp [SkfFile.loadAny, T09_roundtrip_nil hv]
  · simp [SkfFile.loadAny, T09_wrong_width hv, T09_roundtrip_nil hv]

/-! ## 4. truncation: proper prefixes of an encoding are rejected -/

/-- definite-length CBOR is prefix-free: no proper prefix of the encoding of a well-formed
file decodes, at any width -/
theorem T09_prefix {W : Nat} {f : SkfFile} (hv : SkfFile.Valid W f) (W' : Nat) (p : List UInt8)
    (hp : p <+: f.encode) (hne : p ≠ f.encode) : SkfFile.decode W' p = none := by
  obtain ⟨t, ht⟩ := hp
  rw [CB.decode_eq]
  refine (CB.decode'_spec hv W').pre p t (by rw [← CB.encode_eq]; exact ht) ?_
  rintro rfl
  exact hne (by simpa using ht)

/-- the same, phrased with truncation to the first `i` bytes -/
theorem T09_truncated {W : Nat} {f : SkfFile} (hv : SkfFile.Valid W f) (W' i : Nat)
    (hi : i < f.encode.length) : SkfFile.decode W' (f.encode.take i) = none := by
  refine T09_prefix hv W' _ (List.take_prefix i _) ?_
  intro h
  have := congrArg List.length h
  rw [List.length_take] at this
  omega

theorem T09_prefix_loadAny {W : Nat} {f : SkfFile} (hv : SkfFile.Valid W f) (p : List UInt8)
    (hp : p <+: f.encode) (hne : p ≠ f.encode) : SkfFile.loadAny p = none := by
  simp [SkfFile.loadAny, T09_prefix hv 64 p hp hne, T09_prefix hv 128 p hp hne]

/-! ## 5. non-vacuity: concrete files at both widths -/

/-- a 64-bit file: 2 samples, 2 rows -/
def ex64 : SkfFile :=
  { arr := { k := 31, rc := true, names := ["s1", "s2"], kmers := [5, 1099511627775],
             variants := [[65, 67], [45, 71]], counts := [2, 1], kBits := 64 }, version := [48, 46, 51] }

/-- a 128-bit file whose k-mers all fit in 64 bits -/
def ex128small : SkfFile := { ex64 with arr := { ex64.arr with k := 63, kBits := 128 } }

/-- a 128-bit file with a k-mer ≥ 2^64 (tag-2 path) -/
def ex128big : SkfFile :=
  { ex64 with arr := { ex64.arr with k := 63, kBits := 128, kmers := [5, 2 ^ 64 + 7] } }

theorem ex64_valid : SkfFile.Valid 64 ex64 := by constructor <;> decide
theorem ex128small_valid : SkfFile.Valid 128 ex128small := by constructor <;> decide
theorem ex128big_valid : SkfFile.Valid 128 ex128big := by constructor <;> decide

-- the theorems apply ...
example : SkfFile.decode 64 ex64.encode = some (ex64, []) := T09_roundtrip_nil ex64_valid
example : SkfFile.loadAny ex128small.encode = some ex128small := T09_dispatch ex128small_valid
example : SkfFile.decode 64 ex128small.encode = none := T09_wrong_width ex128small_valid
example : SkfFile.decode 128 ex64.encode = none := T09_wrong_width' ex64_valid

-- ... and agree with direct evaluation in the kernel
example : kmer (2 ^ 64 + 7) = [0xc2, 0x49, 1, 0, 0, 0, 0, 0, 0, 0, 7] := by decide
example : kmer (2 ^ 64 - 1) = [0x1b, 255, 255, 255, 255, 255, 255, 255, 255] := by decide
example : parseKmer 64 (kmer (2 ^ 64 + 7)) = none := by decide
example : parseKmer 128 (kmer (2 ^ 64 + 7)) = some (2 ^ 64 + 7, []) := by decide
example : ex64.encode.take 12 = [0xa8, 0x61, 0x6b, 0x18, 31, 0x62, 0x72, 0x63, 0xf5, 0x65, 0x6e, 0x61] := by
  decide +kernel
example : SkfFile.loadAny ex64.encode = some ex64 := by decide +kernel
example : SkfFile.loadAny ex128small.encode = some ex128small := by decide +kernel
example : SkfFile.loadAny ex128big.encode = some ex128big := by decide +kernel
/-- all k-mers fit 64 bits, everything parses at 64 bits, the `k_bits` check rejects -/
example : SkfFile.decode 64 ex128small.encode = none := by decide +kernel
example : SkfFile.decode 64 ex128big.encode = none := by decide +kernel
example : SkfFile.decode 128 ex64.encode = none := by decide +kernel
/-- every proper prefix of an encoding is rejected at both widths -/
example : (List.range ex128big.encode.length).all (fun i =>
    (SkfFile.decode 64 (ex128big.encode.take i)).isNone && (SkfFile.decode 128 (ex128big.encode.take i)).isNone) = true := by
  decide +kernel
/-- trailing bytes are returned unread -/
example : SkfFile.decode 128 (ex128big.encode ++ [1, 2, 3]) = some (ex128big, [1, 2, 3]) := by decide +kernel

end SkaModel.Props.C09
