/-
C16 — the rolling split k-mer state machine keeps its packed fields equal to the
packing of the current window, and what it reports is the specification's
observation of that window.
-/
import SkaModel.Props.C16
import SkaModel.Props.C16Bits
import SkaModel.Lemmas.Roll

namespace SkaModel.Props.C16

open SkaModel SkaModel.Spec

/-- codes of the upper / lower arm and the middle base of the window starting at j -/
def armU (c : SKConf) (j : Nat) : List Nat :=
  (List.range (halfK c.k)).map (fun t => code (c.seq.getD (j + t) 0))
def armL (c : SKConf) (j : Nat) : List Nat :=
  (List.range (halfK c.k)).map (fun t => code (c.seq.getD (j + halfK c.k + 1 + t) 0))
def midB (c : SKConf) (j : Nat) : Nat := code (c.seq.getD (j + halfK c.k) 0)

structure FieldsOk (c : SKConf) (s : SKState) (j : Nat) : Prop where
  index : s.index = j + c.k - 1
  upper : s.upper = Spec.packL (armU c j) * 4 ^ halfK c.k
  lower : s.lower = Spec.packL (armL c j)
  mid   : s.mid = midB c j
  rcU   : c.rc = true → s.rcUpper = Spec.packL (Spec.rcCodes (armL c j)) * 4 ^ halfK c.k
  rcL   : c.rc = true → s.rcLower = Spec.packL (Spec.rcCodes (armU c j))
  rcM   : c.rc = true → s.rcMid = midB c j ^^^ 2

theorem armU_eq (c : SKConf) (j : Nat) : armU c j = codesAt c.seq j (halfK c.k) := rfl
theorem armL_eq (c : SKConf) (j : Nat) :
    armL c j = codesAt c.seq (j + halfK c.k + 1) (halfK c.k) := rfl

/-- the accumulators of `build`'s inner loop hold the partial packing of
positions `idx .. idx + i - 1` of a window starting at `idx` -/
structure BuildInv (c : SKConf) (idx i u l m : Nat) : Prop where
  le : i ≤ c.k
  upper : u = packL (codesAt c.seq idx (min i (halfK c.k))) * 4 ^ halfK c.k
  lower : l = packL (codesAt c.seq (idx + halfK c.k + 1) (i - (halfK c.k + 1)))
  mid : halfK c.k < i → m = code (c.seq.getD (idx + halfK c.k) 0)

theorem BuildInv.zero (c : SKConf) (idx : Nat) : BuildInv c idx 0 0 0 0 := by
  refine ⟨Nat.zero_le _, ?_, ?_, fun h => absurd h (Nat.not_lt_zero _)⟩
  · simp [codesAt_zero, packL]
  · simp [codesAt_zero, packL]

theorem midIdx_eq {c : SKConf} (hkh : c.k = 2 * halfK c.k + 1) : c.midIdx = halfK c.k := by
  unfold SKConf.midIdx; omega

theorem buildLoop_spec (c : SKConf) (hk : ValidK c.k) (hw : WidthOk c.W c.k)
    (idx i u l m : Nat) (hinv : BuildInv c idx i u l m)
    (r : Nat × Nat × Nat × Nat) (hr : c.buildLoop idx i u l m = some r) :
    r.2.1 = packL (armU c r.1) * 4 ^ halfK c.k ∧ r.2.2.1 = packL (armL c r.1) ∧
      r.2.2.2 = midB c r.1 ∧ (idx + c.k ≤ c.seqLen → r.1 + c.k ≤ c.seqLen) := by
  obtain ⟨hh2, hkh, hkW⟩ := validK_bounds hk hw
  have hmid := midIdx_eq hkh
  fun_induction SKConf.buildLoop c idx i u l m
  case case1 idx i u l m hik hok nb hgt ih =>
    rw [hmid] at hgt
    refine ih ⟨by omega, ?_, ?_, fun _ => hinv.mid hgt⟩ hr
    · rw [hinv.upper, Nat.min_eq_right (by omega), Nat.min_eq_right (by omega)]
    · have hl := hinv.lower
      have hlt : l < 4 ^ (i - (halfK c.k + 1)) := by
        rw [hl]
        have := packL_lt (codesAt_codes c.seq (idx + halfK c.k + 1) (i - (halfK c.k + 1)))
        rwa [codesAt_length] at this
      rw [shl_two hlt (by omega), or_code (code_lt _), hl, ← packL_snoc]
      have e : i + 1 - (halfK c.k + 1) = (i - (halfK c.k + 1)) + 1 := by omega
      rw [e, codesAt_succ_snoc]
      have e2 : idx + halfK c.k + 1 + (i - (halfK c.k + 1)) = idx + i := by omega
      rw [e2]
  case case2 idx i u l m hik hok nb hngt hlt ih =>
    rw [hmid] at hlt
    refine ih ⟨by omega, ?_, ?_, fun h => by omega⟩ hr
    · have hu := hinv.upper
      rw [Nat.min_eq_left (by omega)] at hu
      rw [Nat.min_eq_left (by omega), hmid]
      have hp : packL (codesAt c.seq idx i) < 4 ^ i := by
        have := packL_lt (codesAt_codes c.seq idx i)
        rwa [codesAt_length] at this
      have hult : u < 4 ^ (i + halfK c.k) := by
        rw [hu, Nat.pow_add]
        exact Nat.mul_lt_mul_of_pos_right hp (Nat.pow_pos (by omega))
      rw [shl_two hult (by omega), shl_four_pow (m := 1) (code_lt _) (by omega), hu,
        ← Nat.mul_assoc, or_mul_four_pow, or_code (code_lt _), ← packL_snoc, codesAt_succ_snoc]
    · rw [hinv.lower]
      have e : i + 1 - (halfK c.k + 1) = i - (halfK c.k + 1) := by omega
      rw [e]
  case case3 idx i u l m hik hok nb hngt hnlt ih =>
    rw [hmid] at hngt hnlt
    have hi : i = halfK c.k := by omega
    refine ih ⟨by omega, ?_, ?_, fun _ => by show code _ = _; rw [hi]⟩ hr
    · rw [hinv.upper, hi, Nat.min_self, Nat.min_eq_right (by omega)]
    · rw [hinv.lower, hi]
      have e : halfK c.k + 1 - (halfK c.k + 1) = halfK c.k - (halfK c.k + 1) := by omega
      rw [e]
  case case4 => cases hr
  case case5 idx i u l m hik hok hnot ih =>
    obtain ⟨h1, h2, h3, h4⟩ := ih (BuildInv.zero c _) hr
    exact ⟨h1, h2, h3, fun _ => h4 (by omega)⟩
  case case6 idx i u l m hik =>
    cases hr
    have hi : i = 2 * halfK c.k + 1 := by have := hinv.le; omega
    refine ⟨?_, ?_, ?_, fun hfit => hfit⟩
    · show u = _
      rw [hinv.upper, hi, Nat.min_eq_right (by omega)]; rfl
    · show l = _
      rw [hinv.lower, hi, show 2 * halfK c.k + 1 - (halfK c.k + 1) = halfK c.k by omega]; rfl
    · show m = _
      exact hinv.mid (by omega)

/-- the inner loop of `build` returns the packed arms and the middle base of the
window it completed -/
theorem buildLoop_fields (c : SKConf) (hk : ValidK c.k) (hw : WidthOk c.W c.k)
    (idx i u l m st u' l' m' : Nat) (hinv : BuildInv c idx i u l m)
    (h : c.buildLoop idx i u l m = some (st, u', l', m')) :
    u' = packL (armU c st) * 4 ^ halfK c.k ∧ l' = packL (armL c st) ∧ m' = midB c st := by
  obtain ⟨h1, h2, h3, _⟩ := buildLoop_spec c hk hw idx i u l m hinv _ h
  exact ⟨h1, h2, h3⟩

theorem build_spec (c : SKConf) (hk : ValidK c.k) (hw : WidthOk c.W c.k) (idx : Nat) (b : Bool)
    (index u l m : Nat) (hg : Option NtHash)
    (h : c.build idx b = some (index, u, l, m, hg)) :
    ∃ st, index = st + c.k - 1 ∧ st + c.k ≤ c.seqLen ∧
      u = packL (armU c st) * 4 ^ halfK c.k ∧ l = packL (armL c st) ∧ m = midB c st := by
  unfold SKConf.build at h
  split at h
  · cases h
  · rename_i hfit
    split at h
    · cases h
    · rename_i st u' l' m' hloop
      simp only [Option.some.injEq, Prod.mk.injEq] at h
      obtain ⟨rfl, rfl, rfl, rfl, _⟩ := h
      obtain ⟨h1, h2, h3, h4⟩ := buildLoop_spec c hk hw idx 0 0 0 0 (BuildInv.zero c idx) _ hloop
      exact ⟨st, rfl, h4 (by omega), h1, h2, h3⟩

theorem armU_length (c : SKConf) (j : Nat) : (armU c j).length = halfK c.k := codesAt_length _ _ _
theorem armL_length (c : SKConf) (j : Nat) : (armL c j).length = halfK c.k := codesAt_length _ _ _
theorem armU_codes (c : SKConf) (j : Nat) : Codes (armU c j) := codesAt_codes _ _ _
theorem armL_codes (c : SKConf) (j : Nat) : Codes (armL c j) := codesAt_codes _ _ _
theorem midB_lt (c : SKConf) (j : Nat) : midB c j < 4 := code_lt _

theorem widthOk_cases {W k : Nat} (hw : WidthOk W k) : W = 64 ∨ W = 128 := by
  rcases hw with ⟨h, _⟩ | h
  · exact Or.inl h
  · exact Or.inr h

/-- a freshly built state (with `update_rc` applied when both strands are in use)
has all its fields right -/
theorem finish_fields (c : SKConf) (hk : ValidK c.k) (hw : WidthOk c.W c.k) (s : SKState)
    (st : Nat) (hidx : s.index = st + c.k - 1)
    (hu : s.upper = packL (armU c st) * 4 ^ halfK c.k) (hl : s.lower = packL (armL c st))
    (hm : s.mid = midB c st) :
    FieldsOk c (if c.rc then c.updateRc s else s) st := by
  obtain ⟨hh2, hkh, hkW⟩ := validK_bounds hk hw
  obtain ⟨hlo, hup⟩ := T16_masks c.W c.k hk hw
  have hW := widthOk_cases hw
  by_cases hrc : c.rc = true
  · rw [if_pos hrc]
    have hk1 : c.k - 1 = 2 * halfK c.k := by omega
    have hhW : 2 * halfK c.k ≤ c.W / 2 := by omega
    refine ⟨hidx, hu, hl, hm, fun _ => ?_, fun _ => ?_, fun _ => ?_⟩
    · show revComp c.W s.lower (c.k - 1) &&& upperMask c.W c.k = _
      rw [hup, hk1, hl]
      exact updateRc_upper c.W _ hW _ (armL_codes c st) (armL_length c st) hhW
    · show revComp c.W s.upper (c.k - 1) &&& lowerMask c.W c.k = _
      rw [hlo, hk1, hu]
      exact updateRc_lower c.W _ hW _ (armU_codes c st) (armU_length c st) hhW
    · show rcBase s.mid = _
      rw [hm]; rfl
  · rw [if_neg hrc]
    exact ⟨hidx, hu, hl, hm, fun h => absurd h hrc, fun h => absurd h hrc, fun h => absurd h hrc⟩

/-- `SplitKmer::new`: the first state, plus the facts that its window fits -/
theorem new_spec (c : SKConf) (hk : ValidK c.k) (hw : WidthOk c.W c.k) (s : SKState)
    (h : c.new = some s) :
    FieldsOk c s (s.index + 1 - c.k) ∧ c.k ≤ s.index + 1 ∧ s.index < c.seqLen := by
  obtain ⟨hh2, hkh, hkW⟩ := validK_bounds hk hw
  unfold SKConf.new at h
  split at h
  · cases h
  · rename_i index u l m hg hb
    obtain ⟨st, hi, hfit, h1, h2, h3⟩ := build_spec c hk hw 0 _ index u l m hg hb
    simp only [Option.some.injEq] at h
    have hf := finish_fields c hk hw
      { index := index, upper := u, lower := l, mid := m, hash := hg } st hi h1 h2 h3
    rw [h] at hf
    have hsi : s.index = st + c.k - 1 := hf.index
    have e : s.index + 1 - c.k = st := by omega
    rw [e]
    exact ⟨hf, by omega, by omega⟩

theorem new_fields (c : SKConf) (hk : ValidK c.k) (hw : WidthOk c.W c.k) (s : SKState)
    (h : c.new = some s) : FieldsOk c s (s.index + 1 - c.k) :=
  (new_spec c hk hw s h).1

/-! ### how the arms of consecutive windows overlap -/

theorem armU_cons (c : SKConf) (j : Nat) (hh : 1 ≤ halfK c.k) :
    armU c j = code (c.seq.getD j 0) :: codesAt c.seq (j + 1) (halfK c.k - 1) := by
  rw [armU_eq, ← codesAt_succ_cons, Nat.sub_add_cancel hh]

theorem armU_succ (c : SKConf) (j : Nat) (hh : 1 ≤ halfK c.k) :
    armU c (j + 1) = codesAt c.seq (j + 1) (halfK c.k - 1) ++ [midB c j] := by
  unfold midB
  rw [armU_eq, show j + halfK c.k = j + 1 + (halfK c.k - 1) by omega, ← codesAt_succ_snoc,
    Nat.sub_add_cancel hh]

theorem armL_cons (c : SKConf) (j : Nat) (hh : 1 ≤ halfK c.k) :
    armL c j = midB c (j + 1) :: codesAt c.seq (j + halfK c.k + 2) (halfK c.k - 1) := by
  unfold midB
  rw [armL_eq, show j + 1 + halfK c.k = j + halfK c.k + 1 by omega,
    show j + halfK c.k + 2 = j + halfK c.k + 1 + 1 by omega, ← codesAt_succ_cons,
    Nat.sub_add_cancel hh]

theorem armL_succ (c : SKConf) (j : Nat) (hh : 1 ≤ halfK c.k) (hkh : c.k = 2 * halfK c.k + 1) :
    armL c (j + 1)
      = codesAt c.seq (j + halfK c.k + 2) (halfK c.k - 1) ++ [code (c.seq.getD (j + c.k) 0)] := by
  rw [armL_eq, show j + c.k = j + halfK c.k + 2 + (halfK c.k - 1) by omega, ← codesAt_succ_snoc,
    Nat.sub_add_cancel hh, show j + 1 + halfK c.k + 1 = j + halfK c.k + 2 by omega]

/-- one `roll_fwd` step -/
theorem rollFwd_spec (c : SKConf) (hk : ValidK c.k) (hw : WidthOk c.W c.k) (s s' : SKState)
    (j : Nat) (hf : FieldsOk c s j) (h : c.rollFwd s = some s') :
    FieldsOk c s' (s'.index + 1 - c.k) ∧ c.k ≤ s'.index + 1 ∧ s'.index < c.seqLen ∧
      (c.okAt (s.index + 1) = true → s'.index = s.index + 1) := by
  obtain ⟨hh2, hkh, hkW⟩ := validK_bounds hk hw
  obtain ⟨hlo, hup⟩ := T16_masks c.W c.k hk hw
  have hh1 : 1 ≤ halfK c.k := by omega
  have hidx := hf.index
  unfold SKConf.rollFwd at h
  simp only at h
  split at h
  · cases h
  · rename_i hlt
    split at h
    · -- restart after an unacceptable base
      rename_i hnok
      split at h
      · cases h
      · rename_i index u l m hg hb
        obtain ⟨st, hi, hfit', h1, h2, h3⟩ := build_spec c hk hw _ _ index u l m hg hb
        simp only [Option.some.injEq] at h
        have hf' := finish_fields c hk hw
          { s with index := index, upper := u, lower := l, mid := m, hash := hg } st hi h1 h2 h3
        rw [h] at hf'
        have hsi : s'.index = st + c.k - 1 := hf'.index
        have e : s'.index + 1 - c.k = st := by omega
        rw [e]
        refine ⟨hf', by omega, by omega, fun hok => ?_⟩
        rw [hok] at hnok; cases hnok
    · -- ordinary step: the window moves by one base
      have hA' : Codes (codesAt c.seq (j + 1) (halfK c.k - 1)) := codesAt_codes _ _ _
      have hA'l : (codesAt c.seq (j + 1) (halfK c.k - 1)).length + 1 = halfK c.k := by
        rw [codesAt_length]; omega
      have hL' : Codes (codesAt c.seq (j + halfK c.k + 2) (halfK c.k - 1)) := codesAt_codes _ _ _
      have hL'l : (codesAt c.seq (j + halfK c.k + 2) (halfK c.k - 1)).length + 1 = halfK c.k := by
        rw [codesAt_length]; omega
      have hnew : s.index + 1 = j + c.k := by omega
      have hupper : (shl c.W s.upper 2 ||| shl c.W s.mid (halfK c.k * 2)) &&& upperMask c.W c.k
          = packL (armU c (j + 1)) * 4 ^ halfK c.k := by
        rw [hup, hf.upper, hf.mid, armU_cons c j hh1, armU_succ c j hh1]
        exact roll_upper c.W _ _ _ _ (code_lt _) hA' (midB_lt c j) hA'l (by omega)
      have hmid : (s.lower >>> (2 * (halfK c.k - 1))) % 256 = midB c (j + 1) := by
        rw [hf.lower, armL_cons c j hh1]
        exact roll_mid _ _ _ (midB_lt c _) hL' hL'l
      have hlower : (shl c.W s.lower 2 ||| code (c.seq.getD (s.index + 1) 0)) &&& lowerMask c.W c.k
          = packL (armL c (j + 1)) := by
        rw [hlo, hf.lower, hnew, armL_cons c j hh1, armL_succ c j hh1 hkh]
        exact roll_lower c.W _ _ _ _ (midB_lt c _) hL' (code_lt _) hL'l (by omega)
      by_cases hrc : c.rc = true
      · rw [if_pos hrc] at h
        simp only [Option.some.injEq] at h
        subst h
        have e : s.index + 1 + 1 - c.k = j + 1 := by omega
        refine ⟨?_, by show c.k ≤ s.index + 1 + 1; omega, by show s.index + 1 < c.seqLen; omega,
          fun _ => rfl⟩
        show FieldsOk c _ (s.index + 1 + 1 - c.k)
        rw [e]
        refine ⟨by show s.index + 1 = _; omega, hupper, hlower, hmid, fun _ => ?_, fun _ => ?_,
          fun _ => ?_⟩
        · show ((s.rcUpper >>> 2) ||| shl c.W (rcBase (code (c.seq.getD (s.index + 1) 0)))
            (2 * (halfK c.k * 2 - 1))) &&& upperMask c.W c.k = _
          rw [hup, hf.rcU hrc, hnew, armL_cons c j hh1, armL_succ c j hh1 hkh]
          exact roll_rcUpper c.W _ _ _ _ (midB_lt c _) hL' (code_lt _) hL'l (by omega)
        · show ((s.rcLower >>> 2) ||| shl c.W s.rcMid (2 * (halfK c.k - 1))) &&& lowerMask c.W c.k
            = _
          rw [hlo, hf.rcL hrc, hf.rcM hrc, armU_cons c j hh1, armU_succ c j hh1]
          exact roll_rcLower c.W _ _ _ _ (code_lt _) hA' (midB_lt c j) hA'l (by omega)
        · show rcBase ((s.lower >>> (2 * (halfK c.k - 1))) % 256) = _
          rw [hmid]; rfl
      · rw [if_neg hrc] at h
        simp only [Option.some.injEq] at h
        subst h
        have e : s.index + 1 + 1 - c.k = j + 1 := by omega
        refine ⟨?_, by show c.k ≤ s.index + 1 + 1; omega, by show s.index + 1 < c.seqLen; omega,
          fun _ => rfl⟩
        show FieldsOk c _ (s.index + 1 + 1 - c.k)
        rw [e]
        exact ⟨by show s.index + 1 = _; omega, hupper, hlower, hmid, fun h => absurd h hrc,
          fun h => absurd h hrc, fun h => absurd h hrc⟩

theorem rollFwd_fields (c : SKConf) (hk : ValidK c.k) (hw : WidthOk c.W c.k) (s s' : SKState)
    (j : Nat) (hf : FieldsOk c s j) (_hfit : j + c.k ≤ c.seqLen) (h : c.rollFwd s = some s') :
    FieldsOk c s' (s'.index + 1 - c.k) :=
  (rollFwd_spec c hk hw s s' j hf h).1

/-- in the ordinary (non-restart) branch the window moves by exactly one base -/
theorem rollFwd_index (c : SKConf) (hk : ValidK c.k) (hw : WidthOk c.W c.k) (s s' : SKState)
    (j : Nat) (hf : FieldsOk c s j) (h : c.rollFwd s = some s')
    (hok : c.okAt (s.index + 1) = true) : s'.index = s.index + 1 ∧ s'.index + 1 - c.k = j + 1 := by
  have h1 := (rollFwd_spec c hk hw s s' j hf h).2.2.2 hok
  have h2 := hf.index
  obtain ⟨_, hkh, _⟩ := validK_bounds hk hw
  exact ⟨h1, by omega⟩

/-- every state produced by `roll_fwd` still has a window inside the record -/
theorem rollFwd_fits (c : SKConf) (hk : ValidK c.k) (hw : WidthOk c.W c.k) (s s' : SKState)
    (j : Nat) (hf : FieldsOk c s j) (h : c.rollFwd s = some s') :
    c.k ≤ s'.index + 1 ∧ s'.index < c.seqLen :=
  ⟨(rollFwd_spec c hk hw s s' j hf h).2.1, (rollFwd_spec c hk hw s s' j hf h).2.2.1⟩

theorem statesFrom_fields (c : SKConf) (hk : ValidK c.k) (hw : WidthOk c.W c.k) (fuel : Nat)
    (s : SKState) (hf : FieldsOk c s (s.index + 1 - c.k) ∧ c.k ≤ s.index + 1 ∧ s.index < c.seqLen) :
    ∀ t ∈ c.statesFrom fuel s,
      FieldsOk c t (t.index + 1 - c.k) ∧ c.k ≤ t.index + 1 ∧ t.index < c.seqLen := by
  induction fuel generalizing s with
  | zero =>
    intro t ht
    unfold SKConf.statesFrom at ht
    rw [List.mem_singleton] at ht
    rw [ht]; exact hf
  | succ fuel ih =>
    intro t ht
    unfold SKConf.statesFrom at ht
    split at ht
    · rw [List.mem_singleton] at ht
      rw [ht]; exact hf
    · rename_i s' hroll
      rcases List.mem_cons.mp ht with rfl | ht
      · exact hf
      · have hs := rollFwd_spec c hk hw s s' _ hf.1 hroll
        exact ih s' ⟨hs.1, hs.2.1, hs.2.2.1⟩ t ht

/-- every state the iterator goes through holds the packing of its own window,
and that window lies inside the record -/
theorem T16_roll_fits (c : SKConf) (hk : ValidK c.k) (hw : WidthOk c.W c.k) :
    ∀ s ∈ c.states,
      FieldsOk c s (s.index + 1 - c.k) ∧ c.k ≤ s.index + 1 ∧ s.index < c.seqLen := by
  intro s hs
  unfold SKConf.states at hs
  split at hs
  · cases hs
  · rename_i s0 hnew
    exact statesFrom_fields c hk hw _ s0 (new_spec c hk hw s0 hnew) s hs

theorem T16_roll (c : SKConf) (hk : ValidK c.k) (hw : WidthOk c.W c.k) :
    ∀ s ∈ c.states, FieldsOk c s (s.index + 1 - c.k) :=
  fun s hs => (T16_roll_fits c hk hw s hs).1

/-! ### what a state reports -/

theorem armsAt_eq (c : SKConf) (j : Nat) : armsAt c.k c.seq j = armU c j ++ armL c j := rfl

theorem midAt_eq (c : SKConf) (j : Nat) : midAt c.k c.seq j = midB c j := rfl

theorem pack_pair_inj {a a' b b' P : Nat} (hb : b < P) (hb' : b' < P) :
    (a * P + b = a' * P + b') ↔ (a * P = a' * P ∧ b = b') := by
  constructor
  · intro h
    have h1 : (a * P + b) / P = (a' * P + b') / P := by rw [h]
    have hP : 0 < P := by omega
    rw [Nat.mul_comm a, Nat.mul_comm a', Nat.mul_add_div hP, Nat.mul_add_div hP,
      Nat.div_eq_of_lt hb, Nat.div_eq_of_lt hb'] at h1
    have : a = a' := by omega
    subst this
    exact ⟨rfl, by omega⟩
  · rintro ⟨h1, h2⟩; rw [h1, h2]

/-- what a state with the right fields reports is the specification's observation
of its window (only `k` odd is needed here) -/
theorem currKmer_obs_of_odd (c : SKConf) (s : SKState) (j : Nat)
    (hkh : c.k = 2 * halfK c.k + 1) (hf : FieldsOk c s j) :
    c.currKmer s = Spec.obs c.k c.rc c.seq j ∧
    c.selfPalindrome s = Spec.isPalin c.k c.rc c.seq j ∧
    c.middlePos s = j + halfK c.k := by
  have hsk : s.upper ||| s.lower = packL (armsAt c.k c.seq j) := by
    rw [hf.upper, hf.lower, armsAt_eq, packL_append, armL_length]
    refine mul_four_pow_or ?_
    have := packL_lt (armL_codes c j); rwa [armL_length] at this
  have hrUlt : packL (rcCodes (armU c j)) < 4 ^ halfK c.k := by
    have := packL_lt (rcCodes_codes (armU_codes c j))
    rwa [rcCodes_length, armU_length] at this
  have hLlt : packL (armL c j) < 4 ^ halfK c.k := by
    have := packL_lt (armL_codes c j); rwa [armL_length] at this
  have hrsk : c.rc = true → s.rcUpper ||| s.rcLower = packL (rcCodes (armsAt c.k c.seq j)) := by
    intro hrc
    rw [hf.rcU hrc, hf.rcL hrc, armsAt_eq, rcCodes_append, packL_append, rcCodes_length,
      armU_length]
    exact mul_four_pow_or hrUlt
  refine ⟨?_, ?_, ?_⟩
  · unfold SKConf.currKmer Spec.obs
    simp only
    rw [hsk, midAt_eq]
    by_cases hrc : c.rc = true
    · rw [if_pos hrc, hrsk hrc, hf.rcM hrc, hf.mid, hrc, Bool.true_and]
      by_cases hgt : packL (armsAt c.k c.seq j) > packL (rcCodes (armsAt c.k c.seq j))
      · rw [if_pos hgt, if_pos (by simpa using hgt)]
      · rw [if_neg hgt, if_neg (by simpa using hgt)]
    · have hrc' : c.rc = false := by simpa using hrc
      rw [if_neg hrc, hrc', hf.mid]
      simp
  · unfold SKConf.selfPalindrome Spec.isPalin
    simp only
    by_cases hrc : c.rc = true
    · rw [hrc, Bool.true_and, Bool.true_and, hf.upper, hf.lower, hf.rcU hrc, hf.rcL hrc, armsAt_eq,
        rcCodes_append, packL_append, packL_append, rcCodes_length, armU_length, armL_length]
      rw [Bool.eq_iff_iff]
      simp only [Bool.and_eq_true, beq_iff_eq]
      exact (pack_pair_inj hLlt hrUlt).symm
    · have hrc' : c.rc = false := by simpa using hrc
      rw [hrc']; simp
  · unfold SKConf.middlePos
    rw [midIdx_eq hkh, hf.index]
    omega

theorem currKmer_obs (c : SKConf) (hk : ValidK c.k) (hw : WidthOk c.W c.k) (s : SKState) (j : Nat)
    (hf : FieldsOk c s j) :
    c.currKmer s = Spec.obs c.k c.rc c.seq j ∧
    c.selfPalindrome s = Spec.isPalin c.k c.rc c.seq j ∧
    c.middlePos s = j + halfK c.k :=
  currKmer_obs_of_odd c s j (validK_bounds hk hw).2.1 hf

/-- every state of the iterator reports the specification's observation of the
window ending at its `index` -/
theorem T16_states_obs (c : SKConf) (hk : ValidK c.k) (hw : WidthOk c.W c.k) :
    ∀ s ∈ c.states,
      c.currKmer s = Spec.obs c.k c.rc c.seq (s.index + 1 - c.k) ∧
      c.selfPalindrome s = Spec.isPalin c.k c.rc c.seq (s.index + 1 - c.k) ∧
      c.middlePos s = s.index + 1 - c.k + halfK c.k :=
  fun s hs => currKmer_obs c hk hw s _ (T16_roll c hk hw s hs)

end SkaModel.Props.C16
