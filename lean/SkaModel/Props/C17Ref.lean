/-
C17 / C11 on the model of `ska lo -r` (`SkaModel/Impl/SkaloRef.lean`); proofs in
`SkaModel/Lemmas/LORef.lean`.

* `T17_mfp_some`, `T17_mfp_none_iff`, `T17_mfp_order`, `T17_fewer_than_ten_votes` — specification of
  `most_frequent_position`: the unique most frequent value with at least 10 votes, else `(0, 0)`;
  it does not depend on the order of the votes.
* `T17_scan_found`, `T17_scan_not_found`, `T17_scan_none_iff` — decision logic of `scan_variants`.
* `T17_ref_columns_wf`, `T17_groupSnpsPos_groupSnps` — the (position, column) pairs `analyseRef`
  reports: well-formed columns, pairwise distinct positions below 2^32.
* `T17_analyseRef_order` — `analyseRef` does not depend on the iteration order of the group maps (C11).
* `T17_genomicKmers`, `T17_genomicKmers_none`, `T17_genomicKmers_keys` — the k-mer map of the
  reference: the first (up to three) end positions of the N-free occurrences of each k-mer.
-/
import SkaModel.Lemmas.LORef
import SkaModel.Props.C17Pipe

namespace SkaModel.Props.C17R

open SkaModel SkaModel.Skalo

/-! ### 1. `most_frequent_position` -/

/-- the count the code computes is `List.count` -/
theorem T17_mfp_count (xs : List Nat) (v : Nat) : (xs.filter (· == v)).length = xs.count v :=
  List.count_eq_length_filter.symm

/-- **T17_mfp_some**: a reported winner `p` with count `c ≠ 0` is a vote, `c` is its number of
votes, at least 10, and every other value has strictly fewer votes -/
theorem T17_mfp_some (xs : List Nat) (p c : Nat) (h : mostFrequentPosition xs = (p, c)) (hc : c ≠ 0) :
    p ∈ xs ∧ c = xs.count p ∧ 10 ≤ c ∧ ∀ q ∈ xs, q ≠ p → xs.count q < c :=
  LOR.mfp_some_spec xs p c h hc

/-- **T17_mfp_none_iff**: no winner exactly when there are no votes, or no value has 10 votes, or
two different values share the largest count -/
theorem T17_mfp_none_iff (xs : List Nat) :
    (mostFrequentPosition xs).2 = 0 ↔
      (xs = [] ∨ (∀ v ∈ xs, xs.count v < 10) ∨
        ∃ a ∈ xs, ∃ b ∈ xs, a ≠ b ∧ xs.count a = xs.count b ∧ ∀ v ∈ xs, xs.count v ≤ xs.count a) :=
  LOR.mfp_none_iff xs

/-- without a winner the result is `(0, 0)` -/
theorem T17_mfp_none (xs : List Nat) (h : (mostFrequentPosition xs).2 = 0) :
    mostFrequentPosition xs = (0, 0) :=
  LOR.mfp_snd_zero xs h

/-- converse of `T17_mfp_some`: a value with at least 10 votes and strictly more than any other is
reported with its count -/
theorem T17_mfp_complete (xs : List Nat) (p : Nat) (hp : 10 ≤ xs.count p)
    (hmax : ∀ q ∈ xs, q ≠ p → xs.count q < xs.count p) :
    mostFrequentPosition xs = (p, xs.count p) :=
  LOR.mfp_complete xs p hp hmax

/-- **T17_mfp_order**: the result does not depend on the order of the votes (the order of the
distinct values `eraseDups` yields does, the result does not) -/
theorem T17_mfp_order (xs ys : List Nat) (hp : xs.Perm ys) :
    mostFrequentPosition xs = mostFrequentPosition ys :=
  LOR.mfp_perm xs ys hp

/-- **T17_fewer_than_ten_votes** (known behaviour of the tool): fewer than 10 votes never position
a group -/
theorem T17_fewer_than_ten_votes (xs : List Nat) (h : xs.length < 10) : mostFrequentPosition xs = (0, 0) :=
  LOR.mfp_short xs h

example : mostFrequentPosition [2, 2, 2, 2, 2, 2, 2, 2, 2, 2, 2, 4, 2, 2, 2] = (2, 14) := by decide
example : mostFrequentPosition [2, 4, 2, 2, 2, 2, 2, 2, 2, 2, 2] = mostFrequentPosition [2, 2, 2, 2, 2, 2, 2, 2, 2, 2, 4] :=
  T17_mfp_order _ _ (by decide)
example : mostFrequentPosition [1, 2, 1, 2, 1, 2, 1, 2, 1, 2, 1, 2, 1, 2, 1, 2, 1, 2, 1, 2] = (0, 0) := by decide
example : mostFrequentPosition [7, 7, 7, 7, 7, 7, 7, 7, 7] = (0, 0) := T17_fewer_than_ten_votes _ (by decide)

/-! ### 2. `scan_variants` -/

/-- **T17_scan_found**: a position is reported for the forward strand exactly when its winner has
(at least 10 and) strictly more votes than the winner of the reverse strand (0 without one), and
symmetrically; `R` are the votes of the reverse complements -/
theorem T17_scan_found (W k : Nat) (kmap : List (Nat × List Nat)) (vs : List Variant) (p : Nat) (fwd : Bool)
    (h : scanVariants W k kmap vs = some (true, p, fwd)) :
    ∃ rcs, vs.mapM (fun v => revComplStr v.1) = some rcs ∧
      let F := vs.flatMap (fun v => strandVotes W k kmap v.1)
      let R := rcs.flatMap (fun s => strandVotes W k kmap s)
      (fwd = true → ∃ c, mostFrequentPosition F = (p, c) ∧ 10 ≤ c ∧ (mostFrequentPosition R).2 < c) ∧
      (fwd = false → ∃ c, mostFrequentPosition R = (p, c) ∧ 10 ≤ c ∧ (mostFrequentPosition F).2 < c) := by
  rw [LOR.scan_eq] at h
  simp only [Option.bind_eq_some_iff, Option.some.injEq] at h
  obtain ⟨rcs, hr, h⟩ := h
  exact ⟨rcs, hr, LOR.scanOf_true _ _ p fwd h⟩

/-- **T17_scan_not_found**: no position is reported only when neither strand has a winner or both
winners have the same number of votes -/
theorem T17_scan_not_found (W k : Nat) (kmap : List (Nat × List Nat)) (vs : List Variant) (p : Nat) (fwd : Bool)
    (h : scanVariants W k kmap vs = some (false, p, fwd)) :
    p = 0 ∧ fwd = true ∧
    ∃ rcs, vs.mapM (fun v => revComplStr v.1) = some rcs ∧
      let F := vs.flatMap (fun v => strandVotes W k kmap v.1)
      let R := rcs.flatMap (fun s => strandVotes W k kmap s)
      (((mostFrequentPosition F).2 = 0 ∧ (mostFrequentPosition R).2 = 0) ∨
       ((mostFrequentPosition F).2 ≠ 0 ∧ (mostFrequentPosition F).2 = (mostFrequentPosition R).2)) := by
  rw [LOR.scan_eq] at h
  simp only [Option.bind_eq_some_iff, Option.some.injEq] at h
  obtain ⟨rcs, hr, h⟩ := h
  obtain ⟨h1, h2, h3⟩ := LOR.scanOf_false _ _ p fwd h
  exact ⟨h1, h2, rcs, hr, h3⟩

/-- **T17_scan_none_iff**: `scan_variants` panics (in `rev_compl`) exactly when some variant contains
a byte other than A, C, G, T -/
theorem T17_scan_none_iff (W k : Nat) (kmap : List (Nat × List Nat)) (vs : List Variant) :
    scanVariants W k kmap vs = none ↔ ∃ v ∈ vs, ∃ b ∈ v.1, isACGT b = false :=
  LOR.scan_none_iff W k kmap vs

/-- the decision as a closed form of the two winners -/
theorem T17_scan_eq (W k : Nat) (kmap : List (Nat × List Nat)) (vs : List Variant) (rcs : List (List UInt8))
    (hr : vs.mapM (fun v => revComplStr v.1) = some rcs) :
    let f := mostFrequentPosition (vs.flatMap (fun v => strandVotes W k kmap v.1))
    let r := mostFrequentPosition (rcs.flatMap (fun s => strandVotes W k kmap s))
    scanVariants W k kmap vs = some (
      if f.2 = 0 then (if r.2 = 0 then (false, 0, true) else (true, r.1, false))
      else if r.2 = 0 then (true, f.1, true)
      else if f.2 = r.2 then (false, 0, true)
      else if f.2 > r.2 then (true, f.1, true) else (true, r.1, false)) := by
  intro f r
  rw [LOR.scan_eq, hr, Option.bind_some, LOR.scanOf_eq]

/-- reference AACAGATCC (k = 2), an SNP bubble AACA[G|T]ATCC -/
def exGenome : List UInt8 := [65, 65, 67, 65, 71, 65, 84, 67, 67]
def exV1 : Variant := ([65, 65, 67, 65, 71, 65, 84, 67, 67], [4])
def exV2 : Variant := ([65, 65, 67, 65, 84, 65, 84, 67, 67], [4])
/-- its reverse complement GGATCTGTT -/
def exGenomeRc : List UInt8 := [71, 71, 65, 84, 67, 84, 71, 84, 84]

theorem ex_scan : scanVariants 128 2 (genomicKmers 128 2 exGenome) [exV1, exV2] = some (true, 2, true) := by
  decide
theorem ex_scan_rc : scanVariants 128 2 (genomicKmers 128 2 exGenomeRc) [exV1, exV2] = some (true, 2, false) := by
  decide

example := T17_scan_found 128 2 _ _ _ _ ex_scan
example := T17_scan_found 128 2 _ _ _ _ ex_scan_rc
example : scanVariants 128 2 [] [exV1, exV2] = some (false, 0, true) := by decide
example : scanVariants 128 2 [] [([65, 78], [])] = none := by decide

/-! ### 3. the columns reported with a reference -/

/-- **T17_groupSnpsPos_groupSnps**: `groupSnpsPos` is `groupSnps` with the position of each column kept:
same columns in the same order, same blocked k-mers, same panics -/
theorem T17_groupSnpsPos_groupSnps (W kGraph nSamples mNum mDen : Nat) (col : Colours) (done : List Nat)
    (vs : List Variant) :
    (groupSnpsPos W kGraph nSamples mNum mDen col done vs).map (fun r => (r.1.map (·.2), r.2)) =
      groupSnps W kGraph nSamples mNum mDen col done vs :=
  LOR.groupSnpsPos_map W kGraph nSamples mNum mDen col done vs

/-- complementing keeps a column well formed -/
theorem T17_complement_wf (n mNum mDen : Nat) (c c' : List UInt8) (h : complementSnp c = some c')
    (hc : LOP.ColOk n mNum mDen c) : LOP.ColOk n mNum mDen c' :=
  LOR.colOk_complement n mNum mDen c c' h hc

/-- **T17_ref_columns_wf**: every (position, column) pair `analyseRef` reports has one entry per sample
over '-', N, A, C, G, T, at least two distinct A/C/G/T alleles, at most the allowed fraction of entries
that are not A/C/G/T, a position below 2^32; and the positions are pairwise distinct (the first
claim of a position wins) -/
theorem T17_ref_columns_wf (W kGraph nSamples mNum mDen ik : Nat) (col : Colours) (gr : Groups)
    (genome : List UInt8) (placed : List (Nat × List UInt8)) (recs : List IndelRec)
    (h : analyseRef W kGraph nSamples mNum mDen ik col gr genome = some (placed, recs)) :
    (∀ pc ∈ placed,
      pc.2.length = nSamples ∧ (checkMissingData pc.2).1 = true ∧
      ratioLe (checkMissingData pc.2).2 nSamples mNum mDen = true ∧
      (∀ b ∈ pc.2, b = 45 ∨ b = 78 ∨ b = 65 ∨ b = 67 ∨ b = 71 ∨ b = 84) ∧
      pc.1 < 2 ^ 32) ∧
    (placed.map (·.1)).Nodup := by
  obtain ⟨h1, h2⟩ := LOR.analyseRef_placed W kGraph nSamples mNum mDen ik col gr genome placed recs h
  refine ⟨?_, h2⟩
  intro pc hpc
  obtain ⟨⟨⟨hl, hb⟩, hc1, hc2⟩, hp⟩ := h1 pc hpc
  exact ⟨hl, hc1, hc2, hb, hp⟩

/-- the indel records are those of `processIndels`, as without a reference -/
theorem T17_ref_records (W kGraph nSamples mNum mDen ik : Nat) (col : Colours) (gr : Groups)
    (genome : List UInt8) (placed : List (Nat × List UInt8)) (recs : List IndelRec)
    (h : analyseRef W kGraph nSamples mNum mDen ik col gr genome = some (placed, recs)) :
    ∃ ext, processIndels W kGraph nSamples mNum mDen col gr.indelGroups = some (recs, ext) := by
  unfold analyseRef at h
  simp only [Option.bind_eq_bind, Option.bind_eq_some_iff] at h
  obtain ⟨⟨recs', ext⟩, hp, res, _, h⟩ := h
  simp only [pure, Option.some.injEq, Prod.mk.injEq] at h
  exact ⟨ext, by rw [hp, h.2]⟩

/-- **T17_ref_columns_origin**: every reported (position, column) pair `x` is the placement of one
column of one SNP group: the group's variants `vs` (after the internal-indel filter) were genotyped
by `groupSnpsPos` against the k-mers blocked so far (`done`), giving the column `pc.2` at offset
`pc.1`; `scan_variants` found the position `p` on strand `fwd`; the reported position is
`p + (offset - kGraph)` on the forward strand and `p + (len - offset - kGraph - 1)` on the reverse
strand (mod 2^32), the reported column is `pc.2`, complemented on the reverse strand -/
theorem T17_ref_columns_origin (W kGraph nSamples mNum mDen ik : Nat) (col : Colours) (gr : Groups)
    (genome : List UInt8) (placed : List (Nat × List UInt8)) (recs : List IndelRec)
    (h : analyseRef W kGraph nSamples mNum mDen ik col gr genome = some (placed, recs)) :
    ∃ ext, processIndels W kGraph nSamples mNum mDen col gr.indelGroups = some (recs, ext) ∧
      ∀ x ∈ placed, ∃ kv ∈ gr.snpGroups,
        ∃ (done : List Nat) (found : List (Nat × List UInt8)) (save : List Nat) (p : Nat) (fwd : Bool),
        ∃ pc ∈ found,
          let vs := kv.2.filter (fun v => !(internalIndels W kGraph ext v.1 > ik))
          groupSnpsPos W kGraph nSamples mNum mDen col done vs = some (found, save) ∧
          scanVariants 128 kGraph (genomicKmers 128 kGraph genome) vs = some (true, p, fwd) ∧
          x.1 = (if fwd then (p + (pc.1 - kGraph)) % 2 ^ 32
                 else (p + ((vs.headD ([], [])).1.length - pc.1 - kGraph - 1)) % 2 ^ 32) ∧
          (if fwd then some pc.2 else complementSnp pc.2) = some x.2 := by
  obtain ⟨ext, hp, hx⟩ := LOR.analyseRef_origin W kGraph nSamples mNum mDen ik col gr genome placed recs h
  refine ⟨ext, hp, ?_⟩
  intro x hxm
  obtain ⟨kv, hkv, done, found, save, p, fwd, pc, hpc, h1, h2, h3, h4⟩ := hx x hxm
  exact ⟨kv, hkv, done, found, save, p, fwd, pc, hpc, h1, h2, h3, h4⟩

def exCol : Colours := [(18, [0]), (19, [1])]
def exGr : Groups := { snpGroups := [((1, 2), [exV1, exV2])], indelGroups := [] }

theorem processIndels_nil (W kGraph n mNum mDen : Nat) (col : Colours) :
    processIndels W kGraph n mNum mDen col [] = some ([], []) := by
  rw [LOP.processIndels_eq]
  simp [dereplicate]

/-- forward strand: position 4 (0-based) of AACAGATCC, column "TG" -/
theorem ex_analyseRef : analyseRef 64 2 2 0 1 5 exCol exGr exGenome = some ([(4, [84, 71])], []) := by
  unfold analyseRef
  simp only [exGr, processIndels_nil, List.map_cons, List.map_nil, List.mergeSort_singleton]
  decide

/-- reverse strand: position 4 of GGATCTGTT, the complemented column "AC" -/
theorem ex_analyseRef_rc : analyseRef 64 2 2 0 1 5 exCol exGr exGenomeRc = some ([(4, [65, 67])], []) := by
  unfold analyseRef
  simp only [exGr, processIndels_nil, List.map_cons, List.map_nil, List.mergeSort_singleton]
  decide

example := T17_ref_columns_wf 64 2 2 0 1 5 exCol exGr exGenome _ _ ex_analyseRef
example := T17_ref_columns_wf 64 2 2 0 1 5 exCol exGr exGenomeRc _ _ ex_analyseRef_rc
example := T17_ref_columns_origin 64 2 2 0 1 5 exCol exGr exGenomeRc _ _ ex_analyseRef_rc
example : groupSnpsPos 64 2 2 0 1 exCol [] [exV1, exV2] = some ([(4, [84, 71])], [19, 27, 50, 9, 18, 11, 34, 8]) := by
  decide

/-! ### 4. order independence with a reference (C11) -/

/-- **T17_analyseRef_order**: the two group lists stand for hash maps (distinct keys); whatever their
iteration orders, `analyseRef` returns the same (position, column) pairs in the same order and the
same records -/
theorem T17_analyseRef_order (W kGraph nSamples mNum mDen ik : Nat) (col : Colours) (gr gr' : Groups)
    (genome : List UInt8)
    (hs : gr.snpGroups.Perm gr'.snpGroups) (hi : gr.indelGroups.Perm gr'.indelGroups)
    (hsn : (gr.snpGroups.map (·.1)).Nodup) (hin : (gr.indelGroups.map (·.1)).Nodup) :
    analyseRef W kGraph nSamples mNum mDen ik col gr genome =
      analyseRef W kGraph nSamples mNum mDen ik col gr' genome :=
  LOR.analyseRef_perm W kGraph nSamples mNum mDen ik col gr gr' genome hs hi hsn hin

/-- the groups of the pipeline, handed to `analyseRef` in any two orders, give the same result -/
theorem T17_pipeline_ref_order (W kGraph nSamples mNum mDen ik maxDepth : Nat) (col : Colours)
    (g0 : Graph) (starts ends : List Nat) (hst : starts.Nodup) (gr' : Groups) (genome : List UInt8)
    (hs : (buildVariantGroups W kGraph g0 starts ends maxDepth).snpGroups.Perm gr'.snpGroups)
    (hi : (buildVariantGroups W kGraph g0 starts ends maxDepth).indelGroups.Perm gr'.indelGroups) :
    analyseRef W kGraph nSamples mNum mDen ik col (buildVariantGroups W kGraph g0 starts ends maxDepth) genome =
      analyseRef W kGraph nSamples mNum mDen ik col gr' genome :=
  T17_analyseRef_order W kGraph nSamples mNum mDen ik col _ gr' genome hs hi
    (SkaModel.Props.C17P.T17_groups_keys_nodup W kGraph g0 starts ends maxDepth hst).1
    (SkaModel.Props.C17P.T17_groups_keys_nodup W kGraph g0 starts ends maxDepth hst).2

example :
    let a : (Nat × Nat) × List Variant := ((1, 2), [exV1, exV2])
    let b : (Nat × Nat) × List Variant := ((5, 2), [exV2, exV1])
    let c : (Nat × Nat) × List Variant := ((7, 9), [([65, 67, 65], []), ([65, 65], [])])
    let d : (Nat × Nat) × List Variant := ((8, 9), [([67, 67, 65], []), ([67, 65], [])])
    analyseRef 64 2 2 0 1 5 exCol { snpGroups := [a, b], indelGroups := [c, d] } exGenome =
      analyseRef 64 2 2 0 1 5 exCol { snpGroups := [b, a], indelGroups := [d, c] } exGenome := by
  intro a b c d
  exact T17_analyseRef_order 64 2 2 0 1 5 exCol _ _ _ (List.Perm.swap _ _ _) (List.Perm.swap _ _ _)
    (by decide) (by decide)

/-! ### 5. `extract_genomic_kmers` -/

/-- **T17_genomicKmers**: the entry of a k-mer `x` is non-empty, has at most three end positions, each
the end of an occurrence of `x` without N, in strictly increasing order; and they are the FIRST such
positions: an occurrence end that is not listed lies behind three listed ones -/
theorem T17_genomicKmers (W k : Nat) (g : List UInt8) (hk : k ≤ g.length) (x : Nat) (ps : List Nat)
    (h : Assoc.lookup (genomicKmers W k g) x = some ps) :
    ps ≠ [] ∧ ps.length ≤ 3 ∧
    (∀ p ∈ ps, k ≤ p ∧ p ≤ g.length ∧ encodeKmer W ((g.drop (p - k)).take k) = x ∧
      ((g.drop (p - k)).take k).all (fun b => (b &&& 15) != 14) = true) ∧
    ps.Pairwise (· < ·) ∧
    (∀ q, k ≤ q → q ≤ g.length → encodeKmer W ((g.drop (q - k)).take k) = x →
      ((g.drop (q - k)).take k).all (fun b => (b &&& 15) != 14) = true → q ∉ ps →
      ps.length = 3 ∧ ∀ p ∈ ps, p < q) := by
  obtain ⟨_, h1, h2, h3, h4, h5⟩ := LOR.genomicKmers_spec W k g hk x ps h
  exact ⟨h1, h2, h3, h4, h5⟩

/-- a k-mer has no entry exactly when it has no N-free occurrence -/
theorem T17_genomicKmers_none (W k : Nat) (g : List UInt8) (hk : k ≤ g.length) (x : Nat) :
    Assoc.lookup (genomicKmers W k g) x = none ↔
      ∀ q, k ≤ q → q ≤ g.length → encodeKmer W ((g.drop (q - k)).take k) = x →
        ((g.drop (q - k)).take k).all (fun b => (b &&& 15) != 14) = false :=
  LOR.genomicKmers_none W k g hk x

/-- closed form: the first three of all end positions of N-free occurrences, in genome order -/
theorem T17_genomicKmers_closed (W k : Nat) (g : List UInt8) (hk : k ≤ g.length) (x : Nat) :
    Assoc.lookup (genomicKmers W k g) x =
      let all := ((List.range (g.length - k + 1)).filter (fun n =>
        ((g.drop n).take k).all (fun b => (b &&& 15) != 14) && encodeKmer W ((g.drop n).take k) == x)).map (· + k)
      if all = [] then none else some (all.take 3) :=
  LOR.lookup_genomicKmers W k g hk x

/-- the map has distinct keys; a reference shorter than k gives the empty map -/
theorem T17_genomicKmers_keys (W k : Nat) (g : List UInt8) :
    ((genomicKmers W k g).map (·.1)).Nodup ∧ (g.length < k → genomicKmers W k g = []) := by
  refine ⟨LOR.genomicKmers_keys_nodup W k g, ?_⟩
  intro h
  rw [LOR.genomicKmers_eq, if_pos h]

/-- AACANAAAA, k = 2: AA ends at 2, 7, 8 (the occurrence ending at 9 is dropped; the two 2-mers
with N are skipped), AC at 3, CA at 4 -/
example : genomicKmers 128 2 [65, 65, 67, 65, 78, 65, 65, 65, 65] =
    [(0, [2, 7, 8]), (1, [3]), (4, [4])] := by decide
example := T17_genomicKmers 128 2 [65, 65, 67, 65, 78, 65, 65, 65, 65] (by decide) 0 [2, 7, 8] (by decide)

end SkaModel.Props.C17R
