/-
C01 — Build yields exactly the split k-mers of the input, IUPAC-merged per k-mer.
-/
import SkaModel.Impl.SkaDict
import SkaModel.Spec.Dict

namespace SkaModel.Props.C01

open SkaModel SkaModel.Spec

/-- every listed window start is a valid start -/
theorem T01_windows_valid (k len : Nat) (ok : Nat → Bool) (j : Nat) :
    j ∈ windowsBy k len ok ↔ (j + k ≤ len ∧ ∀ t, t < k → ok (j + t) = true) ∧ j < len + 1 - k := by
  unfold windowsBy validStart
  simp only [List.mem_filter, List.mem_range, Bool.and_eq_true, decide_eq_true_eq, List.all_eq_true]
  constructor
  · rintro ⟨h1, h2, h3⟩; exact ⟨⟨h2, h3⟩, h1⟩
  · rintro ⟨⟨h2, h3⟩, h1⟩; exact ⟨h1, h2, h3⟩

end SkaModel.Props.C01
