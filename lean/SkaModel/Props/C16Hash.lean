/-
C16 (hash) — the rolling ntHash of the read iterator equals the hash computed
from scratch at every window, on both strands, including after restarts over N.
-/
import SkaModel.Props.C16Roll
import SkaModel.Props.C01Iter
import SkaModel.Lemmas.NtHashFold

namespace SkaModel.Props.C16

open SkaModel SkaModel.Spec SkaModel.NH

/-! ### 1. rotation algebra on 64-bit values -/

theorem T16_seed_lt (c : Nat) : hashSeedAt c < 2 ^ 64 ∧ rcHashSeedAt c < 2 ^ 64 :=
  ⟨hashSeedAt_lt c, rcHashSeedAt_lt c⟩

/-- the model's rotations are `BitVec.rotateLeft` / `BitVec.rotateRight` on 64 bits -/
theorem T16_rot_bv (x n : Nat) (hx : x < 2 ^ 64) :
    rotl64 x n = ((BitVec.ofNat 64 x).rotateLeft n).toNat ∧
    rotr64 x n = ((BitVec.ofNat 64 x).rotateRight n).toNat :=
  ⟨rotl64_eq_bv hx n, rotr64_eq_bv hx n⟩

theorem T16_rot (x y : Nat) (hx : x < 2 ^ 64) (hy : y < 2 ^ 64) (a b n : Nat) :
    rotl64 x n < 2 ^ 64 ∧ rotr64 x n < 2 ^ 64 ∧
    rotl64 (rotl64 x a) b = rotl64 x (a + b) ∧
    rotr64 (rotl64 x n) n = x ∧ rotl64 (rotr64 x n) n = x ∧
    rotl64 (x ^^^ y) n = rotl64 x n ^^^ rotl64 y n ∧
    rotr64 (x ^^^ y) n = rotr64 x n ^^^ rotr64 y n ∧
    rotl64 x 64 = x ∧ rotl64 x 0 = x ∧ rotr64 x 1 = rotl64 x 63 ∧
    rotl64 x (n % 64) = rotl64 x n ∧ rotr64 x (n % 64) = rotr64 x n :=
  ⟨rotl64_lt hx n, rotr64_lt hx n, rotl64_rotl64 hx a b, rotr64_rotl64 hx n, rotl64_rotr64 hx n,
    rotl64_xor hx hy n, rotr64_xor hx hy n, rotl64_64 hx, rotl64_zero hx, rotr64_one hx,
    rotl64_mod x n, rotr64_mod x n⟩

/-! ### 2. one rolling step = from scratch -/

/-- Rolling the hash of a window `b₀ :: rest` of `k` bases by the entering base
`b` gives the hash of `rest ++ [b]`, on both components and for every `k ≥ 1`
(rotation amounts are taken modulo 64, so `k` need not be below 64). -/
theorem T16_hash_roll (b0 : UInt8) (rest : List UInt8) (b : UInt8) (k : Nat) (rc : Bool)
    (hk : (b0 :: rest).length = k) :
    (NtHash.new (b0 :: rest) k rc).roll (code b0) (code b) = NtHash.new (rest ++ [b]) k rc :=
  new_roll b0 rest b k rc hk

/-- the two components separately, in the form of `roll_fwd` -/
theorem T16_hash_roll_components (b0 : UInt8) (rest : List UInt8) (b : UInt8) (k : Nat)
    (hk : (b0 :: rest).length = k) (fh rh : Nat)
    (hfh : (NtHash.new (b0 :: rest) k true).fh = fh)
    (hrh : (NtHash.new (b0 :: rest) k true).rh = some rh) :
    (NtHash.new (rest ++ [b]) k true).fh
      = rotl64 fh 1 ^^^ rotl64 (hashSeedAt (code b0)) k ^^^ hashSeedAt (code b) ∧
    (NtHash.new (rest ++ [b]) k true).rh
      = some (rotr64 rh 1 ^^^ rotr64 (rcHashSeedAt (code b0)) 1
          ^^^ rotl64 (rcHashSeedAt (code b)) (k - 1)) := by
  have h := T16_hash_roll b0 rest b k true hk
  rw [← h]
  constructor
  · rw [roll_fh_eq, hfh]; rfl
  · rw [roll_rh_eq, hrh]; rfl

/-! ### 3. strand symmetry -/

/-- with both strands in use a window and its reverse complement hash to the
same value; `k` is arbitrary (in the program `k = w.length`) -/
theorem T16_hash_strand (w : List UInt8) (comp : UInt8 → UInt8)
    (hc : ∀ b, code (comp b) = code b ^^^ 2) (k : Nat) :
    (NtHash.new w k true).curr = (NtHash.new (w.reverse.map comp) k true).curr := by
  obtain ⟨h1, h2⟩ := strand w comp hc k
  rw [new_curr_true, new_curr_true, h1, h2, Nat.min_comm]

/-- the forward hash of the one is the reverse hash of the other -/
theorem T16_hash_strand_swap (w : List UInt8) (comp : UInt8 → UInt8)
    (hc : ∀ b, code (comp b) = code b ^^^ 2) (k : Nat) :
    some (NtHash.new (w.reverse.map comp) k true).fh = (NtHash.new w k true).rh ∧
    (NtHash.new (w.reverse.map comp) k true).rh = some (NtHash.new w k true).fh := by
  obtain ⟨h1, h2⟩ := strand w comp hc k
  rw [new_rh_true, new_rh_true, new_fh, new_fh, h1, h2]
  exact ⟨rfl, rfl⟩

/-! ### 4. the iterator -/

theorem windowAt_length (c : SKConf) (j : Nat) : (c.windowAt j).length = c.k := by
  simp [SKConf.windowAt]

theorem windowAt_step (c : SKConf) (j : Nat) (hk : 1 ≤ c.k) :
    ∃ rest, c.windowAt j = c.seq.getD j 0 :: rest ∧
      c.windowAt (j + 1) = rest ++ [c.seq.getD (j + c.k) 0] := by
  obtain ⟨n, hn⟩ : ∃ n, c.k = n + 1 := ⟨c.k - 1, by omega⟩
  refine ⟨(List.range n).map (fun t => c.seq.getD (j + 1 + t) 0), ?_, ?_⟩
  · unfold SKConf.windowAt
    rw [hn, List.range_succ_eq_map, List.map_cons, List.map_map, Nat.add_zero]
    congr 1
    apply List.map_congr_left
    intro t _
    simp only [Function.comp, Nat.succ_eq_add_one]
    rw [Nat.add_assoc, Nat.add_comm 1 t]
  · unfold SKConf.windowAt
    rw [hn, List.range_succ, List.map_append, List.map_singleton]
    congr 3
    omega

/-- consecutive windows overlap in all but one base -/
theorem windowAt_succ (c : SKConf) (j : Nat) (hk : 1 ≤ c.k) :
    c.windowAt (j + 1) = (c.windowAt j).tail ++ [c.seq.getD (j + c.k) 0] := by
  obtain ⟨rest, h1, h2⟩ := windowAt_step c j hk
  rw [h1, h2, List.tail_cons]

/-- the hash of the next window from the hash of this one -/
theorem windowAt_roll (c : SKConf) (j : Nat) (hk : 1 ≤ c.k) :
    (NtHash.new (c.windowAt j) c.k c.rc).roll (code (c.seq.getD j 0))
        (code (c.seq.getD (j + c.k) 0))
      = NtHash.new (c.windowAt (j + 1)) c.k c.rc := by
  obtain ⟨rest, h1, h2⟩ := windowAt_step c j hk
  have hl := windowAt_length c j
  rw [h1] at hl
  rw [h1, h2]
  exact T16_hash_roll _ rest _ c.k c.rc hl

/-- the byte `roll_fwd` hands to the hash as the leaving base is the code of the
first base of the window -/
theorem leaving_base (c : SKConf) (hk : ValidK c.k) (hw : WidthOk c.W c.k) (s : SKState) (j : Nat)
    (hf : FieldsOk c s j) :
    (s.upper >>> ((c.k - 2) * 2)) % 256 = code (c.seq.getD j 0) := by
  obtain ⟨hh2, hkh, _⟩ := validK_bounds hk hw
  have hh1 : 1 ≤ halfK c.k := by omega
  have e : (c.k - 2) * 2 = 2 * halfK c.k + 2 * (halfK c.k - 1) := by omega
  rw [e, Nat.shiftRight_add, hf.upper, shr_four_pow _ (halfK c.k),
    Nat.mul_div_cancel _ (Nat.pow_pos (by omega)), armU_cons c j hh1]
  exact roll_mid _ _ _ (code_lt _) (codesAt_codes _ _ _) (by rw [codesAt_length]; omega)

theorem updateRc_hash (c : SKConf) (s : SKState) : (c.updateRc s).hash = s.hash := rfl

theorem ite_updateRc_hash (c : SKConf) (s : SKState) :
    (if c.rc then c.updateRc s else s).hash = s.hash := by
  split <;> rfl

/-- the hash generator `build` returns for reads is the from-scratch hash of the
window it completed -/
theorem build_hash (c : SKConf) (idx index u l m : Nat) (hg : Option NtHash) (hk : 1 ≤ c.k)
    (h : c.build idx true = some (index, u, l, m, hg)) :
    hg = some (NtHash.new (c.windowAt (index + 1 - c.k)) c.k c.rc) := by
  unfold SKConf.build at h
  split at h
  · cases h
  · split at h
    · cases h
    · rename_i st u' l' m' _
      simp only [Option.some.injEq, Prod.mk.injEq, if_true] at h
      obtain ⟨rfl, _, _, _, rfl⟩ := h
      have e : st + c.k - 1 + 1 - c.k = st := by omega
      rw [e]

/-- the hash invariant of a state -/
def HashOk (c : SKConf) (s : SKState) : Prop :=
  s.hash = some (NtHash.new (c.windowAt (s.index + 1 - c.k)) c.k c.rc)

theorem new_hash (c : SKConf) (hk : 1 ≤ c.k) (hreads : c.isReads = true) (s : SKState)
    (h : c.new = some s) : HashOk c s := by
  unfold SKConf.new at h
  rw [hreads] at h
  split at h
  · cases h
  · rename_i index u l m hg hb
    have hh := build_hash c 0 index u l m hg hk hb
    simp only [Option.some.injEq] at h
    subst h
    unfold HashOk
    rw [ite_updateRc_hash]
    have hi : (if c.rc then c.updateRc
        { index := index, upper := u, lower := l, mid := m, hash := hg }
        else { index := index, upper := u, lower := l, mid := m, hash := hg }).index = index := by
      split <;> rfl
    rw [hi]
    exact hh

theorem rollFwd_hash (c : SKConf) (hk : ValidK c.k) (hw : WidthOk c.W c.k) (s s' : SKState)
    (j : Nat) (hf : FieldsOk c s j) (hj : j = s.index + 1 - c.k) (hh : HashOk c s)
    (h : c.rollFwd s = some s') : HashOk c s' := by
  obtain ⟨hh2, hkh, _⟩ := validK_bounds hk hw
  have hk1 : 1 ≤ c.k := by omega
  have hidx := hf.index
  have hlv := leaving_base c hk hw s j hf
  unfold HashOk at hh
  unfold SKConf.rollFwd at h
  simp only at h
  split at h
  · cases h
  · split at h
    · -- restart: `build` makes a fresh generator
      rw [hh] at h
      simp only [Option.isSome_some] at h
      split at h
      · cases h
      · rename_i index u l m hg hb
        have hnew := build_hash c _ index u l m hg hk1 hb
        simp only [Option.some.injEq] at h
        subst h
        unfold HashOk
        rw [ite_updateRc_hash]
        have hi : (if c.rc then c.updateRc
            { s with index := index, upper := u, lower := l, mid := m, hash := hg }
            else { s with index := index, upper := u, lower := l, mid := m, hash := hg }).index
            = index := by
          split <;> rfl
        rw [hi]
        exact hnew
    · -- ordinary step: the generator is rolled
      have hroll := windowAt_roll c j hk1
      have hnewidx : s.index + 1 = j + c.k := by omega
      have hhash : Option.map (fun hg : NtHash =>
            hg.roll ((s.upper >>> ((c.k - 2) * 2)) % 256) (code (c.seq.getD (s.index + 1) 0))) s.hash
          = some (NtHash.new (c.windowAt (s.index + 1 + 1 - c.k)) c.k c.rc) := by
        rw [hh, Option.map_some, hlv, hnewidx, Nat.add_sub_cancel, hroll]
        congr 3
        omega
      split at h
      · simp only [Option.some.injEq] at h
        subst h
        exact hhash
      · simp only [Option.some.injEq] at h
        subst h
        exact hhash

theorem statesFrom_hash (c : SKConf) (hk : ValidK c.k) (hw : WidthOk c.W c.k) (fuel : Nat)
    (s : SKState)
    (hf : FieldsOk c s (s.index + 1 - c.k) ∧ c.k ≤ s.index + 1 ∧ s.index < c.seqLen)
    (hh : HashOk c s) :
    ∀ t ∈ c.statesFrom fuel s, HashOk c t := by
  induction fuel generalizing s with
  | zero =>
    intro t ht
    unfold SKConf.statesFrom at ht
    rw [List.mem_singleton] at ht
    rw [ht]; exact hh
  | succ fuel ih =>
    intro t ht
    unfold SKConf.statesFrom at ht
    split at ht
    · rw [List.mem_singleton] at ht
      rw [ht]; exact hh
    · rename_i s' hroll
      rcases List.mem_cons.mp ht with rfl | ht
      · exact hh
      · have hs := rollFwd_spec c hk hw s s' _ hf.1 hroll
        exact ih s' ⟨hs.1, hs.2.1, hs.2.2.1⟩
          (rollFwd_hash c hk hw s s' _ hf.1 rfl hh hroll) t ht

/-- every state of the read iterator carries the from-scratch ntHash of its own
window — the rolling update and the restarts over N never drift -/
theorem T16_hash (c : SKConf) (hk : ValidK c.k) (hw : WidthOk c.W c.k)
    (hreads : c.isReads = true) :
    ∀ s ∈ c.states,
      s.hash = some (NtHash.new (c.windowAt (s.index + 1 - c.k)) c.k c.rc) := by
  intro s hs
  unfold SKConf.states at hs
  split at hs
  · cases hs
  · rename_i s0 hnew
    have hk1 : 1 ≤ c.k := by have := hk.1; omega
    exact statesFrom_hash c hk hw _ s0 (new_spec c hk hw s0 hnew) (new_hash c hk1 hreads s0 hnew) s hs

/-- what `get_hash` returns for every state -/
theorem T16_get_hash (c : SKConf) (hk : ValidK c.k) (hw : WidthOk c.W c.k)
    (hreads : c.isReads = true) :
    ∀ s ∈ c.states,
      c.getHash s = (NtHash.new (c.windowAt (s.index + 1 - c.k)) c.k c.rc).curr := by
  intro s hs
  unfold SKConf.getHash
  rw [T16_hash c hk hw hreads s hs]


/-- the hashes the read iterator reports, as one list: the from-scratch hash of
every valid window of the record, in order -/
theorem T16_hash_list (c : SKConf) (hk : ValidK c.k) (hw : WidthOk c.W c.k)
    (hreads : c.isReads = true) :
    c.states.map c.getHash
      = (windowsBy c.k c.seqLen c.okAt).map
          (fun j => (NtHash.new (c.windowAt j) c.k c.rc).curr) := by
  have hk1 : 0 < c.k := by have := hk.1; omega
  have h1 : c.states.map c.getHash
      = (c.states.map (·.index)).map
          (fun i => (NtHash.new (c.windowAt (i + 1 - c.k)) c.k c.rc).curr) := by
    rw [List.map_map]
    exact List.map_congr_left (fun s hs => T16_get_hash c hk hw hreads s hs)
  rw [h1, C01.T01_states_index c hk1, List.map_map]
  apply List.map_congr_left
  intro j _
  simp only [Function.comp]
  rw [show j + c.k - 1 + 1 - c.k = j by omega]

/-! ### 5. non-vacuity -/

section Examples

/-- `ACGTTGCANACGGTCAT`: eight valid 5-base windows, a restart over the N -/
def exSeq : Array UInt8 := #[65, 67, 71, 84, 84, 71, 67, 65, 78, 65, 67, 71, 71, 84, 67, 65, 84]

def exC (rc : Bool) : SKConf := { W := 64, k := 5, rc := rc, seq := exSeq, isReads := true }

theorem exC_valid (rc : Bool) : ValidK (exC rc).k ∧ WidthOk (exC rc).W (exC rc).k := by
  unfold ValidK WidthOk; show (5 ≤ 5 ∧ 5 ≤ 63 ∧ 5 % 2 = 1) ∧ ((64 = 64 ∧ 5 ≤ 31) ∨ 64 = 128); omega

/-- the iterator goes through eight states, four before the N and four after -/
example (rc : Bool) : (exC rc).states.map (·.index) = [4, 5, 6, 7, 13, 14, 15, 16] := by
  rw [C01.T01_states_index (exC rc) (by show 0 < 5; omega)]
  cases rc <;> decide +kernel

/-- both strands: the hashes reported at the eight states (values checked against
`#eval` of the rolling model) -/
example : (exC true).states.map (exC true).getHash
    = [9484111204451142604, 5501594302523765518, 3825307670861535831, 43438430455904687,
       12526894322365338540, 7072493488978643311, 3773670765894119495, 5357376124064287430] := by
  rw [T16_hash_list (exC true) (exC_valid true).1 (exC_valid true).2 rfl]
  decide +kernel

/-- forward strand only -/
example : (exC false).states.map (exC false).getHash
    = [13769358179397492040, 14943053776815200050, 11325208717469117615, 43438430455904687,
       12526894322365338540, 18112430965216477842, 17891469674743621847, 16106026916025135485] := by
  rw [T16_hash_list (exC false) (exC_valid false).1 (exC_valid false).2 rfl]
  decide +kernel

/-- rolling a generator along a list of bases, keeping every intermediate value -/
def rollAlong (h0 : NtHash) (k : Nat) (seq : List UInt8) : List NtHash :=
  ((seq.zip (seq.drop k)).foldl
    (fun (acc : List NtHash × NtHash) p =>
      let h' := acc.2.roll (code p.1) (code p.2)
      (acc.1 ++ [h'], h')) ([h0], h0)).1

/-- all from-scratch generators of a list of bases -/
def scratchAlong (k : Nat) (rc : Bool) (seq : List UInt8) : List NtHash :=
  (List.range (seq.length + 1 - k)).map (fun j => NtHash.new ((seq.drop j).take k) k rc)

/-- purely at the hash level, computed by the kernel on both sides: on the two
N-free stretches of the example the rolled generators are the from-scratch ones -/
example : rollAlong (NtHash.new [65, 67, 71, 84, 84] 5 true) 5 [65, 67, 71, 84, 84, 71, 67, 65]
    = scratchAlong 5 true [65, 67, 71, 84, 84, 71, 67, 65] := by decide +kernel

example : rollAlong (NtHash.new [65, 67, 71, 71, 84] 5 true) 5 [65, 67, 71, 71, 84, 67, 65, 84]
    = scratchAlong 5 true [65, 67, 71, 71, 84, 67, 65, 84] := by decide +kernel

example : rollAlong (NtHash.new [65, 67, 71, 84, 84] 5 false) 5 [65, 67, 71, 84, 84, 71, 67, 65]
    = scratchAlong 5 false [65, 67, 71, 84, 84, 71, 67, 65] := by decide +kernel

/-- a window and its reverse complement (`ACGTT` / `AACGT`) -/
example : (NtHash.new [65, 67, 71, 84, 84] 5 true).curr = (NtHash.new [65, 65, 67, 71, 84] 5 true).curr
    ∧ (NtHash.new [65, 67, 71, 84, 84] 5 true).curr = 9484111204451142604 := by
  decide +kernel

/-- rotation amounts beyond 64 (k = 70 on a 70-base window) -/
example :
    (NtHash.new (List.replicate 69 67 ++ [71]) 70 true).roll (code 67) (code 84)
      = NtHash.new (List.replicate 68 67 ++ [71, 84]) 70 true := by decide +kernel

end Examples

end SkaModel.Props.C16
