/-
C09, from the table to the bytes on disk and back: the CBOR round trip
(`T09_roundtrip`), the frame layer (`unframe_stream`) and the Snappy block layer
(`T09_snappy_block`) composed.  A saved file is the stream identifier followed by
one chunk per block of at most 64 KiB of the serialised struct; a block is stored
raw or as a Snappy block.  For ANY cutting into blocks and ANY compressor whose
blocks are well-formed element streams denoting their data (validated on the
blocks of the real compressor by the `snapblock` operation), loading returns
exactly the saved file at the width it was written with.
-/
import SkaModel.Props.C09
import SkaModel.Props.C09Snappy
import SkaModel.Props.C19
namespace SkaModel.Props.C09Frame
open SkaModel SkaModel.FR SkaModel.SnappyFormat

/-- one block of the stream as the frame writer stores it -/
inductive SBlock where
  | raw (data : List UInt8)
  | comp (data : List UInt8) (es : List SElem)

def SBlock.data : SBlock → List UInt8
  | .raw d => d
  | .comp d _ => d

/-- what the writer guarantees per block -/
def SBlock.OK : SBlock → Prop
  | .raw d => d.length ≤ MAX_BLOCK
  | .comp d es => d.length ≤ 65536 ∧ WFs d.length 0 es ∧ denote [] es = d ∧
      (block d.length es).length + 4 ≤ MAX_COMPRESS_BLOCK

def SBlock.chunk : SBlock → Chunk
  | .raw d => .raw d
  | .comp d es => .comp (block d.length es) d

/-- the bytes of the saved stream -/
def frameOf (bs : List SBlock) : List UInt8 := IDENT ++ render (bs.map SBlock.chunk)

theorem chunk_valid (b : SBlock) (h : b.OK) : b.chunk.Valid snappyDecompress := by
  cases b with
  | raw d => exact h
  | comp d es => exact ⟨h.2.2.2, C09Snappy.T09_snappy_block d es h.1 h.2.1 h.2.2.1⟩

theorem payload_chunks (bs : List SBlock) : payload (bs.map SBlock.chunk) = (bs.map SBlock.data).flatten := by
  induction bs with
  | nil => rfl
  | cons b bs ih => cases b <;> simp [SBlock.chunk, SBlock.data, Chunk.out, ih]

/-- frame + Snappy: the un-framed stream is the concatenation of the blocks' data -/
theorem T09_frame_snappy (bs : List SBlock) (h : ∀ b ∈ bs, b.OK) :
    unframe snappyDecompress (frameOf bs) = .ok (bs.map SBlock.data).flatten := by
  have hv : ∀ c ∈ bs.map SBlock.chunk, c.Valid snappyDecompress := by
    intro c hc
    obtain ⟨b, hb, rfl⟩ := List.mem_map.mp hc
    exact chunk_valid b (h b hb)
  rw [frameOf, unframe_stream snappyDecompress _ hv, payload_chunks]

/-- save then load, through all three layers: any cutting of the serialised file into
valid blocks is loaded back as exactly that file -/
theorem T09_save_load {W : Nat} {f : SkfFile} (hv : C09.SkfFile.Valid W f) (bs : List SBlock)
    (h : ∀ b ∈ bs, b.OK) (hcut : (bs.map SBlock.data).flatten = f.encode) :
    C19.load snappyDecompress W (frameOf bs) = some f := by
  unfold C19.load
  rw [T09_frame_snappy bs h, hcut]
  show (SkfFile.decode W f.encode).map (·.1) = some f
  rw [C09.T09_roundtrip_nil hv]
  rfl

/-- non-vacuity: a raw block and a compressed block with an overlapping copy -/
example : (SBlock.raw [9, 9]).OK ∧ (SBlock.comp [1, 2, 3, 1, 2, 3, 1, 2, 3] [.lit 0 [1, 2, 3], .copy1 6 3]).OK := by
  refine ⟨?_, ?_, ?_, ?_, ?_⟩
  · show [9, 9].length ≤ MAX_BLOCK; decide
  · decide
  · decide
  · decide
  · show (block 9 [.lit 0 [1, 2, 3], .copy1 6 3]).length + 4 ≤ 76490
    have : block 9 [.lit 0 [1, 2, 3], .copy1 6 3] = [9, 8, 1, 2, 3, 9, 3] := by
      simp [block, varint, SElem.ser]
    rw [this]; decide

/-- non-vacuity of `T09_save_load`: every file has a valid cutting (here: one raw block per
byte), so the hypotheses are satisfiable for every valid file, e.g. `C09.ex64` -/
theorem T09_save_load_nonvacuous (l : List UInt8) :
    ∃ bs : List SBlock, (∀ b ∈ bs, b.OK) ∧ (bs.map SBlock.data).flatten = l := by
  refine ⟨l.map (fun b => SBlock.raw [b]), ?_, ?_⟩
  · intro b hb
    obtain ⟨x, _, rfl⟩ := List.mem_map.mp hb
    show [x].length ≤ MAX_BLOCK
    simp [MAX_BLOCK]
  · induction l with
    | nil => rfl
    | cons x xs ih => simpa [SBlock.data] using ih

example : ∃ bs, C19.load snappyDecompress 64 (frameOf bs) = some C09.ex64 := by
  obtain ⟨bs, h, hc⟩ := T09_save_load_nonvacuous C09.ex64.encode
  exact ⟨bs, T09_save_load C09.ex64_valid bs h hc⟩

end SkaModel.Props.C09Frame
