/-
C17 "SNP calls are real" / C18 "no sample is genotyped for an allele it does not carry", caller
stage of the reference-free `ska lo` pipeline (`SkaModel/Impl/SkaloPipe.lean`): every letter of
every reported SNP column is traced back to the table.

1. `T17_groupSnps_justified`, `T17_entry_iff`, `T17_analyse_justified` — the entries of a column are
   justified by the colours of the k-mers of the group's variants ending at the column's position.
2. `T17_colour_lookup`, `T17_colour_sound`, `T17_colour_complete`, `T17_colour_row_unique`,
   `T17_colour_exact` — what the colour map `kmer_2_samples` of `build_graph` contains.
3. `T17_edges_coloured`, `T17_path_kmers_coloured` — every k-mer of every reported path is carried by
   some sample.
4. `T17_snp_group_shape`, `T17_groupSnps_no_panic`, `T17_analyse_no_panic`, `T17_identify_no_panic`,
   `T17_lo_no_panic` — on the groups of a table's graph nothing in the caller panics.
5. `T17_calls_real`, `T17_pipeline_calls_real` — items 1 and 2 together: an A/C/G/T entry for sample `i`
   is the letter at the position of a variant of the group, and sample `i` shows in the table
   (`ShownInTable`) the k-mer of that variant ending at the position; an N entry comes with two such
   variants showing different letters.

Proofs: `SkaModel/Lemmas/LOReal1.lean` … `LOReal5.lean`.
-/
import SkaModel.Lemmas.LOReal5
import SkaModel.Props.C17
import SkaModel.Props.C17Pipe

namespace SkaModel.Props.C17Q

open SkaModel SkaModel.Skalo SkaModel.Spec SkaModel.Props.C16 SkaModel.Props.C17G SkaModel.LOG

/-! ### 1. column entries are justified by colours -/

/-- variant `v` shows base `b` at `pos` (the last base of its k-mer `w` = the window
`[pos - kGraph, pos]`) and sample `i` is in the colour set of that k-mer -/
def Carries (W kGraph : Nat) (col : Colours) (pos i : Nat) (v : Variant) (b : UInt8) : Prop :=
  ∃ w S, getRange v.1 (pos - kGraph) (pos + 1) = some w ∧ decodeBase (encodeKmer W w &&& 3) = b ∧
    Assoc.lookup col (encodeKmer W w) = some S ∧ i ∈ S

theorem carries_iff (W kGraph : Nat) (col : Colours) (pos i : Nat) (v : Variant) (b : UInt8) :
    Carries W kGraph col pos i v b ↔ LORL.Carries W kGraph col pos i v b := by
  constructor
  · rintro ⟨w, S, h1, h2, h3, h4⟩; exact ⟨S, ⟨w, h1, h2, h3⟩, h4⟩
  · rintro ⟨S, ⟨w, h1, h2, h3⟩, h4⟩; exact ⟨w, S, h1, h2, h3, h4⟩

/-- the base of `Carries` is the letter of the variant at `pos` (as `decodeBase ∘ code`, the identity
on A/C/G/T) -/
theorem carries_letter (W kGraph : Nat) (hW : 2 ≤ W) (col : Colours) (pos i : Nat) (hk : kGraph ≤ pos)
    (v : Variant) (b : UInt8) (h : Carries W kGraph col pos i v b) :
    ∃ x, v.1[pos]? = some x ∧ b = decodeBase (code x) ∧ (isACGT x = true → b = x) := by
  obtain ⟨w, S, h1, h2, _, _⟩ := h
  obtain ⟨x, hx, hb⟩ := LORL.call_letter W kGraph hW v.1 pos hk w h1
  exact ⟨x, hx, by rw [← h2, hb], fun hx' => by rw [← h2, hb, LORL.decode_code x hx']⟩

/-- **T17_groupSnps_justified**: every column `c` of `groupSnps` is the column of a retained position
`pos ≥ kGraph`; every variant of the group has its k-mer ending at `pos` in the colour map and unused
by earlier columns (`done`); and for every sample `i < n` the entry `x = c[i]` is one of
'-', N, A, C, G, T with
* `x` ∈ {A, C, G, T} ⇒ some variant carried by `i` shows `x` at `pos`, and every variant carried by
  `i` shows `x`;
* `x` = N ⇒ two variants carried by `i` show different bases;
* `x` = '-' ⇒ `i` carries no variant. -/
theorem T17_groupSnps_justified (W kGraph n mNum mDen : Nat) (col : Colours) (done : List Nat)
    (vs : List Variant) (cols : List (List UInt8)) (save : List Nat)
    (h : groupSnps W kGraph n mNum mDen col done vs = some (cols, save)) :
    ∀ c ∈ cols, ∃ pos ∈ getPotentialSnp vs, kGraph ≤ pos ∧ c.length = n ∧
      (∀ v ∈ vs, ∃ w S, getRange v.1 (pos - kGraph) (pos + 1) = some w ∧
        Assoc.lookup col (encodeKmer W w) = some S ∧ encodeKmer W w ∉ done) ∧
      ∀ i, i < n → ∀ x, c[i]? = some x →
        (x = 45 ∨ x = 78 ∨ x = 65 ∨ x = 67 ∨ x = 71 ∨ x = 84) ∧
        ((x = 65 ∨ x = 67 ∨ x = 71 ∨ x = 84) →
          (∃ v ∈ vs, Carries W kGraph col pos i v x) ∧
          ∀ v' ∈ vs, ∀ b', Carries W kGraph col pos i v' b' → b' = x) ∧
        (x = 78 → ∃ v ∈ vs, ∃ v' ∈ vs, ∃ b b', b ≠ b' ∧
          Carries W kGraph col pos i v b ∧ Carries W kGraph col pos i v' b') ∧
        (x = 45 → ∀ v ∈ vs, ∀ b, ¬ Carries W kGraph col pos i v b) := by
  intro c hc
  obtain ⟨pos, hpos, hk, hlen, hall, hent⟩ :=
    LORL.groupSnps_justified W kGraph n mNum mDen col done vs _ h c hc
  refine ⟨pos, hpos, hk, hlen, ?_, ?_⟩
  · intro v hv
    obtain ⟨⟨b, S, w, h1, _, h3⟩, wb, wa, g1, _, g3, _⟩ := hall v hv
    rw [h1] at g1
    have := Option.some.inj g1
    subst this
    exact ⟨w, S, h1, h3, g3⟩
  · intro i hi x hx
    have hxd : c.getD i 0 = x := by rw [List.getD_eq_getElem?_getD, hx]; rfl
    have hE := hent i hi
    rw [hxd] at hE
    obtain ⟨e45, e78, eb, eall⟩ := LORL.entry_cases _ vs x hE
    have hacgt : (x = 65 ∨ x = 67 ∨ x = 71 ∨ x = 84) → isACGT x = true := by
      rintro (h | h | h | h) <;> subst h <;> decide
    refine ⟨?_, ?_, ?_, ?_⟩
    · rcases eall with h | h | h
      · exact Or.inl h
      · exact Or.inr (Or.inl h)
      · simp only [isACGT, Bool.or_eq_true, beq_iff_eq] at h
        rcases h with ((h | h) | h) | h
        · exact Or.inr (Or.inr (Or.inl h))
        · exact Or.inr (Or.inr (Or.inr (Or.inl h)))
        · exact Or.inr (Or.inr (Or.inr (Or.inr (Or.inl h))))
        · exact Or.inr (Or.inr (Or.inr (Or.inr (Or.inr h))))
    · intro hx'
      obtain ⟨⟨v, hv, hcv⟩, hall'⟩ := eb (hacgt hx')
      exact ⟨⟨v, hv, (carries_iff ..).mpr hcv⟩, fun v' hv' b' hb' => hall' v' hv' b' ((carries_iff ..).mp hb')⟩
    · intro hx'
      obtain ⟨v, hv, v', hv', b, b', hne, h1, h2⟩ := e78 hx'
      exact ⟨v, hv, v', hv', b, b', hne, (carries_iff ..).mpr h1, (carries_iff ..).mpr h2⟩
    · intro hx' v hv b hb
      exact e45 hx' v hv b ((carries_iff ..).mp hb)

/-- the same three readings as equivalences: under the conclusion of `T17_groupSnps_justified` for
one sample the entry is determined by which variants the sample carries -/
theorem T17_entry_iff {α : Type} (Car : α → UInt8 → Prop) (vs : List α) (x : UInt8)
    (h6 : x = 45 ∨ x = 78 ∨ x = 65 ∨ x = 67 ∨ x = 71 ∨ x = 84)
    (hb : (x = 65 ∨ x = 67 ∨ x = 71 ∨ x = 84) →
      (∃ v ∈ vs, Car v x) ∧ ∀ v' ∈ vs, ∀ b', Car v' b' → b' = x)
    (hN : x = 78 → ∃ v ∈ vs, ∃ v' ∈ vs, ∃ b b', b ≠ b' ∧ Car v b ∧ Car v' b')
    (hgap : x = 45 → ∀ v ∈ vs, ∀ b, ¬ Car v b) :
    (x = 45 ↔ ∀ v ∈ vs, ∀ b, ¬ Car v b) ∧
    (x = 78 ↔ ∃ v ∈ vs, ∃ v' ∈ vs, ∃ b b', b ≠ b' ∧ Car v b ∧ Car v' b') ∧
    (∀ b, (b = 65 ∨ b = 67 ∨ b = 71 ∨ b = 84) →
      (x = b ↔ (∃ v ∈ vs, Car v b) ∧ ∀ v' ∈ vs, ∀ b', Car v' b' → b' = b)) := by
  refine ⟨⟨hgap, ?_⟩, ⟨hN, ?_⟩, ?_⟩
  · intro hno
    rcases h6 with h | h | h | h | h | h
    · exact h
    · obtain ⟨v, hv, _, _, b, _, _, hc, _⟩ := hN h
      exact absurd hc (hno v hv b)
    all_goals
      obtain ⟨⟨v, hv, hc⟩, _⟩ := hb (by simp [h])
      exact absurd hc (hno v hv x)
  · rintro ⟨v, hv, v', hv', b, b', hne, hc, hc'⟩
    rcases h6 with h | h | h | h | h | h
    · exact absurd hc (hgap h v hv b)
    · exact h
    all_goals
      obtain ⟨_, hall⟩ := hb (by simp [h])
      exact absurd ((hall v hv b hc).trans (hall v' hv' b' hc').symm) hne
  · intro b hbb
    constructor
    · intro e
      subst e
      exact hb hbb
    · rintro ⟨⟨v, hv, hc⟩, hall⟩
      rcases h6 with h | h | h | h | h | h
      · exact absurd hc (hgap h v hv b)
      · obtain ⟨u, hu, u', hu', c, c', hne, h1, h2⟩ := hN h
        exact absurd ((hall u hu c h1).trans (hall u' hu' c' h2).symm) hne
      all_goals
        obtain ⟨_, hall'⟩ := hb (by simp [h])
        exact (hall' v hv b hc).symm

/-- **T17_analyse_justified**: every column of `analyse` is a column of `groupSnps` for an SNP group
`kv` of `gr` whose variants are filtered by the internal-indel test (with the extremities `ext` of
`processIndels`), hence justified as in `T17_groupSnps_justified` (`done` = the k-mers blocked by the
earlier groups) -/
theorem T17_analyse_justified (W kGraph n mNum mDen ik : Nat) (col : Colours) (gr : Groups)
    (cols : List (List UInt8)) (recs : List IndelRec)
    (h : analyse W kGraph n mNum mDen ik col gr = some (cols, recs)) :
    ∃ ext, (∃ recs', processIndels W kGraph n mNum mDen col gr.indelGroups = some (recs', ext)) ∧
    ∀ c ∈ cols, ∃ kv ∈ gr.snpGroups, ∃ vs : List Variant,
      vs = kv.2.filter (fun v => !(internalIndels W kGraph ext v.1 > ik)) ∧
      ∃ pos ∈ getPotentialSnp vs, kGraph ≤ pos ∧ c.length = n ∧
      (∀ v ∈ vs, ∃ w S, getRange v.1 (pos - kGraph) (pos + 1) = some w ∧
        Assoc.lookup col (encodeKmer W w) = some S) ∧
      ∀ i, i < n → ∀ x, c[i]? = some x →
        (x = 45 ∨ x = 78 ∨ x = 65 ∨ x = 67 ∨ x = 71 ∨ x = 84) ∧
        ((x = 65 ∨ x = 67 ∨ x = 71 ∨ x = 84) →
          (∃ v ∈ vs, Carries W kGraph col pos i v x) ∧
          ∀ v' ∈ vs, ∀ b', Carries W kGraph col pos i v' b' → b' = x) ∧
        (x = 78 → ∃ v ∈ vs, ∃ v' ∈ vs, ∃ b b', b ≠ b' ∧
          Carries W kGraph col pos i v b ∧ Carries W kGraph col pos i v' b') ∧
        (x = 45 → ∀ v ∈ vs, ∀ b, ¬ Carries W kGraph col pos i v b) := by
  obtain ⟨ext, hpi, hcols⟩ := LORL.analyse_justified W kGraph n mNum mDen ik col gr cols recs h
  refine ⟨ext, hpi, ?_⟩
  intro c hc
  obtain ⟨kv, hkv, done, pos, hpos, hk, hlen, hall, hent⟩ := hcols c hc
  refine ⟨kv, hkv, _, rfl, pos, hpos, hk, hlen, ?_, ?_⟩
  · intro v hv
    obtain ⟨⟨b, S, w, h1, _, h3⟩, _⟩ := hall v hv
    exact ⟨w, S, h1, h3⟩
  · intro i hi x hx
    have hxd : c.getD i 0 = x := by rw [List.getD_eq_getElem?_getD, hx]; rfl
    have hE := hent i hi
    rw [hxd] at hE
    obtain ⟨e45, e78, eb, eall⟩ := LORL.entry_cases _ _ x hE
    have hacgt : (x = 65 ∨ x = 67 ∨ x = 71 ∨ x = 84) → isACGT x = true := by
      rintro (h | h | h | h) <;> subst h <;> decide
    refine ⟨?_, ?_, ?_, ?_⟩
    · rcases eall with h | h | h
      · exact Or.inl h
      · exact Or.inr (Or.inl h)
      · simp only [isACGT, Bool.or_eq_true, beq_iff_eq] at h
        rcases h with ((h | h) | h) | h
        · exact Or.inr (Or.inr (Or.inl h))
        · exact Or.inr (Or.inr (Or.inr (Or.inl h)))
        · exact Or.inr (Or.inr (Or.inr (Or.inr (Or.inl h))))
        · exact Or.inr (Or.inr (Or.inr (Or.inr (Or.inr h))))
    · intro hx'
      obtain ⟨⟨v, hv, hcv⟩, hall'⟩ := eb (hacgt hx')
      exact ⟨⟨v, hv, (carries_iff ..).mpr hcv⟩, fun v' hv' b' hb' => hall' v' hv' b' ((carries_iff ..).mp hb')⟩
    · intro hx'
      obtain ⟨v, hv, v', hv', b, b', hne, h1, h2⟩ := e78 hx'
      exact ⟨v, hv, v', hv', b, b', hne, (carries_iff ..).mpr h1, (carries_iff ..).mpr h2⟩
    · intro hx' v hv b hb
      exact e45 hx' v hv b ((carries_iff ..).mp hb)

/-! ### 2. the colour map -/

/-- the coloured k-mers of all rows in table order: `(k-mer, samples)` -/
abbrev colourEntries := LORL.colourEntries

/-- **T17_colour_lookup** (first insertion wins, exactly): a lookup in the colour map of `build_graph`
is the first match in the list of the rows' coloured k-mers (rows in table order, bases in the order
A C G T, the k-mer before its reverse complement) -/
theorem T17_colour_lookup (W : Nat) (a : Arr) (f : Nat) :
    Assoc.lookup (buildGraph W a).2 f = Assoc.lookup (colourEntries W a) f :=
  LORL.buildGraph_lookup W a f

/-- what "first match" means -/
theorem T17_colour_first (W : Nat) (a : Arr) (f : Nat) (S : List Nat) :
    Assoc.lookup (buildGraph W a).2 f = some S ↔
      ∃ l1 l2, colourEntries W a = l1 ++ (f, S) :: l2 ∧ ∀ e ∈ l1, e.1 ≠ f := by
  rw [T17_colour_lookup]
  exact LORL.lookup_eq_some_split _ f S

/-- the entries: `(f, S)` is a coloured k-mer of the table iff some row `(packL (u ++ l), cells)` and
some base `n` shown in it have `f` = the packed k-mer `u n l` or its reverse complement, and `S` =
the samples showing `n` -/
theorem T17_colour_entries (W : Nat) (a : Arr) (hk : ValidK a.k) (hw : WidthOk W a.k)
    (hkeys : ∀ key ∈ a.kmers, key < 4 ^ (a.k - 1)) (f : Nat) (S : List Nat) :
    (f, S) ∈ colourEntries W a ↔
      ∃ kv ∈ a.kmers.zip a.variants, ∃ u l, kv.1 = packL (u ++ l) ∧ u.length = halfK a.k ∧
        l.length = halfK a.k ∧ (∀ c ∈ u, c < 4) ∧ (∀ c ∈ l, c < 4) ∧ ∃ n ∈ C17.shownBases kv.2,
          (f = packL (u ++ [code n] ++ l) ∨ f = packL (rcCodes (u ++ [code n] ++ l))) ∧
          S = C17.samplesOf kv.2 n :=
  LORL.mem_colourEntries W a hk hw hkeys f S

/-- **T17_colour_sound**: a colour set `S` of a k-mer `f` is the sample set `samplesOf cells n` of a
row `(key, cells)` of the table and a base `n` shown in it, such that `f` is the packed k-mer
`U n L` of the row or its reverse complement; it is not empty and every sample in it has a cell that
is not '-' and whose IUPAC expansion contains `n` -/
theorem T17_colour_sound (W : Nat) (a : Arr) (hk : ValidK a.k) (hw : WidthOk W a.k)
    (hkeys : ∀ key ∈ a.kmers, key < 4 ^ (a.k - 1)) (f : Nat) (S : List Nat)
    (h : Assoc.lookup (buildGraph W a).2 f = some S) :
    ∃ kv ∈ a.kmers.zip a.variants, ∃ u l, kv.1 = packL (u ++ l) ∧ u.length = halfK a.k ∧
      l.length = halfK a.k ∧ (∀ c ∈ u, c < 4) ∧ (∀ c ∈ l, c < 4) ∧ ∃ n ∈ C17.shownBases kv.2,
        (f = packL (u ++ [code n] ++ l) ∨ f = packL (rcCodes (u ++ [code n] ++ l))) ∧
        S = C17.samplesOf kv.2 n ∧ S ≠ [] ∧
        ∀ i ∈ S, i < kv.2.length ∧ kv.2.getD i 45 ≠ 45 ∧ n ∈ degenerate (kv.2.getD i 45) :=
  LORL.colour_sound W a hk hw hkeys f S h

/-- **T17_colour_complete**: both k-mers of every row and every base shown in it are keys -/
theorem T17_colour_complete (W : Nat) (a : Arr) (hk : ValidK a.k) (hw : WidthOk W a.k)
    (hkeys : ∀ key ∈ a.kmers, key < 4 ^ (a.k - 1)) (kv : Nat × List UInt8)
    (hkv : kv ∈ a.kmers.zip a.variants) (u l : List Nat) (e : kv.1 = packL (u ++ l))
    (hu : u.length = halfK a.k) (hl : l.length = halfK a.k) (hcu : ∀ c ∈ u, c < 4) (hcl : ∀ c ∈ l, c < 4)
    (n : UInt8) (hn : n ∈ C17.shownBases kv.2) :
    (∃ S, Assoc.lookup (buildGraph W a).2 (packL (u ++ [code n] ++ l)) = some S) ∧
    (∃ S, Assoc.lookup (buildGraph W a).2 (packL (rcCodes (u ++ [code n] ++ l))) = some S) :=
  LORL.colour_complete W a hk hw hkeys kv hkv u l e hu hl hcu hcl n hn

/-- the reverse complement of a packed split k-mer: both arms reverse-complemented and swapped -/
abbrev rcKey := LORL.rcKey

theorem T17_rcKey (k : Nat) (u l : List Nat) (hcu : ∀ c ∈ u, c < 4) (hcl : ∀ c ∈ l, c < 4)
    (hlen : (u ++ l).length = k - 1) :
    rcKey k (packL (u ++ l)) = packL (rcCodes l ++ rcCodes u) :=
  LORL.rcKey_arms k u l hcu hcl hlen

/-- **T17_colour_row_unique**: when the keys are distinct and canonical (`key ≤ rcKey key`), two
(row, base) pairs that produce the same k-mer — as the k-mer itself or as its reverse complement —
are in the same row -/
theorem T17_colour_row_unique (W : Nat) (a : Arr) (hk : ValidK a.k) (hw : WidthOk W a.k)
    (hnd : a.kmers.Nodup) (hcanon : ∀ key ∈ a.kmers, key ≤ rcKey a.k key)
    (kv kv' : Nat × List UInt8) (hkv : kv ∈ a.kmers.zip a.variants) (hkv' : kv' ∈ a.kmers.zip a.variants)
    (u l u' l' : List Nat) (e : kv.1 = packL (u ++ l)) (e' : kv'.1 = packL (u' ++ l'))
    (hu : u.length = halfK a.k) (hl : l.length = halfK a.k) (hu' : u'.length = halfK a.k)
    (hl' : l'.length = halfK a.k) (hcu : ∀ c ∈ u, c < 4) (hcl : ∀ c ∈ l, c < 4)
    (hcu' : ∀ c ∈ u', c < 4) (hcl' : ∀ c ∈ l', c < 4)
    (n n' : UInt8) (f : Nat)
    (hf : f = packL (u ++ [code n] ++ l) ∨ f = packL (rcCodes (u ++ [code n] ++ l)))
    (hf' : f = packL (u' ++ [code n'] ++ l') ∨ f = packL (rcCodes (u' ++ [code n'] ++ l'))) :
    kv = kv' :=
  LORL.colour_row_unique W a hk hw hnd hcanon kv kv' hkv hkv' u l u' l' e e' hu hl hu' hl'
    hcu hcl hcu' hcl' n n' f hf hf'

/-- **T17_colour_exact**: when the keys are distinct and strictly canonical (`key < rcKey key`: no key
is its own reverse complement), the colour set of both k-mers of every row and shown base is exactly
the set of samples showing that base in that row -/
theorem T17_colour_exact (W : Nat) (a : Arr) (hk : ValidK a.k) (hw : WidthOk W a.k)
    (hkeys : ∀ key ∈ a.kmers, key < 4 ^ (a.k - 1))
    (hnd : a.kmers.Nodup) (hcanon : ∀ key ∈ a.kmers, key < rcKey a.k key)
    (kv : Nat × List UInt8) (hkv : kv ∈ a.kmers.zip a.variants)
    (u l : List Nat) (e : kv.1 = packL (u ++ l))
    (hu : u.length = halfK a.k) (hl : l.length = halfK a.k) (hcu : ∀ c ∈ u, c < 4) (hcl : ∀ c ∈ l, c < 4)
    (n : UInt8) (hn : n ∈ C17.shownBases kv.2) :
    Assoc.lookup (buildGraph W a).2 (packL (u ++ [code n] ++ l)) = some (C17.samplesOf kv.2 n) ∧
    Assoc.lookup (buildGraph W a).2 (packL (rcCodes (u ++ [code n] ++ l))) = some (C17.samplesOf kv.2 n) :=
  LORL.colour_exact W a hk hw hkeys hnd hcanon kv hkv u l e hu hl hcu hcl n hn

/-! ### 3. edges and path k-mers are coloured -/

/-- **T17_edges_coloured**: the k-mer `combine_kmers x y` of every edge `x → y` of the graph of a
table has a non-empty colour set -/
theorem T17_edges_coloured (W : Nat) (a : Arr) (hk : ValidK a.k) (hw : WidthOk W a.k)
    (hkeys : ∀ key ∈ a.kmers, key < 4 ^ (a.k - 1)) (x y : Nat) (h : Edge (buildGraph W a).1 x y) :
    ∃ S, Assoc.lookup (buildGraph W a).2 (combineKmers W x y) = some S ∧ S ≠ [] :=
  LORL.edge_coloured W a hk hw hkeys x y h

/-- the bridge: where the windows of `kGraph` letters at `i` and `i + 1` encode to `x` and `y`, the
window of `kGraph + 1` letters at `i` encodes to `combine_kmers x y` -/
theorem T17_window_combine (W kGraph : Nat) (hk1 : 1 ≤ kGraph) (hW : 2 * (kGraph + 1) ≤ W) (s : List UInt8)
    (i x y : Nat) (hi : i + kGraph + 1 ≤ s.length)
    (hx : encodeKmer W ((s.drop i).take kGraph) = x)
    (hy : encodeKmer W ((s.drop (i + 1)).take kGraph) = y) :
    encodeKmer W ((s.drop i).take (kGraph + 1)) = combineKmers W x y :=
  LORL.window_combine W kGraph hk1 hW s i x y hi hx hy

/-- **T17_path_kmers_coloured**: every k-mer (window of `a.k` letters) of every sequence of every
reported group of the table pipeline is a key of the colour map with a non-empty sample set:
every k-mer of every reported path is carried by some sample -/
theorem T17_path_kmers_coloured (W : Nat) (a : Arr) (hk : ValidK a.k) (hw : WidthOk W a.k)
    (hkeys : ∀ key ∈ a.kmers, key < 4 ^ (a.k - 1)) (starts ends : List Nat) (maxDepth : Nat) :
    ∀ grp ∈ (buildVariantGroups W (a.k - 1) (buildGraph W a).1 starts ends maxDepth).snpGroups ++
        (buildVariantGroups W (a.k - 1) (buildGraph W a).1 starts ends maxDepth).indelGroups,
      ∀ var ∈ grp.2, ∀ i, i + a.k ≤ var.1.length →
        ∃ S, Assoc.lookup (buildGraph W a).2 (encodeKmer W ((var.1.drop i).take a.k)) = some S ∧ S ≠ [] := by
  intro grp hgrp var hvar i hi
  have hb := validK_bounds hk hw
  have e : a.k = a.k - 1 + 1 := by omega
  have := LORL.var_windows_coloured W a hk hw hkeys grp.1 var
    (LORL.var_spec W a hk hw hkeys starts ends maxDepth grp hgrp var hvar) i hi
  rw [← e] at this
  exact this

/-! ### 4. no missing colour, no slice out of range -/

/-- **T17_snp_group_shape**: in an SNP group of the table pipeline all sequences have the same length
`L`, the same first and the same last `k-1` letters; hence every retained position `pos` satisfies
`k-1 ≤ pos` and `pos + (k-1) + 1 ≤ L` (the same for any sub-list of the variants, as left by the
internal-indel filter) -/
theorem T17_snp_group_shape (W : Nat) (a : Arr) (hk : ValidK a.k) (hw : WidthOk W a.k)
    (hkeys : ∀ key ∈ a.kmers, key < 4 ^ (a.k - 1)) (starts ends : List Nat) (maxDepth : Nat) :
    ∀ kv ∈ (buildVariantGroups W (a.k - 1) (buildGraph W a).1 starts ends maxDepth).snpGroups,
      (∀ v ∈ kv.2, ∀ v' ∈ kv.2, v.1.length = v'.1.length ∧ v.1.take (a.k - 1) = v'.1.take (a.k - 1) ∧
        v.1.drop (v.1.length - (a.k - 1)) = v'.1.drop (v.1.length - (a.k - 1))) ∧
      ∀ p : Variant → Bool, ∀ pos ∈ getPotentialSnp (kv.2.filter p),
        a.k - 1 ≤ pos ∧ ∀ v ∈ kv.2.filter p, pos + (a.k - 1) + 1 ≤ v.1.length := by
  intro kv hkv
  have hb := validK_bounds hk hw
  refine ⟨?_, ?_⟩
  · intro v hv v' hv'
    have hl := LORL.snp_equal_length W (a.k - 1) _ starts ends maxDepth kv hkv v hv v' hv'
    have s1 := LORL.var_spec W a hk hw hkeys starts ends maxDepth kv (List.mem_append_left _ hkv) v hv
    have s2 := LORL.var_spec W a hk hw hkeys starts ends maxDepth kv (List.mem_append_left _ hkv) v' hv'
    exact ⟨hl, LORL.var_shared W (a.k - 1) (by omega) _ kv.1 v v' s1 s2 hl⟩
  · intro p pos hpos
    obtain ⟨h1, h2⟩ := LORL.table_snps_roomy W a hk hw hkeys starts ends maxDepth kv hkv p pos hpos
    exact ⟨h1, fun v hv => (h2 v hv).1⟩

/-- **T17_groupSnps_no_panic**: `groupSnps` returns `some` as soon as every retained position leaves
room for the two k-mers in every variant and the k-mer ending at the position is coloured -/
theorem T17_groupSnps_no_panic (W kGraph n mNum mDen : Nat) (col : Colours) (done : List Nat) (vs : List Variant)
    (h : ∀ pos ∈ getPotentialSnp vs, kGraph ≤ pos ∧ ∀ v ∈ vs, pos + kGraph + 1 ≤ v.1.length ∧
      ∃ S, Assoc.lookup col (encodeKmer W ((v.1.drop (pos - kGraph)).take (kGraph + 1))) = some S) :
    groupSnps W kGraph n mNum mDen col done vs ≠ none := by
  obtain ⟨r, hr⟩ := LORL.groupSnps_some W kGraph n mNum mDen col done vs h
  rw [hr]
  exact Option.some_ne_none r

/-- **T17_analyse_no_panic**: for the graph and the colours of a table (valid `k`, keys below
`4^(k-1)`), whatever the entry and exit nodes and the parameters, `processIndels` and `analyse` on the
groups of `buildVariantGroups` do not panic -/
theorem T17_analyse_no_panic (W : Nat) (a : Arr) (hk : ValidK a.k) (hw : WidthOk W a.k)
    (hkeys : ∀ key ∈ a.kmers, key < 4 ^ (a.k - 1)) (starts ends : List Nat)
    (maxDepth n mNum mDen ik : Nat) :
    processIndels W (a.k - 1) n mNum mDen (buildGraph W a).2
      (buildVariantGroups W (a.k - 1) (buildGraph W a).1 starts ends maxDepth).indelGroups ≠ none ∧
    analyse W (a.k - 1) n mNum mDen ik (buildGraph W a).2
      (buildVariantGroups W (a.k - 1) (buildGraph W a).1 starts ends maxDepth) ≠ none := by
  constructor
  · obtain ⟨r, hr⟩ := LORL.processIndels_some W (a.k - 1) n mNum mDen (buildGraph W a).2 _
      (LORL.table_indels_ok W a hk hw hkeys starts ends maxDepth)
    rw [hr]; exact Option.some_ne_none r
  · obtain ⟨r, hr⟩ := LORL.analyse_table_some W a hk hw hkeys starts ends maxDepth n mNum mDen ik
    rw [hr]; exact Option.some_ne_none r

/-- **T17_identify_no_panic**: `identify_good_kmers` finds the colour of every k-mer it looks up -/
theorem T17_identify_no_panic (W : Nat) (a : Arr) (hk : ValidK a.k) (hw : WidthOk W a.k)
    (hkeys : ∀ key ∈ a.kmers, key < 4 ^ (a.k - 1)) (kGraph : Nat) :
    identifyGoodKmers W kGraph (buildGraph W a).1 (buildGraph W a).2 ≠ none := by
  obtain ⟨r, hr⟩ := LORL.identifyGoodKmers_table_some W a hk hw hkeys kGraph
  rw [hr]; exact Option.some_ne_none r

/-- **T17_lo_no_panic**: the reference-free pipeline from the table — graph, entry nodes, groups,
caller — returns a result -/
theorem T17_lo_no_panic (W : Nat) (a : Arr) (hk : ValidK a.k) (hw : WidthOk W a.k)
    (hkeys : ∀ key ∈ a.kmers, key < 4 ^ (a.k - 1)) (maxDepth n mNum mDen ik : Nat) :
    ∃ starts ends cols recs,
      identifyGoodKmers W (a.k - 1) (buildGraph W a).1 (buildGraph W a).2 = some (starts, ends) ∧
      analyse W (a.k - 1) n mNum mDen ik (buildGraph W a).2
        (buildVariantGroups W (a.k - 1) (buildGraph W a).1 starts ends maxDepth) = some (cols, recs) := by
  obtain ⟨⟨starts, ends⟩, hr⟩ := LORL.identifyGoodKmers_table_some W a hk hw hkeys (a.k - 1)
  obtain ⟨⟨cols, recs⟩, hr'⟩ := LORL.analyse_table_some W a hk hw hkeys starts ends maxDepth n mNum mDen ik
  exact ⟨starts, ends, cols, recs, hr, hr'⟩

/-! ### 5. calls are real -/

/-- sample `i` shows the k-mer `f` in the table, on one of the two strands: there are a row
`(key, cells)` with arms `u`, `l` and a base `n'` such that `f` packs the k-mer `u n' l` or its reverse
complement, and the cell of sample `i` in that row is not '-' and its IUPAC expansion contains `n'` -/
def ShownInTable (a : Arr) (f i : Nat) : Prop :=
  ∃ row ∈ a.kmers.zip a.variants, ∃ u l, row.1 = packL (u ++ l) ∧ u.length = halfK a.k ∧
    l.length = halfK a.k ∧ (∀ c ∈ u, c < 4) ∧ (∀ c ∈ l, c < 4) ∧
    ∃ n' ∈ C17.shownBases row.2,
      (f = packL (u ++ [code n'] ++ l) ∨ f = packL (rcCodes (u ++ [code n'] ++ l))) ∧
      i < row.2.length ∧ row.2.getD i 45 ≠ 45 ∧ n' ∈ degenerate (row.2.getD i 45)

/-- a sample in the colour set of a k-mer shows that k-mer in the table -/
theorem T17_coloured_shown (W : Nat) (a : Arr) (hk : ValidK a.k) (hw : WidthOk W a.k)
    (hkeys : ∀ key ∈ a.kmers, key < 4 ^ (a.k - 1)) (f : Nat) (S : List Nat)
    (h : Assoc.lookup (buildGraph W a).2 f = some S) (i : Nat) (hi : i ∈ S) : ShownInTable a f i := by
  obtain ⟨row, hrow, u, l, e, hu, hl, hcu, hcl, n', hn', hf, _, _, hS⟩ :=
    T17_colour_sound W a hk hw hkeys f S h
  exact ⟨row, hrow, u, l, e, hu, hl, hcu, hcl, n', hn', hf, hS i hi⟩

/-- with the colours of a table, `Carries` means: the letter of `v` at `pos` gives `b`, and sample
`i` shows in the table the k-mer of `v` that ends at `pos` -/
theorem T17_carries_shown (W : Nat) (a : Arr) (hk : ValidK a.k) (hw : WidthOk W a.k)
    (hkeys : ∀ key ∈ a.kmers, key < 4 ^ (a.k - 1)) (pos i : Nat) (hpos : a.k - 1 ≤ pos) (v : Variant)
    (b : UInt8) (h : Carries W (a.k - 1) (buildGraph W a).2 pos i v b) :
    ∃ x, v.1[pos]? = some x ∧ b = decodeBase (code x) ∧ (isACGT x = true → b = x) ∧
      pos + 1 ≤ v.1.length ∧
      ShownInTable a (encodeKmer W ((v.1.drop (pos - (a.k - 1))).take a.k)) i := by
  have hb := validK_bounds hk hw
  obtain ⟨x, hx, hbx, hbx'⟩ := carries_letter W (a.k - 1) (by omega) _ pos i hpos v b h
  obtain ⟨w, S, h1, _, h3, h4⟩ := h
  refine ⟨x, hx, hbx, hbx', (List.getElem?_eq_some_iff.mp hx).1, ?_⟩
  rw [LORL.getRange_some v.1 _ _ (by omega) (by have := (List.getElem?_eq_some_iff.mp hx).1; omega)] at h1
  have e : pos + 1 - (pos - (a.k - 1)) = a.k := by omega
  rw [e] at h1
  rw [Option.some.inj h1]
  exact T17_coloured_shown W a hk hw hkeys _ S h3 i h4

/-- **T17_calls_real** (items 1 and 2 together, for the colours of a table and any groups): if
`analyse` reports a column `c`, there are an SNP group `kv` and a position `pos ≥ k-1` such that
* every entry `c[i] = b` with `b` one of A, C, G, T comes with a variant `v` of the group whose letter
  `x` at `pos` gives `b` (`b = x` when `x` is one of A C G T) and whose k-mer ending at `pos` sample
  `i` shows in the table (on one of the two strands);
* every entry `c[i] = N` comes with two such variants showing different bases.
So no sample is given an allele whose k-mer it does not carry in the table. -/
theorem T17_calls_real (W : Nat) (a : Arr) (hk : ValidK a.k) (hw : WidthOk W a.k)
    (hkeys : ∀ key ∈ a.kmers, key < 4 ^ (a.k - 1)) (n mNum mDen ik : Nat) (gr : Groups)
    (cols : List (List UInt8)) (recs : List IndelRec)
    (h : analyse W (a.k - 1) n mNum mDen ik (buildGraph W a).2 gr = some (cols, recs)) :
    ∀ c ∈ cols, ∃ kv ∈ gr.snpGroups, ∃ pos, a.k - 1 ≤ pos ∧ c.length = n ∧
      (∀ i, i < n → ∀ b, (b = 65 ∨ b = 67 ∨ b = 71 ∨ b = 84) → c[i]? = some b →
        ∃ v ∈ kv.2, ∃ x, v.1[pos]? = some x ∧ b = decodeBase (code x) ∧ (isACGT x = true → b = x) ∧
          ShownInTable a (encodeKmer W ((v.1.drop (pos - (a.k - 1))).take a.k)) i) ∧
      (∀ i, i < n → c[i]? = some 78 →
        ∃ v ∈ kv.2, ∃ v' ∈ kv.2, ∃ x x', v.1[pos]? = some x ∧ v'.1[pos]? = some x' ∧
          decodeBase (code x) ≠ decodeBase (code x') ∧
          ShownInTable a (encodeKmer W ((v.1.drop (pos - (a.k - 1))).take a.k)) i ∧
          ShownInTable a (encodeKmer W ((v'.1.drop (pos - (a.k - 1))).take a.k)) i) := by
  obtain ⟨ext, _, hcols⟩ := T17_analyse_justified W (a.k - 1) n mNum mDen ik _ gr cols recs h
  intro c hc
  obtain ⟨kv, hkv, vs, hvs, pos, _, hpos, hlen, _, hent⟩ := hcols c hc
  refine ⟨kv, hkv, pos, hpos, hlen, ?_, ?_⟩
  · intro i hi b hb4 hci
    obtain ⟨_, hacgt, _, _⟩ := hent i hi b hci
    obtain ⟨⟨v, hv, hcar⟩, _⟩ := hacgt hb4
    obtain ⟨x, hx, hbx, hbx', _, hsh⟩ := T17_carries_shown W a hk hw hkeys pos i hpos v b hcar
    rw [hvs] at hv
    exact ⟨v, (List.mem_filter.mp hv).1, x, hx, hbx, hbx', hsh⟩
  · intro i hi hci
    obtain ⟨_, _, hN, _⟩ := hent i hi 78 hci
    obtain ⟨v, hv, v', hv', b, b', hne, hc1, hc2⟩ := hN rfl
    obtain ⟨x, hx, hbx, _, _, hsh⟩ := T17_carries_shown W a hk hw hkeys pos i hpos v b hc1
    obtain ⟨x', hx', hbx', _, _, hsh'⟩ := T17_carries_shown W a hk hw hkeys pos i hpos v' b' hc2
    rw [hvs] at hv hv'
    exact ⟨v, (List.mem_filter.mp hv).1, v', (List.mem_filter.mp hv').1, x, x', hx, hx',
      by rw [← hbx, ← hbx']; exact hne, hsh, hsh'⟩

/-- **T17_pipeline_calls_real**: the same for the groups of `buildVariantGroups` on the table's graph,
where the sequences are written over A, C, G, T: an entry `c[i] = b` (one of A, C, G, T) is the letter
at `pos` of a reported sequence `v` of the group — which spells a walk of the table's graph,
`T17_table_paths_spelled` — and sample `i` shows in the table the k-mer of `v` ending at `pos` -/
theorem T17_pipeline_calls_real (W : Nat) (a : Arr) (hk : ValidK a.k) (hw : WidthOk W a.k)
    (hkeys : ∀ key ∈ a.kmers, key < 4 ^ (a.k - 1)) (starts ends : List Nat)
    (maxDepth n mNum mDen ik : Nat) (cols : List (List UInt8)) (recs : List IndelRec)
    (h : analyse W (a.k - 1) n mNum mDen ik (buildGraph W a).2
      (buildVariantGroups W (a.k - 1) (buildGraph W a).1 starts ends maxDepth) = some (cols, recs)) :
    ∀ c ∈ cols, ∃ kv ∈ (buildVariantGroups W (a.k - 1) (buildGraph W a).1 starts ends maxDepth).snpGroups,
      ∃ pos, a.k - 1 ≤ pos ∧ c.length = n ∧
      ∀ i, i < n → ∀ b, (b = 65 ∨ b = 67 ∨ b = 71 ∨ b = 84) → c[i]? = some b →
        ∃ v ∈ kv.2, v.1[pos]? = some b ∧
          ShownInTable a (encodeKmer W ((v.1.drop (pos - (a.k - 1))).take a.k)) i := by
  intro c hc
  obtain ⟨kv, hkv, pos, hpos, hlen, hb, _⟩ :=
    T17_calls_real W a hk hw hkeys n mNum mDen ik _ cols recs h c hc
  refine ⟨kv, hkv, pos, hpos, hlen, ?_⟩
  intro i hi b hb4 hci
  obtain ⟨v, hv, x, hx, _, hbx, hsh⟩ := hb i hi b hb4 hci
  obtain ⟨_, cs, _, hseq, _⟩ :=
    (LORL.var_spec W a hk hw hkeys starts ends maxDepth kv (List.mem_append_left _ hkv) v hv).ex
  have hxa : isACGT x = true := by
    have hm : x ∈ v.1 := List.mem_of_getElem? hx
    rw [hseq, List.mem_map] at hm
    obtain ⟨c0, _, rfl⟩ := hm
    exact LORL.isACGT_decodeBase c0
  rw [← hbx hxa] at hx
  exact ⟨v, hv, hx, hsh⟩

/-! ### examples: the hypotheses are satisfiable, the conclusions are not vacuous -/

/-- an SNP bubble A[C|G]A over four samples (k-1 = 1): AC carried by samples 0 and 2, AG by 1 and 2 -/
def exCol : Colours := [(1, [0, 2]), (3, [1, 2])]
def exVs : List Variant := [([65, 67, 65], [1]), ([65, 71, 65], [1])]

/-- one column: C, G, N (sample 2 carries both), '-' (sample 3 carries none) -/
theorem ex_groupSnps :
    groupSnps 64 1 4 1 2 exCol [] exVs = some ([[67, 71, 78, 45]], [1, 14, 4, 11, 3, 6, 12, 9]) := by decide

example :=
  T17_groupSnps_justified 64 1 4 1 2 exCol [] exVs _ _ ex_groupSnps

example : getPotentialSnp exVs = [1] := by decide
/-- sample 0 carries the first variant, which shows C at position 1 -/
example : Carries 64 1 exCol 1 0 ([65, 67, 65], [1]) 67 :=
  ⟨[65, 67], [0, 2], by decide, by decide, by decide, by decide⟩
/-- sample 2 carries both variants, which show C and G: its entry is N -/
example : Carries 64 1 exCol 1 2 ([65, 67, 65], [1]) 67 ∧ Carries 64 1 exCol 1 2 ([65, 71, 65], [1]) 71 :=
  ⟨⟨[65, 67], [0, 2], by decide, by decide, by decide, by decide⟩,
   ⟨[65, 71], [1, 2], by decide, by decide, by decide, by decide⟩⟩

/-- `T17_analyse_justified` / `T17_columns_wf` apply to the run of `C17P.ex_analyse` -/
example := T17_analyse_justified 64 1 2 0 1 5 C17P.exCol C17P.exGr _ _ C17P.ex_analyse

/-- a table of two samples (k = 5) that differ by one SNP: TAAGG/CTGAC… -/
def exT : Arr :=
  { k := 5, rc := true, names := ["s", "t"],
    kmers := [6, 14, 25, 59, 88, 97, 112, 116, 141, 149, 157, 225],
    variants := [[71, 45], [45, 71], [71, 71], [67, 71], [45, 84], [75, 84], [84, 84], [84, 84],
                 [65, 45], [45, 65], [65, 45], [45, 67]],
    counts := [], kBits := 64 }

theorem exT_k : ValidK exT.k := by unfold ValidK; decide
theorem exT_w : WidthOk 64 exT.k := by unfold WidthOk; decide
theorem exT_keys : ∀ key ∈ exT.kmers, key < 4 ^ (exT.k - 1) := by decide

-- item 2: row 0 is (6, "G-"): arms AA / CT, k-mer AAGCT = 54, its reverse complement AGCTT = 218
example : Assoc.lookup (buildGraph 64 exT).2 54 = some [0] ∧
    Assoc.lookup (buildGraph 64 exT).2 218 = some [0] := by decide
example : packL ([0, 0] ++ [code 71] ++ [1, 2]) = 54 ∧ packL (rcCodes ([0, 0] ++ [code 71] ++ [1, 2])) = 218 ∧
    packL ([0, 0] ++ [1, 2]) = 6 ∧ C17.samplesOf [71, 45] 71 = [0] := by decide
example := T17_colour_sound 64 exT exT_k exT_w exT_keys 54 [0] (by decide)
example : Assoc.lookup (buildGraph 64 exT).2 54 = Assoc.lookup (colourEntries 64 exT) 54 :=
  T17_colour_lookup 64 exT 54
example : exT.kmers.Nodup ∧ ∀ key ∈ exT.kmers, key ≤ rcKey exT.k key := by decide

/-- a table with distinct strictly canonical keys: `T17_colour_exact` applies -/
def exT2 : Arr :=
  { k := 5, rc := true, names := ["s", "t", "u"], kmers := [6, 14], variants := [[71, 45, 82], [45, 71, 65]],
    counts := [], kBits := 64 }
example : Assoc.lookup (buildGraph 64 exT2).2 (packL ([0, 0] ++ [code 71] ++ [1, 2])) =
    some (C17.samplesOf [71, 45, 82] 71) :=
  (T17_colour_exact 64 exT2 (by unfold ValidK; decide) (by unfold WidthOk; decide) (by decide) (by decide)
    (by decide) (6, [71, 45, 82]) (by decide) [0, 0] [1, 2] (by decide) (by decide) (by decide) (by decide)
    (by decide) 71 (by decide)).1
example : C17.samplesOf [71, 45, 82] 71 = [0, 2] := by decide

-- item 3
example : Edge (buildGraph 64 exT).1 131 15 ∧
    Assoc.lookup (buildGraph 64 exT).2 (combineKmers 64 131 15) = some [1] := by decide
example := T17_edges_coloured 64 exT exT_k exT_w exT_keys 131 15 (by decide)

-- item 4: the pipeline on that table
theorem exT_identify :
    identifyGoodKmers 64 4 (buildGraph 64 exT).1 (buildGraph 64 exT).2 = some ([131, 228], [104, 177]) := by
  decide +kernel
theorem exT_groups : (buildVariantGroups 64 4 (buildGraph 64 exT).1 [131, 228] [104, 177] 4).snpGroups =
    [((131, 177), [([84, 65, 65, 71, 71, 84, 71, 65, 67], [4, 4]), ([84, 65, 65, 71, 67, 84, 71, 65, 67], [4, 4])]),
     ((131, 104),
      [([84, 65, 65, 71, 71, 84, 71, 65, 67, 71, 84, 67, 65, 71, 67, 84, 84, 65], [4, 4, 13, 13]),
       ([84, 65, 65, 71, 71, 84, 71, 65, 67, 71, 84, 67, 65, 67, 67, 84, 84, 65], [4, 4, 13, 13]),
       ([84, 65, 65, 71, 67, 84, 71, 65, 67, 71, 84, 67, 65, 67, 67, 84, 84, 65], [4, 4, 13, 13])]),
     ((228, 104), [([71, 84, 67, 65, 71, 67, 84, 84, 65], [4, 4]), ([71, 84, 67, 65, 67, 67, 84, 84, 65], [4, 4])])] := by
  decide +kernel

/-- every 5-mer of the first reported sequence TAAGGTGAC is coloured -/
example : ∀ i, i + 5 ≤ 9 → ∃ S, Assoc.lookup (buildGraph 64 exT).2
    (encodeKmer 64 ((([84, 65, 65, 71, 71, 84, 71, 65, 67] : List UInt8).drop i).take 5)) = some S ∧ S ≠ [] :=
  T17_path_kmers_coloured 64 exT exT_k exT_w exT_keys [131, 228] [104, 177] 4
    ((131, 177), [([84, 65, 65, 71, 71, 84, 71, 65, 67], [4, 4]), ([84, 65, 65, 71, 67, 84, 71, 65, 67], [4, 4])])
    (List.mem_append_left _ (by rw [show exT.k - 1 = 4 from rfl, exT_groups]; decide))
    ([84, 65, 65, 71, 71, 84, 71, 65, 67], [4, 4]) (by decide)

example : getPotentialSnp [(([84, 65, 65, 71, 71, 84, 71, 65, 67] : List UInt8), [4, 4]),
    ([84, 65, 65, 71, 67, 84, 71, 65, 67], [4, 4])] = [4] := by decide

/-- the caller does not panic on that table -/
example : analyse 64 4 2 1 2 2 (buildGraph 64 exT).2
    (buildVariantGroups 64 4 (buildGraph 64 exT).1 [131, 228] [104, 177] 4) ≠ none :=
  (T17_analyse_no_panic 64 exT exT_k exT_w exT_keys [131, 228] [104, 177] 4 2 1 2 2).2
example := T17_lo_no_panic 64 exT exT_k exT_w exT_keys 4 2 1 2 2

/-- a complete run on that table from the entry node 228 = GTCA: one column "GC" -/
theorem exT_sg : (buildVariantGroups 64 4 (buildGraph 64 exT).1 [228] [104] 4).snpGroups =
    [((228, 104), [([71, 84, 67, 65, 71, 67, 84, 84, 65], [4, 4]), ([71, 84, 67, 65, 67, 67, 84, 84, 65], [4, 4])])] := by
  decide +kernel
theorem exT_ig : (buildVariantGroups 64 4 (buildGraph 64 exT).1 [228] [104] 4).indelGroups = [] := by
  decide +kernel
theorem exT_analyse : analyse 64 4 2 1 2 2 (buildGraph 64 exT).2
    (buildVariantGroups 64 4 (buildGraph 64 exT).1 [228] [104] 4) = some ([[71, 67]], []) := by
  have hnil : processIndels 64 4 2 1 2 (buildGraph 64 exT).2 [] = some ([], []) := by
    rw [LOP.processIndels_eq]
    simp [dereplicate]
  unfold analyse
  rw [exT_sg, exT_ig]
  simp only [hnil, List.map_cons, List.map_nil, List.mergeSort_singleton]
  decide +kernel

/-- `T17_pipeline_calls_real` on that run -/
example := T17_pipeline_calls_real 64 exT exT_k exT_w exT_keys [228] [104] 4 2 1 2 2 _ _ exT_analyse
/-- the entry G of sample 0: the sequence GTCAGCTTA has G at position 4, its 5-mer ending there is
GTCAG = 915, the reverse complement of CTGAC = the row (97, "KT") = CT?AC with the base G, which
sample 0 shows (K = G/T) -/
example : encodeKmer 64 ((([71, 84, 67, 65, 71, 67, 84, 84, 65] : List UInt8).drop (4 - 4)).take 5) = 915 := by decide
example : ShownInTable exT 915 0 :=
  ⟨(97, [75, 84]), by decide, [1, 2], [0, 1], by decide, by decide, by decide, by decide, by decide,
    71, by decide, Or.inr (by decide), by decide, by decide, by decide⟩

/-- the model does return `none` (a Rust panic) outside the pipeline: a missing colour … -/
example : groupSnps 64 1 4 1 2 [] [] exVs = none := by decide
/-- … or a second variant too short for the k-mer after the position (slice out of range) -/
example : groupSnps 64 1 4 1 2 exCol [] [([65, 67, 65], [1]), ([65, 71], [1])] = none := by decide

/-! ### what fails for arbitrary tables -/

def exPal : Arr :=
  { k := 5, rc := true, names := ["s", "t"], kmers := [30], variants := [[65, 84]], counts := [], kBits := 64 }
def exNonCanon : Arr :=
  { k := 5, rc := true, names := ["s", "t"], kmers := [1, 234], variants := [[65, 45], [45, 84]],
    counts := [], kBits := 64 }

/-- FINDING (palindromic row): the arms AC / GT are reverse complements of each other, so ACAGT and
ACTGT are reverse complements; with cells "A", "T" both k-mers get the sample set of the base seen
first (A: sample 0) and sample 1, which shows T, is in no colour set: the exact-set reading of item 2
fails without `key < rcKey key`.  (ska stores W/S in such rows, for which the sets coincide.) -/
example : (buildGraph 64 exPal).2 = [(78, [0]), (110, [0])] ∧
    rcKey 5 30 = 30 ∧ packL [0, 1, 2, 3, 2] = 110 ∧ C17.samplesOf [65, 84] 84 = [1] := by decide

/-- FINDING (non-canonical keys): rows AA?AC and GT?TT are reverse complements of each other; AAAAC
(sample 0, row 1) and GTTTT (sample 1, row 2) are the same k-mer on the two strands, the first
insertion wins and sample 1 is in no colour set -/
example : (buildGraph 64 exNonCanon).2 = [(1, [0]), (938, [0])] ∧
    rcKey 5 1 = 234 := by decide

end SkaModel.Props.C17Q
