/-
C18 — ska lo indel calls: genotyping and insert extraction of the modelled helpers.
First theorems; `T18_extract` / `T18_gt` are being added.
-/
import SkaModel.Impl.Skalo

namespace SkaModel.Props.C18

open SkaModel SkaModel.Skalo

/-- one genotype string per sample -/
theorem T18_calls_length (n : Nat) (i0 i1 : List UInt8) (s0 s1 : List Nat) :
    (indelCalls n i0 i1 s0 s1).2.2.length = n := by
  simp [indelCalls]

end SkaModel.Props.C18
