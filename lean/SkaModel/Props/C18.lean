/-
C18 — ska lo indel calls: genotyping and insert extraction of the modelled helpers
(`commonSuffixLen`, `extract_middle_bases`, the REF/ALT choice and genotype strings, the
missing / present statistics). Proofs: `SkaModel/Lemmas/LOSuffix.lean`, `LOIndel.lean`.
-/
import SkaModel.Impl.Skalo
import SkaModel.Lemmas.LOSuffix
import SkaModel.Lemmas.LOIndel

namespace SkaModel.Props.C18

open SkaModel SkaModel.Skalo

/-- one genotype string per sample -/
theorem T18_calls_length (n : Nat) (i0 i1 : List UInt8) (s0 s1 : List Nat) :
    (indelCalls n i0 i1 s0 s1).2.2.length = n := by
  simp [indelCalls]

/-! ### 7. `commonSuffixLen` is the length of the longest common suffix -/

theorem T18_suffix (seqs : List (List UInt8)) (hne : seqs ≠ []) :
    let n := commonSuffixLen seqs
    -- every sequence has at least n elements
    (∀ s ∈ seqs, n ≤ s.length) ∧
    -- all sequences share their last n elements
    (∀ s ∈ seqs, ∀ t ∈ seqs, s.drop (s.length - n) = t.drop (t.length - n)) ∧
    -- it stops because a sequence is exhausted, or the elements at distance n+1 from the end differ
    ((∃ s ∈ seqs, s.length = n) ∨
     (∃ s ∈ seqs, ∃ t ∈ seqs, n < s.length ∧ n < t.length ∧ s[s.length - 1 - n]? ≠ t[t.length - 1 - n]?)) :=
  LOS.suffix_spec seqs hne

/-- maximality: every common suffix length is at most `commonSuffixLen` -/
theorem T18_suffix_max (seqs : List (List UInt8)) (hne : seqs ≠ []) (m : Nat)
    (hlen : ∀ s ∈ seqs, m ≤ s.length)
    (hsuf : ∀ s ∈ seqs, ∀ t ∈ seqs, s.drop (s.length - m) = t.drop (t.length - m)) :
    m ≤ commonSuffixLen seqs :=
  LOS.suffix_max seqs hne m hlen hsuf

/-! ### 8. `extract_middle_bases` -/

/-- a stored insert: '-' (45) denotes the empty insert -/
abbrev insOf := LOS.insOf

theorem T18_extract (seqs : List (List UInt8)) (kGraph : Nat) (first : List UInt8) (hne : seqs ≠ [])
    (hfirst : ∀ s ∈ seqs, s.take kGraph = first)
    (hdash : ∀ s ∈ seqs, ∀ b ∈ s, b ≠ 45) :     -- e.g. A/C/G/T paths: a literal "-" insert cannot occur
    let n := commonSuffixLen (seqs.map (fun s => s.drop kGraph))
    let r := extractMiddleBases seqs kGraph
    r.1.length = seqs.length ∧
    -- general form (covers truncation): the tails share a suffix `suf` of length n,
    -- path i = first ++ insert_i ++ suf, and `last` is the first kGraph elements of `suf`
    (∃ suf : List UInt8, suf.length = n ∧ r.2 = suf.take kGraph ∧
       ∀ i (hi : i < seqs.length), ∃ m, r.1[i]? = some m ∧ seqs[i] = first ++ insOf m ++ suf) ∧
    -- no truncation: first_kmer ++ insert_i ++ last_kmer reconstructs path i
    (n ≤ kGraph → r.2.length = n ∧
       ∀ i (hi : i < seqs.length), ∃ m, r.1[i]? = some m ∧ seqs[i] = first ++ insOf m ++ r.2) ∧
    -- truncation: `last` is only the first kGraph elements of the common suffix
    (kGraph < n → r.2.length = kGraph) ∧
    -- different paths have different inserts (in both cases)
    (∀ i j (hi : i < seqs.length) (hj : j < seqs.length), seqs[i] ≠ seqs[j] →
       r.1[i]? ≠ r.1[j]? ∧ (r.1[i]?).map insOf ≠ (r.1[j]?).map insOf) :=
  LOS.extract_spec seqs kGraph first hne hfirst hdash

/-! ### 9. genotypes and statistics -/

/-- REF is the set with more distinct samples (ties: the first); alleles and genotype strings -/
theorem T18_gt_general (n : Nat) (ins0 ins1 : List UInt8) (set0 set1 : List Nat) :
    let swap := set0.eraseDups.length < set1.eraseDups.length
    let refS := if swap then set1 else set0
    let altS := if swap then set0 else set1
    let r := indelCalls n ins0 ins1 set0 set1
    r.1 = (if swap then ins1 else ins0) ∧ r.2.1 = (if swap then ins0 else ins1) ∧
    r.2.2.length = n ∧
    ∀ i, i < n → ∃ g, r.2.2[i]? = some g ∧
      (g = "0" ↔ i ∈ refS ∧ i ∉ altS) ∧ (g = "1" ↔ i ∉ refS ∧ i ∈ altS) ∧
      (g = "0/1" ↔ i ∈ refS ∧ i ∈ altS) ∧ (g = "." ↔ i ∉ refS ∧ i ∉ altS) :=
  LO.indelCalls_spec n ins0 ins1 set0 set1

/-- with duplicate-free sample sets: REF is the larger set (ties: the first) -/
theorem T18_gt (n : Nat) (ins0 ins1 : List UInt8) (set0 set1 : List Nat)
    (h0 : set0.Nodup) (h1 : set1.Nodup) :
    let swap := set0.length < set1.length
    let refS := if swap then set1 else set0
    let altS := if swap then set0 else set1
    let r := indelCalls n ins0 ins1 set0 set1
    -- REF / ALT alleles are the corresponding inserts
    r.1 = (if swap then ins1 else ins0) ∧ r.2.1 = (if swap then ins0 else ins1) ∧
    r.2.2.length = n ∧
    ∀ i, i < n → ∃ g, r.2.2[i]? = some g ∧
      (g = "0" ↔ i ∈ refS ∧ i ∉ altS) ∧ (g = "1" ↔ i ∉ refS ∧ i ∈ altS) ∧
      (g = "0/1" ↔ i ∈ refS ∧ i ∈ altS) ∧ (g = "." ↔ i ∉ refS ∧ i ∉ altS) := by
  have h := LO.indelCalls_spec n ins0 ins1 set0 set1
  rw [LO.eraseDups_of_nodup set0 h0, LO.eraseDups_of_nodup set1 h1] at h
  exact h

/-- (missing incl. heterozygous, REF-only sample exists, ALT-only sample exists) for set 0 / set 1 -/
theorem T18_stats (n : Nat) (set0 set1 : List Nat) :
    let r := indelStats n set0 set1
    r.1 = ((List.range n).filter
      (fun i => decide ((i ∈ set0 ∧ i ∈ set1) ∨ (i ∉ set0 ∧ i ∉ set1)))).length ∧
    (r.2.1 = true ↔ ∃ i, i < n ∧ i ∈ set0 ∧ i ∉ set1) ∧
    (r.2.2 = true ↔ ∃ i, i < n ∧ i ∉ set0 ∧ i ∈ set1) :=
  LO.indelStats_spec n set0 set1

/-! ### non-vacuity -/

example : commonSuffixLen [[65, 67, 71], [84, 67, 71]] = 2 := by decide
example : commonSuffixLen [[65, 67, 71], [67, 71]] = 2 := by decide
example : extractMiddleBases [[65, 67, 65, 67], [65, 67, 84, 84, 65, 67]] 2 = ([[45], [84, 84]], [65, 67]) := by
  decide
-- truncation: the tails share 3 > kGraph = 2 elements, `last` keeps the first two of them
example : extractMiddleBases [[65, 67, 71, 84, 65, 67], [65, 67, 84, 84, 65, 67]] 2 = ([[71], [84]], [84, 65]) := by
  decide
-- the `hdash` hypothesis is needed: a literal '-' insert collides with the empty-insert marker
example : (extractMiddleBases [[65, 67, 45, 71], [65, 67, 71]] 2).1 = [[45], [45]] := by decide
example : indelCalls 4 [65] [45] [0] [1, 2] = ([45], [65], ["1", "0", "0", "."]) := by decide
example : indelCalls 3 [65] [45] [0, 1] [1, 2] = ([65], [45], ["0", "0/1", "1"]) := by decide
example : indelStats 5 [0, 1] [1, 2] = (3, true, true) := by decide
example : indelStats 2 [0, 1] [] = (0, true, false) := by decide

end SkaModel.Props.C18
