/-
C01 — `ska build` yields exactly the split k-mers of the input, IUPAC-merged per
k-mer: the iterator reports the specification's observations (`T01_iter`), the
dictionary loop never reaches its `panic!` and stores for every key the letter
of the union of the observed base sets (`T01_dict_lookup`), and the result of
`buildDict` is the specification's dictionary (`T01_build`, `T01_build_eq_spec`).
-/
import SkaModel.Impl.SkaDict
import SkaModel.Spec.Dict
import SkaModel.Props.C01Iter
import SkaModel.Props.C16Roll
import SkaModel.Lemmas.Assoc
import SkaModel.Lemmas.PackInj
import SkaModel.Lemmas.DictFold

namespace SkaModel.Props.C01

open SkaModel SkaModel.Spec SkaModel.Props.C16

/-! ### 1. the iterator on a FASTA record -/

/-- the configuration `add_file_kmers` uses for a FASTA record -/
abbrev fastaConf (W k : Nat) (rc : Bool) (r : Array UInt8) : SKConf :=
  { W := W, k := k, rc := rc, seq := r }

theorem fasta_okAt (W k : Nat) (rc : Bool) (r : Array UInt8) :
    (fastaConf W k rc r).okAt = fun p => validBase (r.getD p 0) := by
  funext p
  unfold SKConf.okAt
  show (validBase (r.getD p 0) && (QualFilter.noFilter != QualFilter.strict || _)) = _
  have : (QualFilter.noFilter != QualFilter.strict) = true := by decide
  rw [this, Bool.true_or, Bool.and_true]

theorem fasta_windows (W k : Nat) (rc : Bool) (r : Array UInt8) :
    windowsBy k (fastaConf W k rc r).seqLen (fastaConf W k rc r).okAt = windows k r := by
  rw [fasta_okAt]; rfl

/-- **T01_iter.** On a FASTA record the iterator goes through exactly the valid
windows, in order, and reports for each the specification's observation, middle
position and palindrome flag. -/
theorem T01_iter (W k : Nat) (rc : Bool) (hk : ValidK k) (hw : WidthOk W k) (r : Array UInt8) :
    let c : SKConf := { W := W, k := k, rc := rc, seq := r }
    c.states.map (fun s => (c.currKmer s, c.middlePos s, c.selfPalindrome s))
      = (windows k r).map (fun j => (obs k rc r j, j + halfK k, isPalin k rc r j)) := by
  intro c
  have hk0 : 0 < k := by unfold ValidK at hk; omega
  have hobs := T16_states_obs c hk hw
  have hidx := T01_states_index c hk0
  have hwin : windowsBy c.k c.seqLen c.okAt = windows k r := fasta_windows W k rc r
  rw [hwin] at hidx
  have h1 : c.states.map (fun s => (c.currKmer s, c.middlePos s, c.selfPalindrome s))
      = (c.states.map (·.index)).map
          (fun i => (obs k rc r (i + 1 - k), i + 1 - k + halfK k, isPalin k rc r (i + 1 - k))) := by
    rw [List.map_map]
    apply List.map_congr_left
    intro s hs
    obtain ⟨e1, e2, e3⟩ := hobs s hs
    simp only [Function.comp]
    rw [e1, e2, e3]
  rw [h1, hidx, List.map_map]
  apply List.map_congr_left
  intro j _
  simp only [Function.comp]
  have hj : j + c.k - 1 + 1 - k = j := by show j + k - 1 + 1 - k = j; omega
  rw [hj]

/-! ### 2. the palindrome flag is a function of the key -/

/-- **palin_of_key.** Two windows (of any two records) with the same canonical
key are both palindromic or both not. -/
theorem palin_of_key (k : Nat) (rc : Bool) (r r' : Array UInt8) (j j' : Nat)
    (hkey : (obs k rc r j).1 = (obs k rc r' j').1) :
    isPalin k rc r j = isPalin k rc r' j' := by
  rw [Bool.eq_iff_iff]
  exact ⟨palin_of_key_aux k rc r r' j j' hkey, palin_of_key_aux k rc r' r j' j hkey.symm⟩

/-! ### 3. the dictionary loop -/

/-- the stream of `(key, middle base, palindrome flag)` the records give rise to -/
def obsT (k : Nat) (rc : Bool) (recs : List (Array UInt8)) : List (Nat × Nat × Bool) :=
  recs.flatMap (fun r => (windows k r).map
    (fun j => ((obs k rc r j).1, (obs k rc r j).2.1, isPalin k rc r j)))

theorem observations_eq (k : Nat) (rc : Bool) (recs : List (Array UInt8)) :
    observations k rc recs = (obsT k rc recs).map maskO := by
  unfold observations obsT
  rw [List.map_flatMap]
  congr 1
  funext r
  rw [List.map_map]
  rfl

theorem addState_eq (c : SKConf) (d : Assoc Nat UInt8) (s : SKState) :
    addState c d s = stepO d ((c.currKmer s).1, (c.currKmer s).2.1, c.selfPalindrome s) := rfl

theorem addStates_eq (c : SKConf) (d : Assoc Nat UInt8) (ss : List SKState) :
    addStates c d ss
      = foldO d (ss.map (fun s => ((c.currKmer s).1, (c.currKmer s).2.1, c.selfPalindrome s))) := by
  induction ss generalizing d with
  | nil => rfl
  | cons s ss ih =>
    simp only [addStates, List.map_cons, foldO]
    rw [addState_eq]
    cases stepO d ((c.currKmer s).1, (c.currKmer s).2.1, c.selfPalindrome s) with
    | none => rfl
    | some d' => exact ih d'

theorem addRecords_eq (W k : Nat) (rc : Bool) (hk : ValidK k) (hw : WidthOk W k)
    (d : Assoc Nat UInt8) (recs : List (Array UInt8)) :
    addRecords W k rc d recs = foldO d (obsT k rc recs) := by
  induction recs generalizing d with
  | nil => rfl
  | cons r rs ih =>
    have hiter := T01_iter W k rc hk hw r
    simp only at hiter
    have hmap : (fastaConf W k rc r).states.map
          (fun s => (((fastaConf W k rc r).currKmer s).1, ((fastaConf W k rc r).currKmer s).2.1,
            (fastaConf W k rc r).selfPalindrome s))
        = (windows k r).map (fun j => ((obs k rc r j).1, (obs k rc r j).2.1, isPalin k rc r j)) := by
      have := congrArg (List.map (fun t : (Nat × Nat × Bool) × Nat × Bool => (t.1.1, t.1.2.1, t.2.2))) hiter
      rw [List.map_map, List.map_map] at this
      exact this
    unfold obsT
    rw [List.flatMap_cons, foldO_append]
    show (match addStates (fastaConf W k rc r) d (fastaConf W k rc r).states with
          | none => none
          | some d' => addRecords W k rc d' rs) = _
    rw [addStates_eq, hmap]
    cases foldO d ((windows k r).map
        (fun j => ((obs k rc r j).1, (obs k rc r j).2.1, isPalin k rc r j))) with
    | none => rfl
    | some d' => exact ih d'

/-- "some palindromic window has this key" -/
def PalinKey (k : Nat) (rc : Bool) (key : Nat) : Prop :=
  ∃ (r : Array UInt8) (j : Nat), (obs k rc r j).1 = key ∧ isPalin k rc r j = true

theorem obs_base_lt (k : Nat) (rc : Bool) (r : Array UInt8) (j : Nat) : (obs k rc r j).2.1 < 4 := by
  unfold obs
  simp only
  have hm : midAt k r j < 4 := by unfold midAt; exact code_lt _
  split
  · exact xor2_lt hm
  · exact hm

theorem obsT_wf (k : Nat) (rc : Bool) (recs : List (Array UInt8)) :
    WF (PalinKey k rc) (obsT k rc recs) := by
  intro o ho
  unfold obsT at ho
  obtain ⟨r, _, ho⟩ := List.mem_flatMap.1 ho
  obtain ⟨j, _, rfl⟩ := List.mem_map.1 ho
  refine ⟨obs_base_lt k rc r j, ?_⟩
  constructor
  · intro h; exact ⟨r, j, rfl, h⟩
  · rintro ⟨r', j', hkey, hp⟩
    show isPalin k rc r j = true
    rw [← palin_of_key k rc r' r j' j hkey]; exact hp

/-- **T01_dict_lookup.** The record loop never reaches the `panic!` of
`add_palindrome_to_dict`; the dictionary it returns has distinct keys and holds,
for every key, the IUPAC letter of the set of middle bases the specification
collects for that key (and nothing for keys that do not occur). -/
theorem T01_dict_lookup (W k : Nat) (rc : Bool) (hk : ValidK k) (hw : WidthOk W k)
    (recs : List (Array UInt8)) :
    ∃ d, addRecords W k rc [] recs = some d ∧ (d.map (·.1)).Nodup ∧
      ∀ key, Assoc.lookup d key
        = (if maskFor k rc recs key = 0 then none
           else some (letterOfMask (maskFor k rc recs key))) := by
  obtain ⟨d, hd, hnd, hl⟩ := foldO_inv (P := PalinKey k rc) (obsT k rc recs) [] []
    (by rw [List.nil_append]; exact obsT_wf k rc recs) DictInv.nil
  refine ⟨d, ?_, hnd, ?_⟩
  · rw [addRecords_eq W k rc hk hw]; exact hd
  · intro key
    unfold maskFor
    rw [observations_eq]
    exact hl key

/-! ### 4. the result of `buildDict` -/

theorem observations_mask_ne_zero (k : Nat) (rc : Bool) (recs : List (Array UInt8)) :
    ∀ o ∈ observations k rc recs, o.2 ≠ 0 := by
  intro o ho
  rw [observations_eq] at ho
  obtain ⟨t, ht, rfl⟩ := List.mem_map.1 ho
  exact maskO_ne_zero (obsT_wf k rc recs t ht).1

/-- a key occurs among the observations iff its base set is not empty -/
theorem maskFor_ne_zero_iff (k : Nat) (rc : Bool) (recs : List (Array UInt8)) (key : Nat) :
    maskFor k rc recs key ≠ 0 ↔ ∃ o ∈ observations k rc recs, o.1 = key := by
  unfold maskFor
  constructor
  · intro h
    apply Classical.byContradiction
    intro hn
    apply h
    apply maskOf_eq_zero_of_not_mem
    intro o ho he
    exact hn ⟨o, ho, he⟩
  · rintro ⟨o, ho, rfl⟩
    exact maskOf_ne_zero_of_mem ho (observations_mask_ne_zero k rc recs o ho)

theorem dict_nil_iff (k : Nat) (rc : Bool) (recs : List (Array UInt8)) (d : Assoc Nat UInt8)
    (hl : ∀ key, Assoc.lookup d key
        = (if maskFor k rc recs key = 0 then none
           else some (letterOfMask (maskFor k rc recs key)))) :
    d = [] ↔ observations k rc recs = [] := by
  constructor
  · intro hd
    cases hobs : observations k rc recs with
    | nil => rfl
    | cons o os =>
      exfalso
      have hne : maskFor k rc recs o.1 ≠ 0 :=
        (maskFor_ne_zero_iff k rc recs o.1).2 ⟨o, by rw [hobs]; exact List.mem_cons_self, rfl⟩
      have := hl o.1
      rw [if_neg hne, hd] at this
      cases this
  · intro hobs
    apply Assoc.eq_nil_of_lookup_none
    intro key
    rw [hl key]
    have : maskFor k rc recs key = 0 := by unfold maskFor; rw [hobs]; rfl
    rw [if_pos this]

/-- **T01_build.** `buildDict` never panics; it reports "no valid sequence"
exactly when there is no window; otherwise it returns a list whose entries are
exactly the keys that occur, each with the letter of its base set. -/
theorem T01_build (W k : Nat) (rc : Bool) (hk : ValidK k) (hw : WidthOk W k)
    (recs : List (Array UInt8)) :
    (buildDict W k rc recs = .noValid ↔ observations k rc recs = []) ∧
    buildDict W k rc recs ≠ .panicked ∧
    (observations k rc recs ≠ [] →
      ∃ d, buildDict W k rc recs = .dict d ∧
        ∀ key letter, (key, letter) ∈ d ↔
          (maskFor k rc recs key ≠ 0 ∧ letter = letterOfMask (maskFor k rc recs key))) := by
  obtain ⟨d, hd, hnd, hl⟩ := T01_dict_lookup W k rc hk hw recs
  have hnil := dict_nil_iff k rc recs d hl
  unfold buildDict
  rw [hd]
  cases d with
  | nil =>
    have hobs := hnil.1 rfl
    refine ⟨⟨fun _ => hobs, fun _ => rfl⟩, by simp, fun h => absurd hobs h⟩
  | cons p rest =>
    have hobs : observations k rc recs ≠ [] := fun h => by cases hnil.2 h
    refine ⟨⟨fun h => (by cases h), fun h => absurd h hobs⟩, by simp, fun _ => ?_⟩
    refine ⟨_, rfl, ?_⟩
    intro key letter
    rw [mem_sortByKey, Assoc.mem_iff_lookup _ hnd, hl key]
    by_cases h0 : maskFor k rc recs key = 0
    · rw [if_pos h0]
      constructor
      · intro h; cases h
      · intro h; exact absurd h0 h.1
    · rw [if_neg h0]
      constructor
      · intro h
        have : letterOfMask (maskFor k rc recs key) = letter := by simpa using h
        exact ⟨h0, this.symm⟩
      · intro h; rw [h.2]

/-! ### 5. equality with the specification's dictionary -/

/-- **T01_build_eq_spec.** The result of `buildDict` *is* the specification's
dictionary (a key-sorted list), or "no valid sequence" when there is no window. -/
theorem T01_build_eq_spec (W k : Nat) (rc : Bool) (hk : ValidK k) (hw : WidthOk W k)
    (recs : List (Array UInt8)) :
    buildDict W k rc recs
      = (if observations k rc recs = [] then .noValid else .dict (specDict k rc recs)) := by
  obtain ⟨d, hd, hnd, hl⟩ := T01_dict_lookup W k rc hk hw recs
  have hnil := dict_nil_iff k rc recs d hl
  by_cases hobs : observations k rc recs = []
  · rw [if_pos hobs]
    unfold buildDict
    rw [hd, hnil.2 hobs]
  · rw [if_neg hobs]
    have hdne : d ≠ [] := fun h => hobs (hnil.1 h)
    have hb : buildDict W k rc recs = .dict (sortByKey (·.1) d) := by
      unfold buildDict
      rw [hd]
      cases d with
      | nil => exact absurd rfl hdne
      | cons p rest => rfl
    rw [hb]
    congr 1
    unfold specDict
    simp only
    apply sortByKey_perm _ _ hnd
    have hnd2 : ((distinctKeys (observations k rc recs)).map
        (fun key => (key, letterOfMask (maskOf (observations k rc recs) key)))).Nodup := by
      apply nodup_of_map (·.1)
      rw [List.map_map]
      have : ((fun x : Nat × UInt8 => x.1) ∘
          fun key => (key, letterOfMask (maskOf (observations k rc recs) key))) = id := rfl
      rw [this, List.map_id]
      exact distinctKeys_nodup _
    rw [List.perm_ext_iff_of_nodup (nodup_of_map _ hnd) hnd2]
    rintro ⟨key, letter⟩
    rw [Assoc.mem_iff_lookup _ hnd, hl key, List.mem_map]
    constructor
    · intro h
      by_cases h0 : maskFor k rc recs key = 0
      · rw [if_pos h0] at h; cases h
      · rw [if_neg h0] at h
        have hlet : letterOfMask (maskFor k rc recs key) = letter := by simpa using h
        refine ⟨key, ?_, ?_⟩
        · rw [mem_distinctKeys]; exact (maskFor_ne_zero_iff k rc recs key).1 h0
        · rw [← hlet]; rfl
    · rintro ⟨key', hmem, he⟩
      rw [Prod.mk.injEq] at he
      obtain ⟨rfl, hlet⟩ := he
      rw [mem_distinctKeys] at hmem
      have h0 := (maskFor_ne_zero_iff k rc recs key').2 hmem
      rw [if_neg h0, ← hlet]; rfl

end SkaModel.Props.C01
