/-
The file list (`-f`) is read back as written: `Impl/FileList.lean` (model of
`get_input_list` / `read_name_list`, tied to the code by the `filelist`
operation).  Statements only; helper lemmas in `Lemmas/FileListLemmas.lean`.
-/
import SkaModel.Lemmas.FileListLemmas
namespace SkaModel.Props.C03FileList
open SkaModel.FileList SkaModel.FileListLemmas

/-- a usable field: non-empty, no white space (white space includes '\n' and '\r') -/
def Field (f : List Char) : Prop := f ≠ [] ∧ ∀ c ∈ f, isWs c = false

/-- a separator: non-empty white space without a line break -/
def Sep (s : List Char) : Prop := s ≠ [] ∧ (∀ c ∈ s, isWs c = true) ∧ '\n' ∉ s

/-- optional padding: white space without a line break -/
def Pad (s : List Char) : Prop := (∀ c ∈ s, isWs c = true) ∧ '\n' ∉ s

def EntryOK (e : Entry) : Prop := Field e.1 ∧ Field e.2.1 ∧ (∀ c, e.2.2 = some c → Field c)

/-- the usual rendering: tab-separated fields, one line per entry -/
def renderEntry (e : Entry) : List Char :=
  e.1 ++ '\t' :: e.2.1 ++ (match e.2.2 with | none => [] | some c => '\t' :: c)

def render (es : List Entry) : List Char := es.flatMap (fun e => renderEntry e ++ ['\n'])

/-- `split_whitespace`, compositional: a field followed by white space is the next piece -/
theorem T03_split_field (f s rest : List Char) (hf : Field f) (hs : s ≠ [] ∧ ∀ c ∈ s, isWs c = true) :
    splitWs (f ++ s ++ rest) = f :: splitWs rest := by
  exact splitWs_field f s rest hf.1 hf.2 hs.1 hs.2

/-- leading white space is dropped -/
theorem T03_split_pad (p rest : List Char) (hp : ∀ c ∈ p, isWs c = true) :
    splitWs (p ++ rest) = splitWs rest := by
  exact splitWsGo_ws_nil p rest hp

/-- a last field, with or without trailing white space -/
theorem T03_split_last (f q : List Char) (hf : Field f) (hq : ∀ c ∈ q, isWs c = true) :
    splitWs (f ++ q) = [f] := by
  exact splitWs_last f q hf.1 hf.2 hq

/-- a written list is read back exactly (also with CRLF line ends: `renderCr`) -/
theorem T03_filelist_roundtrip (es : List Entry) (h : ∀ e ∈ es, EntryOK e) :
    parseList (render es) = some es := by
  induction es with
  | nil => rfl
  | cons e es ih =>
    obtain ⟨a, b, c⟩ := e
    have he : EntryOK (a, b, c) := h _ (by simp)
    have hes : ∀ x ∈ es, EntryOK x := fun x hx => h x (by simp [hx])
    have hre : renderEntry (a, b, c) = entryLine a b c := by cases c <;> rfl
    have hr : render ((a, b, c) :: es) = entryLine a b c ++ '\n' :: render es := by
      simp [render, hre]
    rw [hr]
    apply parseList_line _ _ _ _ (entryLine_nonl a b c he.1 he.2.1 he.2.2) _ (ih hes)
    have := parseLine_entryLine a b c [] he.1 he.2.1 he.2.2 (by simp)
    simpa using this

def renderCr (es : List Entry) : List Char := es.flatMap (fun e => renderEntry e ++ ['\r', '\n'])

theorem T03_filelist_roundtrip_crlf (es : List Entry) (h : ∀ e ∈ es, EntryOK e) :
    parseList (renderCr es) = some es := by
  induction es with
  | nil => rfl
  | cons e es ih =>
    obtain ⟨a, b, c⟩ := e
    have he : EntryOK (a, b, c) := h _ (by simp)
    have hes : ∀ x ∈ es, EntryOK x := fun x hx => h x (by simp [hx])
    have hre : renderEntry (a, b, c) = entryLine a b c := by cases c <;> rfl
    have hr : renderCr ((a, b, c) :: es) = (entryLine a b c ++ ['\r']) ++ '\n' :: renderCr es := by
      simp [renderCr, hre]
    rw [hr]
    have hcr : ∀ x ∈ ['\r'], isWs x = true := by
      intro x hx
      simp at hx
      subst hx; exact isWs_cr
    have hnl : '\n' ∉ entryLine a b c ++ ['\r'] := by
      have := entryLine_nonl a b c he.1 he.2.1 he.2.2
      have hne : '\n' ≠ '\r' := by decide
      simp [this, hne]
    exact parseList_line _ _ _ _ hnl (parseLine_entryLine a b c ['\r'] he.1 he.2.1 he.2.2 hcr) (ih hes)

/-- a missing final line break changes nothing -/
theorem T03_filelist_no_final_newline (es : List Entry) (e : Entry) (h : ∀ x ∈ es, EntryOK x) (he : EntryOK e) :
    parseList (render es ++ renderEntry e) = some (es ++ [e]) := by
  induction es with
  | nil =>
    obtain ⟨a, b, c⟩ := e
    have hre : renderEntry (a, b, c) = entryLine a b c := by cases c <;> rfl
    have hr : render [] ++ renderEntry (a, b, c) = entryLine a b c := by
      simp [render, hre]
    rw [hr]
    apply parseList_last _ _ (entryLine_ne_nil a b c) (entryLine_nonl a b c he.1 he.2.1 he.2.2)
    have := parseLine_entryLine a b c [] he.1 he.2.1 he.2.2 (by simp)
    simpa using this
  | cons e' es ih =>
    obtain ⟨a, b, c⟩ := e'
    have he' : EntryOK (a, b, c) := h _ (by simp)
    have hes : ∀ x ∈ es, EntryOK x := fun x hx => h x (by simp [hx])
    have hre : renderEntry (a, b, c) = entryLine a b c := by cases c <;> rfl
    have hr : render ((a, b, c) :: es) ++ renderEntry e
        = entryLine a b c ++ '\n' :: (render es ++ renderEntry e) := by
      simp [render, hre]
    rw [hr]
    apply parseList_line _ _ _ _ (entryLine_nonl a b c he'.1 he'.2.1 he'.2.2) _ (ih hes)
    have := parseLine_entryLine a b c [] he'.1 he'.2.1 he'.2.2 (by simp)
    simpa using this

/-- a blank line anywhere is the `panic!`: the whole list is refused, never silently shortened -/
theorem T03_filelist_blank_line (a b : List Char) (pad : List Char) (hp : Pad pad) (ha : a = [] ∨ a.getLast? = some '\n') :
    parseList (a ++ pad ++ '\n' :: b) = none := by
  exact parseList_blank a b pad hp.1 hp.2 ha

/-- names file of `ska delete`: the first field of every line, blank lines skipped -/
theorem T03_namelist (es : List Entry) (h : ∀ e ∈ es, EntryOK e) :
    nameList (render es) = es.map (·.1) := by
  induction es with
  | nil => rfl
  | cons e es ih =>
    obtain ⟨a, b, c⟩ := e
    have he : EntryOK (a, b, c) := h _ (by simp)
    have hes : ∀ x ∈ es, EntryOK x := fun x hx => h x (by simp [hx])
    have hre : renderEntry (a, b, c) = entryLine a b c := by cases c <;> rfl
    have hr : render ((a, b, c) :: es) = entryLine a b c ++ '\n' :: render es := by
      simp [render, hre]
    rw [hr, nameList_line _ _ a (entryLine_nonl a b c he.1 he.2.1 he.2.2)
      (head_entryLine a b c he.1 he.2.1 he.2.2), ih hes]
    rfl

example : parseList "s1\ta.fa\ns2\tr_1.fq.gz\tr_2.fq.gz\n".toList
    = some [("s1".toList, "a.fa".toList, none), ("s2".toList, "r_1.fq.gz".toList, some "r_2.fq.gz".toList)] := by
  decide

end SkaModel.Props.C03FileList
