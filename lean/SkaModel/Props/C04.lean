/-
C04 — Mapped alignment equals the union of matched k-mer windows on the reference.
First theorems; the writer refinement (`T04_writer`) is being added.
-/
import SkaModel.Impl.RefSka
import SkaModel.Spec.MapSpec

namespace SkaModel.Props.C04

open SkaModel SkaModel.Spec

/-- the output of the writer is exactly as long as the concatenated reference -/
theorem copyRef_size (out contig : Array UInt8) (off start stop : Nat) :
    (AlnWriter.copyRef out contig off start stop).size = out.size := by
  unfold AlnWriter.copyRef
  generalize List.range (stop - start) = l
  induction l generalizing out with
  | nil => rfl
  | cons t l ih => simp only [List.foldl_cons]; rw [ih]; simp

theorem T04_new_size (ref : List (Array UInt8)) (k : Nat) :
    (AlnWriter.new ref k).seqOut.size = (ref.map (·.size)).foldl (· + ·) 0 := by
  simp [AlnWriter.new]

end SkaModel.Props.C04
