/-
C12 — Read filtering keeps exactly the k-mers seen min-count times at passing quality.

Level of these theorems: the count filter (`KmerFilter`) driven by the sequence of hash
values, and the dictionary fold over the abstract observation stream
`(hash, kmer, base, palin)`; `addReadState` / `addRead` / `buildReads` are shown to be exactly
that fold over the quality-passing iterator states (`T12_buildReads`). Not done here: the
identification of that stream with `Spec.readObservations` (iterator theory, C01/C02).

Summary
* `bloom_no_false_negative` — Bloom bits are only ever set.
* `filter_count_semantics`  — under `NoFP` (no Bloom false positive among the observed hashes)
  the `i`-th observation passes iff `passSpec minCount (occ hs i)`.
* `T12_exact_filter`        — under `NoFP`, a hash passes iff it occurs `≥ max 1 minCount` times.
* `T12_nofn_filter`         — without `NoFP`: a hash occurring `≥ minCount` times passes.
* `hash_collision_loses_kmer` — but a *k-mer* can be lost when another k-mer shares its hash.
* `T12_dict`, `T12_buildReads` — dictionary level.

Findings recorded as theorems: `minCount_65535_passes_repeatedly`, `minCount_above_u16_never`,
`stale_counts_lose`, `hash_collision_loses_kmer`.
-/
import SkaModel.Impl.Reads
import SkaModel.Spec.ReadsSpec
import SkaModel.Lemmas.KFDict

namespace SkaModel.Props.C12

open SkaModel SkaModel.KF

/-- with `--min-count` 0 or 1 the count filter passes every observation and keeps no state -/
theorem T12_mincount_one (f : KmerFilter) (h : f.minCount ≤ 1) (hash : Nat) :
    (f.filter hash).2 = true := by
  simp [KmerFilter.filter, h]

/-- the Bloom step never reports "seen" without the fingerprint bits being set, and once
added a key is reported as seen -/
theorem T12_bloom_second (f : KmerFilter) (key : Nat) :
    ((f.bloomAddAndCheck key).1.bloomAddAndCheck key).2 = true := by
  unfold KmerFilter.bloomAddAndCheck
  by_cases h : (f.buffer.getD (KmerFilter.location key) 0 &&& KmerFilter.fingerprint key == KmerFilter.fingerprint key) = true
  · simp [h]
  · simp only [h, Bool.false_eq_true, ↓reduceIte]
    have : ((f.buffer.getD (KmerFilter.location key) 0 ||| KmerFilter.fingerprint key) &&& KmerFilter.fingerprint key)
        = KmerFilter.fingerprint key := by
      apply Nat.eq_of_testBit_eq
      intro i
      simp only [Nat.testBit_and, Nat.testBit_or]
      cases (f.buffer.getD (KmerFilter.location key) 0).testBit i <;> cases (KmerFilter.fingerprint key).testBit i <;> rfl
    simp [this]

/-! ## 1. Bloom layer -/

/-- the check reports exactly the invariant `BloomHas` -/
theorem bloom_check_iff (f : KmerFilter) (key : Nat) :
    (f.bloomAddAndCheck key).2 = true ↔ BloomHas f key := bloom_snd_true f key

/-- `bloomAddAndCheck key` establishes `BloomHas · key` -/
theorem bloomHas_established (f : KmerFilter) (key : Nat) :
    BloomHas (f.bloomAddAndCheck key).1 key := bloomHas_establish f key

/-- `bloomAddAndCheck key'` preserves `BloomHas · key`, for every `key'` -/
theorem bloomHas_preserved_bloom (f : KmerFilter) (key key' : Nat) (h : BloomHas f key) :
    BloomHas (f.bloomAddAndCheck key').1 key := bloomHas_bloom f key key' h

/-- `filter h` preserves `BloomHas · key`, for every `h` (and every `minCount`) -/
theorem bloomHas_preserved_filter (f : KmerFilter) (key h : Nat) (hk : BloomHas f key) :
    BloomHas (f.filter h).1 key := bloomHas_filter f key h hk

/-- Bloom words only grow: any bit pattern `w` contained in a word stays contained -/
theorem bloom_words_grow (f : KmerFilter) (key loc w : Nat)
    (h : f.buffer.getD loc 0 &&& w = w) :
    (f.bloomAddAndCheck key).1.buffer.getD loc 0 &&& w = w := bloom_buffer_mono f key loc w h

/-- **No Bloom false negative**: once `bloomAddAndCheck key` has been executed, every later
`bloomAddAndCheck key`, after any sequence `ops` of Bloom steps and `filter` calls, is `true` -/
theorem bloom_no_false_negative (f : KmerFilter) (key : Nat) (ops : List Op) :
    ((applyOps (f.bloomAddAndCheck key).1 ops).bloomAddAndCheck key).2 = true :=
  KF.bloom_no_false_negative f key ops

/-! ## 2. Exact semantics under `NoFP` -/

/-- `NoFP m hs` says: for every prefix of `hs`, the Bloom check of the next hash, in the
state the fresh filter reaches after that prefix, reports "seen" only if the hash occurs in
the prefix -/
theorem NoFP_iff (m : Nat) (hs : List Nat) :
    NoFP m hs ↔
      ∀ i (hi : i < hs.length),
        ((runFilter { minCount := m } (hs.take i)).1.bloomAddAndCheck hs[i]).2 = true →
          hs[i] ∈ hs.take i := noFP_iff_prefix m hs

/-- `occ hs i` counts the earlier occurrences of `hs[i]` -/
theorem occ_eq (hs : List Nat) (i : Nat) (hi : i < hs.length) :
    occ hs i = (hs.take i).count hs[i] := by
  simp [occ, List.getElem?_eq_getElem hi]

/-- **Count semantics** (fresh filter, `NoFP`): observation `i` passes iff
`passSpec minCount (occ hs i)`, where `passSpec m n` is `true` for `m ≤ 1`, `1 ≤ n` for
`m = 2`, and `min (n+1) 65535 = m` for `m ≥ 3`. -/
theorem filter_count_semantics (m : Nat) (hs : List Nat) (hfp : NoFP m hs)
    (i : Nat) (hi : i < hs.length) :
    (runFilter { minCount := m } hs).2[i]'(by simpa using hi) = passSpec m (occ hs i) := by
  have h1 : (runFilter { minCount := m } hs).2[i]? = some (passSpec m (occ hs i)) := by
    rw [runFilter_fresh m hs hfp, specRun_nil_getElem?, List.getElem?_eq_getElem hi]
    rfl
  exact (List.getElem?_eq_some_iff.1 h1).2

/-- `minCount ≤ 1`: always passes (no hypothesis needed) -/
theorem filter_count_semantics_le_one (m : Nat) (hm : m ≤ 1) (hs : List Nat) (hfp : NoFP m hs)
    (i : Nat) (hi : i < hs.length) :
    (runFilter { minCount := m } hs).2[i]'(by simpa using hi) = true := by
  rw [filter_count_semantics m hs hfp i hi, passSpec_le_one m _ hm]

/-- `minCount = 2`: passes iff the hash occurred before -/
theorem filter_count_semantics_two (hs : List Nat) (hfp : NoFP 2 hs)
    (i : Nat) (hi : i < hs.length) :
    (runFilter { minCount := 2 } hs).2[i]'(by simpa using hi) = decide (1 ≤ occ hs i) := by
  rw [filter_count_semantics 2 hs hfp i hi, passSpec_two]

/-- `3 ≤ minCount < 65535`: passes iff it is exactly the `minCount`-th occurrence -/
theorem filter_count_semantics_ge_three (m : Nat) (h3 : 3 ≤ m) (hm : m < 65535)
    (hs : List Nat) (hfp : NoFP m hs) (i : Nat) (hi : i < hs.length) :
    (runFilter { minCount := m } hs).2[i]'(by simpa using hi) = decide (occ hs i + 1 = m) := by
  rw [filter_count_semantics m hs hfp i hi, passSpec_ge_three m _ h3 hm]

/-- FINDING. `minCount = 65535` (the largest `u16`): the saturated count keeps comparing equal
to `minCount`, so *every* occurrence from the 65535-th on passes, not only the 65535-th.
(Harmless for the dictionary as long as adding a base twice is idempotent.) -/
theorem minCount_65535_passes_repeatedly (hs : List Nat) (hfp : NoFP 65535 hs)
    (i : Nat) (hi : i < hs.length) :
    (runFilter { minCount := 65535 } hs).2[i]'(by simpa using hi)
      = decide (65535 ≤ occ hs i + 1) := by
  rw [filter_count_semantics 65535 hs hfp i hi, passSpec_sat]

/-- a `minCount` above the `u16` range would never pass anything (the CLI type excludes it) -/
theorem minCount_above_u16_never (m : Nat) (hm : 65535 < m) (hs : List Nat) (hfp : NoFP m hs)
    (i : Nat) (hi : i < hs.length) :
    (runFilter { minCount := m } hs).2[i]'(by simpa using hi) = false := by
  rw [filter_count_semantics m hs hfp i hi, passSpec_above m _ hm]

/-- **T12_exact_filter**: under `NoFP`, for `minCount ≤ 65535`, a hash passes at least once in
the run iff it occurs at least `max 1 minCount` times -/
theorem T12_exact_filter (m : Nat) (hm : m ≤ 65535) (hs : List Nat) (hfp : NoFP m hs) (h : Nat) :
    (∃ i : Nat, hs[i]? = some h ∧ (runFilter { minCount := m } hs).2[i]? = some true)
      ↔ max 1 m ≤ hs.count h := by
  rw [runFilter_fresh m hs hfp]
  exact spec_exact m hm h hs

/-- … and for `3 ≤ minCount < 65535` it passes exactly once -/
theorem T12_exact_filter_unique (m : Nat) (h3 : 3 ≤ m) (hm : m < 65535) (hs : List Nat)
    (hfp : NoFP m hs) (h : Nat) (i j : Nat)
    (hi : hs[i]? = some h) (hj : hs[j]? = some h)
    (pi : (runFilter { minCount := m } hs).2[i]? = some true)
    (pj : (runFilter { minCount := m } hs).2[j]? = some true) : i = j := by
  rw [runFilter_fresh m hs hfp] at pi pj
  exact spec_unique m h3 hm h hs i j hi hj pi pj

/-! ## 3. No false negatives without `NoFP` -/

/-- **T12_nofn_filter**: empty count table, ARBITRARY Bloom content, arbitrary hash list, no
hypothesis about Bloom false positives: for `2 ≤ minCount ≤ 65535`, a hash that occurs at
least `minCount` times passes at least once. -/
theorem T12_nofn_filter (f : KmerFilter) (hc : f.counts = {}) (h2 : 2 ≤ f.minCount)
    (hmax : f.minCount ≤ 65535) (h : Nat) (hs : List Nat) (hocc : f.minCount ≤ hs.count h) :
    ∃ i : Nat, hs[i]? = some h ∧ (runFilter f hs).2[i]? = some true := by
  by_cases hm : f.minCount = 2
  · exact nofn_two f hm h hs (by omega)
  · exact nofn_ge_three f hc (by omega) hmax h hs hocc

/-- … and (for `3 ≤ minCount < 65535`) a pass can only happen at the `minCount`-th or, after
a Bloom false positive on the first occurrence, the `(minCount−1)`-th occurrence -/
theorem T12_pass_position (f : KmerFilter) (hc : f.counts = {}) (h3 : 3 ≤ f.minCount)
    (hmax : f.minCount < 65535) (hs : List Nat) (i : Nat) (h : Nat) (hi : hs[i]? = some h)
    (hp : (runFilter f hs).2[i]? = some true) :
    (hs.take i).count h + 1 = f.minCount ∨ (hs.take i).count h + 2 = f.minCount :=
  pass_position f hc h3 hmax hs i h hi hp

/-- the count table must start empty: with a stale entry `≥ minCount` the hash never passes,
however often it occurs -/
theorem stale_counts_lose (hs : List Nat) (f : KmerFilter) (h : Nat) (h3 : 3 ≤ f.minCount)
    (hmax : f.minCount < 65535) (hv : f.minCount ≤ val f h) :
    ¬ ∃ i : Nat, hs[i]? = some h ∧ (runFilter f hs).2[i]? = some true := by
  induction hs generalizing f with
  | nil => simp
  | cons x xs ih =>
    rintro ⟨i, hi, hp⟩
    cases i with
    | zero =>
      simp only [List.getElem?_cons_zero, Option.some.injEq, runFilter_cons] at hi hp
      subst hi
      rw [filter_snd] at hp
      have h1 : ¬ f.minCount ≤ 1 := by omega
      have h2 : ¬ f.minCount = 2 := by omega
      simp only [h1, h2, ↓reduceIte, Bool.and_eq_true, decide_eq_true_eq, beq_iff_eq,
        newCount_eq] at hp
      omega
    | succ i =>
      simp only [List.getElem?_cons_succ, runFilter_cons] at hi hp
      refine ih (f.filter x).1 (by simpa using h3) (by simpa using hmax) ?_ ⟨i, hi, hp⟩
      rw [filter_minCount, val_filter]
      split
      · rename_i hc
        obtain ⟨_, _, rfl⟩ := hc
        omega
      · exact hv

example : ∃ f : KmerFilter, f.minCount = 3 ∧ f.minCount ≤ val f 7 :=
  ⟨{ minCount := 3, counts := (∅ : Std.HashMap Nat Nat).insert 7 5 }, rfl, by
    simp [val]⟩

/-! ### a shared hash value loses a k-mer -/

/-- observations of k-mer `X` (split k-mer 1, middle base A) and `Y` (split k-mer 2, middle
base C) with the SAME hash value 7 -/
def oX : Obs := { hash := 7, kmer := 1, base := 0, palin := false }
def oY : Obs := { hash := 7, kmer := 2, base := 1, palin := false }

/-- the flags of the real filter on four equal hashes, `minCount = 3`: only the third passes -/
theorem flags_collision :
    (runFilter { minCount := 3 } [7, 7, 7, 7]).2 = [false, false, true, false] := by
  rw [runFilter_fresh 3 [7, 7, 7, 7] (noFP_replicate 3 7 4)]
  decide

/-- **hash_collision_loses_kmer**: `minCount = 3`, observations `X, X, Y, X` with one hash
value. `X` occurs three times, `Y` once; the filter passes the third observation, which is
`Y`'s. The resulting dictionary contains `Y` (which should be absent) and not `X` (which
should be present). "A k-mer that reaches the count is never lost" therefore needs the hash
to be injective on the observed k-mers, not only Bloom soundness. -/
theorem hash_collision_loses_kmer :
    ∃ d f, runObs ([], { minCount := 3 }) [oX, oX, oY, oX] = some (d, f) ∧
      d.map (·.1) = [2] ∧ d.lookup 1 = none ∧
      ([oX, oX, oY, oX].map obsClass).count (obsClass oX) = 3 := by
  refine ⟨[(2, decodeBase 1)], (runFilter { minCount := 3 } [7, 7, 7, 7]).1, ?_, by decide, by decide,
    by decide⟩
  rw [runObs_eq]
  show Option.map _ (List.foldlM addObs [] (kept _ (runFilter _ [7, 7, 7, 7]).2)) = _
  rw [flags_collision]
  rfl

/-! ## 4. Dictionary level -/

/-- **T12_dict** (abstract stream). If on the observed stream two observations have the same
hash exactly when they have the same class `cls` (`HashFaithful`), and there is no Bloom false
positive, then the dictionary is obtained by adding, in order, exactly the observations
selected by the occurrence-count rule on CLASSES: `specRun m [] (os.map cls)`. -/
theorem T12_dict {γ : Type} [DecidableEq γ] (cls : Obs → γ) (m : Nat) (os : List Obs)
    (hfaith : HashFaithful cls os) (hfp : NoFP m (os.map (·.hash))) (d : Assoc Nat UInt8) :
    runObs (d, { minCount := m }) os =
      ((kept os (specRun m [] (os.map cls))).foldlM addObs d).map
        (fun d' => (d', (runFilter { minCount := m } (os.map (·.hash))).1)) := by
  rw [runObs_eq, runFilter_fresh m _ hfp]
  have := specRun_map_congr m (fun o : Obs => o.hash) cls os [] (by simpa [HashFaithful] using hfaith)
  simp only [List.map_nil] at this
  rw [this]

/-- observation `i` is added iff the occurrence-count rule holds for its class -/
theorem T12_dict_added {γ : Type} [DecidableEq γ] (cls : Obs → γ) (m : Nat) (os : List Obs)
    (o : Obs) :
    o ∈ kept os (specRun m [] (os.map cls)) ↔
      ∃ i : Nat, os[i]? = some o ∧ passSpec m (occ (os.map cls) i) = true := by
  rw [mem_kept]
  constructor
  · rintro ⟨i, hi, hp⟩
    refine ⟨i, hi, ?_⟩
    rw [specRun_nil_getElem?, List.getElem?_map, hi] at hp
    simpa using hp
  · rintro ⟨i, hi, hp⟩
    refine ⟨i, hi, ?_⟩
    rw [specRun_nil_getElem?, List.getElem?_map, hi]
    simp [hp]

/-- the set of classes that are ever added = the classes occurring `≥ max 1 minCount` times -/
theorem T12_dict_classes {γ : Type} [DecidableEq γ] (cls : Obs → γ) (m : Nat) (hm : m ≤ 65535)
    (os : List Obs) (c : γ) :
    (∃ o ∈ kept os (specRun m [] (os.map cls)), cls o = c) ↔ max 1 m ≤ (os.map cls).count c := by
  rw [← spec_exact m hm c (os.map cls)]
  unfold PassesIn
  constructor
  · rintro ⟨o, hmem, rfl⟩
    obtain ⟨i, hi, hp⟩ := (mem_kept _ _ _).1 hmem
    exact ⟨i, by rw [List.getElem?_map, hi]; rfl, hp⟩
  · rintro ⟨i, hi, hp⟩
    rw [List.getElem?_map] at hi
    cases ho : os[i]? with
    | none => rw [ho] at hi; simp at hi
    | some o =>
      rw [ho] at hi
      simp only [Option.map_some, Option.some.injEq] at hi
      exact ⟨o, (mem_kept _ _ _).2 ⟨i, ho, hp⟩, hi⟩

/-- all observations the read branch presents to the filter, both files in order -/
def allObs (W k : Nat) (rc : Bool) (minQual : Nat) (qf : QualFilter) (file1 file2 : List Read) :
    List Obs :=
  (file1 ++ file2).flatMap (readObs W k rc minQual qf)

/-- **T12_buildReads**: `buildReads` (both files through one filter, `addRead`,
`addReadState`, `SKConf.states`) under `HashFaithful` + `NoFP` on its observation stream:
the dictionary consists of exactly the observations selected by class counts. -/
theorem T12_buildReads {γ : Type} [DecidableEq γ] (cls : Obs → γ) (W k : Nat) (rc : Bool)
    (minCount minQual : Nat) (qf : QualFilter) (file1 file2 : List Read)
    (hfaith : HashFaithful cls (allObs W k rc minQual qf file1 file2))
    (hfp : NoFP minCount ((allObs W k rc minQual qf file1 file2).map (·.hash))) :
    buildReads W k rc minCount minQual qf file1 file2 =
      match (kept (allObs W k rc minQual qf file1 file2)
          (specRun minCount [] ((allObs W k rc minQual qf file1 file2).map cls))).foldlM addObs [] with
      | none => .panicked
      | some [] => .noValid
      | some d => .dict (sortByKey (·.1) d) := by
  rw [buildReads_eq]
  show (match runObs ([], { minCount := minCount }) (allObs W k rc minQual qf file1 file2) with
    | none => BuildResult.panicked
    | some ([], _) => BuildResult.noValid
    | some (d, _) => BuildResult.dict (sortByKey (·.1) d)) = _
  rw [T12_dict cls minCount _ hfaith hfp []]
  cases (kept (allObs W k rc minQual qf file1 file2)
      (specRun minCount [] ((allObs W k rc minQual qf file1 file2).map cls))).foldlM addObs [] with
  | none => rfl
  | some d => cases d <;> rfl

/-! ## 5. Non-vacuity -/

-- the specification on small hash lists
example : specRun 1 [] [5, 9, 5, 5, 9] = [true, true, true, true, true] := by decide
example : specRun 2 [] [5, 9, 5, 5, 9] = [false, false, true, true, true] := by decide
example : specRun 3 [] [5, 9, 5, 5, 9, 9] = [false, false, false, true, false, true] := by decide
example : specRun 4 [] [5, 9, 5, 5, 9, 5, 5] = [false, false, false, false, false, true, false] := by
  decide
example : occ [5, 9, 5, 5, 9] 3 = 2 := by decide
example : passSpec 65535 65534 = true ∧ passSpec 65535 70000 = true ∧ passSpec 65535 65533 = false := by
  decide

-- the real filter on a constant hash list (`NoFP` holds: `noFP_replicate`)
example : (runFilter { minCount := 1 } [7, 7, 7, 7, 7]).2 = [true, true, true, true, true] := by
  rw [runFilter_fresh 1 [7, 7, 7, 7, 7] (noFP_replicate 1 7 5)]; decide
example : (runFilter { minCount := 2 } [7, 7, 7, 7, 7]).2 = [false, true, true, true, true] := by
  rw [runFilter_fresh 2 [7, 7, 7, 7, 7] (noFP_replicate 2 7 5)]; decide
example : (runFilter { minCount := 3 } [7, 7, 7, 7, 7]).2 = [false, false, true, false, false] := by
  rw [runFilter_fresh 3 [7, 7, 7, 7, 7] (noFP_replicate 3 7 5)]; decide
example : (runFilter { minCount := 4 } [7, 7, 7, 7, 7]).2 = [false, false, false, true, false] := by
  rw [runFilter_fresh 4 [7, 7, 7, 7, 7] (noFP_replicate 4 7 5)]; decide

-- `NoFP` on distinct hashes, from the real `location` / `fingerprint` arithmetic
theorem not_bloomHas_5_9 : ¬ BloomHas (({ minCount := 3 } : KmerFilter).filter 5).1 9 := by
  unfold BloomHas
  rw [filter_buffer]
  simp only [show ¬ (3 ≤ 1) by omega, ↓reduceIte]
  rw [bloom_buffer_getD]
  simp only [Std.HashMap.getD_empty]
  decide

theorem noFP_example : NoFP 3 [5, 9, 5, 5, 9, 9] := by
  refine ⟨fun hb => absurd hb (not_bloomHas_empty _ rfl 5), fun hb => absurd hb not_bloomHas_5_9,
    fun _ => by decide, fun _ => by decide, fun _ => by decide, fun _ => by decide, trivial⟩

example : (runFilter { minCount := 3 } [5, 9, 5, 5, 9, 9]).2
    = [false, false, false, true, false, true] := by
  rw [runFilter_fresh 3 _ noFP_example]; decide

/-- a Bloom false positive on the first occurrence lets a hash seen only `minCount − 1` times
through (the "can only enter through collisions of the counting filter" clause is sharp):
`minCount = 3`, two occurrences, second one passes -/
theorem bloom_fp_passes_early (f : KmerFilter) (h : Nat) (hm : f.minCount = 3)
    (hc : f.counts = {}) (hb : BloomHas f h) : (runFilter f [h, h]).2 = [false, true] := by
  have hv : val f h = 1 := by simp [val, hc]
  have hb' : BloomHas (f.filter h).1 h := bloomHas_filter f h h hb
  have hv' : val (f.filter h).1 h = 2 := by
    rw [val_filter]; simp [hm, hb, hv]
  simp only [runFilter_cons, runFilter_nil, filter_snd, filter_minCount, hm, newCount_eq, hv, hv',
    hb, hb']
  decide

example : ∃ f : KmerFilter, f.minCount = 3 ∧ f.counts = {} ∧ BloomHas f 7 :=
  ⟨{ minCount := 3, buffer := (∅ : Std.HashMap Nat Nat).insert (KmerFilter.location 7) (2 ^ 64 - 1) },
    rfl, rfl, by
      unfold BloomHas
      simp only [Std.HashMap.getD_insert, beq_self_eq_true, ↓reduceIte]
      decide⟩

end SkaModel.Props.C12
