/-
C12 — Read filtering keeps exactly the k-mers seen min-count times at passing quality.
First theorems; `T12_nofn` / `T12_exact` are being added.
-/
import SkaModel.Impl.Reads
import SkaModel.Spec.ReadsSpec

namespace SkaModel.Props.C12

open SkaModel

/-- with `--min-count` 0 or 1 the count filter passes every observation and keeps no state -/
theorem T12_mincount_one (f : KmerFilter) (h : f.minCount ≤ 1) (hash : Nat) :
    (f.filter hash).2 = true := by
  simp [KmerFilter.filter, h]

/-- the Bloom step never reports "seen" without the fingerprint bits being set, and once
added a key is reported as seen -/
theorem T12_bloom_second (f : KmerFilter) (key : Nat) :
    ((f.bloomAddAndCheck key).1.bloomAddAndCheck key).2 = true := by
  unfold KmerFilter.bloomAddAndCheck
  by_cases h : (f.buffer.getD (KmerFilter.location key) 0 &&& KmerFilter.fingerprint key == KmerFilter.fingerprint key) = true
  · simp [h]
  · simp only [h, Bool.false_eq_true, ↓reduceIte]
    have : ((f.buffer.getD (KmerFilter.location key) 0 ||| KmerFilter.fingerprint key) &&& KmerFilter.fingerprint key)
        = KmerFilter.fingerprint key := by
      apply Nat.eq_of_testBit_eq
      intro i
      simp only [Nat.testBit_and, Nat.testBit_or]
      cases (f.buffer.getD (KmerFilter.location key) 0).testBit i <;> cases (KmerFilter.fingerprint key).testBit i <;> rfl
    simp [this]

end SkaModel.Props.C12
