/-
Driver code for the persistence operations (C09, C19).
-/
import SkaModel.Impl.Skf
import SkaModel.Impl.Frame
import SkaModel.Spec.SnappyFormat
import SkaModel.Impl.Names
import SkaModel.Impl.FileList
import SkaModel.DriverBase
import SkaModel.DriverHist

namespace SkaModel.Driver

open SkaModel

def hexVal (c : Char) : Nat :=
  if '0' ≤ c && c ≤ '9' then c.toNat - 48 else if 'a' ≤ c && c ≤ 'f' then c.toNat - 87 else 0

def unhex (s : String) : List UInt8 :=
  if s == "." then [] else
  let rec go (cs : List Char) (acc : Array UInt8) : Array UInt8 :=
    match cs with
    | a :: b :: rest => go rest (acc.push (UInt8.ofNat (hexVal a * 16 + hexVal b)))
    | _ => acc
  (go s.toList #[]).toList

def hexOf (bs : List UInt8) : String :=
  let d (n : Nat) : Char := if n < 10 then Char.ofNat (48 + n) else Char.ofNat (87 + n)
  String.ofList (bs.flatMap (fun b => [d (b.toNat / 16), d (b.toNat % 16)]))

def fnv (bs : List UInt8) : Nat :=
  bs.foldl (fun h b => ((h ^^^ b.toNat) * 1099511628211) % 2 ^ 64) 1469598103934665603

def dumpSkf (f : SkfFile) : String :=
  let a := f.arr
  let quoted := String.intercalate ",_" (a.names.map (fun n => "\"" ++ n ++ "\""))
  let cnt := String.intercalate ",_" (a.nSampleKmers.map toString)
  s!"{a.kBits}|ska_version={strOf f.version};k={a.k};k_bits={a.kBits};rc={if a.rc then "true" else "false"};k-mers={a.kmers.length};samples={a.variants.headD [] |>.length |> fun n => if a.variants.isEmpty then a.names.length else n};sample_names=[{quoted}];sample_kmers=[{cnt}];|{dumpArr a}"

def runSkfdec (c : Case) : String × String :=
  let bs := unhex (c.get "hex")
  let d64 := SkfFile.decode 64 bs
  let d128 := SkfFile.decode 128 bs
  let anyF := SkfFile.loadAny bs
  let anyS := match anyF with | some f => dumpSkf f | none => "err"
  let reenc := match anyF with | some f => b2s (f.encode == bs) | none => "0"
  let rest := match anyF with | some f => (match SkfFile.decode f.arr.kBits bs with | some (_, r) => toString r.length | none => "-") | none => "-"
  (s!"load64={b2s d64.isSome} load128={b2s d128.isSome} any={anyS} reenc={reenc} rest={rest}", "-")

def applyFault (file : List UInt8) (tag : String) : List UInt8 :=
  if tag.startsWith "t" then file.take ((tag.drop 1).toString.toNat?.getD 0)
  else
    match ((tag.drop 1).toString.splitOn ".") with
    | [i, b] =>
      let i := i.toNat?.getD 0
      let b := b.toNat?.getD 0
      file.set i ((file.getD i 0) ^^^ UInt8.ofNat (1 <<< b))
    | _ => file

def runUnframe (c : Case) : String × String :=
  let file := unhex (c.get "hex")
  let outs := (c.list "faults").map (fun tag =>
    match unframe snappyDecompress (applyFault file tag) with
    | .ok bs => s!"{tag}:ok{fnv bs}"
    | .error _ => s!"{tag}:err")
  (joinStr outs, "-")

/-- C09, compression layer: a block written by the real compressor must be a
well-formed element stream of the format that denotes the data (the hypothesis of
`T09_snappy_block`), serialise back to itself, and decode to the data; damaged
copies must decode (or fail) as the real block decoder does -/
def runSnapblock (c : Case) : String × String :=
  let blk := unhex (c.get "block")
  let data := unhex (c.get "data")
  let (n, used) := readVarint blk
  let body := blk.drop used
  let parsed := SnappyFormat.parseElems (body.length + 1) body
  let (p, wf, den, ser) := match parsed with
    | none => (false, false, false, false)
    | some es =>
      (true, n == data.length && decide (SnappyFormat.WFs data.length 0 es),
       SnappyFormat.denote [] es == data, SnappyFormat.block n es == blk)
  let kinds := match parsed with
    | none => "-"
    | some es =>
      let cnt (f : SnappyFormat.SElem → Bool) := (es.filter f).length
      s!"{cnt (fun e => match e with | .lit 0 _ => true | _ => false)}/{cnt (fun e => match e with | .lit (_ + 1) _ => true | _ => false)}/{cnt (fun e => match e with | .copy1 _ _ => true | _ => false)}/{cnt (fun e => match e with | .copy2 _ _ => true | _ => false)}/{cnt (fun e => match e with | .copy4 _ _ => true | _ => false)}"
  let shw (r : Option (List UInt8)) : String := match r with | some bs => s!"ok{fnv bs}" | none => "err"
  let muts := (c.list "faults").map (fun tag => s!"{tag}:{shw (snappyDecompress (applyFault blk tag))}")
  (s!"parse={b2s p} wf={b2s wf} den={b2s den} ser={b2s ser} dec={shw (snappyDecompress blk)} kinds={kinds} muts={joinStr muts}", "-")

/-- sample names of file arguments; hex of UTF-8 both ways -/
def runNames (c : Case) : String × String :=
  let outs := (c.list "files").map (fun h =>
    let bs := unhex (if h.isEmpty then "." else h)
    match String.fromUTF8? (ByteArray.mk bs.toArray) with
    | none => "badutf8"
    | some str =>
      let nm := String.ofList (Names.sampleName str.toList)
      let hx := hexOf nm.toUTF8.toList
      if hx.isEmpty then "." else hx)
  (joinStr outs, "-")

/-- the `-f` file list and the names file; fields as hex of UTF-8 -/
def runFilelist (c : Case) : String × String :=
  let bs := unhex (c.get "content")
  match String.fromUTF8? (ByteArray.mk bs.toArray) with
  | none => ("list=panic names=panic", "-")
  | some str =>
    let hx (cs : List Char) : String :=
      let h := hexOf (String.ofList cs).toUTF8.toList
      if h.isEmpty then "." else h
    let lst := match FileList.parseList str.toList with
      | none => "panic"
      | some es => joinStr (es.map (fun (a, b, c) => s!"{hx a}:{hx b}:{match c with | none => "-" | some x => hx x}"))
    let nms := joinStr ((FileList.nameList str.toList).map hx)
    (s!"list={lst} names={nms}", "-")

end SkaModel.Driver
