/-
Driver code for the persistence operations (C09, C19).
-/
import SkaModel.Impl.Skf
import SkaModel.Impl.Frame
import SkaModel.DriverBase
import SkaModel.DriverHist

namespace SkaModel.Driver

open SkaModel

def hexVal (c : Char) : Nat :=
  if '0' ≤ c && c ≤ '9' then c.toNat - 48 else if 'a' ≤ c && c ≤ 'f' then c.toNat - 87 else 0

def unhex (s : String) : List UInt8 :=
  if s == "." then [] else
  let rec go (cs : List Char) (acc : Array UInt8) : Array UInt8 :=
    match cs with
    | a :: b :: rest => go rest (acc.push (UInt8.ofNat (hexVal a * 16 + hexVal b)))
    | _ => acc
  (go s.toList #[]).toList

def hexOf (bs : List UInt8) : String :=
  let d (n : Nat) : Char := if n < 10 then Char.ofNat (48 + n) else Char.ofNat (87 + n)
  String.ofList (bs.flatMap (fun b => [d (b.toNat / 16), d (b.toNat % 16)]))

def fnv (bs : List UInt8) : Nat :=
  bs.foldl (fun h b => ((h ^^^ b.toNat) * 1099511628211) % 2 ^ 64) 1469598103934665603

def dumpSkf (f : SkfFile) : String :=
  let a := f.arr
  let quoted := String.intercalate ",_" (a.names.map (fun n => "\"" ++ n ++ "\""))
  let cnt := String.intercalate ",_" (a.nSampleKmers.map toString)
  s!"{a.kBits}|ska_version={strOf f.version};k={a.k};k_bits={a.kBits};rc={if a.rc then "true" else "false"};k-mers={a.kmers.length};samples={a.variants.headD [] |>.length |> fun n => if a.variants.isEmpty then a.names.length else n};sample_names=[{quoted}];sample_kmers=[{cnt}];|{dumpArr a}"

def runSkfdec (c : Case) : String × String :=
  let bs := unhex (c.get "hex")
  let d64 := SkfFile.decode 64 bs
  let d128 := SkfFile.decode 128 bs
  let anyF := SkfFile.loadAny bs
  let anyS := match anyF with | some f => dumpSkf f | none => "err"
  let reenc := match anyF with | some f => b2s (f.encode == bs) | none => "0"
  let rest := match anyF with | some f => (match SkfFile.decode f.arr.kBits bs with | some (_, r) => toString r.length | none => "-") | none => "-"
  (s!"load64={b2s d64.isSome} load128={b2s d128.isSome} any={anyS} reenc={reenc} rest={rest}", "-")

def applyFault (file : List UInt8) (tag : String) : List UInt8 :=
  if tag.startsWith "t" then file.take ((tag.drop 1).toString.toNat?.getD 0)
  else
    match ((tag.drop 1).toString.splitOn ".") with
    | [i, b] =>
      let i := i.toNat?.getD 0
      let b := b.toNat?.getD 0
      file.set i ((file.getD i 0) ^^^ UInt8.ofNat (1 <<< b))
    | _ => file

def runUnframe (c : Case) : String × String :=
  let file := unhex (c.get "hex")
  let outs := (c.list "faults").map (fun tag =>
    match unframe snappyDecompress (applyFault file tag) with
    | .ok bs => s!"{tag}:ok{fnv bs}"
    | .error _ => s!"{tag}:err")
  (joinStr outs, "-")

end SkaModel.Driver
