/-
Shared parsing/printing helpers of the line-protocol driver.
-/
namespace SkaModel.Driver

structure Case where
  op : String
  kv : List (String × String)

def parseCase (line : String) : Case :=
  let toks := (line.trimAscii.toString.splitOn " ").filter (· ≠ "")
  match toks with
  | [] => { op := "", kv := [] }
  | op :: rest =>
    let kv := rest.filterMap (fun t =>
      match t.splitOn "=" with
      | [k, v] => some (k, v)
      | k :: v :: more => some (k, String.intercalate "=" (v :: more))
      | _ => none)
    { op := op, kv := kv }

def Case.opt (c : Case) (key : String) : Option String :=
  (c.kv.find? (·.1 == key)).map (·.2)

def Case.get (c : Case) (key : String) : String := (c.opt key).getD ""

def Case.nat (c : Case) (key : String) : Nat := ((c.opt key).bind String.toNat?).getD 0

def Case.natOr (c : Case) (key : String) (d : Nat) : Nat := ((c.opt key).bind String.toNat?).getD d

def Case.flag (c : Case) (key : String) : Bool := c.opt key == some "1"

def Case.text (c : Case) (key : String) : String :=
  let v := c.get key
  if v == "." then "" else v

def Case.list (c : Case) (key : String) : List String :=
  let v := c.get key
  if v == "~" then [] else (v.splitOn ",").map (fun x => if x == "." then "" else x)

def bytesOf (s : String) : List UInt8 := s.toUTF8.toList

def strOf (bs : List UInt8) : String := String.ofList (bs.map (fun b => Char.ofNat b.toNat))

def joinStr (xs : List String) : String :=
  if xs.isEmpty then "~" else String.intercalate "," xs

def b2s (b : Bool) : String := if b then "1" else "0"

end SkaModel.Driver
