/-
Line-protocol driver of the model: one case line in, one result line out
(`<model result>\t<spec result>`; `-` where an operation has no separate spec).
Built as the executable `skamodel`; imports only the model and the specs.
-/
import SkaModel.Driver

def main : IO Unit := do
  let stdin ← IO.getStdin
  let stdout ← IO.getStdout
  SkaModel.Driver.loop stdin stdout
