import SkaModel.Generated.Tables
import SkaModel.Impl.Base
import SkaModel.Impl.Bits
import SkaModel.Impl.NtHash
import SkaModel.Impl.SplitKmer
import SkaModel.Spec.Iupac
